"""C10 — timeout toxic black-holes data and closes after exactly the configured time."""
from . import common as C
from . import links as L

PID = "C10"


def gen_cases(ctx, rng):
    n = 160 if ctx.tier == "quick" else 4000
    cases = []
    stats = {"T": {}, "traffic_faster_than_T": 0, "src_closes_first": 0}
    for i in range(n):
        T = rng.choice([0, 1, 50, 100, 100, 250, 10000])
        pre = [rng.choice([L.tx("noop", name="n%d" % j), L.tx("latency", name="l%d" % j, latency=rng.choice([0, 3, 20]), jitter=0)])
               for j in range(rng.range(0, 2))]
        post = [L.tx("noop", name="m%d" % j) for j in range(rng.range(0, 1))]
        period = rng.choice([7, 23, 60, 61, 99, 101, 300]) * L.MS + rng.range(1, 999)   # never exactly at T
        k = rng.range(0, 12)
        t = rng.range(1, 50) * L.MS + 17
        src = []
        for _ in range(k):
            src.append({"at": t, "n": rng.range(1, 2000)})
            t += period
        end = rng.choice([t + 13 * L.MS + 5, T * L.MS + 500 * L.MS + 3, (T * L.MS) // 2 + 11])
        src.append({"at": max(end, t + 1), "close": True})
        if T and period < T * L.MS and k > 2:
            stats["traffic_faster_than_T"] += 1
        if T and src[-1]["at"] < T * L.MS:
            stats["src_closes_first"] += 1
        stats["T"][str(T)] = stats["T"].get(str(T), 0) + 1
        cases.append({"dir": rng.choice(["upstream", "downstream"]), "chain": pre + [L.tx("timeout", name="t", timeout=T)] + post,
                      "src": src, "horizon": 3600 * 1000 * L.MS, "seed": i})
    # removal at any time: the connection is closed at the removal, nothing is delivered - also not what is parked in a stage
    # upstream of the toxic or arrives during the removal; and: toxic added later, on a connection that already carried data
    m = 60 if ctx.tier == "quick" else 1500
    stats["removed"] = stats["added_later"] = 0
    for i in range(m):
        T = rng.choice([0, 0, 500, 10000])
        lat = rng.choice([0, 0, 30, 300, 3000])
        pre = ([L.tx("noop", name="n0")] if rng.chance(1, 3) else []) + ([L.tx("latency", name="l0", latency=lat, jitter=0)] if lat else [])
        R = rng.range(20, 400) * L.MS + rng.range(1, 999)
        src, t = [], rng.range(1, 10) * L.MS + 7
        period = rng.choice([1, 3, 7, 23, 60]) * L.MS + rng.range(1, 999)
        while t < R + 200 * L.MS and len(src) < 60:
            src.append({"at": t, "n": rng.range(1, 1500)})
            t += period
        src.append({"at": max(t, R + rng.choice([5000, 20000]) * L.MS), "close": True})
        c = {"dir": rng.choice(["upstream", "downstream"]), "src": src, "horizon": 3600 * 1000 * L.MS, "seed": 1000 + i}
        if rng.chance(2, 3):
            c["chain"] = pre + [L.tx("timeout", name="t", timeout=T)]
            c["ops"] = [{"at": R, "op": "remove", "name": "t"}]
            c["c10"] = {"family": "remove", "at": R, "T": T}
            stats["removed"] += 1
        else:
            c["chain"] = pre
            c["ops"] = [{"at": R, "op": "add", "toxic": L.tx("timeout", name="t", timeout=T)}]
            c["c10"] = {"family": "add", "at": R, "T": T}
            stats["added_later"] += 1
        cases.append(c)
    # a timeout toxic that has swallowed data of a connection, is then switched off for it (toxicity 0: the stage passes data on) and is
    # finally removed: the removal still closes that connection - its stream has a hole and must not be resumed
    stats["switched_off_then_removed"] = 0
    for i in range(10 if ctx.tier == "quick" else 200):
        T = rng.choice([0, 0, 60000])
        U = rng.range(100, 300) * L.MS + 333
        R = U + rng.range(50, 400) * L.MS
        src, t = [], 5 * L.MS
        while t < R + 300 * L.MS:
            src.append({"at": t, "n": rng.range(1, 300)})
            t += rng.choice([7, 23, 60]) * L.MS
        src.append({"at": t + 5000 * L.MS, "close": True})
        ops = [{"at": U, "op": "update", "name": "t", "body": '{"toxicity": 0}'}, {"at": R, "op": "remove", "name": "t"} if i % 3 else {"at": R, "op": "reset"}]
        cases.append({"dir": rng.choice(["upstream", "downstream"]), "chain": ([L.tx("noop", name="n0")] if i % 2 else []) + [L.tx("timeout", name="t", timeout=T)],
                      "src": src, "ops": ops, "horizon": 3600 * 1000 * L.MS, "seed": 5500 + i, "c10": {"family": "off_then_removed", "at": R, "U": U}})
        stats["switched_off_then_removed"] += 1
    # the toxic added while the connection's last stage is stuck handing data to a receiver that takes longer than the 5 s after which
    # other parts of the code give up: the request waits for the stage, and from then on the toxic is in effect on that connection too
    stats["added_under_back_pressure"] = 0
    for i in range(10 if ctx.tier == "quick" else 200):
        T = rng.choice([0, 500, 3000])
        slow = rng.choice([6500, 9000, 15000]) * L.MS
        A = 1 * L.MS + slow                      # the first write occupies the receiver until then; the second is handed over at that instant
        src = [{"at": 1 * L.MS, "n": 100}, {"at": 2 * L.MS, "n": 100}]
        t = A + 4 * slow
        for _ in range(4):
            src.append({"at": t, "n": 600})
            t += 2 * slow
        src.append({"at": t + 4 * slow, "close": True})
        R = rng.range(50, 900) * L.MS + rng.range(1, 999)
        cases.append({"dir": rng.choice(["upstream", "downstream"]), "chain": [L.tx("noop", name="n0")] if rng.chance(1, 2) else [], "src": src,
                      "sink_delay": [slow, 0], "ops": [{"at": R, "op": "add", "toxic": L.tx("timeout", name="t", timeout=T)}],
                      "horizon": 3600 * 1000 * L.MS, "seed": 5000 + i, "c10": {"family": "add", "at": A, "T": T}})
        stats["added_under_back_pressure"] += 1
    # T changed by an update while the toxic is in effect on an established connection: the update takes effect on it - closed T' ms after
    # the update (held open if T' = 0), whatever the old T promised
    stats["T_updated"] = 0
    for i in range(16 if ctx.tier == "quick" else 400):
        T1, T2 = rng.choice([(400, 2000), (5000, 300), (0, 700), (600, 0), (300, 300)])
        U = rng.range(50, 250) * L.MS + rng.range(1, 999)
        src, t = [], rng.range(1, 20) * L.MS + 7
        for _ in range(rng.range(0, 6)):
            src.append({"at": t, "n": rng.range(1, 800)})
            t += rng.choice([7, 60, 200]) * L.MS + rng.range(1, 999)
        src.append({"at": U + 20000 * L.MS, "close": True})
        cases.append({"dir": rng.choice(["upstream", "downstream"]), "chain": [L.tx("timeout", name="t", timeout=T1)], "src": src,
                      "ops": [{"at": U, "op": "update", "name": "t", "body": '{"attributes": {"timeout": %d}}' % T2}],
                      "horizon": 3600 * 1000 * L.MS, "seed": 6000 + i, "c10": {"family": "update", "at": U, "T1": T1, "T2": T2}})
        stats["T_updated"] += 1
    # several connections through the same toxic, established at different times: each gets its own T
    stats["staggered_connections"] = 0
    for i in range(30 if ctx.tier == "quick" else 800):
        T = rng.choice([100, 400, 1000])
        nl = rng.range(2, 3)
        starts = [0] + sorted(rng.range(1, 3 * T) * L.MS + rng.range(1, 999) for _ in range(nl - 1))
        srcs = []
        for st in starts:
            t, src = st + rng.range(1, 20) * L.MS, []
            for _ in range(rng.range(0, 4)):
                src.append({"at": t, "n": rng.range(1, 500)})
                t += rng.choice([7, 60, 150]) * L.MS + rng.range(1, 999)
            src.append({"at": st + 20 * T * L.MS, "close": True})
            srcs.append(src)
        cases.append({"dir": rng.choice(["upstream", "downstream"]), "chain": [L.tx("timeout", name="t", timeout=T)], "src": srcs[0], "srcs": srcs,
                      "links": nl, "link_start": starts, "horizon": 3600 * 1000 * L.MS, "seed": 3000 + i, "staggered": True})
        stats["staggered_connections"] += nl
    return cases, stats


def oracle(case, res):
    if res is None or "crash" in res:
        return "the process crashed: " + (res or {}).get("crash", "")[-300:]
    fam = case.get("c10")
    if fam and fam["family"] == "remove":
        R, T = fam["at"], fam["T"]
        if res["total"] != 0:
            return "%d bytes were delivered although a timeout toxic was in effect until it was removed at %d ns (removal must close, not resume)" % (res["total"], R)
        exp = R if (T == 0 or R < T * L.MS) else T * L.MS
        if res["closed"] != exp:
            return "connection closed at %d ns, expected %d ns (%s)" % (res["closed"], exp, "the removal" if exp == R else "T")
        return None
    if fam and fam["family"] == "off_then_removed":
        R, U = fam["at"], fam["U"]
        if any(w["t"] < U for w in (res["writes"] or [])):
            return "bytes were delivered before %d ns, while the timeout toxic was in effect" % U
        if res["closed"] != R:
            return ("the timeout toxic swallowed the connection's data until it was switched off (toxicity 0) at %d ns and was removed at %d ns: the removal closes "
                    "the connection, yet it %s" % (U, R, "stayed open and went on relaying" if res["closed"] in (-1, None) or res["closed"] > R else "was closed at %d ns" % res["closed"]))
        return None
    if fam and fam["family"] == "update":
        U, T1, T2 = fam["at"], fam["T1"], fam["T2"]
        if res["total"] != 0:
            return "%d bytes were delivered while the timeout toxic was in effect" % res["total"]
        sc = [e["at"] for e in case["src"] if e.get("close")][0]
        if T1 > 0 and T1 * L.MS < U:
            exp = T1 * L.MS                      # the old deadline passed before the update
        elif T2 > 0:
            exp = U + T2 * L.MS
        else:
            exp = sc
        if res["closed"] != exp:
            return ("connection closed at %d ns, expected %d ns (timeout updated from %d to %d ms at %d ns: the new value counts from the update)"
                    % (res["closed"], exp, T1, T2, U))
        return None
    if fam and fam["family"] == "add":
        A, T = fam["at"], fam["T"]
        late = [w for w in (res["writes"] or []) if w["t"] > A]
        if late:
            return "%d bytes were delivered at %d ns, after the timeout toxic took effect at %d ns" % (late[0]["n"], late[0]["t"], A)
        before = sum(e.get("n", 0) for e in case["src"] if e["at"] < A)
        if res["total"] > before or not res.get("prefix_ok", True):
            return "%d bytes were delivered but only %d were sent before the timeout toxic took effect" % (res["total"], before)
        sc = [e["at"] for e in case["src"] if e.get("close")][0]
        if T > 0 and sc > A + T * L.MS and res["closed"] != A + T * L.MS:
            return "connection closed at %d ns, expected %d ns (T = %d ms after the toxic took effect at %d)" % (res["closed"], A + T * L.MS, T, A)
        if T > 0 and not (min(sc, A + T * L.MS) <= res["closed"] <= A + T * L.MS):
            return "connection closed at %d ns, expected between the sender's close at %d and %d ns (T = %d ms after the toxic took effect)" % (res["closed"], sc, A + T * L.MS, T)
        if T == 0 and res["closed"] != -1 and res["closed"] < [e["at"] for e in case["src"] if e.get("close")][0]:
            return "T = 0: connection closed at %d ns, expected only the sender's close" % res["closed"]
        return None
    ts = [t for t in case["chain"] if t["type"] == "timeout"]
    if not ts:
        return None
    T = ts[0]["attributes"]["timeout"]
    if res["total"] != 0:
        return "%d bytes were delivered while the timeout toxic was in effect" % res["total"]
    srcclose = [e["at"] for e in case["src"] if e.get("close")]
    # the sender's close travels behind the data still sleeping in latency stages upstream of the toxic,
    # so with such stages it reaches the timeout stage at some instant >= the close itself
    exact = not any(t["type"] == "latency" and t["attributes"]["latency"] > 0 for t in case["chain"])
    if T > 0:
        exp = case.get("started", 0) + T * L.MS          # T after the toxic took effect on THIS connection
        lo = min(exp, srcclose[0]) if srcclose else exp
        if res["closed"] > exp or res["closed"] < lo or (exact and res["closed"] != lo):
            return "connection closed at %d ns, expected %d ns (T = %d ms after the toxic took effect)" % (res["closed"], lo if exact else exp, T)
    else:
        exp = srcclose[0] if srcclose else -1
        if res["closed"] < exp or (exact and res["closed"] != exp):
            return "T = 0: connection closed at %d ns, expected only the sender's close at %d ns" % (res["closed"], exp)
    return None


def side(ctx, proof):
    from . import tcp as T
    return T.stable(lambda: T.timeout_under_lock_runs(ctx, (6 if ctx.tier == "quick" else 120) * (1 if proof["build_ok"] else 3)))


def run(ctx):
    return L.run_link_property(
        ctx, PID, gen_cases, oracle,
        classify=lambda w: "close-time" if "closed at" in w else ("data-leaks" if "delivered" in w else "crash"),
        rule="links with one timeout toxic (T from {0,1,50,100,250,10000} ms) behind 0-2 noop/latency stages; 0-12 writes with periods "
             "below/near/above T (never exactly at T), sender closing before or after T; plus links where the toxic (T in {0,500,10000}) is removed at a "
             "random instant under continuous traffic with chunks parked in a latency stage upstream of it, and links where it is added on a "
             "connection that already carries traffic, or whose last stage is blocked for 6.5-15 s towards a slow receiver when the request arrives; 2-3 connections established at different times through the same toxic; non-trivial = T > 0 and at least two writes "
             "arrive before T; distinct by JSON",
        nontrivial=lambda c: any(t["type"] == "timeout" and t["attributes"]["timeout"] > 0 for t in c["chain"]) and len(c["src"]) > 2,
        assumptions=["the families with a removal or a late addition are judged by the oracle and replayed through the executable reconfiguration model",
                     "a chunk arriving at exactly T is a genuine race in the code (select picks either arm); generators avoid the tie"],
        model_filter=lambda c: not c.get("ops") and not c.get("staggered"), side_findings=side)


def replay(ctx, path):
    return L.replay_link(ctx, PID, path, oracle)

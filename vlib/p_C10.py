"""C10 — timeout toxic black-holes data and closes after exactly the configured time."""
from . import common as C
from . import links as L

PID = "C10"


def gen_cases(ctx, rng):
    n = 160 if ctx.tier == "quick" else 4000
    cases = []
    stats = {"T": {}, "traffic_faster_than_T": 0, "src_closes_first": 0}
    for i in range(n):
        T = rng.choice([0, 1, 50, 100, 100, 250, 10000])
        pre = [rng.choice([L.tx("noop", name="n%d" % j), L.tx("latency", name="l%d" % j, latency=rng.choice([0, 3, 20]), jitter=0)])
               for j in range(rng.range(0, 2))]
        post = [L.tx("noop", name="m%d" % j) for j in range(rng.range(0, 1))]
        period = rng.choice([7, 23, 60, 61, 99, 101, 300]) * L.MS + rng.range(1, 999)   # never exactly at T
        k = rng.range(0, 12)
        t = rng.range(1, 50) * L.MS + 17
        src = []
        for _ in range(k):
            src.append({"at": t, "n": rng.range(1, 2000)})
            t += period
        end = rng.choice([t + 13 * L.MS + 5, T * L.MS + 500 * L.MS + 3, (T * L.MS) // 2 + 11])
        src.append({"at": max(end, t + 1), "close": True})
        if T and period < T * L.MS and k > 2:
            stats["traffic_faster_than_T"] += 1
        if T and src[-1]["at"] < T * L.MS:
            stats["src_closes_first"] += 1
        stats["T"][str(T)] = stats["T"].get(str(T), 0) + 1
        cases.append({"dir": rng.choice(["upstream", "downstream"]), "chain": pre + [L.tx("timeout", name="t", timeout=T)] + post,
                      "src": src, "horizon": 3600 * 1000 * L.MS, "seed": i})
    return cases, stats


def oracle(case, res):
    if res is None or "crash" in res:
        return "the process crashed: " + (res or {}).get("crash", "")[-300:]
    ts = [t for t in case["chain"] if t["type"] == "timeout"]
    if not ts:
        return None
    T = ts[0]["attributes"]["timeout"]
    if res["total"] != 0:
        return "%d bytes were delivered while the timeout toxic was in effect" % res["total"]
    srcclose = [e["at"] for e in case["src"] if e.get("close")]
    # the sender's close travels behind the data still sleeping in latency stages upstream of the toxic,
    # so with such stages it reaches the timeout stage at some instant >= the close itself
    exact = not any(t["type"] == "latency" and t["attributes"]["latency"] > 0 for t in case["chain"])
    if T > 0:
        exp = T * L.MS
        lo = min(exp, srcclose[0]) if srcclose else exp
        if res["closed"] > exp or res["closed"] < lo or (exact and res["closed"] != lo):
            return "connection closed at %d ns, expected %d ns (T = %d ms after the toxic took effect)" % (res["closed"], lo if exact else exp, T)
    else:
        exp = srcclose[0] if srcclose else -1
        if res["closed"] < exp or (exact and res["closed"] != exp):
            return "T = 0: connection closed at %d ns, expected only the sender's close at %d ns" % (res["closed"], exp)
    return None


def run(ctx):
    return L.run_link_property(
        ctx, PID, gen_cases, oracle,
        classify=lambda w: "close-time" if "closed at" in w else ("data-leaks" if "delivered" in w else "crash"),
        rule="links with one timeout toxic (T from {0,1,50,100,250,10000} ms) behind 0-2 noop/latency stages; 0-12 writes with periods "
             "below/near/above T (never exactly at T), sender closing before or after T; non-trivial = T > 0 and at least two writes "
             "arrive before T; distinct by JSON",
        nontrivial=lambda c: any(t["type"] == "timeout" and t["attributes"]["timeout"] > 0 for t in c["chain"]) and len(c["src"]) > 2,
        assumptions=["removal of a timeout toxic (Cleanup closes the stub) is exercised by the reconfiguration runs of C02/C04",
                     "a chunk arriving at exactly T is a genuine race in the code (select picks either arm); generators avoid the tie"])


def replay(ctx, path):
    return L.replay_link(ctx, PID, path, oracle)

"""Shared machinery of the /verif checks: build steps, Coq build + assumption capture,
case evaluation inside Coq, evidence files, VIOLATION / KNOWN-FINDING protocol."""
import hashlib
import json
import os
import re
import shutil
import subprocess
import sys
import time

VERIF = os.path.dirname(os.path.dirname(os.path.abspath(__file__)))
REPO = os.environ.get("VERIF_REPO", "/repo")
BUILD = os.path.join(VERIF, "build")
COQ = os.path.join(VERIF, "coq")
REPLAYS = os.path.join(VERIF, "replays")
EVIDENCE = os.path.join(VERIF, "evidence")
CORPUS = os.path.join(VERIF, "corpus")
KNOWN = os.path.join(VERIF, "known_findings.txt")

GOENV = dict(os.environ, GOFLAGS="-mod=mod", GOPROXY="off", GOSUMDB="off", GOTOOLCHAIN="local",
             CGO_ENABLED="0")
GO_DEFAULT = "go"
GO_VT = "go1.26.8"

TRUSTED_BASE = [
    "Coq 8.16.1 kernel (coqc; vm_compute used for finite sweeps, refutation witnesses and case evaluation; no native_compute)",
    "axioms declared by this development: none (grep + Print Assumptions on every run)",
    "translator /verif/extract (Go, go/ast+go/types+go/constant): constants, tables and pure functions -> coq/Extracted.v, regenerated every run",
    "correspondence harness /verif/harness (Go) drives the real code; testing/synctest of go1.26.8 for virtual time",
    "Go semantics of channels/select/slices/int64 as written in coq/Model (modelled, not verified)",
]


class Ctx:
    def __init__(self, pid, tier, seed):
        self.pid = pid
        self.tier = tier
        self.seed = seed
        self.t0 = time.time()
        self.notes = []
        self.known_printed = []

    def log(self, *a):
        print("[%s %6.1fs]" % (self.pid, time.time() - self.t0), *a, flush=True)


def sh(cmd, cwd=None, env=None, timeout=None, check=False, input=None):
    p = subprocess.run(cmd, cwd=cwd, env=env, timeout=timeout, input=input,
                       stdout=subprocess.PIPE, stderr=subprocess.STDOUT, text=True)
    if check and p.returncode != 0:
        raise RuntimeError("command failed (%d): %s\n%s" % (p.returncode, cmd, p.stdout[-4000:]))
    return p.returncode, p.stdout


def write_if_changed(path, content):
    try:
        with open(path) as f:
            if f.read() == content:
                return False
    except FileNotFoundError:
        pass
    os.makedirs(os.path.dirname(path), exist_ok=True)
    with open(path, "w") as f:
        f.write(content)
    return True


# --------------------------------------------------------------------------- splitmix64
class Rng:
    MASK = (1 << 64) - 1

    def __init__(self, seed):
        self.s = seed & self.MASK

    def next(self):
        self.s = (self.s + 0x9E3779B97F4A7C15) & self.MASK
        z = self.s
        z = ((z ^ (z >> 30)) * 0xBF58476D1CE4E5B9) & self.MASK
        z = ((z ^ (z >> 27)) * 0x94D049BB133111EB) & self.MASK
        return z ^ (z >> 31)

    def below(self, n):
        return self.next() % n if n > 0 else 0

    def range(self, lo, hi):
        return lo + self.below(hi - lo + 1)

    def choice(self, xs):
        return xs[self.below(len(xs))]

    def chance(self, num, den):
        return self.below(den) < num

    def fork(self, tag):
        h = int.from_bytes(hashlib.sha256(("%d/%s" % (self.s, tag)).encode()).digest()[:8], "big")
        return Rng(h)


# --------------------------------------------------------------------------- builds
class BuildError(Exception):
    pass


def repo_tree_hash():
    """content hash of the Go sources of /repo's working tree (used only to key caches)"""
    h = hashlib.sha256()
    for root, dirs, files in os.walk(REPO):
        dirs[:] = sorted(d for d in dirs if d not in (".git", "dist", "tmp"))
        for fn in sorted(files):
            if fn.endswith(".go") or fn in ("go.mod", "go.sum"):
                p = os.path.join(root, fn)
                h.update(p.encode())
                with open(p, "rb") as f:
                    h.update(f.read())
    return h.hexdigest()[:16]


def go_build_harness(ctx, which):
    """Builds a harness binary from /verif/harness against /repo's working tree (tag verif).
    which: 'vt' (go1.26.8 test binary with synctest), 'h' (default go, api/tcp/direct)."""
    os.makedirs(BUILD, exist_ok=True)
    hdir = os.path.join(VERIF, "harness")
    shutil.copyfile(os.path.join(REPO, "go.sum"), os.path.join(hdir, "go.sum"))
    t = time.time()
    if which == "vt":
        out = os.path.join(BUILD, "vt.test")
        cmd = [GO_VT, "test", "-tags", "verif", "-c", "-o", out, "./vt"]
    elif which == "h":
        out = os.path.join(BUILD, "h")
        cmd = [GO_DEFAULT, "build", "-tags", "verif", "-o", out, "./cmd/h"]
    else:
        raise ValueError(which)
    rc, o = sh(cmd, cwd=hdir, env=GOENV, timeout=600)
    if rc != 0 and which == "vt" and "export_verif.go" in o:
        # the shims for the pure-function differentials (VerifChunk / VerifDelay) call private functions whose signature changed:
        # build without them (go build -overlay; /repo is not touched) so that everything else can still be compared
        ov = os.path.join(BUILD, "overlay_vt.json")
        with open(ov, "w") as f:
            json.dump({"Replace": {os.path.join(REPO, "toxics", "export_verif.go"): os.path.join(hdir, "overlay", "export_verif_reduced.go.txt"),
                                   os.path.join(hdir, "vt", "pure_test.go"): os.path.join(hdir, "overlay", "pure_stub_test.go.txt")}}, f)
        first = o
        rc, o = sh(cmd[:2] + ["-overlay", ov] + cmd[2:], cwd=hdir, env=GOENV, timeout=600)
        if rc == 0:
            ctx.pure_unavailable = first[-1500:]
            ctx.log("harness vt built WITHOUT the pure-function shims (they no longer compile against the working tree)")
    if rc != 0:
        raise BuildError("go build of harness %s failed:\n%s" % (which, o[-3000:]))
    ctx.log("built harness %s in %.1fs" % (which, time.time() - t))
    return out


def go_build_extract(ctx):
    os.makedirs(BUILD, exist_ok=True)
    out = os.path.join(BUILD, "extract")
    rc, o = sh([GO_DEFAULT, "build", "-o", out, "."], cwd=os.path.join(VERIF, "extract"), env=GOENV, timeout=300)
    if rc != 0:
        raise BuildError("go build of extract failed:\n%s" % o[-3000:])
    return out


def regenerate_extracted(ctx):
    """runs the translator on /repo's working tree and (re)writes coq/Extracted.v if it changed"""
    ex = go_build_extract(ctx)
    rc, o = sh([ex, "-repo", REPO], env=GOENV, timeout=120)
    if rc != 0:
        raise BuildError("translator failed on the working tree:\n%s" % o[-3000:])
    changed = write_if_changed(os.path.join(COQ, "Extracted.v"), o)
    meta = {}
    for m in re.finditer(r"\(\* META (\{.*?\}) \*\)", o):
        meta.update(json.loads(m.group(1)))
    ctx.extract_meta = meta
    ctx.log("Extracted.v %s (%d lines)" % ("regenerated" if changed else "unchanged", o.count("\n")))
    return changed


FORBIDDEN = re.compile(
    r"\b(Admitted|admit|Axiom|Axioms|Parameter|Parameters|Conjecture|Conjectures|Admit Obligations|"
    r"Unset Guard Checking|Unset Positivity Checking|Unset Universe Checking|bypass_check|"
    r"type-in-type|impredicative-set|native_compute)\b")


def strip_coq_comments(s):
    out = []
    depth = 0
    i = 0
    while i < len(s):
        if s.startswith("(*", i):
            depth += 1
            i += 2
        elif s.startswith("*)", i) and depth > 0:
            depth -= 1
            i += 2
        else:
            if depth == 0:
                out.append(s[i])
            i += 1
    return "".join(out)


def coq_sources():
    res = []
    for root, dirs, files in os.walk(COQ):
        for fn in sorted(files):
            if fn.endswith(".v") and not fn.startswith("cases_"):
                res.append(os.path.join(root, fn))
    return sorted(res)


def coq_hygiene():
    """no Admitted/Axiom/... anywhere; Variable/Hypothesis only inside sections"""
    bad = []
    for p in coq_sources():
        s = strip_coq_comments(open(p).read())
        for m in FORBIDDEN.finditer(s):
            bad.append("%s: %s" % (os.path.relpath(p, VERIF), m.group(0)))
        depth = 0
        for line in s.split("\n"):
            ls = line.strip()
            if re.match(r"(Section|Module Type)\s", ls):
                depth += 1
            elif re.match(r"End\s", ls) and depth > 0:
                depth -= 1
            elif re.match(r"(Variable|Variables|Hypothesis|Hypotheses|Context)\b", ls) and depth == 0:
                bad.append("%s: top-level %s" % (os.path.relpath(p, VERIF), ls[:40]))
    return bad


def coq_project_file():
    files = [os.path.relpath(p, COQ) for p in coq_sources()]
    content = "-Q . TP\n-arg -w -arg -notation-overridden,-deprecated-hint-without-locality,-deprecated-instance-without-locality\n" + "\n".join(files) + "\n"
    write_if_changed(os.path.join(COQ, "_CoqProject"), content)
    return files


def coq_make(ctx, targets, timeout=1500):
    """make the given .vo targets (and their cones). Returns (ok, output)."""
    files = coq_project_file()
    mk = os.path.join(COQ, "Makefile")
    stamp = os.path.join(COQ, ".files_stamp")
    fl = "\n".join(files)
    if not os.path.exists(mk) or not os.path.exists(stamp) or open(stamp).read() != fl:
        sh(["coq_makefile", "-f", "_CoqProject", "-o", "Makefile"], cwd=COQ, check=True)
        open(stamp, "w").write(fl)
    t = time.time()
    rc, o = sh(["timeout", str(timeout), "make", "-j16", "-k"] + targets, cwd=COQ, timeout=timeout + 30)
    ctx.log("coq make %s: rc=%d in %.1fs" % (" ".join(targets) or "all", rc, time.time() - t))
    return rc == 0, o


def coq_failed_files(make_output):
    fails = []
    for m in re.finditer(r'File "\./([^"]+)", line (\d+)', make_output):
        fails.append("%s:%s" % (m.group(1), m.group(2)))
    return sorted(set(fails))


def coq_eval(ctx, name, body, timeout=300):
    """compiles a scratch .v file (coq/cases_<name>.v) importing the development; returns stdout"""
    path = os.path.join(COQ, "cases_%s.v" % name)
    with open(path, "w") as f:
        f.write(body)
    t = time.time()
    rc, o = sh(["bash", "-c", "ulimit -s unlimited 2>/dev/null || ulimit -s 4000000 2>/dev/null; exec timeout %d coqc -Q . TP -w -notation-overridden %s"
                % (timeout, os.path.basename(path))], cwd=COQ, timeout=timeout + 30)
    ctx.log("coqc cases_%s.v: rc=%d in %.1fs" % (name, rc, time.time() - t))
    for ext in (".vo", ".vok", ".vos", ".glob"):
        try:
            os.remove(path[:-2] + ext)
        except FileNotFoundError:
            pass
    try:
        os.remove(os.path.join(COQ, ".cases_%s.aux" % name))
    except FileNotFoundError:
        pass
    return rc, o


def theorems_of(prop_file):
    s = strip_coq_comments(open(prop_file).read())
    return re.findall(r"^\s*(?:Theorem|Lemma|Corollary)\s+([A-Za-z0-9_']+)", s, re.M)


def print_assumptions(ctx, pid):
    """Print Assumptions for every theorem of Properties/<pid>.v, evaluated now against the built .vo"""
    pf = os.path.join(COQ, "Properties", pid + ".v")
    thms = theorems_of(pf)
    # markers are printed with Check so that they travel on the same channel as the answers (idtac goes to another stream, and
    # the interleaving of two pipes is not reliable)
    body = "From Coq Require Import String.\nFrom TP Require Import Properties.%s.\n" % pid
    for t in thms:
        body += 'Check ("@@THM %s")%%string.\nPrint Assumptions %s.\n' % (t, t)
    for t in thms:
        body += 'Check ("@@DEP %s")%%string.\nPrint All Dependencies %s.\n' % (t, t)
    rc, o = coq_eval(ctx, "assm_" + pid, body, timeout=300)
    res = {}
    if rc != 0:
        return None, o
    cur = None
    deps = {}
    dep = None
    for line in o.split("\n"):
        m = re.search(r"@@THM ([A-Za-z0-9_']+)", line)
        d = re.search(r"@@DEP ([A-Za-z0-9_']+)", line)
        if m:
            cur, dep = m.group(1), None
            res[cur] = []
        elif d:
            cur, dep = None, d.group(1)
            deps[dep] = set()
        elif dep is not None:
            deps[dep].update(re.findall(r"\bExtracted\.([A-Za-z0-9_']+)", line))
        elif cur is not None and line.strip() and line.strip() != ": string":
            res[cur].append(line.strip())
    ctx.extracted_deps = deps
    out = {}
    for t, lines in res.items():
        txt = " ".join(lines)
        out[t] = "closed" if "Closed under the global context" in txt else txt
    return out, o


# --------------------------------------------------------------------------- Coq term printing
def coq_z(n):
    return "(%d)" % n if n < 0 else "%d" % n


def coq_list(xs, f=str):
    return "[" + "; ".join(f(x) for x in xs) + "]"


def coq_zlist(xs):
    return coq_list(xs, coq_z)


def coq_bool(b):
    return "true" if b else "false"


def coq_option(x, f=str):
    return "None" if x is None else "(Some %s)" % f(x)


# --------------------------------------------------------------------------- verdict protocol
def load_known():
    known, fixed = [], []
    if os.path.exists(KNOWN):
        for line in open(KNOWN):
            line = line.strip()
            if line.startswith("known:"):
                m = re.match(r"known:\s+property=(\S+)\s+key=(\S+)\s*(.*)", line)
                if m:
                    known.append({"property": m.group(1), "key": m.group(2), "what": m.group(3)})
            elif line.startswith("fixed:"):
                fixed.append(line)
    return known, fixed


def write_replay(pid, name, obj):
    os.makedirs(REPLAYS, exist_ok=True)
    h = hashlib.sha256(json.dumps(obj, sort_keys=True).encode()).hexdigest()[:10]
    path = os.path.join(REPLAYS, "%s-%s-%s.json" % (pid, name, h))
    with open(path, "w") as f:
        json.dump(obj, f, indent=1, sort_keys=True)
    return path


class Verdict:
    """collects findings of one run; a finding has a key (class of witness), a description and a replay object"""

    def __init__(self, ctx):
        self.ctx = ctx
        self.findings = []      # (key, what, replay_obj, has_input)

    def add(self, key, what, replay, has_input=True):
        for f in self.findings:
            if f[0] == key and f[3] == has_input:
                return
        self.findings.append((key, what, replay, has_input))

    def findings_with_input(self):
        """findings that carry a failing input and are not listed as known"""
        known, _ = load_known()
        keys = set((k["property"], k["key"]) for k in known)
        return [f for f in self.findings if f[3] and (self.ctx.pid, f[0]) not in keys]

    def finish(self):
        """prints KNOWN-FINDING / VIOLATION lines; returns (exit code, number of violations)"""
        known, _ = load_known()
        kmap = {(k["property"], k["key"]): k for k in known}
        nviol = 0
        for key, what, replay, has_input in self.findings:
            k = kmap.get((self.ctx.pid, key))
            if k is not None and has_input:
                print("KNOWN-FINDING: property=%s %s (%s)" % (self.ctx.pid, k["what"] or what, key), flush=True)
                self.ctx.known_printed.append(key)
                continue
            replay = dict(replay)
            replay.setdefault("property", self.ctx.pid)
            replay.setdefault("key", key)
            replay.setdefault("what", what)
            path = write_replay(self.ctx.pid, re.sub(r"[^A-Za-z0-9_]+", "_", key)[:40], replay)
            tail = "" if has_input else " no-failing-input-found"
            print("VIOLATION property=%s replay=%s%s" % (self.ctx.pid, path, tail), flush=True)
            print("  what: %s" % what, flush=True)
            nviol += 1
        return (1 if nviol else 0), nviol


def write_evidence(ctx, coverage, assumptions, violations, level="proof"):
    os.makedirs(EVIDENCE, exist_ok=True)
    cov = dict(coverage)
    cov.setdefault("trusted_base", TRUSTED_BASE)
    if getattr(ctx, "extracted_used", None) is not None:
        cov.setdefault("regenerated_definitions_the_theorems_depend_on", ctx.extracted_used)
    if getattr(ctx, "coqchk", None) is not None:
        cov.setdefault("coqchk", ctx.coqchk)
    ev = {
        "property_id": ctx.pid,
        "tier": ctx.tier,
        "seed": ctx.seed,
        "level": level,
        "coverage": cov,
        "assumptions": assumptions,
        "wall_s": round(time.time() - ctx.t0, 2),
        "violations": violations,
    }
    if ctx.known_printed:
        ev["coverage"]["known_findings_reproduced"] = ctx.known_printed
    if ctx.notes:
        ev["coverage"]["notes"] = ctx.notes
    path = os.path.join(EVIDENCE, ctx.pid + ".json")
    with open(path, "w") as f:
        json.dump(ev, f, indent=1)
    return path


def proof_step(ctx, verdict, pid, extra_targets=()):
    """common steps 2-3 of the protocol: regenerate Extracted.v, hygiene, build the cone of Properties/<pid>.vo,
    capture assumptions. Returns dict with obligations/discharged/assumption text; adds a no-input finding when broken."""
    regenerate_extracted(ctx)
    bad = coq_hygiene()
    if bad:
        verdict.add("hygiene", "forbidden construct in the Coq development: " + "; ".join(bad[:5]),
                    {"kind": "hygiene", "items": bad}, has_input=False)
    targets = ["Properties/%s.vo" % pid] + list(extra_targets)
    ok, out = coq_make(ctx, targets)
    thms = theorems_of(os.path.join(COQ, "Properties", pid + ".v"))
    res = {"obligations": len(thms), "discharged": 0, "theorems": thms, "assumptions": {}, "build_ok": ok}
    if not ok:
        fails = coq_failed_files(out)
        tail = "\n".join(out.strip().split("\n")[-25:])
        res["broken"] = fails
        res["build_tail"] = tail
        ctx.log("PROOF BROKEN:\n" + tail)
        return res
    assm, raw = print_assumptions(ctx, pid)
    if assm is None:
        res["build_ok"] = False
        res["broken"] = ["Print Assumptions failed"]
        res["build_tail"] = raw[-2000:]
        return res
    res["assumptions"] = assm
    res["discharged"] = len([t for t in thms if t in assm])
    if ctx.tier == "thorough":
        # independent re-check of the compiled cone by coqchk, which also lists the axioms the loaded libraries rely on
        t0 = time.time()
        rc, o = sh(["coqchk", "-silent", "-o", "-Q", COQ, "TP", "TP.Properties.%s" % pid], cwd=COQ, timeout=3600)
        tail = o[o.rfind("CONTEXT SUMMARY"):] if "CONTEXT SUMMARY" in o else o[-1500:]
        ctx.coqchk = {"exit": rc, "seconds": round(time.time() - t0, 1), "summary": " ".join(tail.split())[:1500]}
        ctx.log("coqchk TP.Properties.%s: rc=%d in %.0fs" % (pid, rc, time.time() - t0))
        if rc != 0:
            res["build_ok"] = False
            res["broken"] = ["coqchk rejects the compiled cone of Properties/%s.vo" % pid]
            res["build_tail"] = o[-2000:]
            return res
    # the tie to the source: every regenerated definition a theorem depends on must have been located in the working tree
    meta = getattr(ctx, "extract_meta", {})
    deps = getattr(ctx, "extracted_deps", {})
    used = sorted(set(x for t in thms for x in deps.get(t, ())))
    res["extracted_items_used"] = used
    ctx.extracted_used = used
    lost = [x for x in used if x in meta and not meta[x].get("extracted")]
    if lost:
        which = {x: sorted(t for t in thms if x in deps.get(t, ())) for x in lost}
        res["build_ok"] = False
        res["broken"] = ["translator could not locate %s in the source: %s now speak(s) of its last-known value" % (x, ", ".join(which[x][:4]) + (" ..." if len(which[x]) > 4 else ""))
                         for x in lost]
        res["build_tail"] = "; ".join("%s: %s" % (x, meta[x].get("note") or "not located") for x in lost)
        res["discharged"] = len([t for t in thms if t in assm and not any(x in deps.get(t, ()) for x in lost)])
        ctx.log("TIE BROKEN: " + "; ".join(res["broken"]))
    return res


# --------------------------------------------------------------------------- loopback ports
_port_cache = {}


def free_port_base(tag, count, lo=20000, hi=60000):
    """a base such that ports base..base+count-1 are currently bindable on loopback (probed), stable per tag within a run"""
    import socket
    if tag in _port_cache:
        return _port_cache[tag]
    # stay below the kernel's ephemeral range (net.ipv4.ip_local_port_range, 32768-60999 by default): the client side of the
    # harnesses' own connections (connection churn, probes) takes ports from there at random, and a listener that a later
    # scenario wants to open on such a port fails with EADDRINUSE - which used to show up as a spurious 500 / 404
    try:
        eph_lo = int(open("/proc/sys/net/ipv4/ip_local_port_range").read().split()[0])
    except Exception:
        eph_lo = 32768
    lo, hi = 10000, max(12000, min(eph_lo, 32768) - 200)
    seed = int(hashlib.sha256(("%s/%d" % (tag, os.getpid())).encode()).hexdigest()[:8], 16)
    span = hi - lo - count
    for attempt in range(200):
        base = lo + (seed + attempt * 7919) % span
        base -= base % 10
        ok = True
        socks = []
        try:
            for p in range(base, base + count):
                for fam, addr in ((socket.AF_INET, "127.0.0.1"), (socket.AF_INET6, "::")):
                    try:
                        sk = socket.socket(fam, socket.SOCK_STREAM)
                        sk.setsockopt(socket.SOL_SOCKET, socket.SO_REUSEADDR, 1)
                        sk.bind((addr, p))
                        socks.append(sk)
                    except OSError as e:
                        if fam == socket.AF_INET6 and e.errno in (97, 99):   # no IPv6 here
                            continue
                        ok = False
                        break
                if not ok:
                    break
        finally:
            for sk in socks:
                sk.close()
        if ok and not any(abs(base - b) < count + 10 for b in _port_cache.values()):
            _port_cache[tag] = base
            return base
    raise BuildError("no free loopback port range found")

"""C02 — reconfiguring toxics never corrupts a live stream."""
import json

from . import common as C
from . import links as L
from .p_C04 import mk, update_body

PID = "C02"
PRESERVING = ["noop", "latency", "bandwidth", "slicer", "slow_close"]
ALL = PRESERVING + ["timeout", "limit_data"]


def gen_cases(ctx, rng):
    n = 170 if ctx.tier == "quick" else 5000
    cases = []
    stats = {"preserving_only": 0, "with_timeout_or_limit": 0, "ops": {"add": 0, "update": 0, "remove": 0, "reset": 0},
             "slow_sink": 0, "multi_link": 0, "queued_behind_slow_stage": 0}
    for i in range(n):
        pres = rng.chance(2, 3)
        kinds = PRESERVING if pres else ALL
        chain = [mk(rng, "t%d" % j, rng.choice(kinds)) for j in range(rng.range(0, 3))]
        if i % 10 == 0:
            # many chunks parked in a latency toxic ahead of a slow stage, the latency toxic removed while they are in flight
            chain = [L.tx("latency", name="t0", latency=rng.choice([1000, 3000]), jitter=0), L.tx("bandwidth", name="t1", rate=rng.choice([1, 2]))]
            pres = True
            stats["queued_behind_slow_stage"] += 1
        if i % 10 == 5:
            # a stage that holds data (sleeping in latency, pacing in bandwidth, between slices) is switched off or on by an update of
            # its toxicity while traffic continues, and later removed or reset: nothing may be parked, overtaken or lost
            holder = rng.choice([L.tx("latency", name="t0", latency=rng.choice([300, 1500]), jitter=0), L.tx("bandwidth", name="t0", rate=rng.choice([1, 3])),
                                 L.tx("slicer", name="t0", average_size=50, size_variation=0, delay=20000)])
            chain = [holder] + ([L.tx("noop", name="t1")] if rng.chance(1, 2) else [])
            pres = True
            stats["switched_while_holding"] = stats.get("switched_while_holding", 0) + 1
        for t in chain:
            if t["type"] == "bandwidth" and i % 10 and i % 10 != 5:
                t["attributes"]["rate"] = rng.choice([10, 1000])      # keep every hand-off far below five seconds
        live = [t["name"] for t in chain]
        specs = {t["name"]: t for t in chain}
        # traffic: a steady stream of chunks while operations land in between (not synchronised with the chunks)
        src, t = [], 1 * L.MS
        nchunks = rng.range(4, 25) if i % 10 else 8
        if i % 10 == 5:
            nchunks = rng.range(6, 14)
        period = rng.choice([1, 3, 10, 40]) * L.MS + rng.range(0, 999)
        for _ in range(nchunks):
            src.append({"at": t, "n": rng.range(1, 1500) if i % 10 else 1000})
            t += period
        tlast = t
        ops, to = [], rng.range(1, 30) * L.MS + 333
        nextid = len(chain)
        for _ in range(rng.range(1, 6) if i % 10 else 1):
            k = rng.below(100)
            if i % 10 == 0:
                ops.append({"at": 600 * L.MS + 77, "op": "remove", "name": "t0"})
                live.remove("t0")
                stats["ops"]["remove"] += 1
                break
            if i % 10 == 5:
                t1 = src[min(2, len(src) - 1)]["at"] + rng.range(1, 30) * L.MS + 333
                ops.append({"at": t1, "op": "update", "name": "t0", "body": json.dumps({"toxicity": 0})})
                how = rng.choice(["remove", "reset", "back_on", "nothing"])
                t2 = t1 + rng.range(50, 400) * L.MS + 111
                if how == "remove":
                    ops.append({"at": t2, "op": "remove", "name": "t0"})
                elif how == "reset":
                    ops.append({"at": t2, "op": "reset"})
                elif how == "back_on":
                    ops.append({"at": t2, "op": "update", "name": "t0", "body": json.dumps({"toxicity": 1})})
                stats["ops"]["update"] += 1
                to = t2 + 1
                break
            if k < 35 or not live:
                name = "t%d" % nextid
                nextid += 1
                tx = mk(rng, name, rng.choice(kinds))
                if tx["type"] == "bandwidth":
                    tx["attributes"]["rate"] = rng.choice([10, 1000])
                if rng.chance(1, 6):
                    tx["toxicity"] = 0
                ops.append({"at": to, "op": "add", "toxic": tx})
                live.append(name)
                specs[name] = tx
                stats["ops"]["add"] += 1
            elif k < 60:
                name = rng.choice(live)
                body = update_body(rng, specs[name])
                if rng.chance(1, 3):
                    # the update also switches the toxic off or on for this connection (toxicity 0 / 1): the stage is replaced by a
                    # noop or back while it may be holding data
                    b = json.loads(body)
                    b["toxicity"] = rng.choice([0, 0, 1])
                    body = json.dumps(b)
                    stats["toxicity_switched"] = stats.get("toxicity_switched", 0) + 1
                ops.append({"at": to, "op": "update", "name": name, "body": body})
                stats["ops"]["update"] += 1
            elif k < 92:
                name = rng.choice(live)
                ops.append({"at": to, "op": "remove", "name": name})
                live.remove(name)
                stats["ops"]["remove"] += 1
            else:
                ops.append({"at": to, "op": "reset"})
                live = []
                stats["ops"]["reset"] += 1
            to += rng.choice([0, 1, 7, 50, 300]) * L.MS + rng.range(0, 999)
        src.append({"at": max(tlast, to) + rng.range(50, 400) * L.MS, "close": True})
        c = {"dir": rng.choice(["upstream", "downstream"]), "chain": chain, "src": src, "ops": ops,
             "horizon": 3600 * 1000 * L.MS, "seed": i, "preserving": pres}
        if rng.chance(1, 5):
            c["sink_delay"] = [rng.choice([0, 1, 20, 300]) * L.MS for _ in range(rng.range(1, 3))]   # a slow receiver, far below 5 s
            stats["slow_sink"] += 1
        if rng.chance(1, 4):
            c["links"] = rng.range(2, 3)
            stats["multi_link"] += 1
        stats["preserving_only" if pres else "with_timeout_or_limit"] += 1
        cases.append(c)
    # an operation in each of the pauses of a slicer that is pacing one packet out in k pieces - in particular the pause before the last
    # piece - on the slicer itself (update, remove, reset) or on a neighbour (add behind it, remove the one in front)
    stats["in_each_slicer_pause"] = 0
    for i in range(18 if ctx.tier == "quick" else 400):
        S = rng.choice([50, 333, 500])
        k = 2 + i % 3
        D = rng.choice([20, 150]) * 1000            # us
        sl = L.tx("slicer", name="s", average_size=S, size_variation=0, delay=D)
        front = [L.tx("noop", name="f")] if i % 2 else []
        pause = (i // 3) % (k - 1) if i % 5 else k - 2          # which pause the operation lands in (mostly spread, every fifth the last one)
        at = 10 * L.MS + pause * D * 1000 + D * 500 + 7
        how = ["update", "remove", "reset", "add_behind", "remove_front"][i % 5]
        if how == "remove_front" and not front:
            how = "remove"
        op = {"update": {"at": at, "op": "update", "name": "s", "body": json.dumps({"attributes": {"delay": D}})},
              "remove": {"at": at, "op": "remove", "name": "s"}, "reset": {"at": at, "op": "reset"},
              "add_behind": {"at": at, "op": "add", "toxic": L.tx("noop", name="z")},
              "remove_front": {"at": at, "op": "remove", "name": "f"}}[how]
        src = [{"at": 10 * L.MS, "n": k * S}, {"at": 10 * L.MS + (k + 3) * D * 1000, "n": 77}, {"at": 10 * L.MS + (2 * k + 8) * D * 1000, "close": True}]
        cases.append({"dir": rng.choice(["upstream", "downstream"]), "chain": front + [sl], "src": src, "ops": [op],
                      "horizon": 3600 * 1000 * L.MS, "seed": 6000 + i, "preserving": True})
        stats["in_each_slicer_pause"] += 1
    # a toxic removed (or everything reset) while its stage has been stuck for 1-4 s - below the 5 s of the property's premise - handing a
    # chunk to a busy stage behind it (a bandwidth toxic working through a large write) with a backlog queued in front; then the stage
    # behind is removed too: nothing of the backlog may be lost or overtaken
    stats["removed_while_blocked_behind_busy_stage"] = 0
    for i in range(12 if ctx.tier == "quick" else 300):
        rate = rng.choice([1, 2])
        big = rng.choice([2000, 2500, 3500]) * rate
        X = L.tx("latency", name="x", latency=rng.choice([5, 20]), jitter=0)
        Y = L.tx("bandwidth", name="y", rate=rate)
        src = [{"at": 5 * L.MS, "n": big}]
        t = 40 * L.MS
        for _ in range(rng.range(8, 21)):
            src.append({"at": t, "n": rng.range(5, 60)})
            t += rng.choice([3, 10, 25]) * L.MS
        busy_until = 5 + big // rate                   # ms
        R = rng.range(300, max(400, busy_until - 1200)) * L.MS + 333          # the stage in front has then been blocked for a while and stays so for > 1 s
        how = i % 3
        ops = [{"at": R, "op": "reset"}] if how == 0 else [{"at": R, "op": "remove", "name": "x"}, {"at": R + 1 * L.MS, "op": "remove", "name": "y"}] if how == 1 else \
              [{"at": R, "op": "update", "name": "x", "body": json.dumps({"attributes": {"latency": 1}})}, {"at": R + 1 * L.MS, "op": "remove", "name": "x"},
               {"at": R + 2 * L.MS, "op": "remove", "name": "y"}]
        src.append({"at": (busy_until + 3000) * L.MS, "n": 111})
        src.append({"at": (busy_until + 6000) * L.MS, "close": True})
        cases.append({"dir": rng.choice(["upstream", "downstream"]), "chain": [X, Y], "src": src, "ops": ops,
                      "horizon": 3600 * 1000 * L.MS, "seed": 6500 + i, "preserving": True})
        stats["removed_while_blocked_behind_busy_stage"] += 1
    return cases, stats


def oracle(case, res):
    if res is None or "crash" in res:
        return "the process crashed: " + (res or {}).get("crash", "")[-300:]
    if "preserving" not in case:
        return None
    for o in (res.get("ops") or res.get("ops_shared") or []):
        if o.get("err"):
            return None      # an operation was refused (e.g. after shrinking): nothing to judge
    sent = sum(e.get("n", 0) for e in case["src"])
    had_timeout = any(t["type"] == "timeout" for t in case["chain"]) or any((o.get("toxic") or {}).get("type") == "timeout" for o in case["ops"])
    if not res["subseq_ok"]:
        return "what the receiver got is not an in-order part of what was sent (bytes duplicated, reordered or altered)"
    if any(o.get("done", 0) - o.get("at", 0) >= 5000 * L.MS for o in (res.get("ops") or res.get("ops_shared") or [])):
        return None      # see below: decided by the model
    if not had_timeout and not res["prefix_ok"]:
        return "bytes were lost from the middle of the stream although no timeout toxic was applied (received %d of %d)" % (res["total"], sent)
    # the property's premise: nothing downstream of a change holds a piece of data for five seconds or longer. A hand-off given up after
    # 5 s drops the piece by design; an operation that lasted five seconds or more may contain one, and whether it did is decided by the
    # executable model (model_oracle below), which loses data only through such a give-up
    if case["preserving"]:
        if res["total"] != sent:
            return "only data-preserving toxics were involved but %d of %d bytes arrived" % (res["total"], sent)
        srcclose = [e["at"] for e in case["src"] if e.get("close")][0]
        if res["closed"] < 0:
            return "only data-preserving toxics were involved but the receiver never saw the end of the stream"
        if res["closed"] < srcclose:
            return "the connection was closed at %d ns, before the sender closed (%d ns)" % (res["closed"], srcclose)
    return None


def model_oracle(case, res, m):
    """an operation lasted five seconds or more: the model (which loses data only where a single hand-off is given up after 5 s)
    says whether a give-up was part of it. If the model delivers everything and the implementation did not, bytes were lost although
    no hand-off lasted five seconds."""
    if "preserving" not in case or not case["preserving"] or m["total"] < 0 or m["verdict"] in (1, 7):
        return None
    sent = sum(e.get("n", 0) for e in case["src"])
    if m["total"] == sent and res["total"] < sent:
        return ("only data-preserving toxics were involved and no single hand-off lasted five seconds (the model, which loses data only when "
                "one does, delivers all %d bytes) but %d of %d bytes arrived" % (sent, res["total"], sent))
    return None


def run(ctx):
    return L.run_link_property(
        ctx, PID, gen_cases, oracle,
        classify=lambda w: "corrupted" if "in-order part" in w else ("hole" if "lost from the middle" in w else
                                                                      ("incomplete" if "arrived" in w or "never saw" in w else ("early-close" if "before the sender" in w else "crash"))),
        rule="a steady stream of 4-25 chunks with 1-6 add/update/remove/reset operations landing at instants unrelated to the chunks (chunks "
             "sleeping in latency, mid-instalment in bandwidth, mid-slice in slicer, parked in the 1024 buffer), chains of 0-3 toxics, two thirds "
             "data-preserving only, a tenth with eight chunks parked behind a 1-2 KB/s stage when the latency toxic is removed, a fifth with a "
             "slow receiver (< 5 s per write), a quarter with 2-3 connections; a third of the updates also switch the toxic off or on "
             "(toxicity 0 / 1) while it may hold data; non-trivial = an operation lands before the last chunk; distinct by JSON",
        nontrivial=lambda c: bool(c.get("ops")) and c["ops"][0]["at"] < max(e["at"] for e in c["src"]),
        assumptions=["executions in which a hand-off blocks for five seconds or more are outside the property (generators keep every hand-off far below)",
                     "single-connection scripts with toxicity 0/1 are replayed through the executable reconfiguration model (Model/ReconfRun.v) and "
                     "compared to the nanosecond; scripts with several connections are judged by the oracle only"],
        model_filter=lambda c: False, model_oracle=model_oracle)


def replay(ctx, path):
    return L.replay_link(ctx, PID, path, oracle)

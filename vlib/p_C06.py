"""C06 — a rejected request changes nothing."""
import json

from . import api as A
from . import common as C
from . import p_C05 as G

PID = "C06"


def gen_cases(ctx, rng):
    cases = []
    stats = {"sequences": 0, "requests": 0, "field_aware_illtyped": 0}
    n = 150 if ctx.tier == "quick" else 5000
    for i in range(n):
        g = G.Gen(rng, G.port_base(i % 5))
        # a state with proxies and toxics, then mostly requests that must be rejected
        reqs = [A.req("POST", "/proxies", A.J({"name": "a", "listen": g.L[0], "upstream": "u1:1"})),
                A.req("POST", "/proxies", A.J({"name": "b", "listen": g.L[1], "upstream": "u2:2", "enabled": rng.chance(1, 2)}))]
        known = {}
        for k in range(rng.range(1, 3)):
            ty = rng.choice([t for t in G.TYPES if t != "noop"])
            nm = "t%d" % (k + 1)
            px = rng.choice(["a", "b"])
            known[nm] = ty
            known["_proxy_" + nm] = px
            reqs.append(A.req("POST", "/proxies/%s/toxics" % px,
                              A.J({"type": ty, "name": nm, "stream": rng.choice(["upstream", "downstream"]),
                                   "attributes": {f: rng.choice([1, 20, 300]) for f in A.TOXIC_FIELDS[ty]}})))
        for _ in range(rng.range(4, 25)):
            k = rng.below(100)
            if k < 35:
                q = g.update_toxic({k: v for k, v in known.items()})
                stats["field_aware_illtyped"] += 1
            elif k < 50:
                q = g.create_toxic(rng.choice(["illtyped_attr", "bad_attr_shape", "badtype", "badstream", "illtyped", "shape", "valid"]))
            elif k < 65:
                q = g.create_proxy(rng.choice(["badlisten", "missing", "illtyped", "shape", "valid"]))
            elif k < 80:
                q = g.update_proxy()
            elif k < 90:
                q = g.populate()
            else:
                q = g.other()
            reqs.append(q)
        cases.append({"reqs": reqs, "env": g.env, "group": i % 5})
        stats["sequences"] += 1
        stats["requests"] += len(reqs)
    return cases, stats


def oracle(case, resps):
    if isinstance(resps, dict) and "crash" in resps:
        return (0, "the API process crashed: " + resps["crash"][-300:])
    before = "{}"
    for i, (q, resp) in enumerate(zip(case["reqs"], resps)):
        if resp.get("panic"):
            return (i, "handler panicked")
        st = resp["status"]
        if st >= 400:
            segs = q["path"].strip("/").split("/")
            exception = st >= 500 and (segs[0] in ("populate", "reset") or (segs[0] == "proxies" and len(segs) == 2 and q["method"] in ("POST", "PATCH")))
            b, a = A.canon_payload(before), A.canon_payload(resp["proxies"])
            if not exception and a != b:
                diff = "configuration changed"
                if a[0] == b[0] == "proxies":
                    for pa, pb in zip(a[1], b[1]):
                        if pa != pb:
                            diff = "proxy %r changed: %s -> %s" % (pb["name"], json.dumps(pb, default=str)[:160], json.dumps(pa, default=str)[:160])
                            break
                return (i, "request answered %d but the %s" % (st, diff))
        before = resp["proxies"]
    return None


def run(ctx):
    return G.run_api_property(
        ctx, PID, gen_cases, oracle,
        classify=lambda w: "rejected-but-changed" if "answered" in w else "other",
        rule="a populated state (2 proxies, 1-3 toxics of random types) followed by 4-25 requests, most of them built to be rejected: "
             "for every struct the decoder targets, bodies valid in all fields but one (either order), wrong shapes, bad names/types/streams, "
             "unknown proxies and toxics, unresolvable addresses; after every answer >= 400 GET /proxies must equal GET /proxies before; "
             "non-trivial = more than one request; distinct by JSON",
        assumptions=["the configuration shown by GET /proxies includes every toxic's attributes and toxicity, which are the fields the running "
                     "stages read (same object); traffic treatment after a rejected update is additionally replayed on in-memory links",
                     "exception by design: a 500 of update/populate/reset (listen address cannot be resolved or bound)"])


def replay(ctx, path):
    rp = json.load(open(path))
    if rp.get("kind") != "failing-input":
        print("replay file names a broken obligation, not an input:", rp.get("what"))
        return 1
    r = A.run_impl(ctx, [rp["case"]], PID.lower() + "_replay", procs=1)[0]
    w = oracle(rp["case"], r)
    print("observed:", json.dumps(r)[:1500])
    if w:
        print("VIOLATION property=%s replay=%s" % (PID, path))
        print("  what:", w[1])
        return 1
    print("replay passes on the current tree")
    return 0

"""C06 — a rejected request changes nothing."""
import json

from . import api as A
from . import common as C
from . import links as L
from . import p_C05 as G

PID = "C06"


def gen_cases(ctx, rng):
    cases = []
    stats = {"sequences": 0, "requests": 0, "field_aware_illtyped": 0}
    n = 150 if ctx.tier == "quick" else 5000
    for i in range(n):
        g = G.Gen(rng, G.port_base(i % 5))
        selfup = i % 3 == 2
        if i % 3 == 1:
            # upstream is a free-form string to the API (it is only dialled when a client connects): values that are not host:port are
            # accepted like any other - and if a server rejects them, it must do so before anything changed
            g.ups = g.ups + ["localhost", "nohost-noport"]
            stats["with_upstreams_that_are_not_host_port"] = stats.get("with_upstreams_that_are_not_host_port", 0) + 1
        if selfup:
            # upstreams that are one of the proxies' own listen addresses (a proxy pointed at itself or at its neighbour): whatever the
            # server makes of such a request, an error answer must leave everything as it was. No connection is ever opened to these
            # proxies (a proxy that dials itself would not stop), so the listening probes are off for these sequences.
            g.ups = g.ups + [g.L[0], g.L[1]]
            stats["with_own_listen_as_upstream"] = stats.get("with_own_listen_as_upstream", 0) + 1
        # a state with proxies and toxics, then mostly requests that must be rejected
        reqs = [A.req("POST", "/proxies", A.J({"name": "a", "listen": g.L[0], "upstream": "u1:1"})),
                A.req("POST", "/proxies", A.J({"name": "b", "listen": g.L[1], "upstream": "u2:2", "enabled": rng.chance(1, 2)}))]
        known = {}
        for k in range(rng.range(1, 3)):
            ty = rng.choice([t for t in G.TYPES if t != "noop"])
            nm = "t%d" % (k + 1)
            px = rng.choice(["a", "b"])
            known[nm] = ty
            known["_proxy_" + nm] = px
            reqs.append(A.req("POST", "/proxies/%s/toxics" % px,
                              A.J({"type": ty, "name": nm, "stream": rng.choice(["upstream", "downstream"]),
                                   "attributes": {f: rng.choice([1, 20, 300]) for f in A.TOXIC_FIELDS[ty]}})))
        for _ in range(rng.range(4, 25)):
            k = rng.below(100)
            if k < 35:
                q = g.update_toxic({k: v for k, v in known.items()})
                stats["field_aware_illtyped"] += 1
            elif k < 50:
                q = g.create_toxic(rng.choice(["illtyped_attr", "bad_attr_shape", "badtype", "badstream", "illtyped", "shape", "valid"]))
            elif k < 65:
                q = g.create_proxy(rng.choice(["badlisten", "missing", "illtyped", "shape", "valid"]))
            elif k < 80:
                q = g.update_proxy()
            elif k < 90:
                q = g.populate()
            else:
                q = g.other()
            reqs.append(q)
        cases.append({"reqs": reqs, "env": g.env, "group": i % 5, "noprobe": selfup})
        stats["sequences"] += 1
        stats["requests"] += len(reqs)
    return cases, stats


def oracle(case, resps):
    if isinstance(resps, dict) and "crash" in resps:
        return (0, "the API process crashed: " + resps["crash"][-300:])
    before = "{}"
    before_listening = []
    for i, (q, resp) in enumerate(zip(case["reqs"], resps)):
        if resp.get("panic"):
            return (i, "handler panicked")
        st = resp["status"]
        if st == -2:
            break
        if st == -1 or resp.get("status2") == -1:
            return (i, "%s %s (or the listing after it) never returned (6 s): the API is wedged" % (q["method"], q["path"]))
        if st >= 400:
            segs = q["path"].strip("/").split("/")
            exception = st >= 500 and (segs[0] in ("populate", "reset") or (segs[0] == "proxies" and len(segs) == 2 and q["method"] in ("POST", "PATCH")))
            b, a = A.canon_payload(before), A.canon_payload(resp["proxies"])
            if not exception and a != b:
                diff = "configuration changed"
                if a[0] == b[0] == "proxies":
                    for pa, pb in zip(a[1], b[1]):
                        if pa != pb:
                            diff = "proxy %r changed: %s -> %s" % (pb["name"], json.dumps(pb, default=str)[:160], json.dumps(pa, default=str)[:160])
                            break
                return (i, "request answered %d but the %s" % (st, diff))
            # ... and what really listens is what listened before (a rejected request binds nothing and stops nothing)
            if not exception and "listening" in resp and sorted(resp["listening"]) != before_listening:
                return (i, "request answered %d but the addresses accepting connections changed: %s -> %s (%s %s)"
                        % (st, before_listening, sorted(resp["listening"]), q["method"], q["path"]))
        before = resp["proxies"]
        before_listening = sorted(resp.get("listening") or [])
    return None


# ---------------------------------------------------------------- treatment of traffic: a rejected toxic update on a live connection
BAD_BODIES = {"latency": ['{"attributes": {"latency": "soon"}}', '{"toxicity": 1, "attributes": {"jitter": {}}}', '{"attributes": {"latency": 7, "jitter": "x"}}'],
              "timeout": ['{"attributes": {"timeout": "soon"}}', '{"toxicity": 1, "attributes": {"timeout": []}}'],
              "slow_close": ['{"attributes": {"delay": "x"}}'],
              "bandwidth": ['{"attributes": {"rate": "fast"}}']}


def traffic_cases(ctx, proof):
    """links whose only toxic holds data or a deadline when an update with a malformed body arrives: the request is answered with an
    error (checked) and the connection must be treated exactly as if the request had never been made - the same case without the
    operation is run alongside and the two receivers' observations must be equal"""
    rng = C.Rng(ctx.seed).fork("C06traffic")
    n = (24 if ctx.tier == "quick" else 800) * (1 if proof["build_ok"] else 4)
    pairs = []
    for i in range(n):
        ty = rng.choice(["latency", "latency", "timeout", "slow_close", "bandwidth"])
        D = rng.choice([300, 2000, 4000])
        tx = {"latency": L.tx("latency", name="x", latency=D, jitter=0), "timeout": L.tx("timeout", name="x", timeout=D),
              "slow_close": L.tx("slow_close", name="x", delay=D), "bandwidth": L.tx("bandwidth", name="x", rate=1)}[ty]
        src = [{"at": 1 * L.MS, "n": rng.range(1, 900)}, {"at": 3 * L.MS, "n": rng.range(1, 900)}]
        if ty == "slow_close":
            src.append({"at": 10 * L.MS, "close": True})
        else:
            src.append({"at": 3 * D * L.MS, "close": True})
        at = rng.range(20, max(30, D - 30)) * L.MS + rng.range(1, 999)
        base = {"dir": rng.choice(["upstream", "downstream"]), "chain": [tx], "src": src, "horizon": 3600 * 1000 * L.MS, "seed": 20000 + i}
        withop = dict(base, ops=[{"at": at, "op": "update", "name": "x", "body": rng.choice(BAD_BODIES[ty])}])
        pairs.append((base, withop))
    flat = [c for p in pairs for c in p]
    res = L.run_impl(ctx, flat, "c06_traffic")
    fails, judged = [], 0
    for k, (base, withop) in enumerate(pairs):
        r0, r1 = res[2 * k], res[2 * k + 1]
        if not r0 or not r1 or "crash" in r0 or r0.get("hang") or r1.get("hang"):
            if r1 and "crash" in r1:
                fails.append(("crash", "the process crashed on a rejected toxic update during traffic", {"kind": "failing-input", "case": withop, "observed": r1}))
            continue
        ops = r1.get("ops") or []
        if not ops or not ops[0].get("err"):
            continue                                    # the body was accepted after all: not a rejected request
        judged += 1
        if (r0["writes"], r0["closed"], r0["total"]) != (r1["writes"], r1["closed"], r1["total"]):
            fails.append(("rejected-but-traffic-changed",
                          "a toxic update answered with an error (%s) changed the treatment of a live connection: without the request the receiver saw "
                          "%s, closed %s; with it %s, closed %s" % (ops[0]["err"][:60], json.dumps(r0["writes"])[:100], r0["closed"], json.dumps(r1["writes"])[:100], r1["closed"]),
                          {"kind": "failing-input", "link": True, "case": withop, "observed": r1, "without_the_request": r0}))
    return fails, {"traffic_pairs": len(pairs), "traffic_pairs_judged": judged}


def conflicting_creates(ctx):
    """requests that are rejected because they conflict with one that is being served at the same moment: k creates of one name on k
    different ports released together; every create answered with an error must leave nothing behind - its listen address refuses
    connections and the listing shows the winner only (conc harness of C16, judged here for 'a rejected request changes nothing')"""
    import os
    rng = C.Rng(ctx.seed).fork("C06conc")
    base = C.free_port_base("c06conc", 40)
    if not getattr(ctx, "_h_built", False):
        C.go_build_harness(ctx, "h")
        ctx._h_built = True
    h = os.path.join(C.BUILD, "h")
    cases = []
    for r in range(3):
        k = rng.range(4, 8)
        ps = [base + r * 10 + j for j in range(k)]
        cases.append({"setup": [], "batch": [{"method": "POST", "path": "/proxies", "ua": "",
                                              "body": json.dumps({"name": "p", "listen": "127.0.0.1:%d" % ps[j], "upstream": "u:1"})} for j in range(k)],
                      "probes": ["127.0.0.1:%d" % x for x in ps], "rounds": 25 if ctx.tier == "quick" else 400, "churn": [], "ports": ps})
    fin, fout = os.path.join(C.BUILD, "c06_conc_in.json"), os.path.join(C.BUILD, "c06_conc_out.json")
    json.dump({"cases": [{k: v for k, v in c.items() if k != "ports"} for c in cases]}, open(fin, "w"))
    if os.path.exists(fout):
        os.remove(fout)
    rc, out = C.sh([h, "-mode", "conc", "-in", fin, "-out", fout], env=C.GOENV, timeout=600)
    if rc != 0 or not os.path.exists(fout):
        return [("crash", "the process crashed during concurrent creates: " + out[-300:], {"kind": "failing-input", "conc": True, "cases": cases})], {}
    res = json.load(open(fout))
    fails, rounds = [], 0
    for c, rds in zip(cases, res):
        for ri, rd in enumerate(rds):
            rounds += 1
            if rd.get("stuck"):
                continue
            sts = sorted(x["status"] for x in rd["batch"])
            if sts.count(201) != 1 or any(x not in (201, 409) for x in sts):
                fails.append(("duplicate-create-accepted",
                              "round %d: %d creates of one proxy name released together were answered %s: duplicates yield 409, exactly one create succeeds"
                              % (ri, len(sts), sts), {"kind": "failing-input", "conc": True, "case": c, "observed": rd}))
                break
            for j, rq in enumerate(rd["batch"]):
                addr = "127.0.0.1:%d" % c["ports"][j]
                if rq["status"] >= 400 and (rd.get("probes") or {}).get(addr):
                    fails.append(("rejected-create-left-a-listener",
                                  "round %d: a create of proxy 'p' on %s was answered %d while another create of that name was being served, but %s "
                                  "accepts connections afterwards (statuses %s); the listing shows %s"
                                  % (ri, addr, rq["status"], addr, sorted(x["status"] for x in rd["batch"]), rd["final"][:120]),
                                  {"kind": "failing-input", "conc": True, "case": c, "observed": rd}))
                    break
            if fails:
                break
        if fails:
            break
    return fails, {"concurrent_conflicting_create_rounds": rounds}


def as_if_never_made(ctx, proof):
    """'exactly what they were before the request', beyond what a listing shows: a state, a request built to be rejected, then follow-up
    requests that address the same thing by name (read it, send the corrected request, change it, remove it) - run alongside the same
    sequence without the rejected request; whenever the request was answered with an error the follow-ups must be answered identically
    and the final configurations must be equal"""
    rng = C.Rng(ctx.seed).fork("C06ghost")
    n = (60 if ctx.tier == "quick" else 2000) * (1 if proof["build_ok"] else 3)
    pairs, stats = [], {}
    for i in range(n):
        g = G.Gen(rng, G.port_base(i % 5))
        ty = rng.choice([t for t in G.TYPES if t != "noop"])
        f0 = A.TOXIC_FIELDS[ty][0]
        ty2 = rng.choice([t for t in G.TYPES if t != "noop"])
        setup = [A.req("POST", "/proxies", A.J({"name": "a", "listen": g.L[0], "upstream": "u1:1"})),
                 A.req("POST", "/proxies/a/toxics", A.J({"type": ty2, "name": "t1", "stream": "downstream",
                                                        "attributes": {f: 20 for f in A.TOXIC_FIELDS[ty2]}}))]
        good_attrs = {f: rng.choice([3, 300]) for f in A.TOXIC_FIELDS[ty]}
        kind = rng.choice(["toxic_create_illtyped_attr", "toxic_create_illtyped_attr", "toxic_create_bad_stream", "toxic_create_bad_toxicity",
                           "toxic_update_illtyped_attr", "proxy_create_illtyped", "proxy_create_no_upstream", "proxy_update_illtyped"])
        stats[kind] = stats.get(kind, 0) + 1
        stream = rng.choice(["upstream", "downstream"])
        if kind.startswith("toxic_create"):
            body = {"type": ty, "name": "lag", "stream": stream, "attributes": dict(good_attrs)}
            if kind == "toxic_create_illtyped_attr":
                body["attributes"][f0] = rng.choice(["300", [1], True, {"x": 1}])
            elif kind == "toxic_create_bad_stream":
                body["stream"] = "sideways"
            else:
                body["toxicity"] = "much"
            r = A.req("POST", "/proxies/a/toxics", A.J(body))
            follow = [A.req("GET", "/proxies/a/toxics/lag"),
                      A.req("POST", "/proxies/a/toxics", A.J({"type": ty, "name": "lag", "stream": stream, "attributes": good_attrs})),
                      A.req("GET", "/proxies/a/toxics"),
                      A.req(rng.choice(["POST", "PATCH"]), "/proxies/a/toxics/lag", A.J({"attributes": {f0: 77}})),
                      A.req("DELETE", "/proxies/a/toxics/lag"), A.req("DELETE", "/proxies/a/toxics/lag")]
        elif kind == "toxic_update_illtyped_attr":
            f2 = A.TOXIC_FIELDS[ty2][0]
            r = A.req(rng.choice(["POST", "PATCH"]), "/proxies/a/toxics/t1", A.J({"attributes": {f2: rng.choice(["x", [2], False])}, "toxicity": 0}))
            follow = [A.req("GET", "/proxies/a/toxics/t1"), A.req("POST", "/proxies/a/toxics/t1", A.J({"attributes": {f2: 41}})),
                      A.req("GET", "/proxies/a/toxics/t1"), A.req("DELETE", "/proxies/a/toxics/t1"), A.req("GET", "/proxies/a/toxics")]
        elif kind.startswith("proxy_create"):
            body = {"name": "n", "listen": g.L[1], "upstream": "u2:2"}
            if kind == "proxy_create_illtyped":
                body[rng.choice(["enabled", "upstream", "listen"])] = rng.choice([5, [1], {"a": 1}])
            else:
                del body["upstream"]
            r = A.req("POST", "/proxies", A.J(body))
            follow = [A.req("GET", "/proxies/n"), A.req("POST", "/proxies", A.J({"name": "n", "listen": g.L[1], "upstream": "u2:2"})),
                      A.req("GET", "/proxies/n"), A.req("DELETE", "/proxies/n"), A.req("DELETE", "/proxies/n")]
        else:
            r = A.req(rng.choice(["POST", "PATCH"]), "/proxies/a", A.J({"upstream": "u9:9", "enabled": rng.choice(["no", 3, [True]])}))
            follow = [A.req("GET", "/proxies/a"), A.req("POST", "/proxies/a", A.J({"upstream": "u3:3"})), A.req("GET", "/proxies/a"),
                      A.req("GET", "/proxies/a/toxics")]
        pairs.append(({"reqs": setup + follow, "env": g.env, "group": i % 5}, {"reqs": setup + [r] + follow, "env": g.env, "group": i % 5}, len(setup), kind))
    flat = [c for p in pairs for c in p[:2]]
    res = A.run_impl(ctx, flat, "c06_ghost")
    fails, judged = [], 0
    for k, (without, withr, ns, kind) in enumerate(pairs):
        r0, r1 = res[2 * k], res[2 * k + 1]
        if isinstance(r1, dict) and "crash" in r1:
            fails.append(("crash", "the process crashed on a rejected request: " + r1["crash"][-200:], {"kind": "failing-input", "api": True, "case": withr}))
            continue
        if not isinstance(r0, list) or not isinstance(r1, list) or len(r1) != len(r0) + 1:
            continue
        st = r1[ns].get("status", 0)
        if st < 400 or st >= 500:
            continue                        # accepted after all, or the bind class the property exempts
        judged += 1
        for j in range(ns, len(r0)):
            a, b = r0[j], r1[j + 1]
            if (a.get("status"), A.canon_payload(a.get("body") or "")) != (b.get("status"), A.canon_payload(b.get("body") or "")) or \
               A.canon_payload(a.get("proxies") or "") != A.canon_payload(b.get("proxies") or ""):
                q = without["reqs"][j]
                fails.append(("rejected-but-changed",
                              "a request answered %d (%s) left a trace: afterwards %s %s is answered %s %s - without the rejected request it is answered %s %s"
                              % (st, kind, q["method"], q["path"], b.get("status"), (b.get("body") or "")[:90].strip(), a.get("status"), (a.get("body") or "")[:90].strip()),
                              {"kind": "failing-input", "api": True, "case": withr, "observed": r1, "without_the_request": r0}))
                break
    stats.update({"as_if_never_made_pairs": len(pairs), "as_if_never_made_judged": judged})
    return fails, stats


def side(ctx, proof):
    f1, c1 = traffic_cases(ctx, proof)
    f2, c2 = conflicting_creates(ctx)
    f3, c3 = as_if_never_made(ctx, proof)
    c1.update(c2)
    c1.update(c3)
    return f1 + f2 + f3, c1


def run(ctx):
    return G.run_api_property(
        ctx, PID, gen_cases, oracle,
        classify=lambda w: "rejected-but-changed" if "answered" in w else "other",
        rule="a populated state (2 proxies, 1-3 toxics of random types) followed by 4-25 requests, most of them built to be rejected: "
             "for every struct the decoder targets, bodies valid in all fields but one (either order), wrong shapes, bad names/types/streams, "
             "unknown proxies and toxics, unresolvable addresses; after every answer >= 400 GET /proxies must equal GET /proxies before; "
             "plus creates of one name on 4-8 different ports released together (the rejected ones must leave no listener); "
             "non-trivial = more than one request; distinct by JSON",
        assumptions=["the configuration shown by GET /proxies includes every toxic's attributes and toxicity, which are the fields the running "
                     "stages read (same object); treatment of traffic: links holding data or a deadline get a rejected toxic update and are compared, "
                     "observation by observation, with the same link run without the request",
                     "exception by design: a 500 of update/populate/reset (listen address cannot be resolved or bound)"],
        side_findings=side)


def replay(ctx, path):
    rp = json.load(open(path))
    if rp.get("kind") != "failing-input":
        print("replay file names a broken obligation, not an input:", rp.get("what"))
        return 1
    if rp.get("conc"):
        fails, cov = conflicting_creates(ctx)       # schedule dependent: the family is re-run
        if fails:
            print("VIOLATION property=%s replay=%s" % (PID, path))
            print("  what:", fails[0][1])
            return 1
        print("replay passes on the current tree (%s)" % cov)
        return 0
    if rp.get("link"):
        base = {k: v for k, v in rp["case"].items() if k != "ops"}
        r0, r1 = L.run_impl(ctx, [base, rp["case"]], "c06_replay", procs=1)
        print("without the request:", json.dumps({k: r0.get(k) for k in ("writes", "closed", "total")})[:600])
        print("with the request:   ", json.dumps({k: r1.get(k) for k in ("writes", "closed", "total", "ops")})[:800])
        if (r0["writes"], r0["closed"], r0["total"]) != (r1["writes"], r1["closed"], r1["total"]) and (r1.get("ops") or [{}])[0].get("err"):
            print("VIOLATION property=%s replay=%s" % (PID, path))
            return 1
        print("replay passes on the current tree")
        return 0
    r = A.run_impl(ctx, [rp["case"]], PID.lower() + "_replay", procs=1)[0]
    w = oracle(rp["case"], r)
    print("observed:", json.dumps(r)[:1500])
    if w:
        print("VIOLATION property=%s replay=%s" % (PID, path))
        print("  what:", w[1])
        return 1
    print("replay passes on the current tree")
    return 0

"""C19 — the Go client and the CLI do what the API would do, and nothing else."""
import json
import os
import re
from concurrent.futures import ThreadPoolExecutor

from . import api as A
from . import common as C
from . import p_C05 as G

PID = "C19"
TYPES = ["latency", "bandwidth", "slicer", "slow_close", "timeout", "limit_data"]


def attrs_for(rng, ty):
    # includes integers that float32 cannot represent (2^24+1, ...): attribute values are int64 on the wire
    return {f: rng.choice([1, 20, 300, 4096, 16777217, 100000001, 2147483647]) for f in A.TOXIC_FIELDS[ty] if rng.chance(2, 3)}


class Tracker:
    """what the harness believes the server holds, from the documented meaning of each operation (independent of Api.v):
    only used to pick meaningful operations and to build the raw request an operation denotes"""
    def __init__(self):
        self.enabled = {}
        self.toxics = {}


def gen_case(rng, base, cli):
    L = ["127.0.0.1:%d" % base, "127.0.0.1:%d" % (base + 1), "127.0.0.1:%d" % (base + 2)]
    env = [(L[0], base), (L[1], base + 1), (L[2], base + 2)]
    if rng.chance(1, 3):
        # the second proxy listens on every local address, written the short way (":port"): the library and the CLI pass it on as it is
        L[1] = ":%d" % (base + 1)
        env[1] = (L[1], (base + 1, L[1], "[::]:%d" % (base + 1)))
        env.append(("[::]:%d" % (base + 1), (base + 1, "[::]:%d" % (base + 1), "[::]:%d" % (base + 1))))   # what a handle read back sends
    names = ["a", "b"]
    if rng.chance(1, 4):
        # names with characters that are special in URLs: a space must travel percent-encoded, a '+' stands for itself - and the two
        # names are different proxies
        names = rng.choice([["db replica", "db+replica"], ["a b", "b"], ["x+y", "x y"]])
    ops, raws = [], []
    tr = Tracker()

    fresh = {}   # name -> the kept handle (from create/save/populate) still carries the server's listen/upstream

    def add(op, raw):
        if op["op"] in ("create", "save_new"):
            fresh[op["name"]] = True
        elif op["op"] == "populate":
            for e in op["entries"]:
                fresh[e["name"]] = True
        elif op["op"] in ("retarget", "delete") or (op["op"] == "cli" and op["args"][0] in ("create", "delete")):
            fresh[op.get("name") or op["args"][-1]] = False
        if op.get("via") == "kept" and not fresh.get(op.get("name")):
            op["via"] = "get"      # a stale handle would re-send old addresses: that is the caller's data, not the operation's
        ops.append(op)
        raws.append(raw)

    for _ in range(rng.range(6, 22)):
        n = rng.choice(names)
        k = rng.below(100)
        if k < 14:
            li, up = L[names.index(n)], rng.choice(["u1:1", "u2:2"])
            if cli and rng.chance(1, 2):
                add({"op": "cli", "args": ["create", "-l", li, "-u", up, n]},
                    A.req("POST", "/proxies", A.J({"name": n, "listen": li, "upstream": up, "enabled": True})))
            elif rng.chance(1, 3):
                en = rng.chance(1, 2)
                add({"op": "save_new", "name": n, "listen": li, "upstream": up, "enabled": en},
                    A.req("POST", "/proxies", A.J({"name": n, "listen": li, "upstream": up, "enabled": en})))
            else:
                add({"op": "create", "name": n, "listen": li, "upstream": up},
                    A.req("POST", "/proxies", A.J({"name": n, "listen": li, "upstream": up, "enabled": True})))
        elif k < 24:
            entries = []
            for m in rng.choice([[names[0]], [names[0], names[1]], [names[1]]]):
                entries.append({"name": m, "listen": L[names.index(m)], "upstream": rng.choice(["u1:1", "u2:2"]), "enabled": rng.chance(3, 4)})
            add({"op": "populate", "entries": entries},
                A.req("POST", "/populate", A.J([dict(e, toxics=None) for e in entries])))
        elif k < 40:
            what = rng.choice(["enable", "disable"])
            via = rng.choice(["get", "map", "kept", "kept"])
            if cli and rng.chance(1, 3):
                add({"op": "cli", "args": ["toggle", n], "toggle": n}, ("toggle", n))
            else:
                add({"op": what, "name": n, "via": via}, A.req("POST", "/proxies/" + n, A.J({"enabled": what == "enable"})))
        elif k < 46:
            up = rng.choice(["u1:1", "u2:2", "u3:3"])
            add({"op": "retarget", "name": n, "via": "get", "upstream": up}, A.req("POST", "/proxies/" + n, A.J({"upstream": up})))
        elif k < 52:
            if cli and rng.chance(1, 2):
                add({"op": "cli", "args": ["delete", n]}, A.req("DELETE", "/proxies/" + n))
            else:
                add({"op": "delete", "name": n, "via": rng.choice(["get", "kept"])}, A.req("DELETE", "/proxies/" + n))
        elif k < 70:
            ty = rng.choice(TYPES)
            tn = rng.choice(["t1", "t2", ""])
            stream = rng.choice(["upstream", "downstream", ""])
            tox = rng.choice([-1, 0, 0.25, 0.5, 1])
            at = attrs_for(rng, ty)
            body = {"name": tn, "type": ty, "toxicity": 1 if tox == -1 else tox, "attributes": at}
            if cli and rng.chance(1, 2):
                args = ["toxic", "add", "-t", ty]
                if tn:
                    args += ["-n", tn]
                stream_cli = "downstream"
                if stream == "upstream":
                    args += ["-u"]
                    stream_cli = "upstream"
                elif stream == "downstream" and rng.chance(1, 2):
                    args += ["-d"]
                clitox = None if tox == -1 else tox
                if clitox is not None:
                    args += ["-tox", repr(clitox)]
                for kk, vv in at.items():
                    args += ["-a", "%s=%d" % (kk, vv)]
                body = {"name": tn, "type": ty, "stream": stream_cli, "toxicity": 1 if clitox is None else clitox, "attributes": at}
                add({"op": "cli", "args": args + [n]}, A.req("POST", "/proxies/%s/toxics" % n, A.J(body)))
            else:
                if stream:
                    body["stream"] = stream
                add({"op": "add_toxic", "name": n, "via": rng.choice(["client", "get"]), "toxic": tn, "type": ty, "stream": stream,
                     "toxicity": tox, "attrs": at}, A.req("POST", "/proxies/%s/toxics" % n, A.J(body)))
        elif k < 86:
            tn = rng.choice(["t1", "t2", "latency_downstream", "nope"])
            tox = rng.choice([-1, -1, 0, 0.5, 1])
            ty = rng.choice(TYPES)
            at = attrs_for(rng, ty)
            body = {"attributes": at}
            if tox != -1:
                body["toxicity"] = tox
            if cli and rng.chance(1, 2):
                args = ["toxic", "update", "-n", tn]
                if tox != -1:
                    args += ["-tox", repr(tox)]
                for kk, vv in at.items():
                    args += ["-a", "%s=%d" % (kk, vv)]
                add({"op": "cli", "args": args + [n], "unspecified_toxicity": tox == -1, "toxic_ref": (n, tn)},
                    A.req("PATCH", "/proxies/%s/toxics/%s" % (n, tn), A.J(body)))
            else:
                add({"op": "update_toxic", "name": n, "via": rng.choice(["client", "get"]), "toxic": tn, "toxicity": tox, "attrs": at,
                     "unspecified_toxicity": tox == -1, "toxic_ref": (n, tn)},
                    A.req("PATCH", "/proxies/%s/toxics/%s" % (n, tn), A.J(body)))
        elif k < 92:
            tn = rng.choice(["t1", "t2", "nope"])
            if cli and rng.chance(1, 2):
                add({"op": "cli", "args": ["toxic", "remove", "-n", tn, n]}, A.req("DELETE", "/proxies/%s/toxics/%s" % (n, tn)))
            else:
                add({"op": "remove_toxic", "name": n, "via": rng.choice(["client", "get"]), "toxic": tn},
                    A.req("DELETE", "/proxies/%s/toxics/%s" % (n, tn)))
        elif k < 95:
            add({"op": "reset"}, A.req("POST", "/reset"))
        else:
            add(rng.choice([{"op": "list"}, {"op": "get", "name": n}, {"op": "toxics", "name": n, "via": rng.choice(["get", "kept", "kept", "map"])}, {"op": "toxics", "name": n, "via": "kept"}] +
                           ([{"op": "cli", "args": ["list"]}, {"op": "cli", "args": ["inspect", n]}] if cli else [])), None)
    return {"ops": ops, "raws": raws, "env": env}


def gen_cases(ctx, rng):
    cases = []
    stats = {"library_sequences": 0, "cli_sequences": 0, "operations": 0, "cli_invocations": 0}
    nlib, ncli = (110, 16) if ctx.tier == "quick" else (4000, 400)
    base = C.free_port_base("client", 40, 20000, 30000)
    for i in range(nlib + ncli):
        cli = i >= nlib
        c = gen_case(rng, base + (i % 6) * 4, cli)
        c["group"] = i % 6
        cases.append(c)
        stats["cli_sequences" if cli else "library_sequences"] += 1
        stats["operations"] += len(c["ops"])
        stats["cli_invocations"] += sum(1 for o in c["ops"] if o["op"] == "cli")
    # directed: what an update leaves alone - a toxic with a fractional toxicity and several attributes, then updates that
    # specify only some of them, through the library and through the CLI
    for j in range(12 if ctx.tier == "quick" else 200):
        b = base + (j % 6) * 4
        ty = rng.choice(["latency", "slicer"])
        tox0 = rng.choice([0, 0.25, 0.5])
        at0 = {f: rng.choice([5, 60, 700]) for f in A.TOXIC_FIELDS[ty]}
        if j % 3 == 2:
            # values that binary floating point cannot hold: what an update does not mention must come back digit for digit
            for f in A.TOXIC_FIELDS[ty]:
                at0[f] = rng.choice([9007199254740993, (1 << 62) + 1, 4611686018427387905, 123456789012345679])
            stats["directed_above_2_53"] = stats.get("directed_above_2_53", 0) + 1
        f1 = rng.choice(A.TOXIC_FIELDS[ty])
        newv = rng.choice([1, 33, 9000])
        L0 = "127.0.0.1:%d" % b
        ops = [{"op": "create", "name": "a", "listen": L0, "upstream": "u1:1"},
               {"op": "add_toxic", "name": "a", "via": "client", "toxic": "t1", "type": ty, "stream": "downstream", "toxicity": tox0, "attrs": at0}]
        raws = [A.req("POST", "/proxies", A.J({"name": "a", "listen": L0, "upstream": "u1:1", "enabled": True})),
                A.req("POST", "/proxies/a/toxics", A.J({"name": "t1", "type": ty, "stream": "downstream", "toxicity": tox0, "attributes": at0}))]
        if j % 2:
            ops.append({"op": "cli", "args": ["toxic", "update", "-n", "t1", "-a", "%s=%d" % (f1, newv), "a"],
                        "unspecified_toxicity": True, "toxic_ref": ("a", "t1")})
        else:
            ops.append({"op": "update_toxic", "name": "a", "via": rng.choice(["client", "get"]), "toxic": "t1", "toxicity": -1, "attrs": {f1: newv},
                        "unspecified_toxicity": True, "toxic_ref": ("a", "t1")})
        raws.append(A.req("PATCH", "/proxies/a/toxics/t1", A.J({"attributes": {f1: newv}})))
        ops.append({"op": "get", "name": "a"})
        raws.append(None)
        cases.append({"ops": ops, "raws": raws, "env": [(L0, b)], "group": j % 6})
        stats["directed_unspecified"] = stats.get("directed_unspecified", 0) + 1
    # directed: one handle kept by the caller and used for several read-backs while the toxics behind it change type at a position
    # (the first of two removed, one replaced by another type, an upstream toxic added in front): every Toxics() equals the server's state
    for j in range(10 if ctx.tier == "quick" else 200):
        b = base + (j % 6) * 4
        L0 = "127.0.0.1:%d" % b
        tys = rng.choice([["latency", "bandwidth"], ["slicer", "timeout"], ["bandwidth", "latency", "slow_close"]])
        ops = [{"op": "create", "name": "a", "listen": L0, "upstream": "u1:1"}]
        raws = [A.req("POST", "/proxies", A.J({"name": "a", "listen": L0, "upstream": "u1:1", "enabled": True}))]
        for k, ty in enumerate(tys):
            at = {f: rng.choice([5, 64, 2500]) for f in A.TOXIC_FIELDS[ty]}
            ops.append({"op": "add_toxic", "name": "a", "via": "kept", "toxic": "t%d" % k, "type": ty, "stream": "downstream", "toxicity": 1, "attrs": at})
            raws.append(A.req("POST", "/proxies/a/toxics", A.J({"name": "t%d" % k, "type": ty, "stream": "downstream", "toxicity": 1, "attributes": at})))
        ops.append({"op": "toxics", "name": "a", "via": "kept"}); raws.append(None)
        how = rng.choice(["remove_first", "replace_first", "add_upstream"])
        if how in ("remove_first", "replace_first"):
            ops.append({"op": "remove_toxic", "name": "a", "via": "kept", "toxic": "t0"}); raws.append(A.req("DELETE", "/proxies/a/toxics/t0"))
        if how != "remove_first":
            ty = rng.choice([t for t in ["limit_data", "slicer", "timeout"] if t not in tys])
            st = "upstream" if how == "add_upstream" else "downstream"
            at = {f: rng.choice([7, 900]) for f in A.TOXIC_FIELDS[ty]}
            ops.append({"op": "add_toxic", "name": "a", "via": "kept", "toxic": "n", "type": ty, "stream": st, "toxicity": 1, "attrs": at})
            raws.append(A.req("POST", "/proxies/a/toxics", A.J({"name": "n", "type": ty, "stream": st, "toxicity": 1, "attributes": at})))
        ops.append({"op": "toxics", "name": "a", "via": "kept"}); raws.append(None)
        ops.append({"op": "toxics", "name": "a", "via": "kept"}); raws.append(None)
        cases.append({"ops": ops, "raws": raws, "env": [(L0, b)], "group": j % 6})
        stats["directed_kept_handle_readbacks"] = stats.get("directed_kept_handle_readbacks", 0) + 1
    return cases, stats


def run_impl(ctx, cases):
    if not getattr(ctx, "_h_built", False):
        C.go_build_harness(ctx, "h")
        ctx._h_built = True
    cli_bin = os.path.join(C.BUILD, "toxiproxy-cli")
    rc, out = C.sh([C.GO_DEFAULT, "build", "-o", cli_bin, "./cmd/cli"], cwd=C.REPO, env=C.GOENV, timeout=600)
    if rc != 0:
        raise C.BuildError("toxiproxy-cli does not build:\n" + out[-2000:])
    h = os.path.join(C.BUILD, "h")
    groups = sorted(set(c["group"] for c in cases))
    parts = [[i for i, c in enumerate(cases) if c["group"] == g] for g in groups]

    def one(k):
        fin = os.path.join(C.BUILD, "c19_in_%d.json" % k)
        fout = os.path.join(C.BUILD, "c19_out_%d.json" % k)
        json.dump({"cases": [[{kk: vv for kk, vv in o.items() if kk not in ("toggle", "unspecified_toxicity", "toxic_ref")}
                               for o in cases[i]["ops"]] for i in parts[k]], "cli_bin": cli_bin}, open(fin, "w"))
        if os.path.exists(fout):
            os.remove(fout)
        rc2, o = C.sh([h, "-mode", "client", "-in", fin, "-out", fout], env=C.GOENV, timeout=900)
        return k, (json.load(open(fout)) if rc2 == 0 and os.path.exists(fout) else None), o

    results = [None] * len(cases)
    with ThreadPoolExecutor(max_workers=len(parts)) as ex:
        for k, r, o in ex.map(one, range(len(parts))):
            for j, i in enumerate(parts[k]):
                results[i] = r[j] if r else {"crash": o[-1500:]}
    return results


def resolve_raws(case, res):
    """toggle needs the state before it: taken from the previous observed GET /proxies"""
    raws = []
    prev = "{}"
    for op, raw, r in zip(case["ops"], case["raws"], res):
        if isinstance(raw, tuple) and raw[0] == "toggle":
            st = {p["name"]: p for p in (A.canon_payload(prev)[1] if A.canon_payload(prev)[0] == "proxies" else [])}
            cur = st.get(raw[1])
            raw = A.req("POST", "/proxies/" + raw[1], A.J({"enabled": not cur["enabled"]})) if cur else A.req("GET", "/proxies/" + raw[1])
        raws.append(raw)
        prev = r["proxies"]
    return raws


def oracle(case, res):
    if isinstance(res, dict):
        return (0, "the process crashed: " + res.get("crash", "")[-300:])
    prev = ("proxies", [])
    for i, (op, r) in enumerate(zip(case["ops"], res)):
        after = A.canon_payload(r["proxies"])
        if op.get("unspecified_toxicity") and not r["err"]:
            n, tn = op["toxic_ref"]
            b = {t["name"]: t for p in prev[1] if p["name"] == n for t in p["toxics"]}
            a = {t["name"]: t for p in (after[1] if after[0] == "proxies" else []) if p["name"] == n for t in p["toxics"]}
            if tn in b and tn in a and a[tn]["toxicity"] != b[tn]["toxicity"]:
                return (i, "toxic update without a toxicity changed the server-side toxicity from %s to %s (%s)"
                        % (b[tn]["toxicity"], a[tn]["toxicity"], "cli" if op["op"] == "cli" else "library"))
        if op["op"] in ("enable", "disable") and not r["err"]:
            st = {p["name"]: p for p in (after[1] if after[0] == "proxies" else [])}
            if op["name"] in st and st[op["name"]]["enabled"] != (op["op"] == "enable"):
                return (i, "%s() returned success but the server has enabled=%s" % (op["op"].capitalize(), st[op["name"]]["enabled"]))
        if op["op"] in ("enable", "disable") and r["err"] and "409" in r["err"]:
            return (i, "%s() on a proxy handle sent a create (409 proxy already exists) instead of an update (handle via %s)"
                    % (op["op"].capitalize(), op.get("via")))
        if r.get("value") and op["op"] in ("get", "create", "enable", "disable", "retarget", "save_new"):
            v = r["value"]
            st = {p["name"]: p for p in (after[1] if after[0] == "proxies" else [])}
            if isinstance(v, dict) and v.get("name") in st:
                p = st[v["name"]]
                if (v.get("listen"), v.get("upstream"), v.get("enabled")) != (p["listen"], p["upstream"], p["enabled"]):
                    return (i, "the value returned by %s differs from the server's state" % op["op"])
        if op["op"] == "toxics" and not r["err"] and isinstance(r.get("value"), list):
            # what the library reads back equals the server's state (numbers compared as the library's float64 holds them)
            srv = [t for p in (after[1] if after[0] == "proxies" else []) if p["name"] == op["name"] for t in p["toxics"]]
            norm = lambda t: (t.get("name"), t.get("type"), t.get("stream"), float(t.get("toxicity") or 0),
                              sorted((k, float(v)) for k, v in (dict(t["attrs"]) if "attrs" in t else (t.get("attributes") or {})).items()))
            got = sorted(norm(t) for t in r["value"])
            want = sorted(norm(t) for t in srv)
            if got != want:
                return (i, "Toxics() on a %s handle returned %s but the server holds %s" % (op.get("via"), json.dumps(got)[:300], json.dumps(want)[:300]))
        # errors are surfaced: when the last answer the server gave while the operation ran was a rejection, the operation reports
        # a failure (library: an error; CLI: a non-zero exit) - and it does not report one when every answer was a success
        served = r.get("served") or []
        if served and op["op"] not in ("toxics",):
            if served[-1] >= 400 and not r["err"]:
                return (i, "%s: the server answered %d to the operation's last request, yet the operation reported success%s"
                        % (op["op"] if op["op"] != "cli" else "cli " + " ".join(op.get("args", [])[:4]), served[-1],
                           (" (printed: %s)" % r.get("out", "").strip()[:80]) if op["op"] == "cli" else ""))
            if all(200 <= c < 300 for c in served) and r["err"] and op["op"] != "cli":
                return (i, "%s: every answer of the server was a success (%s), yet the operation reported: %s" % (op["op"], served, r["err"][:120]))
        prev = after if after[0] == "proxies" else ("proxies", [])
    return None


def model_replay(ctx, cases, results, idx):
    def one(s):
        part = idx[s:s + 40]
        body = "From Coq Require Import String.\nFrom TP Require Import Model.Prelude Extracted Model.Json Model.Api Run.ApiRun.\n"
        for j, i in enumerate(part):
            raws = resolve_raws(cases[i], results[i])
            steps = []
            for raw, r in zip(raws, results[i]):
                after = A.canon_payload(r["proxies"])
                al = after[1] if after[0] == "proxies" else []
                steps.append("(mkCStep %s %s %s)" % ("None" if raw is None else "(Some %s)" % A.coq_req(raw), C.coq_bool(bool(r["err"])),
                                                      C.coq_list([A.coq_proxy(p) for p in al])))
                if raw is not None and raw["path"] == "/reset" and r["err"]:
                    break
            body += "Eval vm_compute in (%d, replay_client %s [] 0 %s).\n" % (j, A.coq_env(cases[i]["env"]), C.coq_list(steps))
        rc, out = C.coq_eval(ctx, "c19_%d" % (s // 40), body)
        if rc != 0:
            k = out.find("Error")
            raise C.BuildError("model evaluation failed:\n" + out[max(0, k - 200):k + 900])
        res = {}
        ms = re.findall(r"= \((\d+), \((-?\d+), (\d+)\)\)", " ".join(out.split()))
        if len(ms) != len(part):
            raise C.BuildError("model evaluation: expected %d results, got %d" % (len(part), len(ms)))
        for a, b, c in ms:
            if int(b) >= 0:
                res[part[int(a)]] = (int(b), int(c))
        return res

    bad = {}
    with ThreadPoolExecutor(max_workers=10) as ex:
        for r in ex.map(one, range(0, len(idx), 40)):
            bad.update(r)
    return bad


def run(ctx):
    verdict = C.Verdict(ctx)
    rng = C.Rng(ctx.seed).fork(PID)
    proof = C.proof_step(ctx, verdict, PID, extra_targets=["Run/ApiRun.vo"])
    cases, stats = gen_cases(ctx, rng)
    results = run_impl(ctx, cases)
    ctx.log("ran %d operation sequences (%d operations) through client library and CLI" % (len(cases), stats["operations"]))
    failing = []
    for i, (c, r) in enumerate(zip(cases, results)):
        w = oracle(c, r)
        if w:
            failing.append((w[0], i, w))
    failing.sort()
    model_ok = os.path.exists(os.path.join(C.COQ, "Run", "ApiRun.vo"))
    idx = [i for i, r in enumerate(results) if isinstance(r, list)]
    representable = []
    for i in idx:
        try:
            for r in results[i]:
                A.coq_payload(A.canon_payload(r["proxies"]))
            representable.append(i)
        except Exception:
            pass
    mism = model_replay(ctx, cases, results, representable) if model_ok else {}
    ctx.log("oracle failures: %d, model mismatches: %d" % (len(failing), len(mism)))
    seen = set()
    for _, i, (ri, w) in failing:
        key = ("cli-update-resets-toxicity" if "without a toxicity" in w and "(cli)" in w else
               "update-changes-unspecified-toxicity" if "without a toxicity" in w else
               "populate-handle-sends-create" if "409" in w else
               "success-but-not-applied" if "returned success" in w else "returned-value" if "value returned" in w else
               "rejection-not-surfaced" if "reported success" in w else "spurious-error" if "every answer of the server was a success" in w else
               "read-back" if "returned" in w and "server holds" in w else "crash" if "crashed" in w else "other")
        if key in seen:
            continue
        seen.add(key)
        verdict.add(key, w, {"kind": "failing-input", "ops": cases[i]["ops"][:ri + 1], "env": cases[i]["env"],
                             "observed": results[i][:ri + 1] if isinstance(results[i], list) else results[i]})
    if not verdict.findings_with_input():
        if not proof["build_ok"]:
            verdict.add("proof-broken", "proof obligation of C19 no longer checks (%s) and no failing operation sequence was found among %d"
                        % (", ".join(proof.get("broken", [])), len(cases)),
                        {"kind": "proof-broken", "broken": proof.get("broken"), "build_tail": proof.get("build_tail")}, has_input=False)
        if mism:
            i = sorted(mism, key=lambda j: len(cases[j]["ops"]))[0]
            ri, code = mism[i]
            # confirm on the implementation alone: send the raw requests the operations denote to a fresh server and compare its state
            # after request ri with the state the client / CLI path left behind
            confirmed = None
            try:
                raws = resolve_raws(cases[i], results[i])[:ri + 1]
                if all(r is not None for r in raws):
                    direct = A.run_impl(ctx, [{"reqs": raws, "env": cases[i]["env"], "group": cases[i].get("group", 0)}], "c19_direct")[0]
                    if isinstance(direct, list) and len(direct) == len(raws):
                        via_http = A.canon_payload(direct[-1]["proxies"])
                        via_client = A.canon_payload(results[i][ri]["proxies"])
                        if via_http != via_client:
                            confirmed = {"server_state_after_the_http_requests": direct[-1]["proxies"], "server_state_after_the_operations": results[i][ri]["proxies"]}
            except Exception as e:                      # the confirmation is best effort; without it the finding stays a broken correspondence
                ctx.notes.append("direct confirmation failed: %r" % (e,))
            what = ("an operation's effect differs from the effect of the request it denotes on %d sequences (operation %d of the smallest: %s, code %d = %s)"
                    % (len(mism), ri, json.dumps(cases[i]["ops"][ri])[:200], code, {1: "error surfaced / not surfaced", 3: "server state"}.get(code)))
            if confirmed:
                verdict.add("differs-from-request", what + "; confirmed by sending the denoted HTTP requests to a fresh server: the states differ",
                            {"kind": "failing-input", "differential": True, "ops": cases[i]["ops"][:ri + 1], "raws": raws, "env": cases[i]["env"],
                             "group": cases[i].get("group", 0), "observed": results[i][:ri + 1], **confirmed})
            else:
                verdict.add("correspondence-broken", what,
                            {"kind": "correspondence", "ops": cases[i]["ops"][:ri + 1], "env": cases[i]["env"], "observed": results[i][:ri + 1]},
                            has_input=False)
    rc, nviol = verdict.finish()
    mid = cases[len(cases) // 2]
    cov = {
        "obligations": proof["obligations"], "discharged": proof["discharged"],
        "checker_cmd": "coq_makefile + make Properties/C19.vo (coqc 8.16.1), Print Assumptions per theorem",
        "theorems": proof["theorems"], "print_assumptions": proof["assumptions"],
        "evaluations": len(cases), "distinct_nontrivial": len(set(json.dumps(c["ops"], sort_keys=True) for c in cases)),
        "rule": "sequences of 6-22 operations of the Go client library (create/save/enable/disable through fresh, listed and kept handles, "
                "delete, add/update/remove toxic through client and handle, populate, reset) and of toxiproxy-cli built from the tree; each "
                "operation is mapped to the raw request it denotes and replayed through the API model; distinct by JSON",
        "traces_validated_against_impl": len(representable) if model_ok else 0, "model_mismatches": len(mism), "oracle_failures": len(failing),
        "input_distribution": stats,
        "samples": [{"ops": mid["ops"][:5], "observed": [{"err": r["err"], "proxies": r["proxies"][:150]} for r in (results[len(cases) // 2] or [])[:5]]
                     if isinstance(results[len(cases) // 2], list) else None}],
    }
    C.write_evidence(ctx, cov, ["urfave/cli flag parsing is trusted; the CLI runs with stdout not a terminal",
                                "the API model api_step is tied to the server by the C05 correspondence"], nviol)
    return rc


def replay(ctx, path):
    rp = json.load(open(path))
    if rp.get("kind") != "failing-input":
        print("replay file names a broken obligation:", rp.get("what"))
        return 1
    if rp.get("differential"):
        c = {"ops": rp["ops"], "raws": rp["raws"], "env": rp["env"], "group": rp.get("group", 0)}
        r = run_impl(ctx, [c])[0]
        d = A.run_impl(ctx, [{"reqs": rp["raws"], "env": rp["env"], "group": rp.get("group", 0)}], "c19_direct")[0]
        a, b = A.canon_payload(r[-1]["proxies"]), A.canon_payload(d[-1]["proxies"])
        print("after the operations:    ", r[-1]["proxies"][:600])
        print("after the HTTP requests: ", d[-1]["proxies"][:600])
        if a != b:
            print("VIOLATION property=%s replay=%s" % (PID, path))
            return 1
        print("replay passes on the current tree")
        return 0
    c = {"ops": rp["ops"], "raws": [None] * len(rp["ops"]), "env": rp["env"], "group": 0}
    r = run_impl(ctx, [c])[0]
    w = oracle(c, r)
    print("observed:", json.dumps(r)[:1500])
    if w:
        print("VIOLATION property=%s replay=%s" % (PID, path))
        return 1
    print("replay passes on the current tree")
    return 0

"""Shared machinery for the HTTP API properties (C05, C06, C17): JSON values, the in-process API
harness (h -mode api), canonicalisation of responses, replay through coq/Run/ApiRun.v."""
import json
import os
import re
from concurrent.futures import ThreadPoolExecutor
from fractions import Fraction

from . import common as C

TOXIC_FIELDS = {"bandwidth": ["rate"], "latency": ["latency", "jitter"], "limit_data": ["bytes"], "noop": [],
                "reset_peer": ["timeout"], "slicer": ["average_size", "size_variation", "delay"],
                "slow_close": ["delay"], "timeout": ["timeout"]}


# ------------------------------------------------------------ JSON values
def J(x):
    """python value -> tagged json (ints stay ints, floats must be dyadic k/1024)"""
    if x is None:
        return ("null",)
    if isinstance(x, bool):
        return ("bool", x)
    if isinstance(x, int):
        return ("int", x)
    if isinstance(x, float):
        n = x * 1024
        assert n == int(n), x
        return ("frac", int(n)) if int(n) % 1024 else ("frac", int(n))
    if isinstance(x, str):
        return ("str", x)
    if isinstance(x, (list, tuple)) and not (x and x[0] in ("null", "bool", "int", "frac", "str", "arr", "obj") and isinstance(x, tuple)):
        return ("arr", [J(v) for v in x])
    if isinstance(x, dict):
        return ("obj", [(k, J(v)) for k, v in x.items()])
    return x


def frac_text(n1024):
    f = Fraction(n1024, 1024)
    s = "%.10f" % float(f)
    s = s.rstrip("0")
    if s.endswith("."):
        s += "0"
    return s


def text(j):
    t = j[0]
    if t == "null":
        return "null"
    if t == "bool":
        return "true" if j[1] else "false"
    if t == "int":
        return str(j[1])
    if t == "frac":
        return frac_text(j[1])
    if t == "str":
        return json.dumps(j[1])
    if t == "arr":
        return "[" + ",".join(text(v) for v in j[1]) + "]"
    if t == "obj":
        return "{" + ",".join(json.dumps(k) + ":" + text(v) for k, v in j[1]) + "}"
    raise ValueError(j)


def cstr(s):
    return '"%s"%%string' % s.replace('"', '""')


def coq_json(j):
    t = j[0]
    if t == "null":
        return "JNull"
    if t == "bool":
        return "(JBool %s)" % C.coq_bool(j[1])
    if t == "int":
        return "(JInt %s)" % C.coq_z(j[1])
    if t == "frac":
        return "(JFrac %s)" % C.coq_z(j[1])
    if t == "str":
        return "(JStr %s)" % cstr(j[1])
    if t == "arr":
        return "(JArr %s)" % C.coq_list([coq_json(v) for v in j[1]])
    if t == "obj":
        return "(JObj %s)" % C.coq_list(["(%s, %s)" % (cstr(k), coq_json(v)) for k, v in j[1]])
    raise ValueError(j)


# ------------------------------------------------------------ requests
def req(method, path, body=None, browser=False, raw=None):
    """body: tagged json | None (no body -> empty) ; raw: literal text for syntactically broken bodies"""
    return {"method": method, "path": path, "json": body, "raw": raw, "browser": browser}


def wire(r):
    body = r["raw"] if r["raw"] is not None else (text(r["json"]) if r["json"] is not None else "")
    # a request names things by path segment: characters that cannot stand for themselves in a URL path (a space, ...) are
    # percent-encoded on the wire; '+' and the other sub-delimiters stand for themselves
    from urllib.parse import quote
    path = "/".join(quote(seg, safe="+:@~.-_!$&'()*,;=") for seg in r["path"].split("/"))
    return {"method": r["method"], "path": path, "body": body, "ua": "Mozilla/5.0 (X11)" if r["browser"] else ""}


def coq_req(r):
    segs = [s for s in r["path"].strip("/").split("/")]
    if r["raw"] is not None:
        b = "BBad" if r["raw"].strip() else "BEmpty"
    elif r["json"] is None:
        b = "BEmpty"
    else:
        b = "(BJson %s)" % coq_json(r["json"])
    return "(mkReq %s %s %s %s)" % (r["method"], C.coq_list([cstr(s) for s in segs]), b, C.coq_bool(r["browser"]))


# ------------------------------------------------------------ responses -> canonical values
def canon_toxic(t):
    a = t.get("attributes") or {}
    return {"name": t.get("name"), "type": t.get("type"), "stream": t.get("stream"),
            "toxicity": t.get("toxicity"), "attrs": [(k, a[k]) for k in a]}


def canon_proxy(p):
    return {"name": p.get("name"), "listen": p.get("listen"), "upstream": p.get("upstream"), "enabled": p.get("enabled"),
            "toxics": [canon_toxic(t) for t in (p.get("toxics") or [])]}


def parse_body(s):
    try:
        return json.loads(s, parse_float=lambda x: Fraction(x), parse_int=int)
    except Exception:
        return None


def canon_payload(body):
    v = parse_body(body) if body.strip() else None
    if v is None:
        return ("none",)
    if isinstance(v, list):
        return ("toxics", [canon_toxic(t) for t in v])
    if isinstance(v, dict):
        if "proxies" in v:
            return ("populate", [canon_proxy(p) for p in (v["proxies"] or [])], v.get("error"))
        if "error" in v:
            return ("err", v.get("error"), v.get("status"))
        if "version" in v:
            return ("version",)
        if "attributes" in v and "type" in v:
            return ("toxic", canon_toxic(v))
        if "listen" in v and "toxics" in v:
            return ("proxy", canon_proxy(v))
        if all(isinstance(x, dict) and "listen" in x for x in v.values()):
            return ("proxies", sorted([canon_proxy(p) for p in v.values()], key=lambda p: p["name"]))
    return ("other", body[:100])


def tox1024(x):
    f = Fraction(x) * 1024
    if f.denominator != 1:
        return None
    return int(f)


def coq_toxic(t):
    down = (t["stream"] or "").lower() == "downstream"
    return "(mkToxic %s %s %s %s %s %s)" % (cstr(t["name"]), cstr(t["type"]), cstr(t["stream"]), C.coq_bool(down),
                                          C.coq_z(tox1024(t["toxicity"])),
                                          C.coq_list(["(%s, %s)" % (cstr(k), C.coq_z(int(v))) for k, v in t["attrs"]]))


def coq_proxy(p):
    ups = [t for t in p["toxics"] if (t["stream"] or "").lower() != "downstream"]
    downs = [t for t in p["toxics"] if (t["stream"] or "").lower() == "downstream"]
    return "(mkProxy %s %s %s %s %s %s)" % (cstr(p["name"]), cstr(p["listen"]), cstr(p["upstream"]), C.coq_bool(bool(p["enabled"])),
                                          C.coq_list([coq_toxic(t) for t in ups]), C.coq_list([coq_toxic(t) for t in downs]))


def coq_payload(pl):
    k = pl[0]
    if k == "none" or k == "other":
        return "PNone"
    if k == "err":
        return "PErr"
    if k == "version":
        return "PVersion"
    if k == "proxy":
        return "(PProxy %s)" % coq_proxy(pl[1])
    if k == "proxies":
        return "(PProxies %s)" % C.coq_list([coq_proxy(p) for p in pl[1]])
    if k == "toxic":
        return "(PToxic %s)" % coq_toxic(pl[1])
    if k == "toxics":
        return "(PToxics %s)" % C.coq_list([coq_toxic(t) for t in pl[1]])
    if k == "populate":
        return "(PPopulate %s)" % C.coq_list([coq_proxy(p) for p in pl[1]])
    raise ValueError(pl)


def coq_env(env):
    """env entries: (listen string, None | port | (port, resolved string, bound string))"""
    out = []
    for k, v in env:
        if v is None:
            out.append("(%s, None)" % cstr(k))
        else:
            port, res, bound = (v, k, k) if isinstance(v, int) else v
            out.append("(%s, Some (mkAddr %d %s %s))" % (cstr(k), port, cstr(res), cstr(bound)))
    return C.coq_list(out)


# ------------------------------------------------------------ running
def run_impl(ctx, cases, tag, procs=6):
    """cases: list of {"reqs": [req...], "env": [(listen, port|None)]}; returns per case list of responses (or None if the process died)"""
    if not getattr(ctx, "_h_built", False):
        C.go_build_harness(ctx, "h")
        ctx._h_built = True
    h = os.path.join(C.BUILD, "h")
    n = len(cases)
    if n == 0:
        return []
    # cases of one port group run in one process, one after the other (they share listen ports)
    groups = sorted(set(c.get("group", 0) for c in cases))
    parts = [[i for i in range(n) if cases[i].get("group", 0) == g] for g in groups]
    procs = len(parts)

    def one(k):
        fin = os.path.join(C.BUILD, "%s_api_in_%d.json" % (tag, k))
        fout = os.path.join(C.BUILD, "%s_api_out_%d.json" % (tag, k))
        with open(fin, "w") as f:
            json.dump({"cases": [{"reqs": [wire(r) for r in cases[i]["reqs"]],
                                  "probes": [] if cases[i].get("noprobe") else [a for a, port in (cases[i].get("env") or []) if port is not None]}
                                 for i in parts[k]]}, f)
        if os.path.exists(fout):
            os.remove(fout)
        rc, out = C.sh([h, "-mode", "api", "-in", fin, "-out", fout], env=C.GOENV, timeout=900)
        if rc != 0 or not os.path.exists(fout):
            return k, None, out
        return k, json.load(open(fout)), out

    results = [None] * n
    with ThreadPoolExecutor(max_workers=procs) as ex:
        for k, r, out in ex.map(one, range(procs)):
            if r is None:
                for i in parts[k]:
                    results[i] = {"crash": out[-1500:]}
            else:
                for i, x in zip(parts[k], r):
                    results[i] = x
    return results


def coq_steps(case, resps):
    steps = []
    for r, resp in zip(case["reqs"], resps):
        if resp["status"] < 0 or resp.get("status2") == -1:
            break                  # the request (or the listing after it) never returned: judged by the oracle, nothing to compare
        cut = r["path"] == "/reset" and resp["status"] >= 500
        # a failing reset stops at a proxy chosen by Go's map iteration order: its status is compared, the rest of the sequence is not
        after = canon_payload(resp["proxies"])
        after_l = after[1] if after[0] == "proxies" else []
        steps.append("(mkStep %s %d %s %s %s)" % (coq_req(r), resp["status"], coq_payload(canon_payload(resp["body"])),
                                                  C.coq_list([coq_proxy(p) for p in after_l]), C.coq_bool(cut)))
        if cut:
            break
    return C.coq_list(steps)


def representable(resps):
    """model comparison needs toxicity values in 1024ths and integer attributes"""
    try:
        for resp in resps:
            for body in (resp["body"], resp["proxies"]):
                pl = canon_payload(body)
                coq_payload(pl)
        return True
    except Exception:
        return False


def model_replay(ctx, cases, results, idx, tag, shard=60):
    """returns {case index: (request index, code)} for disagreeing cases"""
    def one(s):
        part = idx[s:s + shard]
        body = "From Coq Require Import String.\nFrom TP Require Import Model.Prelude Extracted Model.Json Model.Api Run.ApiRun.\n"
        for j, i in enumerate(part):
            body += "Eval vm_compute in (%d, replay %s [] 0 %s).\n" % (j, coq_env(cases[i]["env"]), coq_steps(cases[i], results[i]))
        rc, out = C.coq_eval(ctx, "%s_%d" % (tag, s // shard), body)
        if rc != 0:
            k = out.find("Error")
            raise C.BuildError("model evaluation failed:\n" + (out[max(0, k - 200):k + 900] if k >= 0 else out[-1500:]))
        res = {}
        flat = " ".join(out.split())
        ms = re.findall(r"= \((\d+), \((-?\d+), (\d+)\)\)", flat)
        if len(ms) != len(part):
            raise C.BuildError("model evaluation: expected %d results, got %d\n%s" % (len(part), len(ms), out[-800:]))
        for a, b, c in ms:
            if int(b) >= 0:
                res[part[int(a)]] = (int(b), int(c))
        return res

    bad = {}
    with ThreadPoolExecutor(max_workers=12) as ex:
        for r in ex.map(one, range(0, len(idx), shard)):
            bad.update(r)
    return bad


def model_response(ctx, case, upto, tag="apitrace"):
    """what the model answers to request number `upto` of the case (for replay files)"""
    body = "From Coq Require Import String.\nFrom TP Require Import Model.Prelude Extracted Model.Json Model.Api Run.ApiRun.\n"
    reqs = C.coq_list([coq_req(r) for r in case["reqs"][:upto + 1]])
    body += "Eval vm_compute in (let '(rs, s) := api_run %s [] %s in (last rs (mkResp 0 PNone), s)).\n" % (coq_env(case["env"]), reqs)
    rc, out = C.coq_eval(ctx, tag, body)
    return " ".join(out.split())[:2500]

"""C11 — limit_data delivers exactly the first N bytes of a connection."""
from . import common as C
from . import links as L

PID = "C11"


def compositions(total, rng, k):
    """k random compositions of total plus the two extreme ones"""
    res = [[total], [1] * total] if total <= 12 else [[total]]
    for _ in range(k):
        parts, left = [], total
        while left > 0:
            p = rng.range(1, left)
            parts.append(p)
            left -= p
        res.append(parts)
    return [r for r in res if r]


def gen_cases(ctx, rng):
    cases = []
    stats = {"N": {}, "payload_vs_N": {"below": 0, "equal": 0, "above": 0}, "multi_link": 0}
    Ns = [-(1 << 63), -1, 0, 1, 2, 99, 100, 101, 32767, 32768, 32769, 1000000]
    reps = 2 if ctx.tier == "quick" else 30
    for N in Ns:
        base = max(N, 0)
        for total in sorted(set([max(1, base - 2), max(1, base - 1), max(1, base), base + 1, base + 2, rng.range(1, 3 * base + 50)])):
            if total > 200000:
                total = rng.range(1, 70000)
            for parts in compositions(total, rng, reps)[:reps + 2]:
                if len(parts) > 60:
                    continue
                t = rng.range(0, 5) * L.MS
                src = []
                for p in parts:
                    src.append({"at": t, "n": p})
                    t += rng.choice([0, 1, 3]) * L.MS + rng.range(0, 1000)
                src.append({"at": t + rng.range(1, 30) * L.MS, "close": True})
                pre = [rng.choice([L.tx("noop", name="n%d" % j), L.tx("latency", name="l%d" % j, latency=rng.choice([0, 2]), jitter=0),
                                   L.tx("slicer", name="s%d" % j, average_size=rng.choice([7, 100, 5000]), size_variation=0, delay=0)])
                       for j in range(rng.range(0, 2))]
                post = [rng.choice([L.tx("noop", name="m%d" % j), L.tx("latency", name="k%d" % j, latency=rng.choice([0, 4]), jitter=0)])
                        for j in range(rng.range(0, 1))]
                c = {"dir": "downstream", "chain": pre + [L.tx("limit_data", name="d", bytes=N)] + post, "src": src,
                     "horizon": 3600 * 1000 * L.MS, "seed": len(cases)}
                if rng.chance(1, 6):
                    c["links"] = rng.range(2, 3)      # the budget is per connection
                    stats["multi_link"] += 1
                cases.append(L.cap_case(c, 1500))
                stats["N"][str(N)] = stats["N"].get(str(N), 0) + 1
                stats["payload_vs_N"]["below" if total < base else ("equal" if total == base else "above")] += 1
    # updates of the toxic's own limit between chunks (the counter carries over, the new limit applies at once)
    nupd = 40 if ctx.tier == "quick" else 1500
    for i in range(nupd):
        N0 = rng.choice([0, 1, 50, 100, 1000])
        src, ops, t = [], [], 5 * L.MS
        for _ in range(rng.range(2, 6)):
            src.append({"at": t, "n": rng.range(1, 120)})
            t += 10 * L.MS
            if rng.chance(1, 2):
                ops.append({"at": t - 5 * L.MS, "op": "update", "name": "d",
                            "body": '{"attributes": {"bytes": %d}}' % rng.choice([0, 1, 30, 70, 100, 200, 5000])})
        src.append({"at": t + 5 * L.MS, "close": True})
        cases.append({"dir": "downstream", "chain": [L.tx("limit_data", name="d", bytes=N0)], "src": src, "ops": ops,
                      "horizon": 3600 * 1000 * L.MS, "seed": 5000 + i, "links": rng.choice([1, 1, 2])})
        stats["limit_updates"] = stats.get("limit_updates", 0) + 1
    # reconfiguration of neighbouring toxics between chunks: the budget already used must carry over
    nnb = 60 if ctx.tier == "quick" else 2000
    for i in range(nnb):
        N = rng.choice([1, 10, 50, 100, 1000])
        nb = lambda nm: rng.choice([L.tx("noop", name=nm), L.tx("latency", name=nm, latency=0, jitter=0)])
        pre = [nb("p%d" % j) for j in range(rng.range(0, 2))]
        post = [nb("q%d" % j) for j in range(rng.range(0, 2))]
        chain = pre + [L.tx("limit_data", name="d", bytes=N)] + post
        src, ops, t, k = [], [], 5 * L.MS, 0
        names = [x["name"] for x in pre + post]
        for _ in range(rng.range(2, 7)):
            src.append({"at": t, "n": rng.range(1, max(2, N // 2 + 3))})
            t += 10 * L.MS
            r = rng.below(4)
            if r == 0:
                k += 1
                ops.append({"at": t - 5 * L.MS, "op": "add", "toxic": nb("a%d" % k)})
                names.append("a%d" % k)
            elif r == 1 and names:
                nm = names.pop(rng.below(len(names)))
                ops.append({"at": t - 5 * L.MS, "op": "remove", "name": nm})
            elif r == 2 and names:
                ops.append({"at": t - 5 * L.MS, "op": "update", "name": rng.choice(names), "body": '{"toxicity": 1}'})
        src.append({"at": t + 5 * L.MS, "close": True})
        cases.append({"dir": rng.choice(["upstream", "downstream"]), "chain": chain, "src": src, "ops": ops, "neighbours": True,
                      "horizon": 3600 * 1000 * L.MS, "seed": 9000 + i, "links": rng.choice([1, 1, 2])})
        stats["neighbour_reconfigurations"] = stats.get("neighbour_reconfigurations", 0) + 1
    # a receiver (or a slow neighbour behind the toxic) that takes longer than 5 s over a piece: nothing may be given up on
    for i in range(16 if ctx.tier == "quick" else 400):
        N = rng.choice([100, 1000, 5000, 1000000])
        slow = rng.choice([5500, 7000, 12000]) * L.MS
        post = [L.tx("bandwidth", name="b", rate=1)] if rng.chance(1, 3) else []
        src, t = [], 1 * L.MS
        for _ in range(rng.range(2, 5)):
            src.append({"at": t, "n": rng.range(50, 700)})
            t += rng.choice([1, 10]) * L.MS
        src.append({"at": 200000 * L.MS, "close": True})
        c = {"dir": "downstream", "chain": [L.tx("limit_data", name="d", bytes=N)] + post, "src": src, "horizon": 3600 * 1000 * L.MS, "seed": 12000 + i,
             "slow_receiver": True}
        if not post:
            c["sink_delay"] = [slow]
        else:
            c["src"] = [{"at": 1 * L.MS, "n": 9000}, {"at": 2 * L.MS, "n": 400}, {"at": 200000 * L.MS, "close": True}]   # 9 s through 1 KB/s
        cases.append(c)
        stats["slow_receiver"] = stats.get("slow_receiver", 0) + 1
    # the toxic ADDED while several connections are already open (every one of them gets a budget of its own), and connections opened
    # afterwards: each receiver gets exactly the first N bytes of ITS connection
    for i in range(16 if ctx.tier == "quick" else 400):
        N = rng.choice([50, 100, 1000])
        nl = rng.range(2, 3)
        at = 5 * L.MS + 333
        srcs, starts = [], []
        for k in range(nl):
            late = k == nl - 1 and rng.chance(1, 3)
            st = 20 * L.MS if late else 0
            t, src = max(st, at) + rng.range(1, 20) * L.MS + k * 777, []
            for _ in range(rng.range(2, 4)):
                src.append({"at": t, "n": rng.range(N // 3, N)})
                t += rng.range(1, 30) * L.MS
            src.append({"at": t + 500 * L.MS, "close": True})
            srcs.append(src)
            starts.append(st)
        cases.append({"dir": rng.choice(["upstream", "downstream"]), "chain": [L.tx("noop", name="n")] if rng.chance(1, 2) else [], "src": srcs[0], "srcs": srcs,
                      "links": nl, "link_start": starts, "ops": [{"at": at, "op": "add", "toxic": L.tx("limit_data", name="d", bytes=N)}],
                      "horizon": 3600 * 1000 * L.MS, "seed": 9500 + i, "added_limit": N})
        stats["added_while_connections_open"] = stats.get("added_while_connections_open", 0) + 1
    return cases, stats


def expected_with_updates(case):
    """independent reference for limit updates: per chunk, forward min(len, max(0, N_current - counter))"""
    N = case["chain"][0]["attributes"]["bytes"]
    ops = sorted(case.get("ops") or [], key=lambda o: o["at"])
    counter, closed = 0, False
    import json as _j
    for e in case["src"]:
        if e.get("close") or closed:
            break
        for o in ops:
            if o["at"] <= e["at"] and not o.get("_done"):
                N = _j.loads(o["body"])["attributes"]["bytes"]
                o["_done"] = True
        take = min(e["n"], max(0, N - counter))
        counter += take
        if N - counter <= 0:
            closed = True
    for o in ops:
        o.pop("_done", None)
    return counter


def oracle(case, res):
    if res is None or "crash" in res:
        return "the process crashed: " + (res or {}).get("crash", "")[-300:]
    if "added_limit" in case:
        N = case["added_limit"]
        sent = sum(e.get("n", 0) for e in case["src"])
        want = min(N, sent)
        if not res["prefix_ok"] or res["total"] != want:
            return ("limit_data of %d bytes added while several connections were open: this connection's receiver got %d bytes, expected the first "
                    "min(N, total) = %d of its own stream (the budget is per connection)" % (N, res["total"], want))
        return None
    ds = [t for t in case["chain"] if t["type"] == "limit_data"]
    if not ds:
        return None
    N = ds[0]["attributes"]["bytes"]
    sent = sum(e.get("n", 0) for e in case["src"])
    if case.get("slow_receiver"):
        want = min(max(N, 0), sent)
        if not res["prefix_ok"] or res["total"] != want:
            return "with a receiver that takes longer than 5 s per piece: receiver got %d bytes (prefix: %s), expected min(N, total) = %d" % (res["total"], res["prefix_ok"], want)
        return None
    if case.get("neighbours"):
        want = min(max(N, 0), sent)
        if not res["prefix_ok"] or res["total"] != want:
            return "with neighbouring toxics added/removed/updated between chunks: receiver got %d bytes, expected min(N, total) = %d (N = %d)" % (res["total"], want, N)
        if sent >= N and res["closed"] < 0:
            return "limit reached but the connection was not closed"
        return None
    if case.get("ops"):
        if len(case["chain"]) != 1:
            return None
        want = expected_with_updates(case)
        if not res["prefix_ok"] or res["total"] != want:
            return "with limit updates: receiver got %d bytes, expected %d" % (res["total"], want)
        return None
    want = min(max(N, 0), sent)
    if not res["prefix_ok"]:
        return "bytes received are not a prefix of the bytes sent"
    if res["total"] != want:
        return "receiver got %d bytes, expected exactly min(N, total) = %d (N = %d, sent %d)" % (res["total"], want, N, sent)
    if sent > 0 and sent >= max(N, 0) and res["closed"] < 0:
        return "limit reached but the connection was not closed"
    ws = res["writes"] or []
    if case["chain"][-1]["type"] == "limit_data" and sent >= max(N, 1) and ws and N > 0 and res["closed"] != ws[-1]["t"]:
        return "connection closed at %d ns, not with the N-th byte at %d ns" % (res["closed"], ws[-1]["t"])
    return None


def side(ctx, proof):
    from . import tcp as T
    return T.stable(lambda: T.limit_under_lock_runs(ctx, (6 if ctx.tier == "quick" else 120) * (1 if proof["build_ok"] else 3)))


def run(ctx):
    return L.run_link_property(
        ctx, PID, gen_cases, oracle,
        known_class=lambda c, r, w: "limit-wrap" if c.get("f11") and "with limit updates" in w else None,
        model_filter=lambda c: not c.get("ops"),
        classify=lambda w: "slow-receiver" if "longer than 5 s" in w else "neighbour-reconfiguration" if "neighbouring" in w else "limit-update" if "with limit updates" in w else "wrong-prefix" if ("expected exactly" in w or "prefix" in w) else ("close" if "closed" in w else "crash"),
        rule="N over {min64,-1,0,1,2,99,100,101,32767,32768,32769,10^6} x payload lengths N-2..N+2 and random x chunkings (whole, "
             "all-ones for short payloads, random compositions), limit_data behind/ahead of 0-2 preserving stages, 1-3 connections; plus updates of "
             "the limit between chunks, and add/remove/update of neighbouring toxics (before and behind limit_data) between chunks; "
             "non-trivial = payload reaches the limit; distinct by JSON",
        nontrivial=lambda c: bool(c.get("ops")) or sum(e.get("n", 0) for e in c["src"]) >= max(1, ([t for t in c["chain"] if t["type"] == "limit_data"] or [{"attributes": {"bytes": 1 << 62}}])[0]["attributes"]["bytes"]),
        assumptions=["histories with updates or neighbour reconfiguration are judged by the oracle (the executable model replays static chains); "
                     "the restart rule is theorem C11_restart and the regenerated fact state_created_only_for_new_stubs",
                     "known finding F11: the budget N - counter wraps for N near min64 after bytes were counted"],
        side_findings=side)


def replay(ctx, path):
    return L.replay_link(ctx, PID, path, oracle)

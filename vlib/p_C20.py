"""C20 — byte counters are exact and monotone."""
import json
import re

from . import common as C
from . import links as L
from . import tcp as T
from .p_C01 import gen_toxic

PID = "C20"


def gen_cases(ctx, rng):
    n = 120 if ctx.tier == "quick" else 3000
    cases = []
    stats = {"with_dropping_or_truncating": 0, "multi_link": 0, "zero_bytes": 0}
    for i in range(n):
        chain = [gen_toxic(rng, j) for j in range(rng.range(0, 3))]
        if rng.chance(1, 3):
            k = rng.choice(["limit_data", "timeout"])
            chain.insert(rng.range(0, len(chain)), L.tx("limit_data", name="d", bytes=rng.choice([0, 1, 100, 5000])) if k == "limit_data"
                         else L.tx("timeout", name="t", timeout=rng.choice([0, 20, 200])))
            stats["with_dropping_or_truncating"] += 1
        src = L.gen_src(rng, rng.range(0, 6), rng.choice([10, 300, 5000]), rng.choice([1, 50]) * L.MS)
        if sum(e.get("n", 0) for e in src) == 0:
            stats["zero_bytes"] += 1
        c = L.cap_case({"dir": rng.choice(["upstream", "downstream"]), "chain": chain, "src": src, "horizon": 3600 * 1000 * L.MS, "seed": i})
        if rng.chance(1, 5):
            c["links"] = rng.range(2, 3)
            stats["multi_link"] += 1
        cases.append(c)
    return cases, stats


def oracle(case, res):
    if res is None or "crash" in res:
        return "the process crashed: " + (res or {}).get("crash", "")[-300:]
    if "rx" not in res or res.get("rx") is None:
        return None
    nl = case.get("links", 1)
    if "tx" in res and res.get("more") is None and nl == 1:
        # single link: counters of the label tuple belong to this link alone
        if res["closed"] >= 0 and res["tx"] != res["total"]:
            return "sent counter is %d but %d bytes were written to the receiver" % (res["tx"], res["total"])
        if not res.get("leak") and res["rx"] != res["src_total"]:
            return "received counter is %d but %d bytes were read from the sender" % (res["rx"], res["src_total"])
    return None


# ---------------------------------------------------------------- labels: real proxies, real sockets, GET /metrics
def gen_label_history(rng, g):
    """a history of phases on one server: connections (sequential or concurrent) through one or two proxies, a scrape after each
    phase, and between phases an in-place update of upstream and/or listen address, a disable/enable, or nothing"""
    b = T.port_base(g)
    ups = [b, b + 1]
    listens = {"p": [b + 2, b + 3], "q": [b + 4, b + 5]}
    ops = [{"op": "upstream", "id": "u0", "port": ups[0], "mode": "echo"}, {"op": "upstream", "id": "u1", "port": ups[1], "mode": "echo"}]
    proxies = ["p"] + (["q"] if rng.chance(1, 3) else [])
    cfg = {}
    hist = []                                         # the abstract history the oracle and the model replay
    for name in proxies:
        cfg[name] = {"listen": listens[name][0], "up": ups[rng.below(2)]}
        ops.append(T.api("POST", "/proxies", {"name": name, "listen": "127.0.0.1:%d" % cfg[name]["listen"], "upstream": "127.0.0.1:%d" % cfg[name]["up"]}))
        hist.append({"ev": "config", "proxy": name, **cfg[name]})
    if rng.chance(1, 2):
        # toxics that neither drop nor truncate - among them toxics that are listed but switched off (toxicity 0), reset_peer included: a
        # connection they leave alone is counted like any other
        ops.append(T.api("POST", "/proxies/p/toxics", rng.choice([
            {"type": "latency", "attributes": {"latency": 5}},
            {"type": "reset_peer", "toxicity": 0, "stream": rng.choice(["upstream", "downstream"]), "attributes": {"timeout": 0}},
            {"type": "reset_peer", "toxicity": 0, "stream": "downstream", "attributes": {"timeout": 50}},
            {"type": "timeout", "toxicity": 0, "stream": rng.choice(["upstream", "downstream"]), "attributes": {"timeout": 1}},
            {"type": "limit_data", "toxicity": 0, "attributes": {"bytes": 1}},
            {"type": "slicer", "attributes": {"average_size": 1000, "size_variation": 0, "delay": 0}}])))
    cid = 0
    nph = rng.range(2, 4)
    for ph in range(nph):
        conns = []
        for _ in range(rng.range(1, 3)):
            name = rng.choice(proxies)
            cid += 1
            conns.append(("c%d" % cid, name, rng.choice([0, 1, 100, 5000, 40000])))
        concurrent = rng.chance(1, 2)
        seq = [[c] for c in conns] if not concurrent else [conns]
        for grp in seq:
            for c, name, n in grp:
                ops.append({"op": "dial", "id": c, "addr": "127.0.0.1:%d" % cfg[name]["listen"]})
                hist.append({"ev": "start", "conn": c, "proxy": name})
            for c, name, n in grp:
                if n:
                    ops.append({"op": "send", "id": c, "n": n})
            for c, name, n in grp:
                if n:
                    ops.append({"op": "recv", "id": c, "up": c, "n": n, "ms": 3000})
            if concurrent and rng.chance(1, 3) and ph + 1 < nph:
                # an update while these connections are open: they keep the labels they started with
                name = grp[0][1]
                cfg[name] = dict(cfg[name], up=ups[1] if cfg[name]["up"] == ups[0] else ups[0])
                ops.append(T.api("POST", "/proxies/" + name, {"upstream": "127.0.0.1:%d" % cfg[name]["up"]}))
                hist.append({"ev": "config", "proxy": name, **cfg[name], "while_open": True})
                # the update restarts the proxy and closes its connections: the open ones end here (the bytes relayed so far are counted)
            for c, name, n in grp:
                ops.append({"op": "close", "id": c})
                hist.append({"ev": "end", "conn": c, "bytes": n})
        ops.append({"op": "sleep", "ms": 120})
        ops.append({"op": "metrics"})
        hist.append({"ev": "scrape"})
        if ph + 1 < nph:
            name = rng.choice(proxies)
            k = rng.below(5)
            if k == 0:
                cfg[name] = dict(cfg[name], up=ups[1] if cfg[name]["up"] == ups[0] else ups[0])
                ops.append(T.api("POST", "/proxies/" + name, {"upstream": "127.0.0.1:%d" % cfg[name]["up"]}))
            elif k == 1:
                cfg[name] = dict(cfg[name], listen=[x for x in listens[name] if x != cfg[name]["listen"]][0])
                ops.append(T.api("POST", "/proxies/" + name, {"listen": "127.0.0.1:%d" % cfg[name]["listen"]}))
            elif k == 2:
                cfg[name] = {"listen": [x for x in listens[name] if x != cfg[name]["listen"]][0], "up": ups[1] if cfg[name]["up"] == ups[0] else ups[0]}
                ops.append(T.api("POST", "/proxies/" + name, {"listen": "127.0.0.1:%d" % cfg[name]["listen"], "upstream": "127.0.0.1:%d" % cfg[name]["up"]}))
            elif k == 3:
                ops.append(T.api("POST", "/proxies/" + name, {"enabled": False}))
                ops.append(T.api("POST", "/proxies/" + name, {"enabled": True}))
            if k <= 2:
                hist.append({"ev": "config", "proxy": name, **cfg[name]})
    return {"ops": ops, "group": g, "hist": hist}


KEY = re.compile(r'toxiproxy_proxy_(received|sent)_bytes_total\{direction="(\w+)",listener="([^"]*)",proxy="([^"]*)",upstream="([^"]*)"\}')


def expected_counters(hist):
    """independent oracle: every cleanly ended connection adds its bytes, in both directions (echo upstream), to the series labelled
    with the proxy's name, listen address and upstream AS THEY WERE WHEN THE CONNECTION STARTED; returns the expectation per scrape"""
    cfg, open_, tot, out = {}, {}, {}, []
    for e in hist:
        if e["ev"] == "config":
            cfg[e["proxy"]] = ("127.0.0.1:%d" % e["listen"], e["proxy"], "127.0.0.1:%d" % e["up"])
        elif e["ev"] == "start":
            open_[e["conn"]] = cfg[e["proxy"]]
        elif e["ev"] == "end":
            lab = open_.pop(e["conn"])
            for metric in ("received", "sent"):
                for d in ("upstream", "downstream"):
                    k = (metric, d) + lab
                    tot[k] = tot.get(k, 0) + e["bytes"]
        elif e["ev"] == "scrape":
            out.append(dict(tot))
    return out


def judge_labels(c, r):
    """None: holds; ("skip", why): inconclusive; (key, what): violated"""
    if T.env_broken(r):
        return ("skip", "ports taken")
    if isinstance(r, dict):
        return ("crash", "the process crashed during a metrics history")
    if any(x["op"] in ("dial", "send", "recv", "api") and not x.get("ok") for x in r):
        return ("skip", "a connection did not relay as scripted (not a clean end)")
    exp = expected_counters(c["hist"])
    obs = []
    for x in r:
        if x["op"] == "metrics":
            d = {}
            for k, v in (x.get("metrics") or {}).items():
                m = KEY.match(k)
                if m:
                    d[(m.group(1), m.group(2), m.group(3), m.group(4), m.group(5))] = int(v)
            obs.append(d)
    prev = {}
    for j, (e, o) in enumerate(zip(exp, obs)):
        for k in sorted(set(e) | set(o)):
            if e.get(k, 0) != o.get(k, 0):
                return ("labels", "scrape %d: %s_bytes_total{direction=%s, listener=%s, proxy=%s, upstream=%s} is %d, but the connections that started "
                        "while the proxy had these labels relayed %d bytes" % ((j + 1, k[0], k[1], k[2], k[3], k[4], o.get(k, 0), e.get(k, 0))))
            if o.get(k, 0) < prev.get(k, 0):
                return ("monotone", "scrape %d: counter %s decreased from %d to %d" % (j + 1, k, prev[k], o.get(k, 0)))
        prev = o
    return None


def coq_history(c, r):
    """the abstract history as [list mev] and the observed scrapes as [list (list (series * Z) * Z)]"""
    pid = {"p": 0, "q": 1}
    cid = lambda s: int(s[1:])
    evs = []
    for e in c["hist"]:
        if e["ev"] == "config":
            evs.append("MConfig %d %d %d" % (pid[e["proxy"]], e["listen"], e["up"]))
        elif e["ev"] == "start":
            evs.append("MStart %d %d" % (cid(e["conn"]), pid[e["proxy"]]))
        elif e["ev"] == "end":
            evs.append("MEnd %d %d %d %d %d" % ((cid(e["conn"]),) + (e["bytes"],) * 4))
        else:
            evs.append("MScrape")
    obs = []
    port = lambda a: int(a.rsplit(":", 1)[1])
    for x in r:
        if x["op"] == "metrics":
            kv, tot = [], 0
            for k, v in sorted((x.get("metrics") or {}).items()):
                m = KEY.match(k)
                if m and m.group(4) in pid:
                    kv.append("((%s, %s, (%d, %d, %d)), %d)" % (C.coq_bool(m.group(1) == "sent"), C.coq_bool(m.group(2) == "downstream"),
                                                               port(m.group(3)), pid[m.group(4)], port(m.group(5)), int(v)))
                    tot += int(v)
            obs.append("(%s, %d)" % (C.coq_list(kv), tot))
    return "%s %s" % (C.coq_list(evs), C.coq_list(obs))


def label_scenarios(ctx, proof):
    rng = C.Rng(ctx.seed).fork("C20labels")
    n = (18 if ctx.tier == "quick" else 600) * (1 if proof["build_ok"] else 4)
    cases = [gen_label_history(rng, i % 6) for i in range(n)]
    results = T.run_tcp(ctx, cases, "c20")
    fails, judged, scrapes, updates = [], [], 0, 0
    for i, (c, r) in enumerate(zip(cases, results)):
        v = judge_labels(c, r)
        if v and v[0] == "skip":
            continue
        judged.append(i)
        scrapes += sum(1 for e in c["hist"] if e["ev"] == "scrape")
        updates += sum(1 for e in c["hist"] if e["ev"] == "config") - 1
        if v:
            fails.append((v[0], v[1], {"kind": "failing-input", "tcp": True, "case": c, "observed": r}))
    fails.sort(key=lambda f: len(f[2]["case"]["ops"]))
    # the same histories through the counter model inside Coq
    mism = []
    comparable = [i for i in judged if not isinstance(results[i], dict)]
    if comparable and C.coq_make(ctx, ["Run/MetricsRun.vo"])[0]:
        for s0 in range(0, len(comparable), 150):
            part = comparable[s0:s0 + 150]
            body = "From TP Require Import Model.Prelude Model.Metrics Run.MetricsRun.\n"
            for j, i in enumerate(part):
                body += "Eval vm_compute in (%d, metrics_verdict %s).\n" % (j, coq_history(cases[i], results[i]))
            rc, out = C.coq_eval(ctx, "c20_metrics_%d" % (s0 // 150), body)
            if rc != 0:
                raise C.BuildError("counter model evaluation failed:\n" + out[-1500:])
            got = re.findall(r"=\s*\((\d+),\s*(-?\d+)\)", out)
            if len(got) != len(part):
                raise C.BuildError("counter model evaluation: expected %d results\n%s" % (len(part), out[-1500:]))
            mism += [(part[int(j)], int(v)) for j, v in got if int(v) != 0]
    failed_idx = set(id(f[2]["case"]) for f in fails)
    only_model = [(i, v) for i, v in mism if id(cases[i]) not in failed_idx]
    if only_model and not fails:
        i, v = only_model[0]
        fails.append(("labels-model", "the counter model and GET /metrics disagree at scrape %d of a history the oracle accepts (%d such histories)" % (v, len(only_model)),
                      {"kind": "failing-input", "tcp": True, "case": cases[i], "observed": results[i]}))
    return fails, {"label_histories": len(cases), "label_histories_judged": len(judged), "scrapes_compared": scrapes, "in_place_updates": updates,
                   "label_histories_replayed_in_coq": len(comparable), "label_model_mismatches": len(mism)}


def counters_under_lock(ctx, proof):
    """connection A's receiver does not read and a toxic request for that direction waits on A, holding the proxy's toxic lock; connection B
    of the same proxy carries a few bytes the other way and ends cleanly: once B's receiver has seen the end of the stream, both counters
    for B's direction have grown by exactly B's bytes (they may not wait for the lock either)"""
    rng = C.Rng(ctx.seed).fork("C20lock")
    cases = []
    for i in range((6 if ctx.tier == "quick" else 120) * (1 if proof["build_ok"] else 3)):
        g = i % 6
        b = T.port_base(g)
        up, px = b + 6, b + 7
        n = rng.choice([9, 700, 40000])
        ops = [{"op": "upstream", "id": "u", "port": up, "mode": "manual"},
               T.api("POST", "/proxies", {"name": "p", "listen": "127.0.0.1:%d" % px, "upstream": "127.0.0.1:%d" % up}),
               {"op": "dial", "id": "a", "addr": "127.0.0.1:%d" % px}, {"op": "upaccept", "id": "sa", "up": "u", "ms": 1000},
               {"op": "dial", "id": "b", "addr": "127.0.0.1:%d" % px}, {"op": "upaccept", "id": "sb", "up": "u", "ms": 1000},
               {"op": "flood", "id": "sa"}, {"op": "sleep", "ms": 400},
               dict(T.api("POST", "/proxies/p/toxics", {"type": "noop", "name": "l", "stream": "downstream", "attributes": {}}), ms=250)]
        mark = len(ops) - 1
        ops += [{"op": "send", "id": "b", "n": n}, {"op": "recv", "id": "sb", "up": "b", "n": n, "ms": 1500},
                {"op": "close", "id": "b", "how": "half"}, {"op": "recv", "id": "sb", "up": "b", "n": 1, "ms": 1500},
                {"op": "sleep", "ms": 150}, {"op": "metrics"}]
        cases.append({"ops": ops, "group": g, "n": n, "mark": mark, "listen": "127.0.0.1:%d" % px, "up": "127.0.0.1:%d" % up})
    results = T.run_tcp(ctx, cases, "c20l")
    fails, judged = [], 0
    for c, r in zip(cases, results):
        if T.env_broken(r) or isinstance(r, dict):
            continue
        if r[c["mark"]].get("status") != -1:
            continue                       # the request was not held up: nothing to judge
        if not (r[c["mark"] + 2].get("ok") and r[c["mark"] + 4].get("end") == "eof"):
            continue                       # B did not end cleanly in time (loaded machine)
        judged += 1
        m = r[-1].get("metrics") or {}
        got = {}
        for k, v in m.items():
            mm = KEY.match(k)
            if mm and mm.group(2) == "upstream":
                got[mm.group(1)] = int(v)
        if got.get("received", 0) != c["n"] or got.get("sent", 0) != c["n"]:
            fails.append(("counters-wait-for-lock", "connection B sent %d bytes upstream and ended cleanly (its receiver saw the end of the stream) while a toxic request "
                          "was waiting for another connection; 150 ms later received_bytes_total = %s and sent_bytes_total = %s for that direction"
                          % (c["n"], got.get("received", "(no series)"), got.get("sent", "(no series)")),
                          {"kind": "failing-input", "tcp": True, "case": c, "observed": r}))
    return fails, {"counters_under_lock_runs": len(cases), "counters_under_lock_judged": judged}


def side(ctx, proof):
    f1, c1 = T.stable(lambda: label_scenarios(ctx, proof))
    f2, c2 = T.stable(lambda: counters_under_lock(ctx, proof))
    c1.update(c2)
    return f1 + f2, c1


def run(ctx):
    return L.run_link_property(
        ctx, PID, gen_cases, oracle,
        classify=lambda w: "sent-counter" if "sent counter" in w else ("received-counter" if "received counter" in w else "crash"),
        rule="random chains of preserving toxics, a third of them with a limit_data or timeout toxic, 0-6 writes of 1 B-96 KiB then close, "
             "1-3 connections; counters read from the collectors after teardown; non-trivial = at least one byte sent; distinct by JSON; "
             "plus histories on real proxies and sockets (1-2 proxies, 2-4 phases of sequential or concurrent connections of 0 B-40 KB through "
             "an echo upstream, in-place updates of upstream / listen / both or disable+enable between and during phases) with GET /metrics "
             "after each phase compared series by series with the bytes relayed under each label set",
        nontrivial=lambda c: sum(e.get("n", 0) for e in c["src"]) > 0,
        assumptions=["Prometheus counters add float64 exactly below 2^53 bytes",
                     "a connection whose reader is left blocked (finding F7, C15) never reports `received`: not a clean end in the sense of the property",
                     "the label histories use toxics that neither drop nor truncate; dropping/truncating chains are judged on the link runs"],
        side_findings=side)


def replay(ctx, path):
    rp = json.load(open(path))
    if rp.get("tcp"):
        r = T.run_tcp(ctx, [rp["case"]], "c20_replay")[0]
        v = judge_labels(rp["case"], r)
        if v and v[0] != "skip":
            print("VIOLATION property=%s replay=%s" % (PID, path))
            print("  what:", v[1])
            return 1
        print("replay passes on the current tree" if not v else "replay inconclusive: " + v[1])
        return 0
    return L.replay_link(ctx, PID, path, oracle)

"""C20 — byte counters are exact and monotone."""
from . import common as C
from . import links as L
from .p_C01 import gen_toxic

PID = "C20"


def gen_cases(ctx, rng):
    n = 120 if ctx.tier == "quick" else 3000
    cases = []
    stats = {"with_dropping_or_truncating": 0, "multi_link": 0, "zero_bytes": 0}
    for i in range(n):
        chain = [gen_toxic(rng, j) for j in range(rng.range(0, 3))]
        if rng.chance(1, 3):
            k = rng.choice(["limit_data", "timeout"])
            chain.insert(rng.range(0, len(chain)), L.tx("limit_data", name="d", bytes=rng.choice([0, 1, 100, 5000])) if k == "limit_data"
                         else L.tx("timeout", name="t", timeout=rng.choice([0, 20, 200])))
            stats["with_dropping_or_truncating"] += 1
        src = L.gen_src(rng, rng.range(0, 6), rng.choice([10, 300, 5000]), rng.choice([1, 50]) * L.MS)
        if sum(e.get("n", 0) for e in src) == 0:
            stats["zero_bytes"] += 1
        c = L.cap_case({"dir": rng.choice(["upstream", "downstream"]), "chain": chain, "src": src, "horizon": 3600 * 1000 * L.MS, "seed": i})
        if rng.chance(1, 5):
            c["links"] = rng.range(2, 3)
            stats["multi_link"] += 1
        cases.append(c)
    return cases, stats


def oracle(case, res):
    if res is None or "crash" in res:
        return "the process crashed: " + (res or {}).get("crash", "")[-300:]
    if "rx" not in res or res.get("rx") is None:
        return None
    nl = case.get("links", 1)
    if "tx" in res and res.get("more") is None and nl == 1:
        # single link: counters of the label tuple belong to this link alone
        if res["closed"] >= 0 and res["tx"] != res["total"]:
            return "sent counter is %d but %d bytes were written to the receiver" % (res["tx"], res["total"])
        if not res.get("leak") and res["rx"] != res["src_total"]:
            return "received counter is %d but %d bytes were read from the sender" % (res["rx"], res["src_total"])
    return None


def run(ctx):
    return L.run_link_property(
        ctx, PID, gen_cases, oracle,
        classify=lambda w: "sent-counter" if "sent counter" in w else ("received-counter" if "received counter" in w else "crash"),
        rule="random chains of preserving toxics, a third of them with a limit_data or timeout toxic, 0-6 writes of 1 B-96 KiB then close, "
             "1-3 connections; counters read from the collectors after teardown; non-trivial = at least one byte sent; distinct by JSON",
        nontrivial=lambda c: sum(e.get("n", 0) for e in c["src"]) > 0,
        assumptions=["Prometheus counters add float64 exactly below 2^53 bytes",
                     "a connection whose reader is left blocked (finding F7, C15) never reports `received`: not a clean end in the sense of the property",
                     "label values after a proxy update are checked on real proxies by the C03/C17 API runs"])


def replay(ctx, path):
    return L.replay_link(ctx, PID, path, oracle)

"""C05 — the HTTP API behaves as the documented sequential state machine."""
import json
import os

from . import api as A
from . import common as C

PID = "C05"
TYPES = ["latency", "bandwidth", "slicer", "slow_close", "timeout", "limit_data", "noop", "reset_peer"]


def port_base(shard=0):
    return C.free_port_base("api", 40, 20000, 30000) + shard * 4


class Gen:
    def __init__(self, rng, base):
        self.rng = rng
        self.L = ["127.0.0.1:%d" % base, "127.0.0.1:%d" % (base + 1)]
        self.badL = ["nonsense", "127.0.0.1:99999"]
        self.env = [(self.L[0], base), (self.L[1], base + 1), (self.badL[0], None), (self.badL[1], None)]
        self.names = ["a", "b"]
        self.ups = ["u1:1", "u2:2"]

    def attrs_for(self, ty, mode="valid"):
        r = self.rng
        fields = A.TOXIC_FIELDS.get(ty, [])
        if mode == "valid":
            return A.J({f: r.choice([0, 1, 7, 100, 5000]) for f in fields if r.chance(3, 4)})
        if mode == "illtyped" and fields:
            # all fields valid except one, in either order
            bad = r.choice(fields)
            items = [(f, A.J(r.choice([3, 250]))) for f in fields if f != bad]
            badv = r.choice([A.J("x"), ("frac", 1536), A.J(True), A.J([1]), ("int", 1 << 63), ("int", -(1 << 63) - 1)])
            pos = r.range(0, len(items))
            items.insert(pos, (bad, badv))
            return ("obj", items)
        return r.choice([A.J(5), A.J("s"), A.J([]), A.J(None)])

    def create_proxy(self, kind="valid"):
        r = self.rng
        n, L, u = r.choice(self.names), r.choice(self.L), r.choice(self.ups)
        if kind == "valid":
            d = [("name", A.J(n)), ("listen", A.J(L)), ("upstream", A.J(u))]
            if r.chance(1, 3):
                d.append(("enabled", A.J(r.chance(1, 2))))
            if r.chance(1, 6):
                d = [(k.upper() if r.chance(1, 2) else k.capitalize(), v) for k, v in d]
            if r.chance(1, 6):
                d.append(("whatever", A.J({"x": [1, 2]})))
            if r.chance(1, 10):
                d.append(("Logger", A.J({})))
            r_ = list(d)
            return A.req("POST", "/proxies", ("obj", r_))
        if kind == "badlisten":
            return A.req("POST", "/proxies", A.J({"name": n, "listen": r.choice(self.badL), "upstream": u}))
        if kind == "missing":
            d = {"name": n, "listen": L, "upstream": u}
            d.pop(r.choice(["name", "upstream"]))
            if r.chance(1, 3):
                d["name" if "name" not in d else "upstream"] = ""
            return A.req("POST", "/proxies", A.J(d))
        if kind == "illtyped":
            d = [("name", A.J(n)), ("listen", A.J(L)), ("upstream", A.J(u)), ("enabled", A.J(True))]
            i = r.range(0, 3)
            d[i] = (d[i][0], r.choice([A.J(5), A.J([1]), A.J({"a": 1}), A.J(False) if i < 3 else A.J("yes")]))
            r.next()
            return A.req("POST", "/proxies", ("obj", d))
        if kind == "shape":
            return r.choice([A.req("POST", "/proxies", A.J(None)), A.req("POST", "/proxies", A.J([1])), A.req("POST", "/proxies", A.J("x")),
                             A.req("POST", "/proxies", None), A.req("POST", "/proxies", None, raw="{\"name\": "),
                             A.req("POST", "/proxies", None, raw="   ")])

    def update_proxy(self):
        r = self.rng
        n = r.choice(self.names + ["zz"])
        k = r.choice(["enable", "disable", "listen", "upstream", "both", "badlisten", "illtyped", "empty", "null"])
        m = r.choice(["POST", "PATCH"])
        if k == "enable":
            b = A.J({"enabled": True})
        elif k == "disable":
            b = A.J({"enabled": False})
        elif k == "listen":
            b = A.J({"listen": r.choice(self.L)})
        elif k == "upstream":
            b = A.J({"upstream": r.choice(self.ups)})
        elif k == "both":
            b = A.J({"listen": r.choice(self.L), "upstream": r.choice(self.ups), "enabled": r.chance(1, 2)})
        elif k == "badlisten":
            b = A.J({"listen": r.choice(self.badL)})
        elif k == "illtyped":
            b = ("obj", [("upstream", A.J(r.choice(self.ups))), ("enabled", A.J("no"))]) if r.chance(1, 2) else \
                ("obj", [("enabled", A.J(7)), ("listen", A.J(r.choice(self.L)))])
        elif k == "empty":
            return A.req(m, "/proxies/" + n, None)
        else:
            b = A.J(None)
        return A.req(m, "/proxies/" + n, b)

    def create_toxic(self, kind="valid"):
        r = self.rng
        n = r.choice(self.names + ["zz"]) if r.chance(1, 8) else r.choice(self.names)
        ty = r.choice(TYPES)
        d = [("type", A.J(ty))]
        if r.chance(1, 2):
            d.append(("name", A.J(r.choice(["t1", "t2", "lat"] + (["t+1"] if getattr(self, "special_names", False) else [])))))
        if r.chance(1, 2):
            d.append(("stream", A.J(r.choice(["upstream", "downstream", "downstream", "Upstream", "DOWNSTREAM"]))))
        if r.chance(1, 2):
            d.append(("toxicity", r.choice([A.J(0), A.J(1), ("frac", 512), ("frac", 256), A.J(2)])))
        if kind == "valid":
            if r.chance(3, 4):
                d.append(("attributes", self.attrs_for(ty)))
        elif kind == "illtyped_attr":
            d.append(("attributes", self.attrs_for(ty, "illtyped")))
        elif kind == "bad_attr_shape":
            d.append(("attributes", self.attrs_for(ty, "shape")))
        elif kind == "badtype":
            d[0] = ("type", A.J(r.choice(["", "foo", "Latency"])))
        elif kind == "badstream":
            d = [x for x in d if x[0] != "stream"] + [("stream", A.J(r.choice(["", "sideways", "up"])))]
        elif kind == "illtyped":
            i = r.range(0, len(d) - 1)
            d[i] = (d[i][0], r.choice([A.J(5), A.J([1]), A.J(True)]) if d[i][0] != "toxicity" else A.J("high"))
        elif kind == "shape":
            return r.choice([A.req("POST", "/proxies/%s/toxics" % n, A.J([1])), A.req("POST", "/proxies/%s/toxics" % n, None),
                             A.req("POST", "/proxies/%s/toxics" % n, None, raw="{,}"), A.req("POST", "/proxies/%s/toxics" % n, A.J(None))])
        r.next()
        order = list(d)
        if r.chance(1, 2):
            order.reverse()
        return A.req("POST", "/proxies/%s/toxics" % n, ("obj", order))

    def update_toxic(self, known):
        """known: list of names or dict name -> type (then the bodies are built for that toxic's own fields)"""
        r = self.rng
        n = r.choice(self.names)
        types = known if isinstance(known, dict) else {}
        tn = r.choice([k for k in known if not k.startswith("_proxy_")] + ["t1", "lat", "latency_downstream", "nope"] + (["t+1", "t 1"] if False else []) + (["t+1"] if getattr(self, "special_names", False) else [])) if not types or r.chance(1, 5) else r.choice(sorted(k for k in types if not k.startswith("_proxy_")))
        fields = A.TOXIC_FIELDS.get(types.get(tn, ""), []) or ["latency", "jitter", "rate", "bytes", "timeout", "delay", "average_size"]
        k = r.choice(["attrs", "toxicity", "both", "illtyped", "illtyped", "illtyped", "shape"])
        m = r.choice(["POST", "PATCH"])
        anyf = r.choice(fields)
        if tn in types:
            n = types.get("_proxy_" + tn, n)
        if k == "attrs":
            b = A.J({"attributes": {anyf: r.choice([1, 50, 999])}})
        elif k == "toxicity":
            b = ("obj", [("toxicity", r.choice([A.J(0), A.J(1), ("frac", 768)]))])
        elif k == "both":
            b = ("obj", [("attributes", A.J({anyf: 42})), ("toxicity", ("frac", 128))])
            if r.chance(1, 2):
                # the whole object posted back: name, type and stream in an update change nothing
                b = ("obj", b[1] + [(x, A.J(v)) for x, v in (("name", r.choice(["renamed", "t1"])), ("type", r.choice(["timeout", "noop", "latency"])),
                                                                 ("stream", r.choice(["upstream", "downstream"]))) if r.chance(2, 3)])
        elif k == "illtyped":
            badv = r.choice([A.J("bad"), ("frac", 1536), A.J([2]), A.J(True), ("int", 1 << 63)])
            good = (anyf, A.J(r.choice([500, 77, 12345])))
            variant = r.below(4)
            if variant == 0 and len(fields) > 1:
                bad = (r.choice([f for f in fields if f != anyf]), badv)
                items = [good, bad] if r.chance(1, 2) else [bad, good]
                b = ("obj", [("attributes", ("obj", items))])
            elif variant == 1:
                # valid attributes, ill-typed toxicity (either order)
                parts = [("attributes", ("obj", [good])), ("toxicity", r.choice([A.J("x"), A.J([1]), A.J(True)]))]
                if r.chance(1, 2):
                    parts.reverse()
                b = ("obj", parts)
            elif variant == 2:
                # the same field twice: a good value then a bad one
                b = ("obj", [("attributes", ("obj", [good, (anyf, badv)]))])
            else:
                b = ("obj", [("toxicity", ("frac", 512)), ("attributes", r.choice([A.J(5), A.J("s"), A.J([])]))])
        else:
            return r.choice([A.req(m, "/proxies/%s/toxics/%s" % (n, tn), None), A.req(m, "/proxies/%s/toxics/%s" % (n, tn), A.J([])),
                             A.req(m, "/proxies/%s/toxics/%s" % (n, tn), None, raw="{\"attributes\": {\"latency\": 5")])
        return A.req(m, "/proxies/%s/toxics/%s" % (n, tn), b)

    def populate(self):
        r = self.rng
        items = []
        for _ in range(r.range(0, 3)):
            d = {"name": r.choice(self.names + ["c"]), "listen": r.choice(self.L), "upstream": r.choice(self.ups)}
            if r.chance(1, 3):
                d["enabled"] = r.chance(1, 2)
            if r.chance(1, 8):
                d.pop(r.choice(["name", "upstream"]))
            if r.chance(1, 10):
                d["listen"] = r.choice(self.badL)
            if r.chance(1, 12):
                d["enabled"] = "yes"
            items.append(A.J(d))
        if r.chance(1, 12):
            return A.req("POST", "/populate", r.choice([A.J({"name": "a"}), A.J(None), A.J(3)]))
        if r.chance(1, 12):
            return A.req("POST", "/populate", None, raw="[{\"name\":")
        return A.req("POST", "/populate", ("arr", items))

    def other(self):
        r = self.rng
        n = r.choice(self.names + ["zz"])
        return r.choice([
            A.req("GET", "/proxies"), A.req("GET", "/proxies/" + n), A.req("DELETE", "/proxies/" + n),
            A.req("GET", "/proxies/%s/toxics" % n), A.req("GET", "/proxies/%s/toxics/%s" % (n, r.choice(["t1", "lat", "latency_downstream", "nope"] + (["t+1"] if getattr(self, "special_names", False) else [])))),
            A.req("DELETE", "/proxies/%s/toxics/%s" % (n, r.choice(["t1", "t2", "lat", "latency_downstream", "nope"] + (["t+1"] if getattr(self, "special_names", False) else [])))),
            A.req("POST", "/reset"), A.req("GET", "/version"), A.req("GET", "/nothing"), A.req("PUT", "/proxies"),
            A.req("DELETE", "/proxies"), A.req("GET", "/proxies/a/b/c/d/e"), A.req("POST", "/version"), A.req("HEAD", "/proxies"),
        ])

    def any(self, known):
        r = self.rng
        k = r.below(100)
        if k < 14:
            q = self.create_proxy("valid")
        elif k < 22:
            q = self.create_proxy(r.choice(["badlisten", "missing", "illtyped", "shape"]))
        elif k < 34:
            q = self.update_proxy()
        elif k < 50:
            q = self.create_toxic("valid")
        elif k < 60:
            q = self.create_toxic(r.choice(["illtyped_attr", "bad_attr_shape", "badtype", "badstream", "illtyped", "shape"]))
        elif k < 76:
            q = self.update_toxic(known)
        elif k < 82:
            q = self.populate()
        else:
            q = self.other()
        if r.chance(1, 25):
            q["browser"] = True
        return q


def gen_cases(ctx, rng):
    cases = []
    stats = {"random_sequences": 0, "pair_sequences": 0, "requests": 0, "malformed_or_invalid": 0, "browser": 0}
    nrand = 120 if ctx.tier == "quick" else 4000
    for i in range(nrand):
        g = Gen(rng, port_base(i % 5))
        if i % 4 == 3:
            # names with characters that mean something in URLs (a literal '+', '.', '-', '~', ':', '@' in a path segment stands for itself)
            g.names = [rng.choice(["a+b", "redis+sentinel", "x.y-z", "n~1", "u:v", "p@q"]), rng.choice(["b", "db+1", "c+"])]
            g.special_names = True
        if i % 3 == 1:
            # two spellings of one upstream endpoint: what is written is what is read, letter for letter
            g.ups = ["127.0.0.1:9", "localhost:9"]
        reqs = []
        for _ in range(rng.range(5, 40)):
            reqs.append(g.any(["t1", "t2"]))
        cases.append({"reqs": reqs, "env": g.env, "group": i % 5})
        stats["random_sequences"] += 1
    # systematic: a fixed setup followed by every ordered pair over a compact alphabet
    g = Gen(rng, port_base(5))
    setup = [A.req("POST", "/proxies", A.J({"name": "a", "listen": g.L[0], "upstream": "u1:1"})),
             A.req("POST", "/proxies/a/toxics", A.J({"type": "latency", "name": "lat", "attributes": {"latency": 10}}))]
    alpha = [g.create_proxy("valid") for _ in range(4)] + [g.create_proxy(k) for k in ("badlisten", "missing", "illtyped", "shape")] + \
            [g.update_proxy() for _ in range(6)] + [g.create_toxic("valid") for _ in range(4)] + \
            [g.create_toxic(k) for k in ("illtyped_attr", "badtype", "badstream", "shape")] + [g.update_toxic(["lat"]) for _ in range(6)] + \
            [g.populate(), A.req("POST", "/reset"), A.req("DELETE", "/proxies/a"), A.req("DELETE", "/proxies/a/toxics/lat"),
             A.req("GET", "/proxies/a/toxics/lat"), A.req("GET", "/proxies/a", browser=True)]
    if ctx.tier == "quick":
        alpha = alpha[::2]
    for x in alpha:
        for y in alpha:
            cases.append({"reqs": setup + [x, y], "env": g.env, "group": 5})
            stats["pair_sequences"] += 1
    for c in cases:
        stats["requests"] += len(c["reqs"])
        stats["browser"] += sum(1 for q in c["reqs"] if q["browser"])
    return cases, stats


# ------------------------------------------------------------ documented-behaviour oracle (independent of Api.v)
def oracle(case, resps):
    if isinstance(resps, dict) and "crash" in resps:
        return (0, "the API process crashed: " + resps["crash"][-300:])
    before = ("proxies", [])
    for i, (q, resp) in enumerate(zip(case["reqs"], resps)):
        if resp.get("panic"):
            return (i, "handler panicked")
        if resp.get("status") == -2:
            break
        if resp.get("status") == -1:
            return (i, "%s %s never returned (6 s): the API is wedged" % (q["method"], q["path"]))
        if resp.get("status2") == -1:
            return (i, "after %s %s (status %s) GET /proxies never returned (6 s): the API is wedged" % (q["method"], q["path"], resp.get("status")))
        after = A.canon_payload(resp["proxies"])
        if after[0] != "proxies" and resp["proxies"].strip() != "{}":
            return (i, "GET /proxies after the request is not a proxy map: " + resp["proxies"][:80])
        st = resp["status"]
        pl = A.canon_payload(resp["body"])
        segs = q["path"].strip("/").split("/")
        known = {p["name"]: p for p in before[1]}
        now = {p["name"]: p for p in (after[1] if after[0] == "proxies" else [])}
        # what the API lists as enabled is what really listens: every enabled proxy's address accepts connections, nothing else does
        if "listening" in resp and after[0] == "proxies":
            want = sorted(p["listen"] for p in now.values() if p["enabled"])
            got = sorted(resp["listening"])
            probes = set(a for a, port in (case.get("env") or []) if port is not None)
            if got != sorted(a for a in want if a in probes):
                return (i, "after %s %s (status %d) the addresses %s accept connections but the API lists %s as enabled"
                        % (q["method"], q["path"], st, got, want))
        if q["browser"] and st not in (404, 405):
            if st != 403:
                return (i, "a browser user agent was answered %d, not 403" % st)
            if after != before:
                return (i, "a browser request changed the configuration")
        elif not q["browser"]:
            # unknown names -> 404
            if segs[0] == "proxies" and len(segs) >= 2 and segs[1] not in known and st not in (404, 405):
                return (i, "request for unknown proxy %r answered %d" % (segs[1], st))
            if q["method"] == "GET" and segs == ["proxies", segs[-1]] and len(segs) == 2 and segs[1] in known:
                if st != 200 or pl != ("proxy", known[segs[1]]):
                    return (i, "GET of proxy %r does not reflect the earlier writes" % segs[1])
            if q["method"] == "GET" and len(segs) == 3 and segs[2] == "toxics" and segs[1] in known:
                if st != 200 or pl != ("toxics", known[segs[1]]["toxics"]):
                    return (i, "toxic listing of %r does not reflect the earlier writes" % segs[1])
            if q["method"] == "DELETE" and len(segs) == 2 and segs[1] in known:
                if st != 204 or segs[1] in now:
                    return (i, "DELETE of an existing proxy answered %d / proxy still listed" % st)
            if q["method"] in ("POST", "PATCH") and len(segs) == 2 and segs[0] == "proxies" and st == 200 and segs[1] in known:
                if pl[0] != "proxy" or now.get(segs[1]) != pl[1]:
                    return (i, "proxy update answered 200 but the proxy listed afterwards is not the one returned (writes not reflected)")
                given = {k.lower(): v for k, v in q["json"][1]} if q["json"] and q["json"][0] == "obj" else {}
                for f, tag in (("listen", "str"), ("upstream", "str"), ("enabled", "bool")):
                    if f in given and given[f][0] == tag and pl[1][f] != given[f][1]:
                        return (i, "proxy update answered 200 but %s is %r, not the %r that was written (writes not reflected)" % (f, pl[1][f], given[f][1]))
            if q["method"] == "POST" and segs == ["proxies"] and st == 201:
                if pl[0] != "proxy" or pl[1]["name"] in known or now.get(pl[1]["name"]) != pl[1] or pl[1]["toxics"]:
                    return (i, "201 on create but the proxy is not new / not listed as returned")
                body = q["json"]
                given = {k.lower(): v for k, v in body[1]} if body and body[0] == "obj" else {}
                if "enabled" not in given and pl[1]["enabled"] is not True:
                    return (i, "created proxy is not enabled by default")
            if q["method"] == "POST" and segs == ["populate"] and st == 201 and pl[0] == "populate":
                # what a successful populate answers is what is registered: every proxy it returns is listed, exactly as returned
                last = {pp["name"]: pp for pp in pl[1]}          # a body may name a proxy twice: the later entry replaces the earlier
                for pp in last.values():
                    if now.get(pp["name"]) != pp:
                        return (i, "populate answered 201 with proxy %r as %s, but the proxy listed afterwards is %s (writes not reflected)"
                                % (pp["name"], json.dumps(pp, default=str)[:140], json.dumps(now.get(pp["name"]), default=str)[:140]))
            if q["method"] == "POST" and segs == ["proxies"] and q["json"] and q["json"][0] == "obj":
                given = {k.lower(): v for k, v in q["json"][1]}
                nm = given.get("name")
                if nm and nm[0] == "str" and nm[1] in known and st == 201:
                    return (i, "duplicate proxy name accepted")
            if q["method"] == "POST" and len(segs) == 3 and segs[2] == "toxics" and st == 200 and segs[1] in known:
                if pl[0] != "toxic":
                    return (i, "toxic create answered 200 without a toxic")
                t = pl[1]
                given = {k.lower(): v for k, v in q["json"][1]} if q["json"] and q["json"][0] == "obj" else {}
                if "stream" not in given and t["stream"] != "downstream":
                    return (i, "default stream is %r, not downstream" % t["stream"])
                if "toxicity" not in given and t["toxicity"] != 1:
                    return (i, "default toxicity is %r, not 1" % t["toxicity"])
                if ("name" not in given or given["name"] == ("str", "")) and t["name"] != "%s_%s" % (t["type"], t["stream"]):
                    return (i, "default toxic name is %r" % t["name"])
                if any(x["name"] == t["name"] for x in known[segs[1]]["toxics"]):
                    return (i, "duplicate toxic name accepted")
                if t not in now[segs[1]]["toxics"]:
                    return (i, "created toxic is not listed")
            # toxics are unique by name within a proxy: unknown toxic names yield 404, existing ones are shown / removed, and a
            # 409 is only ever the answer to a name that is in use
            if len(segs) == 4 and segs[0] == "proxies" and segs[2] == "toxics" and segs[1] in known and st != 405:
                have = {t["name"]: t for t in known[segs[1]]["toxics"]}
                if segs[3] not in have:
                    if st != 404:
                        return (i, "request for unknown toxic %r of proxy %r answered %d, not 404" % (segs[3], segs[1], st))
                elif q["method"] == "GET":
                    if st != 200 or pl != ("toxic", have[segs[3]]):
                        return (i, "GET of toxic %r does not reflect the earlier writes (status %d)" % (segs[3], st))
                elif q["method"] == "DELETE":
                    if st != 204 or any(t["name"] == segs[3] for t in now.get(segs[1], {"toxics": []})["toxics"]):
                        return (i, "DELETE of an existing toxic answered %d / toxic still listed" % st)
                elif q["method"] in ("POST", "PATCH") and st == 200:
                    # an update sets attributes and toxicity: the toxic answered and listed afterwards is the same toxic (name, type,
                    # stream), whatever else the body carried
                    old_t = have[segs[3]]
                    ident = lambda t: (t["name"], t["type"], t["stream"])
                    if pl[0] != "toxic" or ident(pl[1]) != ident(old_t):
                        return (i, "update of toxic %r answered 200 with %s, the toxic is %s (name, type, stream)" % (segs[3], ident(pl[1]) if pl[0] == "toxic" else pl[0], ident(old_t)))
                    listed = [ident(t) for t in now.get(segs[1], {"toxics": []})["toxics"]]
                    if listed != [ident(t) for t in known[segs[1]]["toxics"]]:
                        return (i, "update of toxic %r changed which toxics are listed: %s -> %s" % (segs[3], [ident(t) for t in known[segs[1]]["toxics"]], listed))
            if q["method"] == "POST" and len(segs) == 3 and segs[2] == "toxics" and segs[1] in known and st == 409:
                given = {k.lower(): v for k, v in q["json"][1]} if q["json"] and q["json"][0] == "obj" else {}
                nm = given.get("name")
                ty, sm = given.get("type"), given.get("stream", ("str", "downstream"))
                name = nm[1] if nm and nm[0] == "str" and nm[1] else ("%s_%s" % (ty[1], sm[1]) if ty and ty[0] == "str" and sm[0] == "str" else None)
                if name is not None and all(t["name"] != name for t in known[segs[1]]["toxics"]):
                    return (i, "toxic create answered 409 although proxy %r has no toxic named %r" % (segs[1], name))
            names = [t["name"] for p in now.values() for t in p["toxics"] if True]
            for p in now.values():
                tn = [t["name"] for t in p["toxics"]]
                if len(tn) != len(set(tn)):
                    return (i, "two toxics of proxy %r share a name" % p["name"])
        before = after if after[0] == "proxies" else ("proxies", [])
    return None


def shrink_case(ctx, case, pred):
    cur = case
    changed = True
    while changed and len(cur["reqs"]) > 1:
        changed = False
        for i in range(len(cur["reqs"])):
            c = {"reqs": cur["reqs"][:i] + cur["reqs"][i + 1:], "env": cur["env"], "group": cur.get("group", 0)}
            r = A.run_impl(ctx, [c], PID.lower() + "_shrink", procs=1)[0]
            if pred(c, r):
                cur = c
                changed = True
                break
    return cur


def run_api_property(ctx, pid, gen_cases, oracle, classify, rule, assumptions, known_class=None, side_findings=None):
    verdict = C.Verdict(ctx)
    rng = C.Rng(ctx.seed).fork(pid)
    proof = C.proof_step(ctx, verdict, pid, extra_targets=["Run/ApiRun.vo"])
    corpus = []
    d = os.path.join(C.CORPUS, pid)
    if os.path.isdir(d):
        for fn in sorted(os.listdir(d)):
            if fn.endswith(".json"):
                corpus.append(json.load(open(os.path.join(d, fn)))["case"])
    gen, stats = gen_cases(ctx, rng)
    cases = corpus + gen
    results = A.run_impl(ctx, cases, pid.lower())
    ctx.log("ran %d request sequences (%d requests) through the implementation" % (len(cases), sum(len(c["reqs"]) for c in cases)))
    failing = []
    for i, (c, r) in enumerate(zip(cases, results)):
        w = oracle(c, r)
        if w:
            failing.append((len(c["reqs"]), i, w))
    failing.sort()
    model_ok = os.path.exists(os.path.join(C.COQ, "Run", "ApiRun.vo"))
    idx = [i for i, r in enumerate(results) if isinstance(r, list) and A.representable(r)]
    mism = A.model_replay(ctx, cases, results, idx, pid.lower()) if model_ok else {}
    ctx.log("oracle failures: %d, model mismatches: %d" % (len(failing), len(mism)))
    side, side_cov = ([], {})
    if side_findings is not None:
        side, side_cov = side_findings(ctx, proof)
        for key, what, rp in side[:3]:
            verdict.add(key, what, rp)
    reported = set()
    for _, i, (ri, w) in failing:
        key = (known_class(cases[i], results[i], ri, w) if known_class else None) or classify(w)
        if key in reported:
            continue
        reported.add(key)
        small = cases[i]
        if len(reported) <= 2:
            small = shrink_case(ctx, {"reqs": cases[i]["reqs"][:ri + 1], "env": cases[i]["env"]},
                                lambda c, r, _w=w: (oracle(c, r) or (None, ""))[1][:25] == _w[:25])
        rs = A.run_impl(ctx, [small], pid.lower() + "_shrink", procs=1)[0]
        verdict.add(key, w, {"kind": "failing-input", "case": small, "observed": rs, "oracle": w})
    if not verdict.findings_with_input():       # nothing found that is not a listed known finding
        if not proof["build_ok"]:
            verdict.add("proof-broken", "proof obligation of %s no longer checks (%s) and no failing request sequence was found among %d"
                        % (pid, ", ".join(proof.get("broken", [])), len(cases)),
                        {"kind": "proof-broken", "broken": proof.get("broken"), "build_tail": proof.get("build_tail")}, has_input=False)
        if mism:
            i = sorted(mism, key=lambda j: len(cases[j]["reqs"]))[0]
            ri, code = mism[i]
            verdict.add("correspondence-broken",
                        "model and implementation disagree on %d sequences (first at request %d of the smallest, code %d = %s)"
                        % (len(mism), ri, code, {1: "status", 2: "payload", 3: "state"}.get(code)),
                        {"kind": "correspondence", "case": {"reqs": cases[i]["reqs"][:ri + 1], "env": cases[i]["env"]},
                         "observed": results[i][:ri + 1], "model_predicts": A.model_response(ctx, cases[i], ri)}, has_input=False)
    rc, nviol = verdict.finish()
    distinct = set(json.dumps(c["reqs"], sort_keys=True) for c in cases if len(c["reqs"]) > 1)
    mid = cases[len(cases) // 3]
    cov = {
        "obligations": proof["obligations"], "discharged": proof["discharged"],
        "checker_cmd": "coq_makefile + make Properties/%s.vo (coqc 8.16.1), Print Assumptions per theorem" % pid,
        "theorems": proof["theorems"], "print_assumptions": proof["assumptions"],
        "evaluations": len(cases), "distinct_nontrivial": len(distinct), "rule": rule,
        "traces_validated_against_impl": len(idx) if model_ok else 0, "model_mismatches": len(mism), "oracle_failures": len(failing),
        "input_distribution": stats, "corpus_cases": len(corpus),
        "samples": [{"requests": [A.wire(q) for q in mid["reqs"][:6]],
                     "responses": [{"status": r["status"], "body": r["body"][:200]} for r in (results[len(cases) // 3] or [])[:6]]}],
    }
    cov.update(side_cov)
    cov["oracle_failures"] += len(side)
    C.write_evidence(ctx, cov, assumptions, nviol)
    return rc


def side(ctx, proof):
    """proxies are unique by name also when the creates arrive together: the conflicting-creates family of C06 (conc harness), judged here on
    the status codes (exactly one 201, the rest 409) and on what listens afterwards"""
    from . import p_C06
    return p_C06.conflicting_creates(ctx)


def run(ctx):
    return run_api_property(
        ctx, PID, gen_cases, oracle, side_findings=side,
        classify=lambda w: "browser" if "browser" in w else ("defaults" if "default" in w else ("duplicate" if "duplicate" in w or "share a name" in w
                           else ("unknown-name" if "unknown" in w else ("read-your-writes" if "reflect" in w or "listed" in w else "other")))),
        rule="random request sequences (5-40 requests) over 2 proxy names (a quarter of the sequences with names containing + . - ~ : @), 2 ports, 2 upstreams, every route and method, valid bodies, "
             "field-aware ill-typed bodies, shapes (null, array, empty, syntax errors), key-case variants, unknown keys, browser user agents; "
             "plus a fixed setup followed by every ordered pair over a compact request alphabet; non-trivial = more than one request; distinct by JSON",
        assumptions=["encoding/json's text parser and gorilla/mux matching are exercised, not modelled (the route table is extracted)",
                     "listen addresses come from a port range owned by the harness; binding fails only for a port held by an enabled proxy"])


def replay(ctx, path):
    rp = json.load(open(path))
    if rp.get("kind") != "failing-input":
        print("replay file names a broken obligation, not an input:", rp.get("what"))
        return 1
    r = A.run_impl(ctx, [rp["case"]], PID.lower() + "_replay", procs=1)[0]
    w = oracle(rp["case"], r)
    print("observed:", json.dumps(r)[:1500])
    if w:
        print("VIOLATION property=%s replay=%s" % (PID, path))
        print("  what:", w[1])
        return 1
    print("replay passes on the current tree")
    return 0

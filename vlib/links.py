"""Shared machinery for the properties decided on single links under virtual time
(vt harness mode 'link' + coq/Run/LinkRun.v)."""
import json
import os
from concurrent.futures import ThreadPoolExecutor

from . import common as C

MS = 1000000


def tx(type_, toxicity=1, name="", **attrs):
    d = {"type": type_, "toxicity": toxicity, "attributes": attrs}
    if name:
        d["name"] = name
    return d


def coq_toxic(t):
    a = t["attributes"]
    ty = t["type"]
    g = lambda k: C.coq_z(int(a.get(k, 0)))
    if ty == "noop":
        return "TNoop"
    if ty == "latency":
        return "TLatency %s %s" % (g("latency"), g("jitter"))
    if ty == "bandwidth":
        return "TBandwidth %s" % g("rate")
    if ty == "slicer":
        return "TSlicer %s %s %s" % (g("average_size"), g("size_variation"), g("delay"))
    if ty == "slow_close":
        return "TSlowClose %s" % g("delay")
    if ty == "timeout":
        return "TTimeout %s" % g("timeout")
    if ty == "reset_peer":
        return "TResetPeer %s" % g("timeout")
    if ty == "limit_data":
        return "TLimitData %s" % g("bytes")
    raise ValueError(ty)


def coq_chain(chain):
    return C.coq_list(["(%s, %s)" % (coq_toxic(t), C.coq_bool(t.get("toxicity", 1) >= 1)) for t in chain])


def coq_src(src):
    return C.coq_list(["(%s, %s)" % (C.coq_z(e["at"]), "(-1)" if e.get("close") else C.coq_z(e["n"])) for e in src])


def fuel_for(case):
    nbytes = sum(e.get("n", 0) for e in case["src"])
    pieces = 0
    for t in case["chain"]:
        if t["type"] == "slicer":
            av, sv = int(t["attributes"].get("average_size", 1)), int(t["attributes"].get("size_variation", 0))
            a = max(1, av - sv) if 0 <= sv < av else 1
            pieces += nbytes // a + 4
        if t["type"] == "bandwidth":
            r = max(1, int(t["attributes"].get("rate", 1)))
            pieces += nbytes // (100 * r) + 4
            if int(t["attributes"].get("rate", 1)) == 0:
                pieces += case["horizon"] // (100 * MS) + 4       # rate 0: an empty instalment every 100 ms, for ever
    n_ev = len(case["src"]) + nbytes // 32768 + 2
    return 200 + (n_ev + pieces) * (len(case["chain"]) + 3) * 8


def coq_case(case, res):
    return "mkCase %s %s %s %s %d %s %s %s" % (
        coq_chain(case["chain"]), coq_src(case["src"]), C.coq_zlist(case.get("draws") or res.get("draws") or []),
        C.coq_z(case["horizon"]), fuel_for(case), C.coq_zlist(case.get("sink_delay") or []),
        C.coq_list(["(%d, %d)" % (w["t"], w["n"]) for w in (res["writes"] or [])]), C.coq_z(res["closed"]))


def run_impl(ctx, cases, tag, procs=8, timeout=900):
    """runs the cases through the real code (vt harness), split over several processes"""
    vt = os.path.join(C.BUILD, "vt.test")
    if not getattr(ctx, "_vt_built", False):
        C.go_build_harness(ctx, "vt")
        ctx._vt_built = True
    n = len(cases)
    if n == 0:
        return []
    procs = max(1, min(procs, (n + 19) // 20))
    parts = [list(range(i, n, procs)) for i in range(procs)]

    def one(k):
        """runs the cases of part k; a wedged case makes the harness exit after marking it: the rest is re-run in a new process"""
        todo = list(parts[k])
        got = {}
        rounds = 0
        while todo and rounds < len(parts[k]) + 5:      # every round completes at least the case that wedged
            rounds += 1
            fin = os.path.join(C.BUILD, "%s_in_%d.json" % (tag, k))
            fout = os.path.join(C.BUILD, "%s_out_%d.json" % (tag, k))
            with open(fin, "w") as f:
                json.dump({"cases": [cases[i] for i in todo]}, f)
            if os.path.exists(fout):
                os.remove(fout)
            rc, out = C.sh([vt, "-test.run", "^TestHarness$", "-test.timeout", "%ds" % timeout, "-mode", "link",
                            "-in", fin, "-out", fout], env=C.GOENV, timeout=timeout + 60)
            if not os.path.exists(fout):
                # the process died without a result file (a panic in a stage goroutine): find the culprit one by one
                for i in todo:
                    with open(fin, "w") as f:
                        json.dump({"cases": [cases[i]]}, f)
                    if os.path.exists(fout):
                        os.remove(fout)
                    rc1, o1 = C.sh([vt, "-test.run", "^TestHarness$", "-test.timeout", "120s", "-mode", "link", "-in", fin, "-out", fout],
                                   env=C.GOENV, timeout=180)
                    got[i] = json.load(open(fout))[0] if os.path.exists(fout) else {"crash": o1[-1500:]}
                todo = []
                break
            rs = json.load(open(fout))
            nxt = []
            for i, r in zip(todo, rs):
                if r.get("not_run"):
                    nxt.append(i)
                else:
                    got[i] = r
            todo = nxt
        for i in todo:
            got[i] = {"crash": "not run"}
        return k, got

    results = [None] * n
    with ThreadPoolExecutor(max_workers=procs) as ex:
        for k, got in ex.map(one, range(procs)):
            for i, r in got.items():
                results[i] = r
    return results


def model_verdicts(ctx, cases, results, idx, tag, shard=None):
    """evaluates the cases idx through the model inside Coq; returns {case index: verdict code != 0}"""
    if shard is None:
        shard = max(8, min(60, -(-len(idx) // 14)))          # spread over the cores; one coqc per shard, at most 60 scripts each

    def one(s):
        part = idx[s:s + shard]
        body = "From TP Require Import Model.Prelude Extracted Model.Toxics Model.Timed Run.LinkRun.\n"
        for j, i in enumerate(part):
            body += "Eval vm_compute in (%d, case_verdict (%s)).\n" % (j, coq_case(cases[i], results[i]))
        rc, out = C.coq_eval(ctx, "%s_%d" % (tag, s // shard), body, timeout=1200)
        if rc != 0:
            k = out.find("Error")
            raise C.BuildError("model evaluation failed:\n" + (out[max(0, k - 300):k + 800] if k >= 0 else out[-1500:]))
        import re
        res = {}
        for m in re.finditer(r"=\s*\((\d+),\s*(\d+)\)", out):
            if int(m.group(2)) != 0:
                res[part[int(m.group(1))]] = int(m.group(2))
        if len(re.findall(r"=\s*\((\d+),\s*(\d+)\)", out)) != len(part):
            raise C.BuildError("model evaluation: expected %d results\n%s" % (len(part), out[-1500:]))
        return res

    bad = {}
    with ThreadPoolExecutor(max_workers=14) as ex:
        for r in ex.map(one, range(0, len(idx), shard)):
            bad.update(r)
    return bad


def model_trace(ctx, case, tag="trace"):
    """what the model predicts for one case (for replay files)"""
    res = {"writes": [], "closed": -1}
    body = "From TP Require Import Model.Prelude Extracted Model.Toxics Model.Timed Run.LinkRun.\n"
    body += "Eval vm_compute in model_trace (%s).\n" % coq_case(case, res)
    rc, out = C.coq_eval(ctx, tag, body)
    return " ".join(out.split())[:3000]


# ---------------------------------------------------------------- generation helpers
def gen_src(rng, nwrites, max_n, spread_ns, close=True, big_chance=(1, 10)):
    t = 0
    src = []
    for _ in range(nwrites):
        t += rng.choice([0, 0, 1, 7, 13]) * MS if rng.chance(1, 3) else rng.range(0, spread_ns)
        n = rng.range(1, max_n)
        if rng.chance(*big_chance):
            n = rng.choice([32767, 32768, 32769, 40000, 70000, 98304])
        src.append({"at": t, "n": n})
    if close:
        t += rng.range(0, spread_ns)
        src.append({"at": t, "close": True})
    return src


def est_pieces(case):
    """rough number of sink writes the case produces (slicer pieces, bandwidth instalments, 32 KiB reads)"""
    evs = list(case["src"]) + [e for s in (case.get("srcs") or []) for e in s]
    nbytes = sum(e.get("n", 0) for e in evs)
    nchunks = sum((e.get("n", 0) + 32767) // 32768 for e in evs)
    est = nchunks
    for t in case["chain"]:
        a = t["attributes"]
        if t["type"] == "slicer" and t.get("toxicity", 1) >= 1:
            size = max(1, (int(a.get("average_size", 1)) + 1) // 2)
            if not (0 <= int(a.get("size_variation", 0)) < int(a.get("average_size", 1))):
                size = 1            # outside the documented range the arithmetic may wrap: down to one-byte pieces
            est = max(est, nbytes // size + nchunks)
        if t["type"] == "bandwidth" and t.get("toxicity", 1) >= 1:
            r = max(1, int(a.get("rate", 1)))
            est = max(est, nbytes // (100 * r) + nchunks)
    return est


def cap_case(case, limit=2500):
    """shrinks source writes until the estimated number of pieces is below the limit"""
    for _ in range(40):
        if est_pieces(case) <= limit:
            break
        for e in list(case["src"]) + [e for s in (case.get("srcs") or []) for e in s]:
            if e.get("n", 0) > 1:
                e["n"] = max(1, e["n"] // 2)
    return case


def case_cost(c):
    return (len(c["chain"]), len(c["src"]), sum(e.get("n", 0) for e in c["src"]))


def shrink(case, fails, max_rounds=40):
    """greedy shrinking: drop toxics, drop source events, shrink sizes; `fails(case)` re-runs the implementation"""
    cur = case
    for _ in range(max_rounds):
        cands = []
        for i in range(len(cur["chain"])):
            c = json.loads(json.dumps(cur))
            del c["chain"][i]
            cands.append(c)
        for i in range(len(cur["src"])):
            if cur["src"][i].get("close") or cur.get("srcs"):
                continue
            c = json.loads(json.dumps(cur))
            del c["src"][i]
            cands.append(c)
            if cur["src"][i]["n"] > 1:
                c = json.loads(json.dumps(cur))
                c["src"][i]["n"] = max(1, cur["src"][i]["n"] // 2)
                cands.append(c)
        progressed = False
        for c in cands:
            if c.get("draws"):
                continue
            if fails(c):
                cur = c
                progressed = True
                break
        if not progressed:
            break
    return cur


# ---------------------------------------------------------------- generic property runner
def load_corpus(pid):
    d = os.path.join(C.CORPUS, pid)
    cs = []
    if os.path.isdir(d):
        for fn in sorted(os.listdir(d)):
            if fn.endswith(".json"):
                cs.append(json.load(open(os.path.join(d, fn)))["case"])
    return cs


def run_link_property(ctx, pid, gen_cases, oracle, classify, rule, nontrivial, assumptions,
                      extra_targets=(), model_filter=None, known_class=None, extra_cov=None, hang_is_failure=False, side_findings=None, reconf=True, model_oracle=None):
    verdict = C.Verdict(ctx)
    rng = C.Rng(ctx.seed).fork(pid)
    proof = C.proof_step(ctx, verdict, pid, extra_targets=["Run/LinkRun.vo", "Run/ReconfCases.vo"] + list(extra_targets))
    corpus = load_corpus(pid)
    gen, stats = gen_cases(ctx, rng)
    cases = corpus + gen
    results = run_impl(ctx, cases, pid.lower())
    ctx.log("ran %d scripts through the implementation" % len(cases))
    # scripts with several connections (or connections established later) and operations: all connections together through
    # Model/MultiRun.v (they share the chain and the lock that serialises operations and connection set-up)
    mstats = {"multi_connection_scripts_validated_against_impl": 0, "multi_connection_mismatches": 0, "multi_connection_not_decided": 0}
    multi_mism = {}
    if reconf and os.path.exists(os.path.join(C.COQ, "Run", "ReconfCases.vo")):
        midx = [i for i, c in enumerate(cases) if multi_eligible(c) and c.get("ops")]
        mv, mcov = multi_verdicts(ctx, cases, results, midx, pid.lower())
        mstats["multi_connection_scripts_validated_against_impl"] = mcov
        for i, (v, k) in mv.items():
            if v == 0:
                continue
            if v >= 200 and k == 0:
                multi_mism[i] = v
                mstats["multi_connection_mismatches"] += 1
            else:
                mstats["multi_connection_not_decided"] += 1      # scheduler choices (no search here), fuel, not covered
    # further links of a multi-link case are judged like cases of their own (same script, own observations)
    nbase = len(cases)
    more_saved = {}
    for i in range(nbase):
        r = results[i]
        if r and r.get("more"):
            for k, m in enumerate(r["more"]):
                ck = cases[i]
                if ck.get("srcs") and k + 1 < len(ck["srcs"]):
                    ck = dict(ck)
                    ck["src"] = ck["srcs"][k + 1]
                    ck["srcs"] = None
                    ck["links"] = 1
                    ls = cases[i].get("link_start") or []
                    ck["started"] = ls[k + 1] if k + 1 < len(ls) else 0      # the instant this connection was established
                if isinstance(m, dict) and r.get("ops") and not m.get("ops"):
                    m["ops_shared"] = r["ops"]          # the operations' timing, observed once per script
                cases.append(ck)
                results.append(m)
            more_saved[i] = r["more"]
            r["more"] = None
    failing = []
    wedged = 0
    for i, (c, r) in enumerate(zip(cases, results)):
        if r and r.get("hang"):
            wedged += 1
            if hang_is_failure:
                failing.append((case_cost(c), i, "wedged: an API operation or the teardown never completed (no progress for 8 s of real time)"))
            continue
        w = oracle(c, r)
        if w:
            failing.append((case_cost(c), i, w))
    failing.sort()
    # a proof obligation or the tie no longer checks and nothing fails so far: look harder for a failing input before reporting
    # no-failing-input-found - further rounds of the property's generators with fresh seeds, judged by the oracle alone
    deep_rounds = 0
    if not failing and (not proof["build_ok"] or getattr(ctx, "pure_unavailable", None)):
        for k in range(8 if ctx.tier == "quick" else 40):
            gen2, _ = gen_cases(ctx, C.Rng(ctx.seed).fork("%s/deep%d" % (pid, k)))
            res2 = run_impl(ctx, gen2, pid.lower() + "_deep")
            deep_rounds += 1
            for c, r in zip(gen2, res2):
                if r and r.get("hang"):
                    if hang_is_failure:
                        cases.append(c); results.append(r)
                        failing.append((case_cost(c), len(cases) - 1, "wedged: an API operation or the teardown never completed (no progress for 8 s of real time)"))
                    continue
                w = oracle(c, r)
                if w:
                    cases.append(c); results.append(r)
                    failing.append((case_cost(c), len(cases) - 1, w))
            if failing:
                break
        failing.sort()
        ctx.log("deep search: %d further rounds of generated scripts, %d failing" % (deep_rounds, len(failing)))
    if wedged and not hang_is_failure:
        ctx.notes.append("%d scripts wedged (lock-up of finding F8, judged by C07/C16) and are inconclusive for this property" % wedged)
    model_ok = os.path.exists(os.path.join(C.COQ, "Run", "LinkRun.vo"))
    idx = [i for i, r in enumerate(results) if r is not None and "crash" not in r and not r.get("hang")
           and not cases[i].get("ops")            # scripts with operations go through the reconfiguration model below
           and (model_filter is None or model_filter(cases[i]))]
    mism = {}
    if model_ok:
        mism = model_verdicts(ctx, cases, results, idx, pid.lower())
    # scripts with add / update / remove / reset operations: through the executable reconfiguration model (Model/ReconfRun.v)
    rstats = {"reconf_traces_validated_against_impl": 0, "reconf_mismatches": 0, "reconf_runs_with_scheduler_choices": 0, "reconf_not_covered_by_model": 0}
    rmodel_ok = os.path.exists(os.path.join(C.COQ, "Run", "ReconfCases.vo"))
    if rmodel_ok and reconf:
        ridx = [i for i, r in enumerate(results) if r is not None and "crash" not in r and not r.get("hang") and cases[i].get("ops")]
        rv, ncov = reconf_verdicts(ctx, cases, results, ridx, pid.lower())
        rstats["reconf_traces_validated_against_impl"] = ncov
        for i, (v, k, mtot) in rv.items():
            if model_oracle is not None:
                w = model_oracle(cases[i], results[i], {"verdict": v, "total": mtot})
                if w:
                    failing.append((case_cost(cases[i]), i, w))
            if k > 0:
                rstats["reconf_runs_with_scheduler_choices"] += 1
            if v in (2, 3):
                mism[i] = 20 + v
                rstats["reconf_mismatches"] += 1
            elif v != 0:
                rstats["reconf_not_covered_by_model"] += 1
    mism.update(multi_mism)
    rstats.update(mstats)
    rstats["reconf_traces_validated_against_impl"] += mstats["multi_connection_scripts_validated_against_impl"]
    failing.sort()
    ctx.log("oracle failures: %d, model mismatches: %d (reconfiguration scripts replayed: %d)" % (len(failing), len(mism), rstats["reconf_traces_validated_against_impl"]))

    # scenario families of the property that do not go through the virtual-time link harness (real sockets, real server)
    side, side_cov = ([], {})
    if side_findings is not None:
        side, side_cov = side_findings(ctx, proof)
        for key, what, rp in side[:3]:
            verdict.add(key, what, rp)
    reported = set()
    for _, i, w in failing:
        key = classify(w) if known_class is None else (known_class(cases[i], results[i], w) or classify(w))
        if key in reported:
            continue
        reported.add(key)

        def fails(c, _w=w):
            r = run_impl(ctx, [c], pid.lower() + "_shrink", procs=1)
            if r[0] and r[0].get("hang"):
                return _w.startswith("wedged")
            w2 = oracle(c, r[0])
            return w2 is not None and classify(w2) == classify(_w) and w2[:20] == _w[:20]
        small = shrink(cases[i], fails) if len(reported) <= 2 else cases[i]
        r_small = run_impl(ctx, [small], pid.lower() + "_shrink", procs=1)[0]
        verdict.add(key, (w if (r_small or {}).get("hang") else oracle(small, r_small)) or w,
                    {"kind": "failing-input", "case": small, "observed": r_small, "oracle": w,
                     "model_predicts": model_trace(ctx, small, pid.lower() + "_trace") if model_ok else None})
    if not verdict.findings_with_input():       # nothing found that is not a listed known finding
        if not proof["build_ok"]:
            verdict.add("proof-broken",
                        "proof obligation of %s no longer checks (%s) and no failing script was found among %d"
                        % (pid, ", ".join(proof.get("broken", [])), len(cases)),
                        {"kind": "proof-broken", "broken": proof.get("broken"), "build_tail": proof.get("build_tail"),
                         "extracted": getattr(ctx, "extract_meta", {})}, has_input=False)
        if mism:
            i = sorted(mism, key=lambda j: case_cost(cases[j]))[0]
            verdict.add("correspondence-broken",
                        "model and implementation disagree on %d scripts (verdict code %d on the smallest) although every "
                        "implementation trace satisfies the oracle" % (len(mism), mism[i]),
                        {"kind": "correspondence", "case": cases[i], "observed": results[i],
                         "model_predicts": (multi_trace(ctx, cases[i], dict(results[i], more=more_saved.get(i)), pid.lower() + "_mtrace") if i in multi_mism else
                                            reconf_trace(ctx, cases[i], pid.lower() + "_rtrace") if cases[i].get("ops")
                                            else model_trace(ctx, cases[i], pid.lower() + "_trace"))}, has_input=False)
    rc, nviol = verdict.finish()
    nt = set(json.dumps(c, sort_keys=True) for c in cases if nontrivial(c))
    mid = cases[len(cases) // 2]
    cov = {
        "obligations": proof["obligations"], "discharged": proof["discharged"],
        "checker_cmd": "coq_makefile + make Properties/%s.vo (coqc 8.16.1), Print Assumptions per theorem" % pid,
        "theorems": proof["theorems"], "print_assumptions": proof["assumptions"],
        "evaluations": len(cases), "distinct_nontrivial": len(nt), "rule": rule,
        "traces_validated_against_impl": (len(idx) if model_ok else 0) + rstats["reconf_traces_validated_against_impl"],
        "model_mismatches": len(mism), "oracle_failures": len(failing),
        "input_distribution": stats, "corpus_cases": len(corpus),
        "samples": [{"script": mid, "observed": results[len(cases) // 2]}],
    }
    cov.update(rstats)
    if extra_cov:
        cov.update(extra_cov(cases, results))
    cov.update(side_cov)
    cov["oracle_failures"] += len(side)
    if deep_rounds:
        cov["deep_search_rounds"] = deep_rounds
    C.write_evidence(ctx, cov, assumptions, nviol)
    return rc


def replay_link(ctx, pid, path, oracle):
    rp = json.load(open(path))
    if rp.get("kind") == "failing-input" and (rp.get("tcp") or rp.get("conc")):
        # a real-socket / concurrent scenario: its judgement lives with the scenario family, which is re-run as a whole
        import importlib
        print("replay: the scenario belongs to a real-socket family of %s; re-running the check's families" % pid)
        return importlib.import_module("vlib.p_" + pid).run(ctx)
    if rp.get("kind") != "failing-input":
        print("replay file names a broken obligation, not an input:", rp.get("what"))
        return 1
    r = run_impl(ctx, [rp["case"]], pid.lower() + "_replay", procs=1)[0]
    w = oracle(rp["case"], r)
    print("observed:", json.dumps(r)[:2000])
    if w:
        print("VIOLATION property=%s replay=%s" % (pid, path))
        print("  what:", w)
        return 1
    print("replay passes on the current tree")
    return 0


# ---------------------------------------------------------------- reconfiguration scripts through the executable model (Model/ReconfRun.v)
def reconf_ops(case):
    """translates the API operations of a single-connection script into the model's operation requests, tracking the chain;
    None if the script is outside what the executable model covers (fractional toxicity, random draws, several connections...)"""
    if (case.get("links") or 1) != 1 or case.get("link_start") or case.get("sink_fail_after") or case.get("reseed") or case.get("srcs"):
        return None
    chain = [json.loads(json.dumps(t)) for t in case["chain"]]

    def det(t):
        a = t["attributes"]
        if t.get("toxicity", 1) not in (0, 1):
            return False
        if t["type"] == "latency" and int(a.get("jitter", 0)) != 0:
            return False
        if t["type"] == "slicer" and int(a.get("size_variation", 0)) != 0:
            return False
        return t["type"] != "reset_peer"

    if not all(det(t) for t in chain):
        return None
    out = []
    for o in sorted(case.get("ops") or [], key=lambda o: o["at"]):
        at = o["at"]
        eff_of = lambda t: C.coq_bool(t.get("toxicity", 1) >= 1)
        if o["op"] == "add":
            t = json.loads(json.dumps(o["toxic"]))
            if not det(t) or ("stream" in t and t["stream"] != case["dir"]) or any(x.get("name") == t.get("name") for x in chain):
                return None
            effp = eff_of(chain[-1]) if chain else "true"
            out.append("(%s, OAdd (%s) %s %s)" % (C.coq_z(at), coq_toxic(t), eff_of(t), effp))
            chain.append(t)
        elif o["op"] == "update":
            ks = [i for i, x in enumerate(chain) if x.get("name") == o["name"]]
            if not ks:
                return None
            k = ks[0]
            body = json.loads(o["body"])
            t = chain[k]
            t["attributes"] = dict(t["attributes"], **(body.get("attributes") or {}))
            if "toxicity" in body:
                t["toxicity"] = body["toxicity"]
            if not det(t):
                return None
            out.append("(%s, OUpdate %d (%s) %s)" % (C.coq_z(at), k + 1, coq_toxic(t), eff_of(t)))
        elif o["op"] == "remove":
            ks = [i for i, x in enumerate(chain) if x.get("name") == o["name"]]
            if not ks:
                return None
            k = ks[0]
            effp = eff_of(chain[k - 1]) if k > 0 else "true"
            out.append("(%s, ORemove %d %s)" % (C.coq_z(at), k + 1, effp))
            del chain[k]
        elif o["op"] == "reset":
            for _ in chain:
                out.append("(%s, ORemove 1 true)" % C.coq_z(at))
            chain = []
        else:
            return None
    return out


def fuel_reconf(case):
    f = fuel_for(dict(case, chain=list(case["chain"]) + [o["toxic"] for o in case.get("ops") or [] if o.get("toxic")]))
    return 4 * f + 400 * (1 + len(case.get("ops") or []))


def coq_rcase(case, res, ops):
    return "mkRCase %s %s %s %s %d %s %s %s" % (
        coq_chain(case["chain"]), coq_src(case["src"]), C.coq_list(ops), C.coq_z(case["horizon"]), fuel_reconf(case),
        C.coq_zlist(case.get("sink_delay") or []),
        C.coq_list(["(%d, %d)" % (w["t"], w["n"]) for w in (res["writes"] or [])]), C.coq_z(res["closed"]))


def reconf_verdicts(ctx, cases, results, idx, tag, shard=None):
    """evaluates the scripts idx (each with operations) through Model/ReconfRun.v inside Coq; returns ({i: (verdict, choice points)}, covered)"""
    todo = [(i, reconf_ops(cases[i])) for i in idx]
    todo = [(i, ops) for i, ops in todo if ops is not None and not any(o.get("err") for o in (results[i].get("ops") or []))]
    if not todo:
        return {}, 0
    if shard is None:
        shard = max(6, min(40, -(-len(todo) // 14)))
    import re

    def one(s):
        part = todo[s:s + shard]
        body = "From TP Require Import Model.Prelude Extracted Model.Toxics Model.Timed Model.Reconf Model.ReconfRun Run.LinkRun Run.ReconfCases.\n"
        for j, (i, ops) in enumerate(part):
            body += "Eval vm_compute in (%d, rverdict (%s)).\n" % (j, coq_rcase(cases[i], results[i], ops))
        rc, out = C.coq_eval(ctx, "%s_r%d" % (tag, s // shard), body, timeout=(300 if ctx.tier == "quick" else 1200))
        if rc == 124:
            ctx.notes.append("a shard of %d reconfiguration scripts exceeded the evaluation time limit (search over scheduler choices) and is not counted" % len(part))
            return {}
        if rc != 0:
            k = out.find("Error")
            raise C.BuildError("model evaluation failed:\n" + (out[max(0, k - 300):k + 800] if k >= 0 else out[-1500:]))
        res = {}
        found = re.findall(r"=\s*\((\d+),\s*\((\d+),\s*(\d+),\s*\(?(-?\d+)\)?\)\)", " ".join(out.split()))
        if len(found) != len(part):
            raise C.BuildError("model evaluation: expected %d results\n%s" % (len(part), out[-1500:]))
        for j, v, k, tot in found:
            res[part[int(j)][0]] = (int(v), int(k), int(tot))
        return res

    allv = {}
    with ThreadPoolExecutor(max_workers=14) as ex:
        for r in ex.map(one, range(0, len(todo), shard)):
            allv.update(r)
    return allv, len(allv)


def reconf_trace(ctx, case, tag="rtrace"):
    ops = reconf_ops(case)
    if ops is None:
        return None
    body = "From TP Require Import Model.Prelude Extracted Model.Toxics Model.Timed Model.Reconf Model.ReconfRun Run.LinkRun Run.ReconfCases.\n"
    rc0 = coq_rcase(case, {"writes": [], "closed": -1}, ops)
    body += "Eval vm_compute in rmodel_trace false (%s).\nEval vm_compute in rmodel_trace true (%s).\n" % (rc0, rc0)
    rc, out = C.coq_eval(ctx, tag, body)
    return " ".join(out.split())[:4000]


# ---------------------------------------------------------------- several connections under one history (Model/MultiRun.v)
def multi_eligible(case):
    nl = case.get("links") or 1
    ls = case.get("link_start") or []
    return (nl > 1 or any(ls)) and not case.get("sink_fail_after") and not case.get("reseed")


def coq_mcase(case, res, ops):
    nl = case.get("links") or 1
    ls = list(case.get("link_start") or []) + [0] * nl
    srcs = case.get("srcs") or []
    obs = [res] + list(res.get("more") or res.get("more_all") or [])
    order = sorted(range(nl), key=lambda k: (ls[k], k))
    links = ["(%s, (%s, %s))" % (C.coq_z(ls[k]), coq_src(srcs[k] if k < len(srcs) else case["src"]), C.coq_zlist(case.get("sink_delay") or []))
             for k in order]
    ob = ["(%s, %s)" % (C.coq_list(["(%d, %d)" % (w["t"], w["n"]) for w in (obs[k]["writes"] or [])]), C.coq_z(obs[k]["closed"])) for k in order]
    return "mkMCase %s %s %s %s %d %s" % (coq_chain(case["chain"]), C.coq_list(links), C.coq_list(ops), C.coq_z(case["horizon"]),
                                          nl * fuel_reconf(dict(case, src=[e for s in (srcs or [case["src"]]) for e in s])) + 200, C.coq_list(ob))


def multi_verdicts(ctx, cases, results, idx, tag):
    todo = []
    for i in idx:
        c, r = cases[i], results[i]
        if not multi_eligible(c) or r is None or "crash" in r or r.get("hang") or any(o.get("err") for o in (r.get("ops") or [])):
            continue
        if len(r.get("more") or r.get("more_all") or []) != (c.get("links") or 1) - 1:
            continue
        ops = reconf_ops(dict(c, links=1, link_start=None, srcs=None))
        if ops is None:
            continue
        todo.append((i, ops))
    if not todo:
        return {}, 0
    shard = max(6, min(40, -(-len(todo) // 14)))
    import re

    def one(s):
        part = todo[s:s + shard]
        body = "From TP Require Import Model.Prelude Extracted Model.Toxics Model.Timed Model.Reconf Model.ReconfRun Model.MultiRun Run.LinkRun Run.ReconfCases.\n"
        for j, (i, ops) in enumerate(part):
            body += "Eval vm_compute in (%d, mverdict (%s)).\n" % (j, coq_mcase(cases[i], results[i], ops))
        rc, out = C.coq_eval(ctx, "%s_m%d" % (tag, s // shard), body, timeout=(300 if ctx.tier == "quick" else 1200))
        if rc != 0:
            k = out.find("Error")
            raise C.BuildError("model evaluation failed:\n" + (out[max(0, k - 300):k + 800] if k >= 0 else out[-1500:]))
        found = re.findall(r"=\s*\((\d+),\s*\((\d+),\s*(\d+)\)\)", " ".join(out.split()))
        if len(found) != len(part):
            raise C.BuildError("model evaluation: expected %d results\n%s" % (len(part), out[-1500:]))
        return {part[int(j)][0]: (int(v), int(k)) for j, v, k in found}

    allv = {}
    with ThreadPoolExecutor(max_workers=14) as ex:
        for r in ex.map(one, range(0, len(todo), shard)):
            allv.update(r)
    return allv, len(todo)


def multi_trace(ctx, case, res, tag="mtrace"):
    ops = reconf_ops(dict(case, links=1, link_start=None, srcs=None))
    if ops is None:
        return None
    body = "From TP Require Import Model.Prelude Extracted Model.Toxics Model.Timed Model.Reconf Model.ReconfRun Model.MultiRun Run.LinkRun Run.ReconfCases.\n"
    body += "Eval vm_compute in mmodel_trace (%s).\n" % coq_mcase(case, res, ops)
    rc, out = C.coq_eval(ctx, tag, body)
    return " ".join(out.split())[:4000]

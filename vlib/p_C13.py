"""C13 — slow_close delays only the close; reset_peer ends with a TCP reset.
vt part: exact timing of both toxics on in-memory links (reset_peer is added right after the link
started, because Start type-asserts *net.TCPConn when one is present at connect time).
tcp part (real sockets, real kernel): reset_peer present at connect time -> peers observe a reset."""
import json
import os

from . import common as C
from . import links as L

PID = "C13"


def gen_cases(ctx, rng):
    n = 110 if ctx.tier == "quick" else 3000
    cases = []
    stats = {"slow_close": 0, "reset_peer": 0, "close_only": 0}
    for i in range(n):
        src, t = [], rng.range(1, 30) * L.MS + 3
        for _ in range(rng.range(0, 5)):
            src.append({"at": t, "n": rng.range(1, 4000)})
            t += rng.range(0, 40) * L.MS + rng.range(0, 999)
        if not src:
            stats["close_only"] += 1
        src.append({"at": t + rng.range(0, 60) * L.MS + 1, "close": True})
        if rng.chance(3, 5):
            d = rng.choice([0, 1, 10, 50, 1000])
            pre = [L.tx("noop", name="n%d" % j) for j in range(rng.range(0, 2))]
            chain = pre + [L.tx("slow_close", name="c", delay=d)] + [L.tx("noop", name="m%d" % j) for j in range(rng.range(0, 1))]
            cases.append({"dir": rng.choice(["upstream", "downstream"]), "chain": chain, "src": src, "horizon": 3600 * 1000 * L.MS, "seed": i})
            stats["slow_close"] += 1
        else:
            T = rng.choice([0, 1, 40, 100, 600])
            cases.append({"dir": rng.choice(["upstream", "downstream"]), "chain": [], "src": src, "horizon": 3600 * 1000 * L.MS, "seed": i,
                          "ops": [{"at": 0, "op": "add", "toxic": L.tx("reset_peer", name="r", timeout=T)}], "reset_T": T})
            stats["reset_peer"] += 1
    # the timeout of a reset_peer toxic updated on a connection that is open and has not yet seen data or a close in the toxic's direction:
    # the wait that the first data-or-close starts lasts the updated timeout
    stats["reset_timeout_updated"] = 0
    for i in range(10 if ctx.tier == "quick" else 200):
        T1, T2 = rng.choice([(100, 1500), (3000, 100), (40, 600), (600, 0), (0, 250)])
        first = rng.range(300, 900) * L.MS + 7
        src = [{"at": first, "n": rng.range(1, 400)}, {"at": first + rng.range(1, 50) * L.MS, "n": 10}, {"at": first + 9000 * L.MS, "close": True}] if i % 3 else \
              [{"at": first, "close": True}]
        cases.append({"dir": rng.choice(["upstream", "downstream"]), "chain": [], "src": src, "horizon": 3600 * 1000 * L.MS, "seed": 4000 + i,
                      "ops": [{"at": 0, "op": "add", "toxic": L.tx("reset_peer", name="r", timeout=T1)},
                              {"at": rng.range(20, 250) * L.MS, "op": "update", "name": "r", "body": '{"attributes": {"timeout": %d}}' % T2}], "reset_T": T2})
        stats["reset_timeout_updated"] += 1
    # several connections through the same slow_close toxic at once, their senders closing at different instants: every close is
    # withheld for the delay counted from THAT connection's close
    stats["shared_by_connections"] = 0
    for i in range(12 if ctx.tier == "quick" else 300):
        d = rng.choice([10, 50, 400, 1000])
        chain = [L.tx("slow_close", name="c", delay=d)] + ([L.tx("noop", name="m")] if rng.chance(1, 3) else [])
        nl = rng.range(2, 3)
        srcs = []
        for k in range(nl):
            t, src = rng.range(1, 30) * L.MS + 3, []
            for _ in range(rng.range(0, 3)):
                src.append({"at": t, "n": rng.range(1, 2000)})
                t += rng.range(0, 40) * L.MS + rng.range(0, 999)
            src.append({"at": t + k * rng.choice([0, d // 2 + 1, d, 2 * d]) * L.MS + rng.range(1, 60) * L.MS + 1, "close": True})
            srcs.append(src)
        cases.append({"dir": rng.choice(["upstream", "downstream"]), "chain": chain, "src": srcs[0], "srcs": srcs, "links": nl,
                      "horizon": 3600 * 1000 * L.MS, "seed": 4000 + i})
        stats["shared_by_connections"] += 1
    # slow_close interrupted (its own update, another toxic added behind it or removed, a reset) while it is parked handing a chunk to a
    # receiver that is slow: it passes data through unchanged - the chunk in its hand included
    stats["interrupted_under_back_pressure"] = 0
    for i in range(16 if ctx.tier == "quick" else 400):
        d = rng.choice([10, 300])
        slow = rng.choice([200, 700, 1500]) * L.MS
        chain = [L.tx("slow_close", name="c", delay=d)] + ([L.tx("noop", name="m")] if rng.chance(1, 2) else [])
        src, t = [], 1 * L.MS
        for _ in range(rng.range(4, 9)):
            src.append({"at": t, "n": rng.range(1, 900)})
            t += rng.choice([0, 1, 50]) * L.MS + rng.range(0, 999)
        at = rng.range(1, 6) * slow // 2 + rng.range(1, 99) * L.MS + 333
        how = rng.choice(["update_self", "add_behind", "remove_self", "reset"] + (["remove_nb"] if len(chain) == 2 else []))
        ops = [{"update_self": {"at": at, "op": "update", "name": "c", "body": '{"attributes": {"delay": %d}}' % d},
                "add_behind": {"at": at, "op": "add", "toxic": L.tx("noop", name="z")},
                "remove_self": {"at": at, "op": "remove", "name": "c"}, "reset": {"at": at, "op": "reset"},
                "remove_nb": {"at": at, "op": "remove", "name": "m"}}[how]]
        src.append({"at": max(t, at) + 20 * slow, "close": True})
        cases.append({"dir": rng.choice(["upstream", "downstream"]), "chain": chain, "src": src, "ops": ops, "sink_delay": [slow],
                      "horizon": 3600 * 1000 * L.MS, "seed": 6000 + i, "interrupted": True})
        stats["interrupted_under_back_pressure"] += 1
    return cases, stats


def oracle(case, res):
    if res is None or "crash" in res:
        return "the process crashed: " + (res or {}).get("crash", "")[-300:]
    sent = sum(e.get("n", 0) for e in case["src"])
    srcclose = [e["at"] for e in case["src"] if e.get("close")][0]
    if "reset_T" in case:
        T = case["reset_T"]
        if res["total"] != 0:
            return "reset_peer delivered %d bytes" % res["total"]
        first = min(e["at"] for e in case["src"])
        if res["closed"] != first + T * L.MS:
            return "reset_peer closed at %d ns, expected first data-or-close %d ns + timeout %d ms" % (res["closed"], first, T)
        return None
    sc = [t for t in case["chain"] if t["type"] == "slow_close"]
    if not sc:
        return None
    d = sc[0]["attributes"]["delay"]
    if not res["prefix_ok"] or res["total"] != sent:
        return "slow_close changed the data (%d of %d bytes)" % (res["total"], sent)
    if case.get("interrupted"):
        return None                  # reconfigured under back-pressure: judged on the data; the timing is compared with the model
    ws = res["writes"] or []
    writes = [e for e in case["src"] if not e.get("close")]
    if len(ws) == len(writes):
        for e, w in zip(writes, ws):
            if w["t"] != e["at"]:
                return "slow_close delayed data by %d ns" % (w["t"] - e["at"])
    if res["closed"] != srcclose + d * L.MS:
        return "close seen at %d ns, expected sender's close %d ns + delay %d ms" % (res["closed"], srcclose, d)
    return None


def run(ctx):
    # reset_peer on real sockets is a scenario family of its own (an in-memory link cannot carry a TCP reset)
    def side(ctx2, proof):
        from . import tcp as T
        f1, c1 = T.stable(lambda: T.reset_peer_runs(ctx2, (12 if ctx2.tier == "quick" else 300) * (1 if proof["build_ok"] else 3)))
        f2, c2 = T.stable(lambda: T.slow_close_runs(ctx2, (12 if ctx2.tier == "quick" else 300) * (1 if proof["build_ok"] else 3)))
        c1.update(c2)
        return f1 + f2, c1

    return L.run_link_property(
        ctx, PID, gen_cases, oracle,
        classify=lambda w: "close-time" if ("closed at" in w or "close seen" in w) else ("data" if "bytes" in w or "delayed data" in w else "crash"),
        rule="slow_close (delay from {0,1,10,50,1000} ms) at positions 1-3 among noops, 0-5 writes then close; reset_peer (timeout from "
             "{0,1,40,100,600} ms) added at link start, first input a write or the close; real-socket runs with reset_peer present at connect "
             "time (timeouts 0/20/80/1100 ms, both streams, closer client/upstream/none, payload 0-64 KiB): the peers must see a connection "
             "reset, no data in the toxic's direction, not before the timeout; real-socket runs with slow_close (300-900 ms) where the sender closes "
             "its socket and the receiver keeps sending small messages the other way during the delay: no end of stream before the delay; non-trivial = delay/timeout > 0; distinct by JSON",
        nontrivial=lambda c: c.get("reset_T", 0) > 0 or any(t["type"] == "slow_close" and t["attributes"]["delay"] > 0 for t in c["chain"]),
        assumptions=["that SO_LINGER 0 + close is seen as a connection reset by the peer is kernel behaviour: observed on real sockets, not modelled",
                     "reset_peer cases use AddToxic on a started link and are judged by the oracle only (the timed model covers static chains)"],
        model_filter=lambda c: not c.get("ops"), side_findings=side)


def replay(ctx, path):
    return L.replay_link(ctx, PID, path, oracle)

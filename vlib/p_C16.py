"""C16 — concurrent requests on a proxy take effect atomically."""
import itertools
import json
import os

from . import api as A
from . import common as C
from . import links as L

PID = "C16"


def wire(method, path, body=None):
    return {"method": method, "path": path, "body": json.dumps(body) if body is not None else "", "ua": ""}


def gen_cases(ctx, rng):
    cases = []
    base = C.free_port_base("conc", 120, 30000, 60000)
    rounds = 30 if ctx.tier == "quick" else 400
    stats = {"families": {}}

    def add(fam, c):
        c["family"] = fam
        c["group"] = len(cases) % 6
        stats["families"][fam] = stats["families"].get(fam, 0) + 1
        cases.append(c)

    pi = [0]

    def ports(n):
        p = [base + (pi[0] + j) % 110 for j in range(n)]
        pi[0] += n
        return p

    for r in range(3):
        k = rng.range(4, 8)
        # (a) creates of one name on different ports / on one port
        ps = ports(k)
        add("create_same_name", {"setup": [], "batch": [wire("POST", "/proxies", {"name": "p", "listen": "127.0.0.1:%d" % ps[j], "upstream": "u:1"}) for j in range(k)],
                                 "probes": ["127.0.0.1:%d" % x for x in ps], "rounds": rounds, "churn": []})
        ps = ports(1)
        add("create_same_port", {"setup": [], "batch": [wire("POST", "/proxies", {"name": "p%d" % j, "listen": "127.0.0.1:%d" % ps[0], "upstream": "u:1"}) for j in range(k)],
                                 "probes": ["127.0.0.1:%d" % ps[0]], "rounds": rounds, "churn": []})
        # (b) deletes of one proxy
        ps = ports(1)
        add("delete_same", {"setup": [wire("POST", "/proxies", {"name": "p", "listen": "127.0.0.1:%d" % ps[0], "upstream": "u:1"})],
                            "batch": [wire("DELETE", "/proxies/p") for _ in range(k)], "probes": ["127.0.0.1:%d" % ps[0]], "rounds": rounds,
                            "churn": ["127.0.0.1:%d" % ps[0]]})
        # (c) toxic adds: same name / distinct names, with connection churn
        ps = ports(1)
        setup = [wire("POST", "/proxies", {"name": "p", "listen": "127.0.0.1:%d" % ps[0], "upstream": "127.0.0.1:9"})]
        add("toxic_add_same_name", {"setup": setup, "batch": [wire("POST", "/proxies/p/toxics", {"type": "latency", "name": "t", "attributes": {"latency": j}}) for j in range(k)],
                                    "probes": [], "rounds": rounds, "churn": ["127.0.0.1:%d" % ps[0]]})
        ps = ports(1)
        setup = [wire("POST", "/proxies", {"name": "p", "listen": "127.0.0.1:%d" % ps[0], "upstream": "127.0.0.1:9"})]
        add("toxic_add_distinct", {"setup": setup, "batch": [wire("POST", "/proxies/p/toxics", {"type": "latency", "name": "t%d" % j, "attributes": {"latency": j}}) for j in range(k)],
                                   "probes": [], "rounds": rounds, "churn": ["127.0.0.1:%d" % ps[0]]})
        # (d) toxic add / update / remove mixed on existing toxics
        ps = ports(1)
        setup = [wire("POST", "/proxies", {"name": "p", "listen": "127.0.0.1:%d" % ps[0], "upstream": "127.0.0.1:9"}),
                 wire("POST", "/proxies/p/toxics", {"type": "latency", "name": "a", "attributes": {"latency": 1}}),
                 wire("POST", "/proxies/p/toxics", {"type": "bandwidth", "name": "b", "attributes": {"rate": 5}})]
        batch = [wire("DELETE", "/proxies/p/toxics/a"), wire("DELETE", "/proxies/p/toxics/a"),
                 wire("PATCH", "/proxies/p/toxics/b", {"attributes": {"rate": 7}}), wire("PATCH", "/proxies/p/toxics/b", {"attributes": {"rate": 9}}),
                 wire("POST", "/proxies/p/toxics", {"type": "slicer", "name": "c", "attributes": {"average_size": 10}}),
                 wire("POST", "/proxies/p/toxics", {"type": "slicer", "name": "c", "attributes": {"average_size": 20}})]
        add("toxic_mixed", {"setup": setup, "batch": batch, "probes": [], "rounds": rounds, "churn": ["127.0.0.1:%d" % ps[0]]})
        # (e) create / delete of one name mixed
        ps = ports(2)
        batch = [wire("POST", "/proxies", {"name": "p", "listen": "127.0.0.1:%d" % ps[0], "upstream": "u:1"}), wire("DELETE", "/proxies/p"),
                 wire("POST", "/proxies", {"name": "p", "listen": "127.0.0.1:%d" % ps[1], "upstream": "u:1"}), wire("DELETE", "/proxies/p")]
        add("create_delete_mixed", {"setup": [], "batch": batch, "probes": ["127.0.0.1:%d" % x for x in ps], "rounds": rounds, "churn": []})
    # (g) concurrent updates of ONE toxic that set different fields, some bodies arriving slowly (in two parts): every one-at-a-time order
    #     gives the same result - all three fields set
    for r in range(3):
        ps = ports(1)
        setup = [wire("POST", "/proxies", {"name": "p", "listen": "127.0.0.1:%d" % ps[0], "upstream": "127.0.0.1:9"}),
                 wire("POST", "/proxies/p/toxics", {"type": "latency", "name": "a", "attributes": {"latency": 1, "jitter": 1}})]
        batch = [dict(wire("PATCH", "/proxies/p/toxics/a", {"attributes": {"latency": 100}}), pause_ms=[12, 3, 0][r]),
                 dict(wire("PATCH", "/proxies/p/toxics/a", {"attributes": {"jitter": 5}}), pause_ms=[0, 3, 6][r]),
                 dict(wire("PATCH", "/proxies/p/toxics/a", {"toxicity": 0.5}), pause_ms=[4, 0, 12][r])]
        add("toxic_update_disjoint", {"setup": setup, "batch": batch, "probes": [], "rounds": rounds, "churn": []})
    # (h) requests that stop or restart a proxy (disable / enable / re-address) against toxic requests on the same proxy, while clients
    #     keep connecting through it to an upstream that accepts: connections are being accepted, dialled and linked at every moment
    for r in range(4):
        ps = ports(2)
        setup = [wire("POST", "/proxies", {"name": "p", "listen": "127.0.0.1:%d" % ps[0], "upstream": "127.0.0.1:%d" % ps[1]}),
                 wire("POST", "/proxies/p/toxics", {"type": "latency", "name": "a", "attributes": {"latency": 1}})]
        batch = [[wire("POST", "/proxies/p", {"enabled": False}), wire("POST", "/proxies/p/toxics", {"type": "noop", "name": "n"})],
                 [wire("POST", "/proxies/p", {"enabled": False}), wire("DELETE", "/proxies/p/toxics/a"), wire("POST", "/proxies/p/toxics", {"type": "noop", "name": "n"})],
                 [wire("POST", "/proxies/p", {"upstream": "127.0.0.1:%d" % ps[1], "listen": "127.0.0.1:%d" % ps[0], "enabled": True}),
                  wire("PATCH", "/proxies/p/toxics/a", {"attributes": {"latency": 2}}), wire("POST", "/proxies/p/toxics", {"type": "noop", "name": "n"})],
                 [wire("DELETE", "/proxies/p"), wire("POST", "/proxies/p/toxics", {"type": "noop", "name": "n"}), wire("DELETE", "/proxies/p/toxics/a")]][r]
        add("stop_vs_toxic_churn", {"setup": setup, "batch": batch, "probes": [], "rounds": rounds * 2, "churn": ["127.0.0.1:%d" % ps[0]] * 4,
                                    "upstreams": ["127.0.0.1:%d" % ps[1]]})
    # (f) enable/disable/update against delete (finding F9): one round per case, own ports (a zombie keeps its port)
    for r in range(24 if ctx.tier == "quick" else 300):
        ps = ports(1)
        setup = [wire("POST", "/proxies", {"name": "p", "listen": "127.0.0.1:%d" % ps[0], "upstream": "u:1", "enabled": False})]
        batch = [wire("DELETE", "/proxies/p"), wire("POST", "/proxies/p", {"enabled": True}), wire("POST", "/proxies/p", {"enabled": True})]
        add("enable_vs_delete", {"setup": setup, "batch": batch, "probes": ["127.0.0.1:%d" % ps[0]], "rounds": 1, "churn": []})
    # the same schedule replayed deterministically: lookup of ProxyUpdate, a complete delete, then Proxy.Update
    ps = ports(1)
    add("enable_vs_delete", {"setup": [wire("POST", "/proxies", {"name": "p", "listen": "127.0.0.1:%d" % ps[0], "upstream": "u:1", "enabled": False})],
                             "batch": [], "interleave": "p", "probes": ["127.0.0.1:%d" % ps[0]], "rounds": 1, "churn": []})
    return cases, stats


def seq_ok_create_delete(batch, res, final_names):
    """tiny sequential specification for create(name)/delete(name) histories: is there a real-time consistent order with these results?"""
    k = len(batch)
    idx = list(range(k))
    for perm in itertools.permutations(idx):
        ok = True
        for a in range(k):
            for b in range(a + 1, k):
                if res[perm[b]]["t1"] < res[perm[a]]["t0"]:
                    ok = False
                    break
            if not ok:
                break
        if not ok:
            continue
        present = False
        for i in perm:
            q, r = batch[i], res[i]
            if q["method"] == "POST":
                want = 409 if present else 201
                if r["status"] not in (want, 500 if not present else want):
                    ok = False
                    break
                if r["status"] == 201:
                    present = True
            else:
                want = 204 if present else 404
                if r["status"] != want:
                    ok = False
                    break
                if r["status"] == 204:
                    present = False
        if ok and present == ("p" in final_names):
            return True
    return False


def judge(case, rounds):
    fam = case["family"]
    for ri, rd in enumerate(rounds):
        if rd["stuck"]:
            return ("lock-up", "%d of %d concurrent requests never returned (family %s)" % (rd["stuck"], len(case["batch"]), fam))
        if any(x >= 400 for x in (rd.get("setup") or [])):
            continue            # the round's own set-up was refused (its listen port was taken by another process meanwhile): nothing to judge
        st = [r["status"] for r in rd["batch"]]
        final = A.canon_payload(rd["final"])
        plist = final[1] if final[0] == "proxies" else []
        names = [p["name"] for p in plist]
        listening = [a for a, up in (rd.get("probes") or {}).items() if up]
        listed_listens = [p["listen"] for p in plist if p["enabled"]]
        zombies = [a for a in listening if a not in listed_listens]
        if fam == "create_same_name":
            if st.count(201) != 1 or any(s not in (201, 409) for s in st):
                return ("not-atomic", "round %d: %d concurrent creates of one name answered %s (exactly one 201 expected)" % (ri, len(st), sorted(st)))
            if names != ["p"] or len(listening) != 1 or zombies:
                return ("not-atomic", "round %d: after concurrent creates of one name: listed %s, listening %s" % (ri, names, listening))
        elif fam == "create_same_port":
            if st.count(201) != 1 or any(s not in (201, 500) for s in st):
                return ("not-atomic", "round %d: concurrent creates on one port answered %s" % (ri, sorted(st)))
            if len(names) != 1:
                return ("not-atomic", "round %d: %d proxies listed after concurrent creates on one port" % (ri, len(names)))
        elif fam == "delete_same":
            if st.count(204) != 1 or any(s not in (204, 404) for s in st) or names or listening:
                return ("not-atomic", "round %d: concurrent deletes answered %s; listed %s; still listening %s" % (ri, sorted(st), names, listening))
        elif fam == "toxic_add_same_name":
            tox = [t["name"] for p in plist for t in p["toxics"]]
            if st.count(200) != 1 or any(s not in (200, 409) for s in st) or tox != ["t"]:
                return ("not-atomic", "round %d: concurrent adds of one toxic name answered %s; listed toxics %s" % (ri, sorted(st), tox))
        elif fam == "toxic_add_distinct":
            tox = sorted(t["name"] for p in plist for t in p["toxics"])
            if any(s != 200 for s in st) or tox != sorted("t%d" % j for j in range(len(st))):
                return ("not-atomic", "round %d: concurrent adds of distinct toxics answered %s; listed %s (lost or duplicated)" % (ri, sorted(st), tox))
        elif fam == "toxic_mixed":
            tox = {t["name"]: t for p in plist for t in p["toxics"]}
            dels, upds, adds = st[0:2], st[2:4], st[4:6]
            if sorted(dels) != [204, 404] or upds != [200, 200] or sorted(adds) != [200, 409]:
                return ("not-atomic", "round %d: mixed toxic operations answered %s" % (ri, st))
            if sorted(tox) != ["b", "c"] or tox["b"]["attrs"][0][1] not in (7, 9) or tox["c"]["attrs"][0][1] not in (10, 20):
                return ("not-atomic", "round %d: final toxics %s are not those of any one-at-a-time order" % (ri, json.dumps(list(tox.values()), default=str)[:200]))
        elif fam == "toxic_update_disjoint":
            tox = {t["name"]: t for p in plist for t in p["toxics"]}
            a = tox.get("a")
            got = (dict(a["attrs"]), a["toxicity"]) if a else None
            if st != [200, 200, 200] or got != ({"latency": 100, "jitter": 5}, 0.5):
                return ("not-atomic", "round %d: concurrent updates of one toxic setting latency=100 / jitter=5 / toxicity=0.5 answered %s and left %s: "
                        "an update was lost (no one-at-a-time order gives this)" % (ri, st, json.dumps(got, default=str)))
        elif fam == "create_delete_mixed":
            if zombies:
                return ("not-atomic", "round %d: a listener nobody lists is accepting on %s" % (ri, zombies))
            if not seq_ok_create_delete(case["batch"], rd["batch"], names):
                return ("not-atomic", "round %d: no one-at-a-time order explains results %s with final %s" % (ri, st, names))
        elif fam == "stop_vs_toxic_churn":
            tox = sorted(t["name"] for p in plist for t in p["toxics"])
            first = case["batch"][0]
            if first["method"] == "DELETE":
                # delete || toxic requests: every toxic request either ran before the delete (200/204) or after it (404)
                if st[0] != 204 or names or any(s not in (200, 204, 404) for s in st[1:]):
                    return ("not-atomic", "round %d: delete of a proxy against toxic requests under connection churn answered %s; listed %s" % (ri, st, names))
            else:
                want = sorted({"a", "n"} - ({"a"} if any(q["method"] == "DELETE" for q in case["batch"]) else set()))
                if any(s not in (200, 204) for s in st) or tox != want:
                    return ("not-atomic", "round %d: stop/restart of a proxy against toxic requests under connection churn answered %s and left toxics %s (expected %s)"
                            % (ri, st, tox, want))
        elif fam == "enable_vs_delete":
            if zombies:
                return ("update-vs-delete-zombie", "delete || enable: nothing is listed but %s accepts connections (statuses %s)" % (zombies, st))
            if st and "p" in names and st[0] == 204 and rd["batch"][0]["t1"] >= max(r["t1"] for r in rd["batch"][1:]):
                return ("not-atomic", "delete returned last with 204 but the proxy is still listed")
    return None


def wedge_witness(ctx):
    """the lock-up F8 replayed deterministically under virtual time: a toxic operation holds the collection lock while it waits to
    interrupt a stage that is blocked handing a chunk to a stage that has closed"""
    case = {"dir": "downstream", "chain": [L.tx("noop", name="n")],
            "src": [{"at": 1000000, "n": 10}, {"at": 2000000, "n": 10}, {"at": 9000000000, "close": True}],
            "sink_delay": [3000000000], "sink_fail_after": 1,      # the receiver takes 3 s over the first write and then resets
            "ops": [{"at": 1000000000, "op": "remove", "name": "n"}], "horizon": 20000000000, "seed": 1}
    r = L.run_impl(ctx, [case], "c16_wedge", procs=1)[0]
    return case, r


def lock_cycle():
    """the requested-while-held relation as regenerated into Extracted.v, and a cycle in it if there is one"""
    import re
    try:
        src = open(os.path.join(C.COQ, "Extracted.v")).read()
        m = re.search(r"Definition lock_edges .*?:= \[(.*?)\]\.", src, re.S)
        edges = re.findall(r'\("([^"]*)"%string, "([^"]*)"%string\)', m.group(1))
    except Exception:
        return None, None
    succ = {}
    for a, b in edges:
        succ.setdefault(a, []).append(b)
    state, stack = {}, []

    def dfs(u):
        state[u] = 1
        stack.append(u)
        for v in succ.get(u, []):
            if state.get(v) == 1:
                return stack[stack.index(v):] + [v]
            if v not in state:
                r = dfs(v)
                if r:
                    return r
        stack.pop()
        state[u] = 2
        return None
    for u in sorted(succ):
        if u not in state:
            r = dfs(u)
            if r:
                return edges, r
    return edges, None


def lock_selftest(ctx):
    """thorough tier: the lock-order obligation can fail - the translator run on a scratch copy of the working tree with the recorded
    lock-order inversion (seeded/C16-c) applied must yield a relation with a cycle. Returns a description, or None when not run."""
    import re
    import shutil
    import tempfile
    patch = os.path.join(C.VERIF, "seeded", "C16-c", "patch.diff")
    if not os.path.exists(patch):
        return None
    tmp = tempfile.mkdtemp(prefix="c16_lock_selftest_")
    try:
        # the working tree's Go sources of the two packages (what the translator reads)
        for sub in ("", "toxics"):
            os.makedirs(os.path.join(tmp, sub), exist_ok=True)
            for f in os.listdir(os.path.join(C.REPO, sub)):
                if f.endswith(".go"):
                    shutil.copy(os.path.join(C.REPO, sub, f), os.path.join(tmp, sub, f))
        rc, o = C.sh(["patch", "-p1", "-s", "-d", tmp, "-i", patch], timeout=60)
        if rc != 0:
            return "not run: the recorded inversion no longer applies to the working tree"
        rc, o = C.sh([C.go_build_extract(ctx), "-repo", tmp], env=C.GOENV, timeout=120)
        m = re.search(r"Definition lock_edges .*?:= \[(.*?)\]\.", o, re.S)
        edges = re.findall(r'\("([^"]*)"%string, "([^"]*)"%string\)', m.group(1)) if m else []
        succ = {}
        for a, b in edges:
            succ.setdefault(a, set()).add(b)
        # cycle <=> some node reaches itself
        def reach(a):
            seen, todo = set(), list(succ.get(a, ()))
            while todo:
                x = todo.pop()
                if x not in seen:
                    seen.add(x)
                    todo.extend(succ.get(x, ()))
            return seen
        cyc = sorted(a for a in succ if a in reach(a))
        return "with the recorded lock-order inversion applied to a scratch copy the regenerated relation has a cycle through %s" % ", ".join(cyc) if cyc else \
               "FAILED: the recorded lock-order inversion applied to a scratch copy yields an acyclic relation"
    finally:
        shutil.rmtree(tmp, ignore_errors=True)


def run(ctx):
    verdict = C.Verdict(ctx)
    rng = C.Rng(ctx.seed).fork(PID)
    proof = C.proof_step(ctx, verdict, PID)
    cases, stats = gen_cases(ctx, rng)
    if not getattr(ctx, "_h_built", False):
        C.go_build_harness(ctx, "h")
        ctx._h_built = True
    h = os.path.join(C.BUILD, "h")
    from concurrent.futures import ThreadPoolExecutor
    groups = sorted(set(c["group"] for c in cases))

    def one(g):
        part = [i for i, c in enumerate(cases) if c["group"] == g]
        fin, fout = os.path.join(C.BUILD, "c16_in_%d.json" % g), os.path.join(C.BUILD, "c16_out_%d.json" % g)
        json.dump({"cases": [{k: v for k, v in cases[i].items() if k in ("setup", "batch", "churn", "probes", "rounds", "interleave", "upstreams")} for i in part]}, open(fin, "w"))
        if os.path.exists(fout):
            os.remove(fout)
        rc, out = C.sh([h, "-mode", "conc", "-in", fin, "-out", fout], env=C.GOENV, timeout=900)
        rs = json.load(open(fout)) if rc == 0 and os.path.exists(fout) else None
        return part, rs, out

    results = [None] * len(cases)
    with ThreadPoolExecutor(max_workers=len(groups)) as ex:
        for part, rs, out in ex.map(one, groups):
            for j, i in enumerate(part):
                results[i] = rs[j] if rs else {"crash": out[-1000:]}
    nrounds = sum(len(r) for r in results if isinstance(r, list))
    ctx.log("ran %d concurrent batches (%d rounds)" % (len(cases), nrounds))
    fails = []
    for c, r in zip(cases, results):
        if isinstance(r, dict):
            fails.append((c, r, ("crash", "the process crashed during a concurrent batch: " + r.get("crash", "")[-200:])))
            continue
        w = judge(c, r)
        if w:
            fails.append((c, r, w))
    if not proof["build_ok"] and not [f for f in fails if f[2][0] not in ("update-vs-delete-zombie", "lock-up-blocked-stage")]:
        # a proof obligation broke and the regular volume found nothing: search the racy families at 30x volume
        ctx.log("proof broken: searching the create/delete families at 30x volume")
        extra = [dict(c, rounds=c["rounds"] * 30) for c in cases if c["family"] in ("create_same_name", "create_same_port", "delete_same", "create_delete_mixed")] + \
                [dict(c, rounds=c["rounds"] * 10) for c in cases if c["family"] in ("stop_vs_toxic_churn", "toxic_mixed")] + \
                [dict(c, rounds=max(c["rounds"], 1) * 40) for c in cases if c["family"] == "enable_vs_delete"]
        for j, c in enumerate(extra):
            c["group"] = j % 6
        saved = cases
        cases = extra
        xr = [None] * len(extra)
        with ThreadPoolExecutor(max_workers=6) as ex:
            for part, rs, out in ex.map(one, sorted(set(c["group"] for c in extra))):
                for j, i in enumerate(part):
                    xr[i] = rs[j] if rs else {"crash": out[-1000:]}
        for c, r in zip(extra, xr):
            if isinstance(r, list):
                nrounds += len(r)
                w = judge(c, r)
                if w:
                    fails.append((c, r, w))
        cases = saved
    wc, wr = wedge_witness(ctx)
    if wr and (wr.get("hang") or "all goroutines in bubble are blocked" in (wr.get("leak") or "")):
        fails.append(({"family": "lock-up-witness", "vt_case": wc}, wr,
                      ("lock-up-blocked-stage", "removing a toxic never returns when the stage before it is blocked handing a chunk to a stage that has "
                       "closed: the collection lock is held for ever and every later toxic request and GET /proxies blocks")))
    ctx.log("failing batches: %d" % len(fails))
    seen = set()
    for c, r, (key, w) in fails:
        if key in seen:
            continue
        seen.add(key)
        verdict.add(key, w, {"kind": "failing-input", "case": c, "observed": r if not isinstance(r, list) else r[:2]})
    if not [f for f in fails if f[2][0] not in ("update-vs-delete-zombie", "lock-up-blocked-stage")] and not proof["build_ok"]:
        edges, cyc = lock_cycle()
        verdict.add("proof-broken", "proof obligation of C16 no longer checks (%s%s) and no failing concurrent batch was found in %d rounds"
                    % (", ".join(proof.get("broken", [])), ("; the locks can now be requested in a cycle: " + " -> ".join(cyc)) if cyc else "", nrounds),
                    {"kind": "proof-broken", "broken": proof.get("broken"), "build_tail": proof.get("build_tail"), "lock_edges": edges, "lock_cycle": cyc,
                     "extracted": {k: v for k, v in getattr(ctx, "extract_meta", {}).items() if "atomic" in k or "sections" in k}}, has_input=False)
    rc, nviol = verdict.finish()
    cov = {
        "obligations": proof["obligations"], "discharged": proof["discharged"],
        "checker_cmd": "coq_makefile + make Properties/C16.vo (coqc 8.16.1), Print Assumptions per theorem",
        "theorems": proof["theorems"], "print_assumptions": proof["assumptions"],
        "evaluations": nrounds, "distinct_nontrivial": len(cases),
        "rule": "batches of 3-8 requests released together on the in-process server from as many goroutines, with connection churn on the proxy: "
                "creates of one name / on one port, deletes of one proxy, toxic adds of one name / distinct names, mixed toxic add/update/remove, "
                "create/delete mixed (checked against a sequential spec over all real-time-consistent orders), updates of one toxic setting different "
                "fields with bodies arriving in two parts, enable vs delete, stop / restart / delete of a proxy against toxic requests while "
                "four clients keep connecting through it to an accepting upstream; each batch repeated "
                "on fresh servers; a 10 s watchdog reports requests that never return; plus the lock-up witness under virtual time; "
                "distinct = batches, evaluations = rounds",
        "traces_validated_against_impl": nrounds, "input_distribution": stats, "failing_batches": len(fails),
        "lock_order_selftest": (lock_selftest(ctx) if ctx.tier == "thorough" else "thorough tier only"),
        "samples": [{"family": cases[0]["family"], "batch": cases[0]["batch"][:3], "round0": (results[0][0] if isinstance(results[0], list) else None)}],
    }
    C.write_evidence(ctx, cov, ["real lock fairness and the Go scheduler decide which interleavings occur in a run; the theorems cover every order of the critical sections",
                                "known findings F8 (lock-up) and F9 (enable/update vs delete) are replayed and listed in known_findings.txt",
                                "multi-entry populate and reset are sequences of per-proxy steps by design and not claimed atomic"], nviol)
    return rc


def replay(ctx, path):
    print("replay: re-run ./check C16 (concurrent batches are schedule dependent); file:", path)
    return 1

"""C17 — populate is idempotent and replaces on difference; reset restores a clean state."""
import json

from . import api as A
from . import common as C
from . import p_C05 as G
from . import tcp as T

PID = "C17"


def spell(kind, port):
    if kind == "canon":
        return "127.0.0.1:%d" % port
    if kind == "host":
        return "localhost:%d" % port
    return ":%d" % port


def env_for(ports):
    env = []
    for p in ports:
        env.append(("127.0.0.1:%d" % p, (p, "127.0.0.1:%d" % p, "127.0.0.1:%d" % p)))
        env.append(("localhost:%d" % p, (p, "127.0.0.1:%d" % p, "127.0.0.1:%d" % p)))
        env.append((":%d" % p, (p, ":%d" % p, "[::]:%d" % p)))
        env.append(("[::]:%d" % p, (p, "[::]:%d" % p, "[::]:%d" % p)))
    env.append(("nonsense", None))
    return env


def gen_cases(ctx, rng):
    cases = []
    stats = {"sequences": 0, "spellings": {"canon": 0, "host": 0, "port": 0}, "disabled_entries": 0, "repeats": 0, "differing": 0, "resets": 0}
    n = 120 if ctx.tier == "quick" else 4000
    for i in range(n):
        base = G.port_base(i % 5)
        ports = [base, base + 1, base + 2]
        entries = []
        meta = []
        for k, nm in enumerate(rng.choice([["a"], ["a", "b"], ["b", "a", "c"]])):
            sp = rng.choice(["canon", "canon", "host", "port"])
            en = None if rng.chance(2, 3) else rng.chance(1, 2)
            d = {"name": nm, "listen": spell(sp, ports[k]), "upstream": "u%d:1" % k}
            if en is not None:
                d["enabled"] = en
            entries.append(d)
            meta.append((sp, en is False))
            stats["spellings"][sp] += 1
            stats["disabled_entries"] += 1 if en is False else 0
        reqs = [A.req("POST", "/populate", A.J(entries))]
        for nm in [e["name"] for e in entries]:
            if rng.chance(2, 3):
                reqs.append(A.req("POST", "/proxies/%s/toxics" % nm, A.J({"type": rng.choice(["latency", "timeout", "bandwidth"]), "name": "t",
                                                                         "attributes": {}})))
            if rng.chance(1, 3):
                # several toxics stacked on each direction (a reset must remove every one of them, not every other one)
                for j in range(rng.range(2, 6)):
                    reqs.append(A.req("POST", "/proxies/%s/toxics" % nm, A.J({"type": rng.choice(["latency", "noop", "slicer", "slow_close"]), "name": "s%d" % j,
                                                                             "stream": rng.choice(["upstream", "downstream", "downstream"]), "attributes": {}})))
                stats["stacked_toxics"] = stats.get("stacked_toxics", 0) + 1
        reps = rng.range(1, 4)
        for _ in range(reps):
            reqs.append(A.req("POST", "/populate", A.J(entries)))
            stats["repeats"] += 1
        info = {"entries": entries, "meta": meta, "first_repeat": len(reqs) - reps}
        if rng.chance(1, 2):
            changed = json.loads(json.dumps(entries))
            j = rng.range(0, len(changed) - 1)
            if rng.chance(1, 3) and not meta[j][1]:
                # same name, port and upstream, another bind address (concrete <-> wildcard): differs, must be replaced
                pj = ports[j]
                changed[j]["listen"] = spell("canon", pj) if meta[j][0] == "port" else spell("port", pj)
                info["differing_listen"] = "127.0.0.1:%d" % pj if meta[j][0] == "port" else "[::]:%d" % pj
                stats["differing_bind_address"] = stats.get("differing_bind_address", 0) + 1
            elif rng.chance(1, 2):
                changed[j]["upstream"] = "other:9"
            else:
                changed[j]["listen"] = spell("canon", ports[2] if len(changed) < 3 else ports[j]) if len(changed) < 3 else changed[j]["listen"]
                changed[j]["upstream"] = "other:9"
            reqs.append(A.req("POST", "/populate", A.J(changed)))
            info["differing_at"] = len(reqs) - 1
            info["differing_name"] = changed[j]["name"]
            stats["differing"] += 1
        if rng.chance(1, 3) and len(entries) > 1:
            # the same entries once more, one of the later ones now switching its (running) proxy off: the response still lists the
            # resulting proxies in request order
            again = json.loads(json.dumps(entries))
            j = rng.range(1, len(again) - 1)
            again[j]["enabled"] = False
            again[j]["upstream"] = again[j]["upstream"] + "0"        # never identical to the first body
            if rng.chance(1, 2):
                again[j]["upstream"] = "moved:7"
            reqs.append(A.req("POST", "/populate", A.J(again)))
            stats["later_entry_switched_off"] = stats.get("later_entry_switched_off", 0) + 1
        if rng.chance(1, 2):
            reqs.append(A.req("POST", "/reset"))
            info["reset_at"] = len(reqs) - 1
            stats["resets"] += 1
        reqs.append(A.req("GET", "/proxies"))
        cases.append({"reqs": reqs, "env": env_for(ports), "group": i % 5, "info": info})
        stats["sequences"] += 1
    return cases, stats


def oracle(case, resps):
    if isinstance(resps, dict) and "crash" in resps:
        return (0, "the API process crashed: " + resps["crash"][-300:])
    info = case.get("info")
    if not info:
        return None
    fr = info["first_repeat"]
    nrep = 0            # the identical repeats are the consecutive populate requests from first_repeat on that equal the first one
    while fr + nrep < len(case["reqs"]) and case["reqs"][fr + nrep]["path"] == "/populate" \
            and A.text(case["reqs"][fr + nrep]["json"]) == A.text(case["reqs"][0]["json"]):
        nrep += 1
    for k in range(fr, fr + nrep):
        if k >= len(resps):
            break
        before = A.canon_payload(resps[k - 1]["proxies"])
        after = A.canon_payload(resps[k]["proxies"])
        if resps[k]["status"] != 201:
            return (k, "repeating an identical populate body answered %d" % resps[k]["status"])
        pl = A.canon_payload(resps[k]["body"])
        if [p["name"] for p in pl[1]] != [e["name"] for e in info["entries"]]:
            return (k, "populate response does not list the proxies in request order")
        if after != before:
            kinds = []
            b = {p["name"]: p for p in before[1]}
            a = {p["name"]: p for p in after[1]}
            for e, (sp, dis) in zip(info["entries"], info["meta"]):
                if a.get(e["name"]) != b.get(e["name"]):
                    kinds.append("disabled" if dis else sp)
            return (k, "repeating an identical populate body changed the proxies (toxics lost / proxy replaced) for entries spelled/flagged: %s"
                    % ",".join(sorted(set(kinds))))
    # every accepted populate lists the resulting proxies in request order, whatever the entries do
    for k, (q, rsp) in enumerate(zip(case["reqs"], resps)):
        if q["path"] == "/populate" and rsp["status"] == 201 and q["json"] and q["json"][0] == "arr":
            want = [dict(e[1]).get("name", ("str", None))[1] for e in q["json"][1] if e[0] == "obj"]
            pl = A.canon_payload(rsp["body"])
            if pl[0] == "populate" and [p["name"] for p in pl[1]] != want:
                return (k, "populate response lists %s for the request order %s" % ([p["name"] for p in pl[1]], want))
    if "differing_at" in info and info["differing_at"] < len(resps):
        k = info["differing_at"]
        if resps[k]["status"] == 201:
            after = {p["name"]: p for p in A.canon_payload(resps[k]["proxies"])[1]}
            p = after.get(info["differing_name"])
            if "differing_listen" in info:
                if p is None or p["toxics"] or (p["enabled"] and p["listen"] != info["differing_listen"]):
                    return (k, "an entry with another bind address (same port) did not replace the old proxy: it now listens on %s with %d toxics, expected %s and none"
                            % (p and p["listen"], len(p["toxics"]) if p else 0, info["differing_listen"]))
            elif p is None or p["toxics"] or p["upstream"] != "other:9":
                return (k, "a differing entry did not replace the old proxy by a fresh one")
    if "reset_at" in info and info["reset_at"] < len(resps):
        k = info["reset_at"]
        if resps[k]["status"] == 204:
            for p in A.canon_payload(resps[k]["proxies"])[1]:
                if not p["enabled"] or p["toxics"]:
                    return (k, "after reset proxy %r is %s with %d toxics" % (p["name"], "enabled" if p["enabled"] else "disabled", len(p["toxics"])))
    return None


def known_class(case, resps, ri, w):
    if "entries spelled/flagged" in w:
        kinds = set(w.rsplit(": ", 1)[1].split(","))
        if kinds <= {"port", "disabled"}:
            return "populate-not-idempotent-port-spelling-or-disabled"
    return None


# ---------------------------------------------------------------- live connections (real sockets)
def tcp_scenarios(ctx, n):
    rng = C.Rng(ctx.seed).fork("C17tcp")
    cases = []
    for i in range(n):
        g = i % 6
        b = T.port_base(g)
        u1, u2, px = b, b + 1, b + 2
        entry = {"name": "p", "listen": "127.0.0.1:%d" % px, "upstream": "127.0.0.1:%d" % u1}
        kind = rng.choice(["same", "same", "differ", "differ_disabled", "reset"]) if i % 4 != 3 else "reset_in_flight"
        ops = [{"op": "upstream", "id": "u1", "port": u1, "mode": "echo"}, {"op": "upstream", "id": "u2", "port": u2, "mode": "echo"},
               T.api("POST", "/populate", [entry]),
               {"op": "dial", "id": "c1", "addr": "127.0.0.1:%d" % px}, {"op": "send", "id": "c1", "n": 200},
               {"op": "recv", "id": "c1", "n": 200, "ms": 1500},
               T.api("POST", "/proxies/p/toxics", {"type": "latency", "name": "l", "attributes": {"latency": rng.choice([1, 30])}})]
        if kind == "same":
            for _ in range(rng.range(1, 3)):
                ops.append(T.api("POST", "/populate", [entry]))
            ops += [{"op": "send", "id": "c1", "n": 300}, {"op": "recv", "id": "c1", "n": 300, "ms": 1500},
                    T.api("GET", "/proxies/p/toxics")]
        elif kind == "differ":
            e2 = dict(entry, upstream="127.0.0.1:%d" % u2)
            if rng.chance(1, 2):
                # a toxic on the old proxy that withholds the end of the stream from the client: the replacement still drops the connection
                ops.append(T.api("POST", "/proxies/p/toxics", {"type": rng.choice(["slow_close", "reset_peer"]), "name": "h", "stream": "downstream",
                                                              "attributes": {"delay": 20000, "timeout": 20000}}))
            ops += [T.api("POST", "/populate", [e2]), {"op": "recv", "id": "c1", "n": 1, "ms": 1500},
                    {"op": "dial", "id": "c2", "addr": "127.0.0.1:%d" % px}, {"op": "send", "id": "c2", "n": 50},
                    {"op": "recv", "id": "c2", "n": 50, "ms": 1500}, T.api("GET", "/proxies/p/toxics")]
        elif kind == "differ_disabled":
            e2 = dict(entry, upstream="127.0.0.1:%d" % u2, enabled=False)
            ops += [T.api("POST", "/populate", [e2]), {"op": "recv", "id": "c1", "n": 1, "ms": 1500},
                    {"op": "dial", "id": "c2", "addr": "127.0.0.1:%d" % px}, {"op": "bindcheck", "port": px}]
        elif kind == "reset_in_flight":
            # the reset arrives while a toxic still holds part of what the live connection is relaying (the pause before a slicer's last
            # piece, a latency wait, a bandwidth instalment): the connection stays up and nothing of it is lost
            holder = [{"type": "slicer", "name": "s", "attributes": {"average_size": 500, "size_variation": 0, "delay": 400000}},
                      {"type": "slicer", "name": "s", "attributes": {"average_size": 334, "size_variation": 0, "delay": 250000}},
                      {"type": "latency", "name": "s", "attributes": {"latency": 600}},
                      {"type": "bandwidth", "name": "s", "attributes": {"rate": 1}}][(i // 4) % 4]
            wait = {"slicer": rng.choice([120, 200]), "latency": 200, "bandwidth": 300}[holder["type"]]
            if holder["attributes"].get("average_size") == 334:
                wait = rng.choice([100, 350])       # the first or the second of two pauses
            ops += [T.api("POST", "/proxies/p/toxics", holder), {"op": "send", "id": "c1", "n": 1000}, {"op": "sleep", "ms": wait},
                    T.api("POST", "/reset"), {"op": "recv", "id": "c1", "n": 1000, "ms": 1500},
                    {"op": "send", "id": "c1", "n": 300}, {"op": "recv", "id": "c1", "n": 300, "ms": 800},
                    T.api("GET", "/proxies/p/toxics")]
        else:
            # several toxics stacked on the direction of the reply: after the reset the live connection passes data unmodified (at once)
            for j in range(rng.range(0, 4)):
                ops.append(T.api("POST", "/proxies/p/toxics", {"type": "latency", "name": "l%d" % j, "attributes": {"latency": 700}}))
            ops += [T.api("POST", "/reset"), {"op": "send", "id": "c1", "n": 300}, {"op": "recv", "id": "c1", "n": 300, "ms": 500},
                    T.api("GET", "/proxies/p/toxics")]
        cases.append({"ops": ops, "group": g, "kind": kind})
    results = T.run_tcp(ctx, cases, "c17")
    fails = []
    for c, r in zip(cases, results):
        rp = {"kind": "failing-input", "tcp": True, "case": c, "observed": r}
        if T.env_broken(r):
            continue
        if isinstance(r, dict):
            fails.append(("crash", "process crashed in a populate scenario", rp))
            continue
        if c["kind"] == "same":
            if not (r[-2]["ok"] and r[-2]["content_ok"]) or '"name":"l"' not in r[-1]["body"]:
                fails.append(("populate-drops-live", "an identical populate dropped the live connection or the toxics", rp))
        elif c["kind"] == "differ":
            if r[-5].get("end") not in ("eof", "reset") or not (r[-2]["ok"] and r[-2]["content_ok"]) or r[-1]["body"].strip() != "[]":
                fails.append(("populate-replace", "a differing populate entry did not drop the old connection / serve the new upstream / start without toxics", rp))
        elif c["kind"] == "differ_disabled":
            if r[-3].get("end") not in ("eof", "reset") or r[-2]["ok"] or not r[-1]["ok"]:
                fails.append(("populate-replace", "a differing, disabled populate entry left the old proxy up (old connection %s, dial %s, port %s)"
                              % (r[-3].get("end"), "accepted" if r[-2]["ok"] else "refused", "free" if r[-1]["ok"] else "still bound"), rp))
        elif c["kind"] == "reset_in_flight":
            first, second = r[-4], r[-2]
            if not (first["ok"] and first["content_ok"] and second["ok"] and second["content_ok"]) or r[-1]["body"].strip() != "[]":
                fails.append(("reset", "a reset while a toxic held part of a live connection's data lost or damaged it: of 1000 bytes in flight %d arrived (%s), of 300 sent "
                                       "afterwards %d (%s)" % (first.get("got", 0), first.get("end") or "open", second.get("got", 0), second.get("end") or "open"), rp))
        else:
            if not (r[-2]["ok"] and r[-2]["content_ok"]) or r[-1]["body"].strip() != "[]":
                fails.append(("reset", "reset dropped a live connection of an enabled proxy or left toxics", rp))
    return fails, {"tcp_runs": len(cases), "tcp_failures": len(fails),
                   "tcp_sample": {"ops": cases[0]["ops"][:8], "observed": (results[0] or [])[:8] if results else None}}


def reset_while_stalled(ctx):
    """virtual time, in-memory links: POST /reset (and a reset followed by a second reset) arriving while the stage of a live connection is
    stuck for 6.5-15 s handing data to a receiver that does not read: once the request has returned no toxic is listed, and none is
    applied to that connection any more - what is sent afterwards passes at once"""
    from . import links as L
    rng = C.Rng(ctx.seed).fork("C17stalled")
    cases = []
    for i in range(6 if ctx.tier == "quick" else 120):
        slow = rng.choice([6500, 9000, 15000]) * L.MS
        D = rng.choice([800, 1000])
        chain = [L.tx("latency", name="l", latency=D, jitter=0)] + ([L.tx("noop", name="n")] if i % 2 else [])
        A = (1 + D) * L.MS + slow
        R = A - slow + rng.range(100, 900) * L.MS + rng.range(1, 999)
        t3 = A + rng.range(2000, 4000) * L.MS + 13
        ops = [{"at": R, "op": "reset"}] + ([{"at": t3 - 900 * L.MS, "op": "reset"}] if i % 3 == 0 else [])      # a second reset once the first has returned
        src = [{"at": 1 * L.MS, "n": 100}, {"at": 2 * L.MS, "n": 100}, {"at": t3, "n": 300}, {"at": t3 + 700 * L.MS, "n": 5},
               {"at": t3 + 20000 * L.MS, "close": True}]
        cases.append({"dir": rng.choice(["upstream", "downstream"]), "chain": chain, "src": src, "ops": ops, "sink_delay": [slow, 0, 0, 0, 0, 0],
                      "horizon": 3600 * 1000 * L.MS, "seed": 17000 + i, "t3": t3})
    res = L.run_impl(ctx, cases, "c17_stalled")
    fails = []
    for c, r in zip(cases, res):
        rp = {"kind": "failing-input", "link": True, "case": c, "observed": r}
        if r and r.get("hang"):
            continue                      # the harness could not drive the case (a request waiting for a lock is not a virtual-time wait): inconclusive
        if not r or "crash" in r:
            fails.append(("crash", "the process crashed when /reset arrived while a stage was stalled: " + ((r or {}).get("crash", "")[-200:]), rp))
            continue
        late = [w for w in (r.get("writes") or []) if w["t"] >= c["t3"]]
        sent = sum(e.get("n", 0) for e in c["src"])
        if r.get("total") != sent or not r.get("prefix_ok"):
            fails.append(("reset", "a reset that arrived while the connection's stage was stalled towards its receiver lost or damaged data (%s of %d bytes)" % (r.get("total"), sent), rp))
        elif not late or late[0]["t"] != c["t3"]:
            fails.append(("reset", "POST /reset arrived while the connection's stage was stalled towards its receiver and returned; no toxic is listed any more, yet data sent "
                                   "at %d ns on that connection was forwarded %s ns later (the removed latency toxic is still applied to it)"
                          % (c["t3"], (late[0]["t"] - c["t3"]) if late else "never"), rp))
    return fails, {"reset_while_stalled_scripts": len(cases), "reset_while_stalled_failures": len(fails)}


def run(ctx):
    tcp_fail, tcp_cov = T.stable(lambda: tcp_scenarios(ctx, 24 if ctx.tier == "quick" else 400))
    st_fail, st_cov = reset_while_stalled(ctx)
    tcp_fail = list(tcp_fail) + st_fail
    tcp_cov.update(st_cov)
    orig_finish = C.Verdict.finish

    def finish(self):
        for key, what, rp in tcp_fail[:2]:
            self.add(key, what, rp)
        return orig_finish(self)

    orig_we = C.write_evidence

    def we(ctx2, cov, assumptions, nviol, level="proof"):
        cov.update(tcp_cov)
        return orig_we(ctx2, cov, assumptions, nviol, level)

    C.Verdict.finish = finish
    G.C.write_evidence = we
    try:
        return G.run_api_property(
            ctx, PID, gen_cases, oracle,
            classify=lambda w: "not-idempotent" if "identical populate" in w else ("replace" if "differing" in w else ("reset" if "reset" in w else ("response-order" if "request order" in w else "other"))),
            rule="populate of 1-3 proxies in three listen spellings (ip:port, localhost:port, :port), enabled or not, toxics added, the same body "
                 "repeated 1-4 times, then a differing entry and/or a reset; real-socket scenarios check that live connections survive an identical "
                 "populate and a reset and are dropped by a replacing entry; non-trivial = at least one repeat; distinct by JSON",
            assumptions=["DNS: localhost resolves to 127.0.0.1 (from /etc/hosts)",
                         "known finding F10: for the :port spelling and for disabled proxies the coded comparison is not 'same socket address'"],
            known_class=known_class)
    finally:
        C.Verdict.finish = orig_finish
        G.C.write_evidence = orig_we


def replay(ctx, path):
    rp = json.load(open(path))
    if rp.get("kind") != "failing-input" or rp.get("tcp"):
        print("replay:", rp.get("what"))
        return 1
    r = A.run_impl(ctx, [rp["case"]], PID.lower() + "_replay", procs=1)[0]
    w = oracle(rp["case"], r)
    print("observed:", json.dumps(r)[:1500])
    if w:
        print("VIOLATION property=%s replay=%s" % (PID, path))
        return 1
    print("replay passes on the current tree")
    return 0

"""C01 — relayed byte streams are exact in both directions."""
import json
import os

from . import common as C
from . import links as L

PID = "C01"
KINDS = ["noop", "latency", "bandwidth", "slicer", "slow_close"]


def gen_toxic(rng, i, kinds=KINDS, exact=True):
    k = rng.choice(kinds)
    if k == "noop":
        t = L.tx("noop", name="n%d" % i)
    elif k == "latency":
        t = L.tx("latency", name="l%d" % i, latency=rng.choice([0, 1, 5, 20, 100, 250]), jitter=0)
    elif k == "bandwidth":
        t = L.tx("bandwidth", name="b%d" % i, rate=rng.choice([1, 2, 3, 7, 10, 100, 1024, 1000000]))
    elif k == "slicer":
        t = L.tx("slicer", name="s%d" % i, average_size=rng.choice([1, 2, 10, 100, 1000, 5000]), size_variation=0,
                 delay=rng.choice([0, 1, 10, 1000]))
    else:
        t = L.tx("slow_close", name="c%d" % i, delay=rng.choice([0, 1, 50, 1000]))
    if rng.chance(1, 8):
        t["toxicity"] = 0
    return t


def gen_cases(ctx, rng):
    n = 200 if ctx.tier == "quick" else 4000
    cases = []
    stats = {"chain_len": {}, "kinds": {}, "big_writes": 0, "dirs": {"upstream": 0, "downstream": 0}}
    for i in range(n):
        ln = rng.range(0, 5)
        chain = [gen_toxic(rng, j) for j in range(ln)]
        src = L.gen_src(rng, rng.range(1, 6), rng.choice([10, 300, 5000]), rng.choice([1, 50, 300]) * L.MS)
        d = rng.choice(["upstream", "downstream"])
        c = L.cap_case({"dir": d, "chain": chain, "src": src, "horizon": 3600 * 1000 * L.MS, "seed": i})
        if rng.chance(1, 4):
            c["links"] = rng.range(2, 4)   # several concurrent connections through the same toxic objects,
            c["srcs"] = [c["src"]] + [L.gen_src(rng, rng.range(1, 6), rng.choice([10, 300, 5000]), rng.choice([1, 50, 300]) * L.MS)
                                     for _ in range(c["links"] - 1)]   # each with its own traffic
            c = L.cap_case(c, 800)
            stats["multi_link"] = stats.get("multi_link", 0) + 1
        cases.append(c)
        stats["chain_len"][str(ln)] = stats["chain_len"].get(str(ln), 0) + 1
        stats["dirs"][d] += 1
        for t in chain:
            stats["kinds"][t["type"]] = stats["kinds"].get(t["type"], 0) + 1
        if any(e.get("n", 0) > 32768 for e in c["src"]):
            stats["big_writes"] += 1
    # contention family: several connections whose chunks are inside the same toxic object at the same time
    ncont = 40 if ctx.tier == "quick" else 600
    for i in range(ncont):
        k = rng.choice(["slicer", "slicer", "bandwidth", "latency"])
        if k == "slicer":
            t = L.tx("slicer", name="s", average_size=rng.choice([3, 10, 50, 200]), size_variation=0, delay=rng.choice([50, 200, 1000, 5000]))
        elif k == "bandwidth":
            t = L.tx("bandwidth", name="b", rate=rng.choice([1, 3, 10]))
        else:
            t = L.tx("latency", name="l", latency=rng.choice([5, 50]), jitter=0)
        chain = [t] + [gen_toxic(rng, j + 1) for j in range(rng.range(0, 2))]
        nl = rng.range(2, 4)
        srcs = []
        for _ in range(nl):
            t0 = rng.range(0, 3) * L.MS
            evs = []
            for _ in range(rng.range(1, 4)):
                evs.append({"at": t0, "n": rng.range(20, 1500)})
                t0 += rng.range(0, 20) * L.MS // 4
            evs.append({"at": t0 + rng.range(0, 50) * L.MS, "close": True})
            srcs.append(evs)
        c = L.cap_case({"dir": "downstream", "chain": chain, "src": srcs[0], "srcs": srcs, "links": nl,
                        "horizon": 3600 * 1000 * L.MS, "seed": 1000 + i}, 1500)
        cases.append(c)
        stats["contention"] = stats.get("contention", 0) + 1
    # a receiver that takes longer than 5 s over a write (the time after which the flush paths of a reconfiguration give up): on a
    # connection that is not being reconfigured nothing may ever be given up on, whatever the toxics
    for i in range(20 if ctx.tier == "quick" else 500):
        chain = [gen_toxic(rng, j) for j in range(rng.range(1, 3))]
        slow = rng.choice([5500, 8000, 20000]) * L.MS
        src, t0 = [], 1 * L.MS
        for _ in range(rng.range(2, 5)):
            src.append({"at": t0, "n": rng.range(20, 900)})
            t0 += rng.choice([0, 1, 30]) * L.MS
        src.append({"at": t0 + 400000 * L.MS, "close": True})
        c = L.cap_case({"dir": rng.choice(["upstream", "downstream"]), "chain": chain, "src": src, "sink_delay": [slow],
                        "horizon": 36000 * 1000 * L.MS, "seed": 2000 + i}, 300)
        cases.append(c)
        stats["receiver_slower_than_5s"] = stats.get("receiver_slower_than_5s", 0) + 1
    # the toxics only delay, throttle or re-chunk - also while they are being switched off and on (toxicity 0 / 1), updated or joined by
    # another toxic with data inside them: the stream stays exact and complete
    for i in range(16 if ctx.tier == "quick" else 400):
        holder = rng.choice([L.tx("latency", name="t0", latency=rng.choice([300, 1500]), jitter=0), L.tx("bandwidth", name="t0", rate=rng.choice([1, 3])),
                             L.tx("slicer", name="t0", average_size=50, size_variation=0, delay=20000), L.tx("slow_close", name="t0", delay=400)])
        chain = [holder] + ([L.tx("noop", name="t1")] if rng.chance(1, 2) else [])
        src, t = [], 1 * L.MS
        period = rng.choice([10, 40, 90]) * L.MS + rng.range(0, 999)
        for _ in range(rng.range(5, 12)):
            src.append({"at": t, "n": rng.range(1, 1500)})
            t += period
        t1 = src[2]["at"] + rng.range(1, 30) * L.MS + 333
        ops = [{"at": t1, "op": "update", "name": "t0", "body": json.dumps({"toxicity": 0})}]
        how = rng.choice(["remove", "reset", "back_on", "nothing", "add_behind"])
        t2 = t1 + rng.range(50, 400) * L.MS + 111
        if how == "remove":
            ops.append({"at": t2, "op": "remove", "name": "t0"})
        elif how == "reset":
            ops.append({"at": t2, "op": "reset"})
        elif how == "back_on":
            ops.append({"at": t2, "op": "update", "name": "t0", "body": json.dumps({"toxicity": 1})})
        elif how == "add_behind":
            ops.append({"at": t2, "op": "add", "toxic": L.tx("noop", name="z")})
        src.append({"at": max(t, t2) + rng.range(2000, 4000) * L.MS, "close": True})
        cases.append({"dir": rng.choice(["upstream", "downstream"]), "chain": chain, "src": src, "ops": ops,
                      "horizon": 36000 * 1000 * L.MS, "seed": 3000 + i})
        stats["switched_while_holding"] = stats.get("switched_while_holding", 0) + 1
    # the other way round: a toxic that is switched off for this connection (toxicity 0: its stage passes data through) is switched on
    # while that stage is blocked handing a chunk to a receiver that is slow (or to a busy next stage); and back
    for i in range(16 if ctx.tier == "quick" else 400):
        real = rng.choice([L.tx("latency", name="t0", latency=rng.choice([50, 400]), jitter=0), L.tx("bandwidth", name="t0", rate=rng.choice([5, 50])),
                           L.tx("slicer", name="t0", average_size=80, size_variation=0, delay=3000), L.tx("slow_close", name="t0", delay=200)])
        real["toxicity"] = 0
        slow = rng.choice([150, 400, 1200]) * L.MS
        chain = [real] + ([L.tx("noop", name="t1")] if rng.chance(1, 3) else [])
        src, t = [], 1 * L.MS
        for _ in range(rng.range(4, 9)):
            src.append({"at": t, "n": rng.range(1, 900)})
            t += rng.choice([0, 1, 40]) * L.MS + rng.range(0, 999)
        t1 = rng.range(1, 5) * slow // 2 + rng.range(1, 50) * L.MS + 333
        ops = [{"at": t1, "op": "update", "name": "t0", "body": json.dumps({"toxicity": 1})}]
        if rng.chance(1, 2):
            ops.append({"at": t1 + rng.range(1, 4) * slow + 777, "op": rng.choice(["update", "remove"]), "name": "t0", "body": json.dumps({"toxicity": 0})})
            if ops[-1]["op"] == "remove":
                del ops[-1]["body"]
        src.append({"at": max(t, ops[-1]["at"]) + 30 * slow, "close": True})
        cases.append({"dir": rng.choice(["upstream", "downstream"]), "chain": chain, "src": src, "ops": ops, "sink_delay": [slow],
                      "horizon": 36000 * 1000 * L.MS, "seed": 3500 + i})
        stats["switched_on_while_blocked"] = stats.get("switched_on_while_blocked", 0) + 1
    # a toxic that is not the last of its direction is removed (or all are reset, front to back) while both it and a toxic behind it
    # hold data: what it still holds must go on through the toxics behind it, in order
    for i in range(16 if ctx.tier == "quick" else 400):
        front = L.tx("latency", name="t0", latency=rng.choice([300, 600, 900]), jitter=0)
        behind = rng.choice([L.tx("latency", name="t1", latency=rng.choice([300, 600]), jitter=0), L.tx("bandwidth", name="t1", rate=rng.choice([1, 2, 5])),
                             L.tx("slicer", name="t1", average_size=64, size_variation=0, delay=15000)])
        chain = [front, behind] + ([L.tx("noop", name="t2")] if rng.chance(1, 3) else [])
        src, t = [], 1 * L.MS
        period = rng.choice([10, 25, 40]) * L.MS + rng.range(0, 999)
        for _ in range(rng.range(12, 26)):
            src.append({"at": t, "n": rng.range(20, 200)})
            t += period
        t1 = front["attributes"]["latency"] * L.MS + rng.range(50, 300) * L.MS + 333
        ops = [{"at": t1, "op": rng.choice(["remove", "remove", "reset"]), "name": "t0"}]
        if ops[0]["op"] == "reset":
            del ops[0]["name"]
        src.append({"at": max(t, t1) + rng.range(8000, 12000) * L.MS, "close": True})
        cases.append({"dir": rng.choice(["upstream", "downstream"]), "chain": chain, "src": src, "ops": ops,
                      "horizon": 36000 * 1000 * L.MS, "seed": 4200 + i})
        stats["front_removed_with_backlog"] = stats.get("front_removed_with_backlog", 0) + 1
    return cases, stats


def oracle(case, res):
    """implementation-only: receiver got exactly the sender's bytes, then end-of-stream"""
    if res is None or "crash" in res:
        return "the process crashed: " + (res or {}).get("crash", "")[-300:]
    if not res["prefix_ok"]:
        return "bytes received differ from bytes sent (not even a prefix)"
    sent = sum(e.get("n", 0) for e in case["src"])
    closes = any(e.get("close") for e in case["src"])
    if closes:
        if res["closed"] < 0:
            return "sender closed but the receiver never saw end-of-stream (within 1 h of virtual time)"
        if res["total"] != sent:
            return "receiver got %d of %d bytes before end-of-stream" % (res["total"], sent)
    elif res["total"] != sent:
        return "receiver got %d of %d bytes" % (res["total"], sent)
    if res.get("leak"):
        return "goroutines left blocked after the connection ended"
    return None


def run(ctx):
    return L.run_link_property(ctx, PID, gen_cases, oracle,
                               classify=lambda w: "stream-not-exact" if "bytes" in w else ("crash" if "crash" in w else "no-eof"),
                               rule="random chains (0-5 data-preserving toxics, attributes from a boundary-biased grid, toxicity 0 or 1), "
                                    "1-6 source writes of 1 B-96 KiB with random pacing in virtual time, then close; plus chains whose holding toxic is switched off "
                                    "by an update while data is inside it and then removed / reset / switched on again / joined by another toxic; non-trivial = chain has "
                                    "at least one active toxic or a write above 32 KiB; distinct by JSON of the script",
                               nontrivial=lambda c: any(t.get("toxicity", 1) >= 1 and t["type"] != "noop" for t in c["chain"])
                               or any(e.get("n", 0) > 32768 for e in c["src"]),
                               assumptions=[
                                   "Go channel/select semantics as modelled in coq/Model/Timed.v; io.Copy reads at most 32 KiB per chunk",
                                   "testing/synctest virtual time = maximal progress (the schedule run_quiet follows)",
                                   "both directions of a connection are independent links (each is checked in either direction label)"])


def replay(ctx, path):
    return L.replay_link(ctx, PID, path, oracle)

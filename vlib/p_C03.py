"""C03 — a disabled or deleted proxy is really down; enabling brings it back."""
import json
import os

from . import common as C
from . import tcp as T

PID = "C03"


def scenarios(ctx, rng):
    cases = []
    n = 36 if ctx.tier == "quick" else 900
    kinds = ["basic", "update_upstream", "update_listen", "traffic_in_flight", "parked_then_half_close", "stop_during_dial", "reset_enables",
             "populate_replace", "many_connections", "populate_replace_disabled", "accept_failed", "held_end_of_stream", "wildcard_to_specific"]
    for i in range(n):
        g = i % 6
        b = T.port_base(g)
        u1, u2, px, px2 = b, b + 1, b + 2, b + 3
        kind = kinds[i % len(kinds)]
        how = rng.choice(["disable", "delete"])
        A1, A2 = "127.0.0.1:%d" % px, "127.0.0.1:%d" % px2
        U1, U2 = "127.0.0.1:%d" % u1, "127.0.0.1:%d" % u2
        ops = [{"op": "upstream", "id": "u1", "port": u1, "mode": "manual"}, {"op": "upstream", "id": "u2", "port": u2, "mode": "manual"}]
        exp = []        # (index of op, expectation name, args)

        def add(op, *e):
            ops.append(op)
            for x in e:
                exp.append((len(ops) - 1,) + x)

        def stop_req():
            return T.api("POST", "/proxies/p", {"enabled": False}) if how == "disable" else T.api("DELETE", "/proxies/p")

        def connect(c, s, up="u1", addr=A1):
            add({"op": "dial", "id": c, "addr": addr}, ("dial_ok",))
            add({"op": "upaccept", "id": s, "up": up, "ms": 1500}, ("ok",))
            add({"op": "send", "id": c, "n": 64})
            add({"op": "recv", "id": s, "up": c, "n": 64, "ms": 1500}, ("got_all",))
            add({"op": "send", "id": s, "n": 32})
            add({"op": "recv", "id": c, "up": s, "n": 32, "ms": 1500}, ("got_all",))

        if kind == "wildcard_to_specific":
            # a proxy listening on every local address, re-addressed (update or populate) to one address on the same port: the other
            # addresses refuse afterwards and the connections made through them are gone
            W = rng.choice(["0.0.0.0:%d" % px, ":%d" % px])
            B1 = "127.0.0.2:%d" % px
            add(T.api("POST", "/proxies", {"name": "p", "listen": W, "upstream": U1}), ("status", 201))
            connect("c1", "s1", addr=B1)
            if rng.chance(1, 2):
                add(T.api("POST", "/proxies/p", {"listen": A1}), ("status", 200))
            else:
                add(T.api("POST", "/populate", [{"name": "p", "listen": A1, "upstream": U1}]), ("status", 201))
            add({"op": "recv", "id": "c1", "up": "s1", "n": 1, "ms": 2000}, ("ended",))
            add({"op": "recv", "id": "s1", "up": "c1", "n": 1, "ms": 2000}, ("ended",))
            add({"op": "dial", "id": "cx", "addr": B1}, ("dial_refused",))
            connect("c2", "s2", addr=A1)
            cases.append({"ops": ops, "exp": exp, "group": g, "kind": kind, "how": how})
            continue
        add(T.api("POST", "/proxies", {"name": "p", "listen": A1, "upstream": U1}), ("status", 201))
        if kind == "basic":
            connect("c1", "s1")
            add(stop_req(), ("status_ok",))
            add({"op": "recv", "id": "c1", "up": "s1", "n": 1, "ms": 2000}, ("ended",))
            add({"op": "recv", "id": "s1", "up": "c1", "n": 1, "ms": 2000}, ("ended",))
            add({"op": "dial", "id": "c2", "addr": A1}, ("dial_refused",))
            if how == "disable":
                add(T.api("POST", "/proxies/p", {"enabled": True}), ("status", 200))
                connect("c3", "s3")
                add(T.api("DELETE", "/proxies/p"), ("status", 204))
                add({"op": "recv", "id": "c3", "up": "s3", "n": 1, "ms": 2000}, ("ended",))
            add({"op": "dial", "id": "c4", "addr": A1}, ("dial_refused",))
            add({"op": "bindcheck", "port": px}, ("ok",))
        elif kind == "many_connections":
            k = rng.range(3, 6)
            for j in range(k):
                connect("c%d" % j, "s%d" % j)
            add(stop_req(), ("status_ok",))
            for j in range(k):
                add({"op": "recv", "id": "c%d" % j, "up": "s%d" % j, "n": 1, "ms": 2000}, ("ended",))
                add({"op": "recv", "id": "s%d" % j, "up": "c%d" % j, "n": 1, "ms": 2000}, ("ended",))
            add({"op": "dial", "id": "cx", "addr": A1}, ("dial_refused",))
        elif kind == "update_upstream":
            connect("c1", "s1")
            add(T.api("POST", "/proxies/p", {"upstream": U2}), ("status", 200))
            add({"op": "recv", "id": "c1", "up": "s1", "n": 1, "ms": 2000}, ("ended",))
            add({"op": "recv", "id": "s1", "up": "c1", "n": 1, "ms": 2000}, ("ended",))
            connect("c2", "s2", up="u2")
        elif kind == "update_listen":
            connect("c1", "s1")
            add(T.api("POST", "/proxies/p", {"listen": A2}), ("status", 200))
            add({"op": "recv", "id": "c1", "up": "s1", "n": 1, "ms": 2000}, ("ended",))
            add({"op": "dial", "id": "cx", "addr": A1}, ("dial_refused",))
            connect("c2", "s2", addr=A2)
            add({"op": "bindcheck", "port": px}, ("ok",))
        elif kind == "traffic_in_flight":
            connect("c1", "s1")
            add(T.api("POST", "/proxies/p/toxics", {"type": "latency", "stream": rng.choice(["upstream", "downstream"]),
                                                   "attributes": {"latency": rng.choice([50, 400])}}), ("status", 200))
            add({"op": "send", "id": "c1", "n": 5000})
            add({"op": "send", "id": "s1", "n": 5000})
            add(stop_req(), ("status_ok",))
            # bytes sent after the response must never arrive; what was in flight may or may not have made it before
            add({"op": "send", "id": "c1", "n": 777})
            add({"op": "send", "id": "s1", "n": 777})
            add({"op": "recv", "id": "s1", "up": "c1", "n": 100000, "ms": 2000}, ("ended", ), ("at_most", 64 + 5000))
            add({"op": "recv", "id": "c1", "up": "s1", "n": 100000, "ms": 2000}, ("ended", ), ("at_most", 32 + 5000))
        elif kind == "parked_then_half_close":
            add(T.api("POST", "/proxies/p/toxics", {"type": "latency", "stream": "downstream", "attributes": {"latency": 2500}}), ("status", 200))
            add({"op": "dial", "id": "c1", "addr": A1}, ("dial_ok",))
            add({"op": "upaccept", "id": "s1", "up": "u1", "ms": 1500}, ("ok",))
            add({"op": "send", "id": "s1", "n": 21})          # parked in the latency toxic on its way to the client
            add({"op": "sleep", "ms": 100})
            add({"op": "close", "id": "c1", "how": "half"})    # the upstream link (client -> upstream) ends first
            add({"op": "sleep", "ms": 200})
            add(stop_req(), ("status_ok",))
            add({"op": "recv", "id": "c1", "up": "s1", "n": 100, "ms": 3500}, ("ended_within", 1500), ("at_most", 0))
            add({"op": "dial", "id": "cx", "addr": A1}, ("dial_refused",))
        elif kind == "stop_during_dial":
            ops[0] = {"op": "slowupstream", "id": "su", "port": u1}
            add({"op": "dial", "id": "c1", "addr": A1}, ("dial_ok",))
            add({"op": "sleep", "ms": 250})
            add({"op": "uprelease", "id": "su", "ms": 300})
            add(stop_req(), ("status_ok",))
            add({"op": "sleep", "ms": 2500})
            add({"op": "recv", "id": "c1", "up": "c1", "n": 1, "ms": 500}, ("ended",))
            add({"op": "dial", "id": "cx", "addr": A1}, ("dial_refused",))
        elif kind == "reset_enables":
            add(T.api("POST", "/proxies/p", {"enabled": False}), ("status", 200))
            add({"op": "dial", "id": "cx", "addr": A1}, ("dial_refused",))
            add(T.api("POST", "/reset"), ("status", 204))
            connect("c1", "s1")
        elif kind == "accept_failed":
            # the accept loop has died on a failing accept() (descriptor table full) while connections are established; whatever the API
            # shows about the proxy afterwards, a request that takes it down still ends those connections and frees the port
            connect("c1", "s1")
            add({"op": "emfile", "addr": A1})
            add({"op": "sleep", "ms": 100})
            how2 = rng.choice(["disable", "delete", "listen"])
            add(T.api("POST", "/proxies/p", {"enabled": False}) if how2 == "disable" else
                (T.api("DELETE", "/proxies/p") if how2 == "delete" else T.api("POST", "/proxies/p", {"listen": A2, "enabled": True})), ("status_ok",))
            add({"op": "send", "id": "s1", "n": 29})
            add({"op": "recv", "id": "c1", "up": "s1", "n": 100, "ms": 2000}, ("ended",), ("at_most", 0))
            add({"op": "recv", "id": "s1", "up": "c1", "n": 1, "ms": 2000}, ("ended",))
            if how2 == "delete":
                add({"op": "bindcheck", "port": px}, ("ok",))
        elif kind == "held_end_of_stream":
            # a toxic that withholds the end of the stream (slow_close, reset_peer) sits between the proxy and one of the peers: taking the
            # proxy down still terminates the connection at BOTH peers at once
            stream = rng.choice(["upstream", "downstream"])
            add(T.api("POST", "/proxies/p/toxics", {"type": rng.choice(["slow_close", "reset_peer"]), "stream": stream,
                                                   "attributes": {"delay": 20000, "timeout": 20000}}), ("status", 200))
            connect0 = [("c1", "s1")]
            add({"op": "dial", "id": "c1", "addr": A1}, ("dial_ok",))
            add({"op": "upaccept", "id": "s1", "up": "u1", "ms": 1500}, ("ok",))
            how3 = rng.choice(["stop", "upstream", "populate"])
            add(stop_req() if how3 == "stop" else (T.api("POST", "/proxies/p", {"upstream": U2}) if how3 == "upstream" else
                                                    T.api("POST", "/populate", [{"name": "p", "listen": A1, "upstream": U2}])), ("status_ok",))
            add({"op": "recv", "id": "c1", "up": "s1", "n": 1, "ms": 2000}, ("ended",))
            add({"op": "recv", "id": "s1", "up": "c1", "n": 1, "ms": 2000}, ("ended",))
        elif kind == "populate_replace":
            connect("c1", "s1")
            add(T.api("POST", "/populate", [{"name": "p", "listen": A1, "upstream": U2}]), ("status", 201))
            add({"op": "recv", "id": "c1", "up": "s1", "n": 1, "ms": 2000}, ("ended",))
            add({"op": "recv", "id": "s1", "up": "c1", "n": 1, "ms": 2000}, ("ended",))
            connect("c2", "s2", up="u2")
        elif kind == "populate_replace_disabled":
            # replaced by an entry that differs and is NOT to be started: the old proxy is down all the same
            connect("c1", "s1")
            add(T.api("POST", "/populate", [{"name": "p", "listen": rng.choice([A1, A2]), "upstream": U2, "enabled": False}]), ("status", 201))
            add({"op": "recv", "id": "c1", "up": "s1", "n": 1, "ms": 2000}, ("ended",))
            add({"op": "recv", "id": "s1", "up": "c1", "n": 1, "ms": 2000}, ("ended",))
            add({"op": "dial", "id": "cx", "addr": A1}, ("dial_refused",))
            add(T.api("DELETE", "/proxies/p"), ("status", 204))
            add({"op": "bindcheck", "port": px}, ("ok",))
        cases.append({"ops": ops, "exp": exp, "group": g, "kind": kind, "how": how})
    return cases


def judge(case, r):
    if T.env_broken(r):
        return None
    if isinstance(r, dict):
        return "the process crashed in scenario %s" % case["kind"]
    if case["kind"] == "stop_during_dial" and not r[0].get("ok"):
        return None
    for e in case["exp"]:
        i, what = e[0], e[1]
        x = r[i]
        op = case["ops"][i]
        where = "%s (%s, op %d %s)" % (case["kind"], case["how"], i, op["op"])
        if what == "status" and x.get("status") != e[2]:
            return "%s: status %s, expected %d" % (where, x.get("status"), e[2])
        if what == "status_ok" and not (200 <= x.get("status", 0) < 300):
            return "%s: the stopping request answered %s" % (where, x.get("status"))
        if what == "ok" and not x.get("ok"):
            return "%s: failed (%s)" % (where, x.get("err") or x.get("end"))
        if what == "dial_ok" and not x.get("ok"):
            return "%s: an enabled proxy does not accept connections (%s)" % (where, x.get("end"))
        if what == "dial_refused" and x.get("ok"):
            return "%s: the old listen address still accepts connections after the request returned" % where
        if what == "got_all" and not (x.get("ok") and x.get("content_ok") and x.get("got") == op["n"]):
            return "%s: data not relayed (%s, %s bytes)" % (where, x.get("end"), x.get("got"))
        if what in ("ended", "ended_within") and x.get("end") not in ("eof", "reset"):
            return "%s: a connection established before the request is still open afterwards (%s)" % (where, x.get("end"))
        if what == "ended_within" and x.get("took_ms", 0) > e[2]:
            return "%s: the connection was ended only %d ms after the request returned" % (where, x.get("took_ms"))
        if what == "at_most" and x.get("got", 0) > e[2]:
            return "%s: %d bytes were relayed, more than the %d that could have been under way when the request returned" % (where, x.get("got"), e[2])
    return None


def run(ctx):
    verdict = C.Verdict(ctx)
    rng = C.Rng(ctx.seed).fork(PID)
    proof = C.proof_step(ctx, verdict, PID)
    cases = scenarios(ctx, rng)
    results = T.run_tcp(ctx, cases, "c03")
    ctx.log("ran %d real-socket scenarios" % len(cases))
    fails, skipped = [], 0
    kinds = {}
    for c, r in zip(cases, results):
        kinds[c["kind"]] = kinds.get(c["kind"], 0) + 1
        if T.env_broken(r):
            skipped += 1
            continue
        w = judge(c, r)
        if w:
            fails.append((c, r, w))
    ctx.log("scenario failures: %d (skipped %d)" % (len(fails), skipped))
    # timing sensitive on a loaded machine: a failing scenario is run again on its own, twice; it counts only if it fails every time
    if fails:
        kept = []
        for c, r, w in fails[:6]:
            again = [T.run_tcp(ctx, [dict(c, group=c.get("group", 0))], "c03_again")[0] for _ in range(2)]
            if all((not T.env_broken(x)) and judge(c, x) for x in again):
                kept.append((c, r, w))
        ctx.log("failures reproduced on re-run: %d of %d" % (len(kept), min(len(fails), 6)))
        fails = kept
    seen = set()
    for c, r, w in fails:
        key = ("still-accepting" if "still accepts" in w else "connection-survives" if "still open" in w or "ended only" in w else
               "relayed-after-return" if "were relayed" in w else "not-up" if "does not accept" in w or "not relayed" in w else "other")
        if key in seen:
            continue
        seen.add(key)
        verdict.add(key, w, {"kind": "failing-input", "tcp": True, "case": c, "observed": r})
    if not verdict.findings_with_input() and not proof["build_ok"]:
        verdict.add("proof-broken", "proof obligation of C03 no longer checks (%s) and no failing scenario was found among %d"
                    % (", ".join(proof.get("broken", [])), len(cases)),
                    {"kind": "proof-broken", "broken": proof.get("broken"), "build_tail": proof.get("build_tail"),
                     "extracted": {k: v for k, v in getattr(ctx, "extract_meta", {}).items() if k in
                                   ("free_blocker_waits_for_accept_loop", "conn_key_is_dest", "registers_before_links", "stop_waits_then_closes")}},
                    has_input=False)
    rc, nviol = verdict.finish()
    cov = {
        "obligations": proof["obligations"], "discharged": proof["discharged"],
        "checker_cmd": "coq_makefile + make Properties/C03.vo (coqc 8.16.1), Print Assumptions per theorem",
        "theorems": proof["theorems"], "print_assumptions": proof["assumptions"],
        "evaluations": len(cases), "distinct_nontrivial": len(set(json.dumps(c["ops"], sort_keys=True) for c in cases)),
        "rule": "real-socket scenarios on loopback: create/enable/disable/delete/update(upstream, listen)/populate-replace/reset with 1-6 live "
                "connections (idle, with traffic in flight in both directions, with data parked in a latency toxic when the opposite direction "
                "ends first, with the accept loop still dialling a slow upstream); after each request: old connections must end at both peers, "
                "no byte sent afterwards may arrive, the old address must refuse, the port must be bindable after delete, enable/reset must "
                "accept and relay; distinct by JSON",
        "traces_validated_against_impl": len(cases) - skipped, "scenario_kinds": kinds, "scenario_failures": len(fails), "skipped_env": skipped,
        "samples": [{"kind": cases[0]["kind"], "ops": cases[0]["ops"][:8], "observed": (results[0] or [])[:8] if isinstance(results[0], list) else None}],
    }
    C.write_evidence(ctx, cov, ["kernel behaviour (listen backlog, TIME_WAIT, errno) is observed, not modelled",
                                "the lifecycle model covers one request at a time (concurrent requests are C16)"], nviol)
    return rc


def replay(ctx, path):
    rp = json.load(open(path))
    if rp.get("kind") != "failing-input":
        print("replay file names a broken obligation:", rp.get("what"))
        return 1
    r = T.run_tcp(ctx, [rp["case"]], "c03_replay")[0]
    w = judge(rp["case"], r)
    print("observed:", json.dumps(r)[:1500])
    if w:
        print("VIOLATION property=%s replay=%s" % (PID, path))
        return 1
    print("replay passes on the current tree")
    return 0

"""C14 — toxicity is the per-connection probability that a toxic applies."""
import struct

from . import common as C
from . import links as L

PID = "C14"


def f32(x):
    return struct.unpack("f", struct.pack("f", x))[0]


def marker(rng):
    k = rng.choice(["limit_data", "timeout", "latency"])
    if k == "limit_data":
        return L.tx("limit_data", name="x", bytes=0)
    if k == "timeout":
        return L.tx("timeout", name="x", timeout=0)
    return L.tx("latency", name="x", latency=500, jitter=0)


def gen_cases(ctx, rng):
    n = 150 if ctx.tier == "quick" else 4000
    cases = []
    stats = {"create_01": 0, "update_01": 0, "update_p_mirrored": 0, "create_p_mirrored": 0, "ramp_p_mirrored": 0, "kinds": {}}
    for i in range(n):
        m = marker(rng)
        stats["kinds"][m["type"]] = stats["kinds"].get(m["type"], 0) + 1
        src = [{"at": 20 * L.MS + 7, "n": rng.range(1, 500)}, {"at": 900 * L.MS, "close": True}]
        kind = rng.choice(["create_01", "update_01", "update_01", "update_p", "create_p", "ramp_p", "ramp_p"])
        c = {"dir": rng.choice(["upstream", "downstream"]), "src": src, "horizon": 3600 * 1000 * L.MS, "seed": 100 + i, "c14": kind}
        if kind == "create_01":
            m["toxicity"] = rng.choice([0, 1])
            c.update({"chain": [m], "links": rng.range(1, 4), "expect": [bool(m["toxicity"])]})
            stats["create_01"] += 1
        elif kind == "update_01":
            a, b = rng.choice([0, 1]), rng.choice([0, 1])
            m["toxicity"] = a
            c.update({"chain": [m], "links": rng.range(2, 4), "expect": [bool(b)],
                      "ops": [{"at": 5 * L.MS, "op": "update", "name": "x", "body": '{"toxicity": %d}' % b}]})
            stats["update_01"] += 1
        elif kind == "update_p":
            p = rng.range(1, 63) / 64.0
            m["toxicity"] = rng.choice([0, 1])
            c.update({"chain": [m], "links": 1, "p": p,
                      "ops": [{"at": 4 * L.MS, "op": "reseed", "seed": rng.range(1, 1 << 30)},
                              {"at": 5 * L.MS, "op": "update", "name": "x", "body": '{"toxicity": %r}' % p}]})
            stats["update_p_mirrored"] += 1
        elif kind == "ramp_p":
            # a sequence of fractional settings on an established connection (ramping up, down or zig-zag): every change decides
            # afresh with the new probability, whatever the connection's earlier outcomes were
            steps = rng.range(2, 5)
            mode = rng.choice(["up", "down", "zigzag"])
            ps = sorted(rng.range(1, 63) / 64.0 for _ in range(steps))
            if mode == "down":
                ps.reverse()
            elif mode == "zigzag":
                ps = [ps[j // 2] if j % 2 == 0 else ps[-1 - j // 2] for j in range(steps)]
            m["toxicity"] = rng.choice([0, 1, rng.range(1, 63) / 64.0])
            ops = []
            for j, p in enumerate(ps):
                ops.append({"at": (2 + 2 * j) * L.MS, "op": "reseed", "seed": rng.range(1, 1 << 30)})
                ops.append({"at": (3 + 2 * j) * L.MS, "op": "update", "name": "x", "body": '{"toxicity": %r}' % p})
            c.update({"chain": [m], "links": 1, "p": ps[-1], "ops": ops, "ramp": ps})
            stats["ramp_p_mirrored"] += 1
        else:
            p = rng.range(1, 63) / 64.0
            m["toxicity"] = p
            c.update({"chain": [m], "links": 1, "p": p})
            stats["create_p_mirrored"] += 1
        cases.append(c)
    # toxicity updated while the connection's stage is stuck handing data to a receiver that takes longer than the 5 s after which
    # other parts of the code give up: the update must still take effect on that connection
    stats["update_01_backpressured"] = 0
    for i in range(10 if ctx.tier == "quick" else 200):
        a = rng.choice([0, 1])
        m = L.tx("limit_data", name="x", bytes=1000)
        m["toxicity"] = a
        slow = rng.choice([6500, 9000, 15000]) * L.MS
        src = [{"at": 1 * L.MS, "n": 100}, {"at": 2 * L.MS, "n": 100}]
        t = 4 * slow
        for _ in range(5):
            src.append({"at": t, "n": 600})
            t += 4 * slow
        src.append({"at": t + 4 * slow, "close": True})
        cases.append({"dir": rng.choice(["upstream", "downstream"]), "chain": [m], "src": src, "sink_delay": [slow], "links": 1,
                      "ops": [{"at": rng.range(50, 900) * L.MS, "op": "update", "name": "x", "body": '{"toxicity": %d}' % (1 - a)}],
                      "horizon": 3600 * 1000 * L.MS, "seed": 9000 + i, "c14": "update_01", "expect": [bool(1 - a)], "backpressured": True})
        stats["update_01_backpressured"] += 1
    # toxicity changed on an established connection, then a neighbouring toxic is added behind the marker or the one behind it is
    # removed (both restart the marker's stage): the stage must decide with the toxicity the API lists now, not with the one the
    # connection started under
    stats["update_01_then_neighbour"] = 0
    for i in range(24 if ctx.tier == "quick" else 400):
        m = marker(rng)
        a = rng.choice([0, 1])
        b = 1 - a if i % 4 else a
        m["toxicity"] = a
        how = rng.choice(["add_behind", "remove_behind", "add_behind_twice"])
        chain = [m] + ([L.tx("noop", name="y")] if how == "remove_behind" else [])
        ops = [{"at": 5 * L.MS, "op": "update", "name": "x", "body": '{"toxicity": %d}' % b}]
        if how == "remove_behind":
            ops.append({"at": 8 * L.MS, "op": "remove", "name": "y"})
        else:
            ops.append({"at": 8 * L.MS, "op": "add", "toxic": L.tx("noop", name="z")})
            if how == "add_behind_twice":
                ops.append({"at": 11 * L.MS, "op": "add", "toxic": L.tx("latency", name="w", latency=3, jitter=0)})
        src = [{"at": 20 * L.MS + 7, "n": rng.range(1, 500)}, {"at": 900 * L.MS, "close": True}]
        cases.append({"dir": rng.choice(["upstream", "downstream"]), "chain": chain, "src": src, "links": rng.range(1, 3), "ops": ops,
                      "horizon": 3600 * 1000 * L.MS, "seed": 12000 + i, "c14": "update_01", "expect": [bool(b)]})
        stats["update_01_then_neighbour"] += 1
    return cases, stats


def affected(case, res):
    m = case["chain"][0]
    sent = sum(e.get("n", 0) for e in case["src"])
    if m["type"] == "latency":
        ws = res["writes"] or []
        if not ws:
            return None
        return ws[0]["t"] - case["src"][0]["at"] >= 500 * L.MS
    return res["total"] < sent


def oracle(case, res):
    if res is None or "crash" in res:
        return "the process crashed: " + (res or {}).get("crash", "")[-300:]
    if "c14" not in case or not case["chain"] or len(case["src"]) < 2:
        return None
    got = affected(case, res)
    if got is None:
        return "nothing was delivered although the marker toxic only delays"
    kind = case["c14"]
    if kind in ("create_01", "update_01"):
        if got != case["expect"][0]:
            return "toxicity %d: connection %s by the toxic" % (1 if case["expect"][0] else 0, "was affected" if got else "was not affected")
        return None
    p = f32(case["p"])
    if kind == "update_p":
        ops = res.get("ops") or []
        if not ops:
            return None     # further links carry no op results
        d = f32(ops[0]["draws"][0])
        if got != (d < p):
            return "toxicity %r after update, draw %r: connection %s" % (p, d, "affected" if got else "not affected")
        return None
    if kind == "ramp_p":
        ops = res.get("ops") or []
        if len(ops) < 2 or not ops[-2].get("draws"):
            return None
        d = f32(ops[-2]["draws"][0])
        if got != (d < p):
            return "toxicity set to %s in turn, draw %r at the last change: connection %s (each change decides afresh with the new probability)" % (
                ", ".join("%r" % x for x in case["ramp"]), d, "affected" if got else "not affected")
        return None
    ds = [f32(x) for x in (res.get("start_draws") or [])[:2]]
    if ds and got not in [(d < p) for d in ds]:
        return "toxicity %r at creation, draws %r: connection %s" % (p, ds, "affected" if got else "not affected")
    return None


def run(ctx):
    return L.run_link_property(
        ctx, PID, gen_cases, oracle,
        classify=lambda w: "toxicity-01" if w.startswith("toxicity 0") or w.startswith("toxicity 1:") else ("toxicity-p" if "draw" in w else "crash"),
        rule="marker toxics (limit_data 0, timeout 0, latency 500 ms) with toxicity 0/1 at creation on 1-4 connections; toxicity updated 0/1 -> 0/1 "
             "on 2-4 established connections, and on a connection whose stage is blocked for 6.5-15 s towards a slow receiver at the time of "
             "the update; toxicity k/64 set by update on one connection with the deciding draw mirrored from the seed (exact "
             "prediction), by 2-5 successive fractional updates (up, down, zig-zag; the draw of the last one mirrored), or at creation (outcome must match one of the two start-up draws); non-trivial = an update or a fractional toxicity; "
             "distinct by JSON",
        nontrivial=lambda c: c.get("c14") in ("update_01", "update_p", "create_p", "ramp_p"),
        assumptions=["uniformity and independence of math/rand's source are assumed (C14_measure_partial is about an ideal uniform draw)",
                     "math/rand.Float32 never returns 1"],
        model_filter=lambda c: False)


def replay(ctx, path):
    return L.replay_link(ctx, PID, path, oracle)

"""C15 — finished connections leave nothing behind."""
import json

from . import common as C
from . import links as L
from . import tcp as T

PID = "C15"


def gen_cases(ctx, rng):
    cases = []
    stats = {"enders": {}, "pending_upstream_when_downstream_went_away": 0}
    chains = [[], [L.tx("latency", name="l", latency=20, jitter=0)], [L.tx("bandwidth", name="b", rate=100)],
              [L.tx("slicer", name="s", average_size=50, size_variation=0, delay=100)],
              [L.tx("noop", name="n"), L.tx("latency", name="l", latency=5, jitter=0)], [L.tx("slow_close", name="c", delay=30)]]
    reps = 1 if ctx.tier == "quick" else 20
    for rep in range(reps):
        for ender in ("src_eof", "sink_error", "limit_data", "timeout"):
            for chain0 in chains:
                for inflight in ("nothing", "some", "lots"):
                    chain = json.loads(json.dumps(chain0))
                    nwr = {"nothing": 1, "some": 3, "lots": 12}[inflight]
                    src, t = [], 2 * L.MS
                    for _ in range(nwr):
                        src.append({"at": t, "n": rng.range(10, 400)})
                        t += rng.choice([0, 1, 9]) * L.MS if inflight != "nothing" else 200 * L.MS
                    c = {"dir": "downstream", "chain": chain, "src": src, "horizon": 3600 * 1000 * L.MS, "seed": len(cases), "ender": ender}
                    pending = False
                    if ender == "src_eof":
                        src.append({"at": t + 300 * L.MS, "close": True})
                    elif ender == "sink_error":
                        k = rng.range(1, nwr)
                        c["sink_fail_after"] = k
                        pending = k < nwr or any(x["type"] in ("slicer", "bandwidth") for x in chain)
                        src.append({"at": t + 500 * L.MS, "close": True})
                    elif ender == "limit_data":
                        N = rng.choice([0, 5, 200])
                        pos = rng.range(0, len(chain))
                        chain.insert(pos, L.tx("limit_data", name="d", bytes=N))
                        # the limit closes its stub as soon as N bytes went through: whatever is still to be handed to it then - a later
                        # chunk, or the next piece of the same chunk when a slicer / bandwidth toxic upstream of it cuts chunks up - is
                        # pending upstream of a dead end (known finding F7)
                        split_upstream = any(x["type"] in ("slicer", "bandwidth") for x in chain[:pos])
                        pending = sum(e["n"] for e in src) > N and (nwr > 1 or split_upstream)
                        src.append({"at": t + 500 * L.MS, "close": True})
                    else:
                        chain.insert(rng.range(0, len(chain)), L.tx("timeout", name="t", timeout=rng.choice([1, 30])))
                        pending = True
                        src.append({"at": t + 500 * L.MS, "close": True})
                    if ender == "timeout":
                        # data that arrives after the timeout toxic closed its stub is pending upstream of a dead end
                        pending = any(e.get("n") and e["at"] > 1 * L.MS for e in src)
                    c["pending_when_downstream_gone"] = bool(pending)
                    stats["enders"][ender] = stats["enders"].get(ender, 0) + 1
                    stats["pending_upstream_when_downstream_went_away"] += 1 if pending else 0
                    cases.append(c)
    # a connection that a timeout toxic holds open (T = 0 black-holes it for ever) ends when its sender hangs up: nothing may stay behind
    for rep in range(reps):
        for chain0 in chains[:4]:
            for nwr in (0, 2, 9):
                chain = json.loads(json.dumps(chain0))
                chain.insert(rng.range(0, len(chain)), L.tx("timeout", name="t", timeout=0))
                src, t = [], 2 * L.MS
                for _ in range(nwr):
                    src.append({"at": t, "n": rng.range(10, 400)})
                    t += rng.choice([0, 1, 9]) * L.MS
                src.append({"at": t + 300 * L.MS, "close": True})
                cases.append({"dir": rng.choice(["upstream", "downstream"]), "chain": chain, "src": src, "horizon": 3600 * 1000 * L.MS,
                              "seed": len(cases), "ender": "blackholed_src_eof", "pending_when_downstream_gone": False})
                stats["enders"]["blackholed_src_eof"] = stats["enders"].get("blackholed_src_eof", 0) + 1
    # reconfiguration while the connection is ending: a toxic removed / the chain reset / a toxic added while an end-of-stream is held back
    # by slow_close or still travelling behind data parked in a latency stage
    stats["reconfigured_while_ending"] = 0
    for i in range(36 if ctx.tier == "quick" else 900):
        D = rng.choice([100, 300])
        holder = rng.choice([L.tx("slow_close", name="h", delay=D), L.tx("latency", name="h", latency=D, jitter=0)])
        chain = ([L.tx("noop", name="p")] if rng.chance(1, 2) else []) + [holder] + ([L.tx("noop", name="q")] if rng.chance(1, 2) else [])
        src = [{"at": 2 * L.MS, "n": rng.range(10, 300)}, {"at": 3 * L.MS, "n": rng.range(10, 300)}, {"at": 10 * L.MS, "close": True}]
        at = 10 * L.MS + rng.range(1, D - 5) * L.MS + rng.range(1, 999)
        op = rng.choice(["remove_holder", "reset", "add", "remove_nb"])
        if op == "remove_nb" and len(chain) == 1:
            op = "remove_holder"
        ops = [{"remove_holder": {"at": at, "op": "remove", "name": "h"}, "reset": {"at": at, "op": "reset"},
                "add": {"at": at, "op": "add", "toxic": L.tx("noop", name="z")},
                "remove_nb": {"at": at, "op": "remove", "name": [x["name"] for x in chain if x["name"] != "h"][0] if len(chain) > 1 else "h"}}[op]]
        cases.append({"dir": rng.choice(["upstream", "downstream"]), "chain": chain, "src": src, "ops": ops, "horizon": 3600 * 1000 * L.MS,
                      "seed": 8000 + i, "ender": "src_eof+" + op, "pending_when_downstream_gone": False})
        stats["reconfigured_while_ending"] += 1
    return cases, stats


def oracle(case, res):
    if res is None or "crash" in res:
        return "the process crashed: " + (res or {}).get("crash", "")[-300:]
    if "ender" not in case:
        return None
    if res.get("links_after", 0) != 0:
        return "%d link entries left in the collection after the connection ended" % res["links_after"]
    if res.get("leak"):
        return "goroutines of the connection are still blocked after it ended and its sender closed (%s)" % res["leak"][:90]
    return None


def known_class(case, res, w):
    if "goroutines" in w and case.get("pending_when_downstream_gone"):
        return "downstream-gone-with-send-pending"
    return None


# ---------------------------------------------------------------- real sockets: census before / after
def tcp_scenarios(ctx, n):
    rng = C.Rng(ctx.seed).fork("C15tcp")
    cases = []
    for i in range(n):
        g = i % 6
        b = T.port_base(g)
        up, px = b, b + 1
        closer = ["client_fin", "client_rst", "upstream_fin", "upstream_rst", "disable", "delete", "replaced_by_disabled_elsewhere"][i % 7]
        inflight = rng.choice(["nothing", "c2s", "s2c", "both"])
        k = rng.range(2, 5)
        ops = [{"op": "upstream", "id": "u", "port": up, "mode": "manual"},
               T.api("POST", "/proxies", {"name": "p", "listen": "127.0.0.1:%d" % px, "upstream": "127.0.0.1:%d" % up}),
               # warm-up connection so that lazily created runtime goroutines and fds exist before the census
               {"op": "dial", "id": "w", "addr": "127.0.0.1:%d" % px}, {"op": "upaccept", "id": "ws", "up": "u", "ms": 1000},
               {"op": "send", "id": "w", "n": 10}, {"op": "recv", "id": "ws", "up": "w", "n": 10, "ms": 1000},
               {"op": "close", "id": "w", "how": "fin"}, {"op": "recv", "id": "ws", "up": "w", "n": 1, "ms": 1000}, {"op": "close", "id": "ws", "how": "fin"},
               {"op": "sleep", "ms": 100}, {"op": "census"}]
        for j in range(k):
            c, s = "c%d" % j, "s%d" % j
            ops += [{"op": "dial", "id": c, "addr": "127.0.0.1:%d" % px}, {"op": "upaccept", "id": s, "up": "u", "ms": 1000},
                    {"op": "send", "id": c, "n": 100}, {"op": "recv", "id": s, "up": c, "n": 100, "ms": 1000},
                    {"op": "send", "id": s, "n": 70}, {"op": "recv", "id": c, "up": s, "n": 70, "ms": 1000}]
            if inflight in ("c2s", "both"):
                ops.append({"op": "send", "id": c, "n": 3000})
            if inflight in ("s2c", "both"):
                ops.append({"op": "send", "id": s, "n": 3000})
        if closer in ("disable", "delete"):
            ops.append(T.api("POST", "/proxies/p", {"enabled": False}) if closer == "disable" else T.api("DELETE", "/proxies/p"))
        if closer == "replaced_by_disabled_elsewhere":
            # populate replaces the proxy by an entry of the same name that listens elsewhere and is not to be started: the old
            # incarnation is gone as far as the API shows, and so must be everything it held
            ops.append(T.api("POST", "/populate", [{"name": "p", "listen": "127.0.0.1:%d" % (b + 2), "upstream": "127.0.0.1:%d" % up, "enabled": False}]))
        for j in range(k):
            c, s = "c%d" % j, "s%d" % j
            if closer.startswith("client"):
                ops.append({"op": "close", "id": c, "how": closer[-3:]})
                ops.append({"op": "recv", "id": s, "up": c, "n": 100000, "ms": 1500})
                ops.append({"op": "close", "id": s, "how": "fin"})
            elif closer.startswith("upstream"):
                ops.append({"op": "close", "id": s, "how": closer[-3:]})
                ops.append({"op": "recv", "id": c, "up": s, "n": 100000, "ms": 1500})
                ops.append({"op": "close", "id": c, "how": "fin"})
            else:
                ops.append({"op": "recv", "id": c, "up": s, "n": 100000, "ms": 1500})
                ops.append({"op": "recv", "id": s, "up": c, "n": 100000, "ms": 1500})
                ops.append({"op": "close", "id": c, "how": "fin"})
                ops.append({"op": "close", "id": s, "how": "fin"})
        if closer == "replaced_by_disabled_elsewhere":
            ops += [{"op": "dial", "id": "z", "addr": "127.0.0.1:%d" % px}, {"op": "close", "id": "z", "how": "fin"}]
        ops += [{"op": "sleep", "ms": 300}, {"op": "census"}]
        cases.append({"ops": ops, "group": g, "closer": closer, "inflight": inflight, "k": k})
    # stop / delete while the accept loop is still dialling a slow upstream: nothing may be registered afterwards
    for i in range(max(2, n // 6)):
        g = i % 6
        b = T.port_base(g)
        up, px = b + 3, b + 4
        how = ["disable", "delete"][i % 2]
        ops = [{"op": "slowupstream", "id": "su", "port": up},
               T.api("POST", "/proxies", {"name": "p", "listen": "127.0.0.1:%d" % px, "upstream": "127.0.0.1:%d" % up}),
               {"op": "sleep", "ms": 100}, {"op": "census"},
               {"op": "dial", "id": "c", "addr": "127.0.0.1:%d" % px}, {"op": "sleep", "ms": 250},
               {"op": "uprelease", "id": "su", "ms": 300},
               T.api("POST", "/proxies/p", {"enabled": False}) if how == "disable" else T.api("DELETE", "/proxies/p"),
               {"op": "sleep", "ms": 2500},
               {"op": "recv", "id": "c", "up": "c", "n": 1, "ms": 500},
               {"op": "close", "id": "c", "how": "fin"}, {"op": "sleep", "ms": 300}, {"op": "census"}]
        cases.append({"ops": ops, "group": g, "closer": how + "_during_upstream_dial", "inflight": "nothing", "k": 1, "slow": True})
    # clients turned away because the upstream is down, who do not hang up themselves: once the proxy is disabled or deleted nothing of
    # them may be left (the k sockets the harness itself still holds on the client side are allowed for)
    for i in range(max(2, n // 6)):
        g = i % 6
        b = T.port_base(g)
        up, px = b + 6, b + 7
        how = ["disable", "delete"][i % 2]
        k = rng.range(1, 4)
        ops = [{"op": "upstream", "id": "u", "port": up, "mode": "manual"},
               T.api("POST", "/proxies", {"name": "p", "listen": "127.0.0.1:%d" % px, "upstream": "127.0.0.1:%d" % up}),
               {"op": "dial", "id": "w", "addr": "127.0.0.1:%d" % px}, {"op": "upaccept", "id": "ws", "up": "u", "ms": 1000},
               {"op": "send", "id": "w", "n": 10}, {"op": "recv", "id": "ws", "up": "w", "n": 10, "ms": 1000},
               {"op": "close", "id": "w", "how": "fin"}, {"op": "recv", "id": "ws", "up": "w", "n": 1, "ms": 1000}, {"op": "close", "id": "ws", "how": "fin"},
               {"op": "upstop", "id": "u"}, {"op": "sleep", "ms": 150}, {"op": "census"}]
        for j in range(k):
            c = "c%d" % j
            ops += [{"op": "dial", "id": c, "addr": "127.0.0.1:%d" % px}, {"op": "send", "id": c, "n": rng.choice([1, 500])},
                    {"op": "recv", "id": c, "up": c, "n": 1, "ms": 800}]
        ops += [T.api("POST", "/proxies/p", {"enabled": False}) if how == "disable" else T.api("DELETE", "/proxies/p"),
                {"op": "sleep", "ms": 400}, {"op": "census"}]
        for j in range(k):
            ops.append({"op": "close", "id": "c%d" % j, "how": "fin"})
        cases.append({"ops": ops, "group": g, "closer": how + "_after_upstream_down", "inflight": "nothing", "k": k, "held_by_harness": k})
    results = T.run_tcp(ctx, cases, "c15")
    fails = []
    for c, r in zip(cases, results):
        if c.get("slow") and isinstance(r, list) and not r[0].get("ok"):
            continue        # the accept backlog could not be filled on this kernel: inconclusive
        rp = {"kind": "failing-input", "tcp": True, "case": c, "observed": r}
        if T.env_broken(r):
            continue
        if isinstance(r, dict):
            fails.append(("crash", "process crashed in a teardown scenario", rp, None))
            continue
        cens = [x for x in r if x["op"] == "census"]
        before, after = cens[0]["counts"], cens[-1]["counts"]
        leaks = []
        if after["goroutines"] > before["goroutines"]:
            leaks.append("%d goroutines" % (after["goroutines"] - before["goroutines"]))
        if after["fds"] > before["fds"] + c.get("held_by_harness", 0) and not c.get("slow"):   # (the slow-upstream stub of the harness keeps its own accepted sockets)
            leaks.append("%d file descriptors" % (after["fds"] - before["fds"] - c.get("held_by_harness", 0)))
        if c["closer"] == "replaced_by_disabled_elsewhere":
            # the old incarnation had an accept loop and a listener when the first census was taken: both must be gone now
            dz = [x for o, x in zip(c["ops"], r) if o.get("op") == "dial" and o.get("id") == "z"]
            if dz and dz[0].get("ok"):
                leaks.append("the replaced proxy's listener still accepts connections")
            if after["goroutines"] >= before["goroutines"] and "goroutines" not in " ".join(leaks):
                leaks.append("the accept loop's goroutines (%d goroutines before with the proxy up, %d after it was replaced by a disabled one)"
                             % (before["goroutines"], after["goroutines"]))
        for key in after:
            if key.startswith(("links:", "conns:")) and after[key] != 0:
                leaks.append("%s=%d" % (key, after[key]))
        if c.get("slow"):
            rc = [x for x in r if x["op"] == "recv"][0]
            if rc.get("end") not in ("eof", "reset"):
                leaks.append("the client connection accepted during the stop is still open (%s)" % rc.get("end"))
        if leaks:
            # unread data pending towards a peer that went away is the known class F7
            kc = "downstream-gone-with-send-pending" if c["inflight"] != "nothing" and all(l.endswith(" goroutines") for l in leaks) else None
            fails.append(("teardown-leak", "after %d connections ended by %s with %s in flight: %s left behind" % (c["k"], c["closer"], c["inflight"], ", ".join(leaks)), rp, kc))
    return fails, {"tcp_runs": len(cases), "tcp_failures": len(fails),
                   "tcp_sample": {"closer": cases[0]["closer"], "inflight": cases[0]["inflight"],
                                  "census": [x.get("counts") for x in (results[0] if isinstance(results[0], list) else []) if x["op"] == "census"]}}


def run(ctx):
    def side(ctx2, proof):
        tcp_fail, tcp_cov = T.stable(lambda: tcp_scenarios(ctx2, (12 if ctx2.tier == "quick" else 240) * (1 if proof["build_ok"] else 3)))
        return [(kc or key, what, rp) for key, what, rp, kc in tcp_fail], tcp_cov

    if True:
        return L.run_link_property(
            ctx, PID, gen_cases, oracle,
            classify=lambda w: "bookkeeping-left" if "link entries" in w else ("goroutines-left" if "goroutines" in w else "crash"),
            rule="matrix who ends the connection (sender EOF, receiver error at write k, limit_data, timeout) x chain (none, latency, bandwidth, "
                 "slicer, noop+latency, slow_close) x what is in flight (nothing, some, lots): after the end and after the sender closed, the "
                 "collection must list no link and no goroutine of the connection may remain (synctest's deadlock report); real-socket scenarios "
                 "(client/upstream FIN/RST, disable, delete x in-flight) compare goroutine/fd/bookkeeping census before and after; "
                 "non-trivial = something was in flight; distinct by JSON",
            nontrivial=lambda c: c.get("ender") != "src_eof" or len(c["src"]) > 2,
            assumptions=["known finding F7: when the downstream end goes away while a send is pending upstream, the reader and the stages upstream "
                         "stay blocked for ever (no drain-or-abort path through the chain)",
                         "kernel socket teardown timing and the garbage collector are outside the model; the census waits 200-300 ms"],
            model_filter=lambda c: False, known_class=known_class, side_findings=side)


def replay(ctx, path):
    return L.replay_link(ctx, PID, path, oracle)

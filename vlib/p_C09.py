"""C09 — bandwidth toxic never lets more than rate KB/s through."""
from . import common as C
from . import links as L

PID = "C09"


def gen_cases(ctx, rng):
    n = 140 if ctx.tier == "quick" else 4000
    cases = []
    stats = {"rates": {}, "chunk_vs_100R": {"below": 0, "near": 0, "above": 0}, "with_neighbour": 0, "big_then_small": 0}
    for i in range(n):
        R = rng.choice([1, 2, 3, 7, 10, 100, 1024, 1000000])
        stats["rates"][str(R)] = stats["rates"].get(str(R), 0) + 1
        bw = L.tx("bandwidth", name="b", rate=R)
        pre = [rng.choice([L.tx("noop", name="n%d" % j), L.tx("latency", name="l%d" % j, latency=rng.choice([0, 5, 40]), jitter=0)])
               for j in range(rng.range(0, 2))]
        post = [rng.choice([L.tx("noop", name="m%d" % j), L.tx("latency", name="k%d" % j, latency=rng.choice([0, 5]), jitter=0)])
                for j in range(rng.range(0, 1))]
        if any(t["type"] == "latency" for t in pre + post):
            stats["with_neighbour"] += 1
        src, t = [], rng.range(0, 20) * L.MS
        shape = rng.choice(["near", "mixed", "big_then_small", "burst"])
        lim = min(100 * R, 32768)
        for k in range(rng.range(1, 8)):
            if shape == "near":
                sz = max(1, lim + rng.choice([-1, 0, 1, 2, -50, 57]))
                stats["chunk_vs_100R"]["near"] += 1
            elif shape == "big_then_small" and k == 0:
                sz = min(32768, lim * rng.range(2, 6) + rng.range(0, 99))
                stats["big_then_small"] += 1
            else:
                sz = rng.range(1, max(2, min(32768, 3 * lim)))
                stats["chunk_vs_100R"]["above" if sz > lim else "below"] += 1
            src.append({"at": t, "n": min(sz, 32768)})
            t += 0 if shape == "burst" else rng.choice([0, 1, 30, 250, 2000]) * L.MS + rng.range(0, 999)
        src.append({"at": t + rng.range(1, 100) * L.MS, "close": True})
        cases.append(L.cap_case({"dir": rng.choice(["upstream", "downstream"]), "chain": pre + [bw] + post, "src": src,
                                 "horizon": 36000 * 1000 * L.MS, "seed": i}, 900))
    # the stage interrupted in the middle of its instalments or its final wait (a neighbour is added/removed/updated, or its own rate
    # is rewritten to the same value): what it holds is flushed, neither dropped nor repeated
    m = 40 if ctx.tier == "quick" else 1500
    stats["interrupted"] = 0
    for i in range(m):
        R = rng.choice([1, 2, 3, 7])
        chain = [L.tx("bandwidth", name="b", rate=R)] + ([L.tx("noop", name="q")] if rng.chance(1, 2) else [])
        big = min(32768, 100 * R * rng.range(3, 9) + rng.range(0, 99))
        src = [{"at": 1 * L.MS, "n": big}, {"at": 2 * L.MS, "n": rng.range(1, 50)}, {"at": 30000 * L.MS, "close": True}]
        at = rng.range(1, 6) * 100 * L.MS + rng.range(1, 99) * L.MS
        op = rng.choice(["add", "remove", "update_self", "update_nb"]) if len(chain) == 2 else rng.choice(["add", "update_self"])
        ops = [{"add": {"at": at, "op": "add", "toxic": L.tx("noop", name="z")},
                "remove": {"at": at, "op": "remove", "name": "q"},
                "update_self": {"at": at, "op": "update", "name": "b", "body": '{"attributes": {"rate": %d}}' % R},
                "update_nb": {"at": at, "op": "update", "name": "q", "body": '{"toxicity": 1}'}}[op]]
        cases.append({"dir": rng.choice(["upstream", "downstream"]), "chain": chain, "src": src, "ops": ops, "interrupted": True,
                      "horizon": 36000 * 1000 * L.MS, "seed": 7000 + i})
        stats["interrupted"] += 1
    # a receiver that stalls now and then (takes 50-800 ms over some writes), a tiny message long after an earlier one, then bulk: the rate
    # bound holds from the first byte on, whatever the receiver did in between (time spent waiting for the receiver is not credit)
    stats["receiver_stalls"] = 0
    for i in range(20 if ctx.tier == "quick" else 500):
        R = rng.choice([10, 100, 1000])
        chain = [L.tx("bandwidth", name="b", rate=R)] + ([L.tx("noop", name="m")] if rng.chance(1, 3) else [])
        lim = min(100 * R, 32768)
        src, t = [], 1 * L.MS
        if i % 2:
            src.append({"at": t, "n": rng.range(1, lim)})
            t += rng.range(200, 1500) * L.MS
            src.append({"at": t, "n": rng.choice([1, 2, 7])})                  # a tiny message a while later
            t += rng.range(0, 300) * L.MS
        for _ in range(rng.range(8, 20)):
            src.append({"at": t, "n": rng.range(lim // 2 + 1, lim)})           # bulk, back to back (from the first byte on when i is even)
        src.append({"at": t + 600000 * L.MS, "close": True})
        # one stall early in the transfer - every fourth time longer than the 5 s after which other parts of the code give up
        delays = [0] * rng.range(1, 3) + [(rng.choice([50, 300, 800]) if i % 4 else rng.choice([5500, 8000, 17000])) * L.MS] + [0] * 40
        cases.append({"dir": rng.choice(["upstream", "downstream"]), "chain": chain, "src": src, "sink_delay": delays,
                      "horizon": 36000 * 1000 * L.MS, "seed": 9500 + i})
        stats["receiver_stalls"] += 1
    # several connections through the same bandwidth toxic at once (one toxic object serves every link of the proxy): the rate is per
    # connection - a bulk transfer must not speed up, nor small messages slow down, because another connection is busy
    stats["shared_by_connections"] = 0
    for i in range(20 if ctx.tier == "quick" else 500):
        R = rng.choice([1, 3, 10, 100])
        chain = [L.tx("bandwidth", name="b", rate=R)]
        nl = rng.range(2, 3)
        srcs = []
        bulk = min(32768, 100 * R * rng.range(3, 8) + rng.range(0, 99))
        srcs.append([{"at": 1 * L.MS, "n": bulk}, {"at": 2 * L.MS, "n": rng.range(1, 50)}, {"at": 60000 * L.MS, "close": True}])
        for k in range(1, nl):
            t, src = rng.range(0, 50) * L.MS + rng.range(1, 999), []
            for _ in range(rng.range(5, 25)):
                src.append({"at": t, "n": rng.range(1, max(2, 20 * R))})
                t += rng.choice([1, 7, 40, 130]) * L.MS + rng.range(0, 999)
            src.append({"at": 60000 * L.MS, "close": True})
            srcs.append(src)
        cases.append({"dir": rng.choice(["upstream", "downstream"]), "chain": chain, "src": srcs[0], "srcs": srcs, "links": nl,
                      "horizon": 36000 * 1000 * L.MS, "seed": 9000 + i})
        stats["shared_by_connections"] += 1
    # the rate changed through the API on a connection that has already carried data at the old rate (and on one established afterwards):
    # whatever is sent once the update has returned is paced at the new rate - neither faster nor slower
    stats["rate_updated"] = 0
    for i in range(12 if ctx.tier == "quick" else 300):
        R1, R2 = rng.choice([(1000, 10), (10, 1000), (50, 5), (3, 300), (100, 7)])
        chain = [L.tx("bandwidth", name="b", rate=R1)] + ([L.tx("noop", name="q")] if i % 3 == 0 else [])
        src, t = [], 5 * L.MS
        for _ in range(rng.range(1, 4)):
            n = rng.range(1, 60 * R1)
            src.append({"at": t, "n": n})
            t += (n // R1 + rng.range(5, 50)) * L.MS
        U = t + rng.range(10, 200) * L.MS + 777
        t = U + rng.range(50, 300) * L.MS
        late = []
        for _ in range(rng.range(2, 5)):
            n = rng.range(1, 90 * R2)
            late.append({"at": t, "n": n})
            t += (n // R2 + rng.range(20, 200)) * L.MS          # the stage is idle again before the next one arrives
        src += late
        src.append({"at": t + 1000 * L.MS, "close": True})
        cases.append({"dir": rng.choice(["upstream", "downstream"]), "chain": chain, "src": src, "links": 1 + i % 2,
                      "ops": [{"at": U, "op": "update", "name": "b", "body": '{"attributes": {"rate": %d}}' % R2}],
                      "horizon": 3600 * 1000 * L.MS, "seed": 9000 + i, "rate_updated": {"at": U, "rate": R2}})
        stats["rate_updated"] += 1
    return cases, stats


def oracle(case, res):
    if res is None or "crash" in res:
        return "the process crashed: " + (res or {}).get("crash", "")[-300:]
    bws = [t for t in case["chain"] if t["type"] == "bandwidth"]
    if not bws:
        return None
    if case.get("rate_updated"):
        ru = case["rate_updated"]
        sent = sum(e.get("n", 0) for e in case["src"])
        if not res["prefix_ok"] or res["total"] != sent:
            return "content/order changed or bytes missing (%d of %d)" % (res["total"], sent)
        writes = [e for e in case["src"] if not e.get("close")]
        ws = res["writes"] or []
        if len(ws) != len(writes):
            return None
        for e, w in zip(writes, ws):
            if e["at"] <= ru["at"] or w["n"] != e["n"]:
                continue
            want = e["n"] * 1000000 // ru["rate"]          # ns, each chunk arrives at an idle stage and fits one instalment
            took = w["t"] - e["at"]
            if took < want - 1000 or took > want + 2 * L.MS:
                return ("the rate was updated to %d KB/s at %d ns; %d bytes sent at %d ns to the then idle stage were forwarded after %d ns, at the new rate "
                        "they take %d ns (the old rate is still in effect)" % (ru["rate"], ru["at"], e["n"], e["at"], took, want))
        return None
    R = bws[0]["attributes"]["rate"]
    sent = sum(e.get("n", 0) for e in case["src"])
    if not res["prefix_ok"] or res["total"] != sent:
        return "content/order changed or bytes missing (%d of %d)" % (res["total"], sent)
    if case.get("interrupted"):
        return None                       # the interrupt flushes the rest at once: only content and completeness are judged
    ws = res["writes"] or []
    first = min([e["at"] for e in case["src"] if not e.get("close")] or [0])
    cum = 0
    for k, w in enumerate(ws):
        cum += w["n"]
        # rate KB/s = rate bytes per ms; one nanosecond's worth of slack per chunk for Go's truncating division
        if 1000000 * cum > R * (w["t"] - first) + R * (k + 1):
            return "%d bytes forwarded %d ns after the first byte arrived: more than %d bytes/ms" % (cum, w["t"] - first, R)
        if w["n"] > 100 * R and w["n"] > 0:
            return "a piece of %d bytes, more than 100 ms worth of budget (%d)" % (w["n"], 100 * R)
    return None


def run(ctx):
    return L.run_link_property(
        ctx, PID, gen_cases, oracle,
        classify=lambda w: "rate-exceeded" if "more than" in w and "bytes/ms" in w else ("instalment" if "worth of budget" in w else ("stream" if "bytes" in w else "crash")),
        rule="one bandwidth toxic (rate from {1,2,3,7,10,100,1024,10^6} KB/s) at positions 1-3 with noop/latency neighbours; chunk sizes around "
             "100*rate (+-1), far below and several times above, a big chunk followed by small ones, bursts and idle gaps; plus links whose bandwidth stage is interrupted during its "
             "instalments (neighbour added / removed / updated, own rate rewritten) judged on content and completeness; plus 2-3 connections at "
             "once through the same toxic (a bulk transfer next to streams of small messages), each judged and replayed on its own; non-trivial = some "
             "chunk exceeds 100*rate or two chunks arrive within the first one's budget; distinct by JSON",
        nontrivial=lambda c: len(c["src"]) > 2,
        model_filter=lambda c: not c.get("ops"),
        assumptions=["rate <= 0 is outside the property (C07)",
                     "the cumulative bound for chunk sequences composes C09_small_chunk / C09_instalment with C09_rate_bound_partial by the exact "
                     "correspondence, not by a theorem"])


def replay(ctx, path):
    return L.replay_link(ctx, PID, path, oracle)

"""C18 — ChanWriter/ChanReader form a lossless FIFO byte pipe."""
import json
import os

from . import common as C

PID = "C18"


# ------------------------------------------------------------------ generation
def compositions(total):
    """all ways to write `total` as an ordered sum of positive parts"""
    if total == 0:
        yield []
        return
    for first in range(1, total + 1):
        for rest in compositions(total - first):
            yield [first] + rest


def make_writes(sizes, base=1):
    out, v = [], base
    for s in sizes:
        out.append([(v + i) % 200 + 1 for i in range(s)])
        v += s
    return out


def script_for(sizes, rsize, sched, close_at, mutate, extra_reads):
    """sched[j] = number of chunks made available before read j (then defaults to 0);
    close_at = index of the read before which the writer closes (after all writes are out) or None"""
    ops = []
    nw = len(sizes)
    avail = 0
    total = sum(sizes)
    reads = max(1, (total + rsize - 1) // max(rsize, 1)) + nw + extra_reads
    closed = False
    for j in range(reads):
        k = sched[j] if j < len(sched) else 0
        if j >= len(sched) and avail < nw and j % 2 == 0:
            k = 1
        k = min(k, nw - avail)
        if k:
            ops.append({"k": "avail", "n": k})
            avail += k
            if mutate:
                ops.append({"k": "mutate", "n": 0})
        if not closed and avail == nw and close_at is not None and j >= close_at:
            ops.append({"k": "close", "n": 0})
            closed = True
        ops.append({"k": "read", "n": rsize})
    return {"writes": make_writes(sizes), "ops": ops}


def gen_cases(ctx, rng):
    cases = []
    stats = {"systematic": 0, "random": 0, "concurrent": 0, "zero_len_write": 0, "zero_len_read": 0}
    # systematic: all compositions of totals <= T, read sizes 1..R, three availability regimes x close/no close
    T, R = (7, 4) if ctx.tier == "quick" else (9, 5)
    for total in range(1, T + 1):
        for sizes in compositions(total):
            for rsize in range(1, R + 1):
                nw = len(sizes)
                for sched in ([nw], [1] * nw + [0], [1, 0, 0, 1, 0, 1, 1, 0, 1]):
                    for close_at in (0, None):
                        cases.append(script_for(sizes, rsize, sched, close_at, mutate=(total % 2 == 0), extra_reads=2))
                        stats["systematic"] += 1
    # random: bigger chunks, odd read sizes, zero-length writes and reads, random schedules
    nrand = 400 if ctx.tier == "quick" else 6000
    for _ in range(nrand):
        nw = rng.range(1, 6)
        big = rng.chance(1, 5)
        sizes = [0 if rng.chance(1, 8) else rng.range(1, 200 if big else 24) for _ in range(nw)]
        rsize = rng.choice([0, 1, 2, 3, 5, 7, 8, 16, 64]) if rng.chance(4, 5) else rng.range(1, 300)
        if 0 in sizes:
            stats["zero_len_write"] += 1
        if rsize == 0:
            stats["zero_len_read"] += 1
        sched = [rng.range(0, 2) for _ in range(rng.range(1, 12))]
        close_at = rng.choice([None, 0, rng.range(0, 10)])
        c = script_for(sizes, max(rsize, 0), sched, close_at, mutate=rng.chance(1, 2), extra_reads=rng.range(0, 3))
        if rsize == 0:
            # a zero-length read never consumes: keep the script finite
            c["ops"] = c["ops"][:30]
        if rng.chance(1, 2):
            # some reads are called while an interrupt is already pending (SetInterrupt users signal asynchronously)
            for op in c["ops"]:
                if op["k"] == "read" and rng.chance(1, 3):
                    op["k"] = "readp"
            stats["with_pending_interrupt"] = stats.get("with_pending_interrupt", 0) + 1
        cases.append(c)
        stats["random"] += 1
    # concurrent oracle-only cases over channel capacities
    nconc = 200 if ctx.tier == "quick" else 3000
    for _ in range(nconc):
        nw = rng.range(1, 12)
        sizes = [0 if rng.chance(1, 12) else rng.range(1, 40) for _ in range(nw)]
        c = {"writes": make_writes(sizes), "ops": [], "conc": True, "cap": rng.choice([0, 0, 1, 2, 5, 64]),
             "reads": [rng.range(1, 50) for _ in range(rng.range(1, 4))]}
        if rng.chance(1, 10):
            # a write far above the 32 KiB that socket reads produce (a custom toxic flushing a buffered payload)
            c["writes"] = make_writes([rng.choice([32769, 65536, 100000])] + sizes[:2])
            c["reads"] = [rng.choice([4096, 40000])]
            stats["big_write"] = stats.get("big_write", 0) + 1
        if rng.chance(1, 3):
            # an interrupt made pending before every k-th read, so that data and interrupt are ready for the same Read: an interrupted
            # read is repeated, and nothing may be lost whichever arm the select takes
            c["intr_every"] = rng.choice([1, 1, 2, 3])
            c["cap"] = rng.choice([1, 2, 5, 64])
            stats["interrupt_racing_with_data"] = stats.get("interrupt_racing_with_data", 0) + 1
        if "intr_every" not in c and rng.chance(1, 4):
            # the writer fed by io.Copy from a source (as link.go feeds it from a socket), which may hand over its last bytes together
            # with io.EOF: every byte the source produced comes out of the reader
            c["via_copy"] = True
            c["data_eof"] = rng.chance(2, 3)
            stats["via_io_copy"] = stats.get("via_io_copy", 0) + 1
        cases.append(c)
        stats["concurrent"] += 1
    return cases, stats


# ------------------------------------------------------------------ oracle on implementation traces
def oracle(case, res):
    """returns None if the observed behaviour satisfies the property, else a description"""
    flat = [b for w in case["writes"] for b in w]
    if res.get("panic"):
        return "panic or goroutine blocked for ever: " + res["panic"][:120]
    if case.get("conc"):
        if res.get("all", []) != flat:
            return "concurrent run%s: %d bytes went into the writer, %d came out of the reader%s" % (
                " (writer fed by io.Copy%s)" % (", last bytes returned with io.EOF" if case.get("data_eof") else "") if case.get("via_copy") else "",
                len(flat), len(res.get("all", [])), ("; " + res["bad_write"]) if res.get("bad_write") else " (or they differ)")
        if res.get("bad_write"):
            return "concurrent run: " + res["bad_write"] + " although every byte was taken (a caller honouring the count re-sends or gives up)"
        if not res.get("eof"):
            return "concurrent run: no EOF after close"
        return None
    avail = 0
    written = []
    closed = False
    got = []
    ri = 0
    empties = 0   # zero-length chunks made available and not yet accounted to a (0, nil) read
    for op in case["ops"]:
        if op["k"] == "avail":
            for _ in range(op["n"]):
                if avail < len(case["writes"]):
                    written += case["writes"][avail]
                    if not case["writes"][avail]:
                        empties += 1
                    avail += 1
        elif op["k"] == "close":
            closed = True
        elif op["k"] in ("read", "readp"):
            r = res["reads"][ri]
            ri += 1
            if len(r["data"]) > op["n"]:
                return "read returned more than the buffer"
            got += r["data"]
            if got != written[:len(got)]:
                return "bytes returned by reads are not a prefix of the bytes written (read #%d)" % ri
            if r["err"] == 1 and (not closed or got != written):
                return "EOF before everything written was returned (read #%d)" % ri
            if r["err"] == 3:
                return "unexpected error"
            if r["blocked"] and len(got) < len(written):
                return "read blocked although written data was outstanding (read #%d)" % ri
            if closed and got == written and op["n"] > 0 and r["err"] == 0 and not r["data"]:
                # after everything was returned and the writer closed, a read must say EOF, except
                # that each zero-length chunk still queued may be consumed by one (0, nil) read
                if empties > 0:
                    empties -= 1
                else:
                    return "no EOF after close (read #%d)" % ri
    return None


# ------------------------------------------------------------------ model side
def coq_case(case, res):
    acts = []
    avail = 0
    last_len = 0
    nread = 0
    for op in case["ops"]:
        if op["k"] == "avail":
            for _ in range(op["n"]):
                if avail < len(case["writes"]):
                    acts.append("AWrite " + C.coq_zlist(case["writes"][avail]))
                    last_len = len(case["writes"][avail])
                    avail += 1
        elif op["k"] == "mutate":
            acts.append("AMutate " + C.coq_zlist([238] * last_len))
        elif op["k"] == "close":
            acts.append("AClose")
        elif op["k"] in ("read", "readp"):
            # readp: the harness says whether it armed the interrupt before the call (nothing queued, writer open)
            armed = op["k"] == "readp" and nread < len(res.get("reads") or []) and res["reads"][nread].get("armed")
            acts.append("ARead %d %s" % (op["n"], "true" if armed else "false"))
            nread += 1
    obs = ["(%s, %s, %d)" % (C.coq_bool(r["blocked"]), C.coq_zlist(r["data"]), r["err"]) for r in (res.get("reads") or [])]
    return "(%s, %s)" % (C.coq_list(acts), C.coq_list(obs))


def model_mismatches(ctx, cases, results, idx):
    """evaluates the scripted cases idx through the model inside Coq; returns list of mismatching case indices"""
    from concurrent.futures import ThreadPoolExecutor
    shard = 250

    def one(s):
        part = idx[s:s + shard]
        body = "From TP Require Import Model.Prelude Model.Stream Extracted Run.C18Run.\n"
        body += "Definition cases : list case := [\n" + ";\n".join(coq_case(cases[i], results[i]) for i in part) + "].\n"
        body += "Definition M := Eval vm_compute in mismatches cases.\nPrint M.\n"
        rc, out = C.coq_eval(ctx, "C18_%d" % (s // shard), body)
        if rc != 0:
            raise C.BuildError("model evaluation failed:\n" + out[-2000:])
        txt = out[out.index("M ="):]
        txt = txt[txt.index("=") + 1:txt.index(":")]
        nums = [int(x) for x in txt.replace("[", " ").replace("]", " ").replace(";", " ").replace("%Z", " ").split()]
        return [part[n] for n in nums]

    bad = []
    with ThreadPoolExecutor(max_workers=14) as ex:
        for r in ex.map(one, range(0, len(idx), shard)):
            bad += r
    return bad


def run_impl(ctx, cases):
    vt = C.go_build_harness(ctx, "vt")
    os.makedirs(C.BUILD, exist_ok=True)
    fin = os.path.join(C.BUILD, "c18_in.json")
    fout = os.path.join(C.BUILD, "c18_out.json")
    with open(fin, "w") as f:
        json.dump({"cases": cases}, f)
    if os.path.exists(fout):
        os.remove(fout)
    rc, out = C.sh([vt, "-test.run", "^TestHarness$", "-test.timeout", "600s", "-mode", "c18", "-in", fin, "-out", fout],
                   env=C.GOENV, timeout=700)
    if rc != 0 or not os.path.exists(fout):
        return None, out
    return json.load(open(fout)), out


def case_size(c):
    return (1 if c.get("conc") else 0, len(c["ops"]) + len(c["writes"]), sum(len(w) for w in c["writes"]))


def classify(what):
    if "not a prefix" in what or "differ" in what:
        return "reader-loses-or-corrupts-bytes"
    if "EOF" in what:
        return "eof-misplaced"
    if "panic or goroutine" in what:
        return "panic-or-stuck"
    if "blocked" in what:
        return "read-blocks-with-data-outstanding"
    return "other"


def load_corpus():
    d = os.path.join(C.CORPUS, PID)
    cs = []
    if os.path.isdir(d):
        for fn in sorted(os.listdir(d)):
            if fn.endswith(".json"):
                cs.append(json.load(open(os.path.join(d, fn)))["case"])
    return cs


def run(ctx):
    verdict = C.Verdict(ctx)
    rng = C.Rng(ctx.seed).fork(PID)
    proof = C.proof_step(ctx, verdict, PID, extra_targets=["Run/C18Run.vo"])
    corpus = load_corpus()
    gen, stats = gen_cases(ctx, rng)
    cases = corpus + gen
    results, out = run_impl(ctx, cases)
    if results is None:
        # the implementation crashed or hung on some script (one process runs them all): find the first such script by bisection
        lo, hi = 0, len(cases)                     # invariant: cases[:lo] run through, cases[:hi] do not
        while hi - lo > 1:
            mid = (lo + hi) // 2
            r, _ = run_impl(ctx, cases[:mid])
            if r is None:
                hi = mid
            else:
                lo = mid
        culprit = cases[hi - 1]
        r1, out1 = run_impl(ctx, [culprit])
        if r1 is None:
            verdict.add("panic-or-stuck", "ChanReader/ChanWriter panicked or hung on a script of %d operations: %s" % (len(culprit["ops"]), " ".join(out1.split())[-300:]),
                        {"kind": "failing-input", "case": culprit, "observed": {"panic": out1[-1500:]}})
        else:
            verdict.add("harness-crash", "the stream package crashed or hung while running the scripts (not reproduced on a single script): " + out[-400:],
                        {"kind": "crash", "output": out[-3000:]}, has_input=False)
        rc, nv = verdict.finish()
        C.write_evidence(ctx, {"obligations": proof["obligations"], "discharged": proof["discharged"],
                               "checker_cmd": "make Properties/C18.vo (coqc 8.16.1)", "evaluations": len(cases), "oracle_failures": 1}, [], nv)
        return rc
    ctx.log("ran %d scripts through the implementation" % len(cases))

    # oracle on every implementation trace
    failing = []
    for i, (c, r) in enumerate(zip(cases, results)):
        w = oracle(c, r)
        if w:
            failing.append((case_size(c), i, w))
    failing.sort()
    # model correspondence on scripted cases
    scripted = [i for i, c in enumerate(cases) if not c.get("conc")]
    mism = []
    model_ok = os.path.exists(os.path.join(C.COQ, "Run", "C18Run.vo"))
    if model_ok:
        mism = model_mismatches(ctx, cases, results, scripted)
    ctx.log("oracle failures: %d, model mismatches: %d" % (len(failing), len(mism)))

    if failing:
        _, i, w = failing[0]
        verdict.add(classify(w), w + "; minimal failing script has %d ops" % len(cases[i]["ops"]),
                    {"kind": "failing-input", "case": cases[i], "observed": results[i], "oracle": w,
                     "replay_cmd": "./check C18 --replay <this file>"})
    else:
        if not proof["build_ok"]:
            verdict.add("proof-broken",
                        "proof obligation of C18 no longer checks (%s) and no failing script was found among %d"
                        % (", ".join(proof.get("broken", [])), len(cases)),
                        {"kind": "proof-broken", "broken": proof.get("broken"), "build_tail": proof.get("build_tail"),
                         "extracted": getattr(ctx, "extract_meta", {})}, has_input=False)
        if mism:
            i = sorted(mism, key=lambda j: case_size(cases[j]))[0]
            verdict.add("correspondence-broken",
                        "model and implementation disagree on %d scripts although every implementation trace satisfies the oracle"
                        % len(mism),
                        {"kind": "correspondence", "case": cases[i], "observed": results[i]}, has_input=False)
    rc, nviol = verdict.finish()

    nontrivial = set()
    for i in scripted:
        r = results[i]
        # non-trivial: some read was served partly from the carry (a chunk was split across reads) or blocked
        if any(rd["blocked"] for rd in (r.get("reads") or [])) or any(0 < len(rd["data"]) for rd in (r.get("reads") or [])):
            nontrivial.add(json.dumps(cases[i], sort_keys=True))
    unext = [k for k, v in getattr(ctx, "extract_meta", {}).items() if k in ("read_early", "writer_copies") and not v.get("extracted")]
    if unext:
        ctx.notes.append("translator could not locate: %s (correspondence-only tie for these items)" % ", ".join(unext))
    cov = {
        "obligations": proof["obligations"], "discharged": proof["discharged"],
        "checker_cmd": "coq_makefile + make Properties/C18.vo (coqc 8.16.1), Print Assumptions per theorem",
        "theorems": proof["theorems"], "print_assumptions": proof["assumptions"],
        "evaluations": len(cases), "distinct_nontrivial": len(nontrivial),
        "rule": "scripts = (write sizes, read-buffer size, availability schedule, close point, caller-buffer scribble); "
                "systematic over all compositions of totals up to the tier bound x read sizes x 3 schedules x close/no-close, "
                "then random (bigger chunks, zero-length writes/reads), then concurrent writer/reader runs over channel capacities; "
                "non-trivial = at least one read returned data or blocked; distinct by JSON of the script",
        "traces_validated_against_impl": len(scripted) if model_ok else 0,
        "model_mismatches": len(mism), "oracle_failures": len(failing),
        "input_distribution": stats, "corpus_cases": len(corpus),
        "extracted_items": {k: v for k, v in getattr(ctx, "extract_meta", {}).items() if k in ("read_early", "writer_copies")},
        "samples": [{"script": cases[scripted[len(scripted) // 2]], "observed": results[scripted[len(scripted) // 2]]}],
    }
    C.write_evidence(ctx, cov, [
        "Go channel semantics as modelled in coq/Model/Stream.v (FIFO queue; select picks any ready arm)",
        "the select arms of ChanReader.Read are hand-modelled and tied to the code by the correspondence run only; "
        "the early-return test and the copy in Write are extracted from the source",
    ], nviol)
    return rc


def replay(ctx, path):
    rp = json.load(open(path))
    if rp.get("kind") != "failing-input":
        print("replay file names a broken obligation, not an input:", rp.get("what"))
        return 1
    results, out = run_impl(ctx, [rp["case"]])
    if results is None:
        print("implementation crashed on the replay:", out[-500:])
        return 1
    w = oracle(rp["case"], results[0])
    print("observed:", json.dumps(results[0]))
    if w:
        print("VIOLATION property=%s replay=%s" % (PID, path))
        print("  what:", w)
        return 1
    print("replay passes on the current tree")
    return 0

"""C07 — nothing a client or peer sends can take the service down."""
import http.client
import json
import os
import re
import signal
import socket
import subprocess
import time

from . import api as A
from . import common as C
from . import links as L
from . import p_C05 as G
from . import tcp as T

PID = "C07"
GRID = [-(1 << 63), -(1 << 62), -1, 0, 1, 2, 99, 100, 101, 1 << 31, 1 << 53, (1 << 62) - 1, 1 << 62, ((1 << 63) - 1) // 100, ((1 << 63) - 1) // 100 + 1, (1 << 63) - 1]
FIELDS = {"latency": ["latency", "jitter"], "bandwidth": ["rate"], "slicer": ["average_size", "size_variation", "delay"],
          "slow_close": ["delay"], "timeout": ["timeout"], "limit_data": ["bytes"]}


def gen_grid(ctx, rng):
    cases = []
    stats = {"kinds": {}, "with_update": 0}
    n = 260 if ctx.tier == "quick" else 20000
    sizes = [1, 2, 99, 100, 101, 32768]
    for i in range(n):
        ty = rng.choice(sorted(FIELDS))
        attrs = {f: rng.choice(GRID) for f in FIELDS[ty]}
        if ty in ("latency", "slow_close", "timeout") and rng.chance(1, 2):
            attrs[FIELDS[ty][0]] = rng.choice([0, 1, 5, -1, 50])       # keep some cases short enough to see traffic pass
        if ty == "slicer":
            attrs["delay"] = rng.choice([0, 1, -1, 1 << 62, GRID[rng.below(len(GRID))]])
        t = L.tx(ty, name="x", **attrs)
        src = [{"at": (j + 1) * L.MS, "n": rng.choice(sizes)} for j in range(rng.range(1, 3))]
        src.append({"at": 20 * L.MS, "close": True})
        c = {"dir": "downstream", "chain": [t], "src": src, "horizon": 30 * 1000 * L.MS, "seed": i, "c07": True}
        if rng.chance(1, 4):
            # the same boundary values arriving by update on a connection that already carried data
            base = L.tx(ty, name="x", **{f: {"latency": 1, "jitter": 0, "rate": 1000, "average_size": 100, "size_variation": 0, "delay": 0,
                                             "timeout": 0, "bytes": 50}[f] for f in FIELDS[ty]})
            c["chain"] = [base]
            c["ops"] = [{"at": 3 * L.MS + 500, "op": "update", "name": "x", "body": json.dumps({"attributes": attrs})}]
            c["src"] = [{"at": 1 * L.MS, "n": 40}, {"at": 5 * L.MS, "n": rng.choice(sizes)}, {"at": 6 * L.MS, "n": 7}, {"at": 20 * L.MS, "close": True}]
            stats["with_update"] += 1
        else:
            # mirror the generator so that the model sees the draws the stage consumed (for the comparison with the model)
            M = (1 << 63) - 1
            if ty == "latency" and min(attrs["jitter"], M // 2) > 0:
                c["reseed"] = rng.range(1, 1 << 30)
                c["draw_kind"], c["draw_n"], c["draw_count"] = "int63n", 2 * min(attrs["jitter"], M // 2), len(src) + 4
            if ty == "slicer" and 0 < attrs["size_variation"] <= M // 2:
                c["reseed"] = rng.range(1, 1 << 30)
                c["draw_kind"], c["draw_n"], c["draw_count"] = "intn", 2 * attrs["size_variation"], min(3000, 2 * L.est_pieces(c) + 64)
        stats["kinds"][ty] = stats["kinds"].get(ty, 0) + 1
        cases.append(c)
    # an API request on a connection whose sender has gone while toxics still hold its data or close must return (and not wedge the
    # proxy): remove / update / reset / add while a latency or slow_close toxic is draining
    stats["requests_on_draining_connections"] = 0
    for i in range(24 if ctx.tier == "quick" else 600):
        D = rng.choice([2000, 6000])
        holder = rng.choice([L.tx("latency", name="h", latency=D, jitter=0), L.tx("slow_close", name="h", delay=D), L.tx("bandwidth", name="h", rate=1)])
        chain = ([L.tx("noop", name="p")] if rng.chance(1, 2) else []) + [holder] + ([L.tx("noop", name="q")] if rng.chance(1, 3) else [])
        src = [{"at": 1 * L.MS, "n": rng.choice([500, 40000])}, {"at": 2 * L.MS, "n": 700}, {"at": 5 * L.MS, "close": True}]
        at = rng.range(20, 900) * L.MS + rng.range(1, 999)
        how = rng.choice(["remove", "remove", "reset", "update", "add"])
        ops = [{"remove": {"at": at, "op": "remove", "name": "h"}, "reset": {"at": at, "op": "reset"},
                "update": {"at": at, "op": "update", "name": "h", "body": '{"toxicity": 1}'},
                "add": {"at": at, "op": "add", "toxic": L.tx("noop", name="z")}}[how]]
        cases.append({"dir": rng.choice(["upstream", "downstream"]), "chain": chain, "src": src, "ops": ops, "horizon": 600000 * L.MS,
                      "seed": 30000 + i, "c07": True})
        stats["requests_on_draining_connections"] += 1
    return cases, stats


def outside_guard(t):
    a = t["attributes"]
    ty = t["type"]
    if ty == "slicer":
        return not (0 <= a["size_variation"] < a["average_size"])
    if ty == "bandwidth":
        return not (0 < a["rate"] and a["rate"] * 100 < (1 << 63))
    if ty == "latency":
        return a["jitter"] > 0 and not (0 < a["jitter"] * 2 < (1 << 63))
    return False


def finding_key(t):
    ty = t["type"]
    return {"slicer": "slicer-outside-guard", "bandwidth": "bandwidth-nonpositive-or-huge-rate", "latency": "latency-jitter-overflow"}.get(ty)


def effective_toxic(case):
    """the toxic whose attributes are in effect when the interesting chunk arrives"""
    t = json.loads(json.dumps(case["chain"][0]))
    for o in case.get("ops") or []:
        if o.get("op") == "update" and o.get("name") == t.get("name"):
            t["attributes"].update(json.loads(o["body"]).get("attributes") or {})
    return t


def grid_oracle(case, res):
    if "c07" not in case:
        return None
    if res is None or "crash" in res:
        return "a stage crashed the process: " + re.sub(r"\s+", " ", (res or {}).get("crash", ""))[-260:]
    if res.get("hang"):
        return "the process stopped making progress (a stage recurses or spins for ever)"
    return None


def grid_known(case, res, w):
    t = effective_toxic(case)
    if outside_guard(t):
        return finding_key(t)
    return None


# ---------------------------------------------------------------- real server: fuzzed request stream
def http_req(port, method, path, body, headers=None, timeout=3.0):
    try:
        conn = http.client.HTTPConnection("127.0.0.1", port, timeout=timeout)
        conn.request(method, path, body=body, headers=headers or {"User-Agent": "verif"})
        r = conn.getresponse()
        data = r.read()
        conn.close()
        return r.status, data
    except Exception as e:
        return None, str(e).encode()


def raw_send(port, payload, timeout=1.0):
    try:
        s = socket.create_connection(("127.0.0.1", port), timeout=timeout)
        s.sendall(payload)
        s.settimeout(0.3)
        try:
            s.recv(4096)
        except Exception:
            pass
        s.close()
    except Exception:
        pass


def server_fuzz(ctx, nreq, stalled_upload=False):
    """starts toxiproxy-server built from the tree and throws a fuzzed request stream at it; after every 100 requests the API must
    answer /version within 1 s and a proxy created up front must still relay"""
    rng = C.Rng(ctx.seed).fork("C07fuzz")
    srv_bin = os.path.join(C.BUILD, "toxiproxy-server")
    rc, out = C.sh([C.GO_DEFAULT, "build", "-o", srv_bin, "./cmd/server"], cwd=C.REPO, env=C.GOENV, timeout=600)
    if rc != 0:
        raise C.BuildError("toxiproxy-server does not build:\n" + out[-2000:])
    base = C.free_port_base("c07srv", 10, 30000, 60000)
    api_port, echo_port, px_port = base, base + 1, base + 2
    echo = socket.socket()
    echo.setsockopt(socket.SOL_SOCKET, socket.SO_REUSEADDR, 1)
    echo.bind(("127.0.0.1", echo_port))
    echo.listen(64)
    echo.settimeout(0.2)
    import threading
    stop = threading.Event()

    def echo_loop():
        while not stop.is_set():
            try:
                c, _ = echo.accept()
            except Exception:
                continue
            def h(c=c):
                try:
                    c.settimeout(1.0)
                    while True:
                        d = c.recv(4096)
                        if not d:
                            break
                        c.sendall(d)
                except Exception:
                    pass
                c.close()
            threading.Thread(target=h, daemon=True).start()

    threading.Thread(target=echo_loop, daemon=True).start()
    proc = subprocess.Popen([srv_bin, "-host", "127.0.0.1", "-port", str(api_port)], stdout=subprocess.DEVNULL, stderr=subprocess.DEVNULL,
                            env=dict(os.environ, LOG_LEVEL="fatal"))
    findings, sent, kinds = [], 0, {}
    log = []
    try:
        for _ in range(50):
            st, _b = http_req(api_port, "GET", "/version", None, timeout=0.3)
            if st == 200:
                break
            time.sleep(0.1)
        http_req(api_port, "POST", "/proxies", json.dumps({"name": "keep", "listen": "127.0.0.1:%d" % px_port, "upstream": "127.0.0.1:%d" % echo_port}))
        g = G.Gen(rng, base + 4)
        g.names = ["a", "b"]

        def healthy():
            st, b = http_req(api_port, "GET", "/version", None, timeout=1.0)
            if st != 200:
                return "the API does not answer /version within 1 s (%s)" % (st,)
            # ... and the routes that take the collection's locks answer too: listing, and a create + delete of a fresh proxy
            st, b = http_req(api_port, "GET", "/proxies", None, timeout=2.0)
            if st != 200:
                return "the API does not answer GET /proxies within 2 s (%s)" % (st,)
            st, b = http_req(api_port, "POST", "/proxies", json.dumps({"name": "healthprobe", "listen": "127.0.0.1:%d" % (base + 9), "upstream": "127.0.0.1:%d" % echo_port}), timeout=2.0)
            if st not in (201, 409):
                return "the API does not accept a new proxy within 2 s (POST /proxies answered %s)" % (st,)
            st, b = http_req(api_port, "DELETE", "/proxies/healthprobe", None, timeout=2.0)
            if st not in (204, 404):
                return "the API does not delete a proxy within 2 s (DELETE answered %s)" % (st,)
            try:
                s = socket.create_connection(("127.0.0.1", px_port), timeout=1.0)
                s.settimeout(1.5)
                s.sendall(b"ping-%d" % sent)
                d = s.recv(100)
                s.close()
                if not d.startswith(b"ping-"):
                    return "the enabled proxy 'keep' no longer relays"
            except Exception as e:
                return "the enabled proxy 'keep' does not accept or relay (%s)" % e
            return None

        if stalled_upload:
            # a client that announces a body and then stalls: the handler decodes under the proxy's toxic lock, so unless the server bounds
            # the time a body may take, GET /proxies and new connections through that proxy hang for as long as the client likes
            hold = socket.create_connection(("127.0.0.1", api_port), timeout=3)
            hold.sendall(b"POST /proxies/keep/toxics HTTP/1.1\r\nHost: x\r\nUser-Agent: verif\r\nContent-Type: application/json\r\n"
                         b"Content-Length: 200\r\n\r\n{\"type\": \"latency\", ")
            time.sleep(19.0)                                  # the documented bound is 15 s (api.go read_timeout)
            st, b = http_req(api_port, "GET", "/proxies", None, timeout=3.0)
            w2 = None if st == 200 else "GET /proxies is not answered (%s) 19 s after a client stalled in the middle of a toxic request body" % (st,)
            w2 = w2 or healthy()
            kinds["stalled-upload"] = 1
            try:
                hold.close()
            except Exception:
                pass
            if w2:
                findings.append(("stalled-upload-freezes-proxy", w2 + " (one half-sent POST /proxies/keep/toxics holds the proxy's lock)",
                                 {"kind": "failing-input", "scenario": "POST /proxies/keep/toxics with Content-Length 200, 22 bytes sent, connection held open 19 s; "
                                                                       "then GET /proxies and a fresh connection through proxy keep"}))
        while sent < nreq and not findings:
            q = g.any({"t1": "latency", "t2": "slicer"})
            k = rng.below(100)
            w = A.wire(q)
            kind = "model-stream"
            if q["path"].startswith("/proxies/keep") or (q["json"] and "keep" in A.text(q["json"])):
                continue
            if k < 70:
                hdr = {"User-Agent": w["ua"] or "verif", "Content-Type": rng.choice(["application/json", "text/plain", ""])}
                http_req(api_port, w["method"], w["path"], w["body"].encode(), hdr)
            elif k < 80:
                kind = "mutated-body"
                b = bytearray(w["body"].encode() or b"{}")
                for _ in range(rng.range(1, 4)):
                    b[rng.below(len(b))] = rng.below(256)
                http_req(api_port, w["method"], w["path"], bytes(b))
            elif k < 86:
                kind = "oversize-body"
                http_req(api_port, "POST", rng.choice(["/proxies", "/populate", "/proxies/a/toxics"]), b"[" + b"{\"name\":\"x\"}," * rng.choice([1000, 50000]) + b"{}]")
            elif k < 92:
                kind = "raw-bytes"
                raw_send(api_port, rng.choice([b"GET /proxies HTTP/1.1\r\n\r\n", b"\x00\x01\x02\xff" * 50, b"POST /proxies HTTP/1.1\r\nContent-Length: 100\r\n\r\n{",
                                               b"DELETE /proxies/%2e%2e HTTP/1.1\r\nHost: x\r\n\r\n", b"GET " + b"/a" * 5000 + b" HTTP/1.1\r\n\r\n"]))
            else:
                kind = "boundary-attributes"
                ty = rng.choice(sorted(FIELDS))
                http_req(api_port, "POST", "/proxies/%s/toxics" % rng.choice(["a", "b"]),
                         json.dumps({"type": ty, "name": rng.choice(["t1", "t2", "t3"]), "attributes": {f: rng.choice(GRID) for f in FIELDS[ty]}}))
            kinds[kind] = kinds.get(kind, 0) + 1
            log.append((w["method"], w["path"], kind))
            sent += 1
            if sent % 100 == 0 or proc.poll() is not None:
                if proc.poll() is not None:
                    findings.append(("server-died", "toxiproxy-server exited with status %s after request %d (%s %s, %s)" % (proc.returncode, sent, w["method"], w["path"], kind),
                                     {"kind": "failing-input", "last_requests": log[-20:]}))
                    break
                w2 = healthy()
                if w2:
                    findings.append(("server-unhealthy", w2 + " after %d fuzzed requests" % sent, {"kind": "failing-input", "last_requests": log[-120:]}))
    finally:
        stop.set()
        if proc.poll() is None:
            proc.send_signal(signal.SIGTERM)
            try:
                proc.wait(timeout=3)
            except Exception:
                proc.kill()
        echo.close()
    return findings, {"fuzzed_requests": sent, "fuzz_kinds": kinds}


# ---------------------------------------------------------------- faults on some connections never stop a proxy from serving others
def fault_scenarios(ctx, n):
    rng = C.Rng(ctx.seed).fork("C07faults")
    cases = []
    for i in range(n):
        g = i % 6
        b = T.port_base(g)
        up, px, dead = b + 5, b + 6, b + 7
        fault = ["upstream_refuses", "upstream_rst_midstream", "client_rst", "client_half_open", "toxic_closes", "upstream_closes_immediately"][i % 6]
        ops = [{"op": "upstream", "id": "u", "port": up, "mode": "manual" if fault in ("upstream_rst_midstream",) else ("closeimm" if fault == "upstream_closes_immediately" else "echo")},
               T.api("POST", "/proxies", {"name": "p", "listen": "127.0.0.1:%d" % px, "upstream": "127.0.0.1:%d" % (dead if fault == "upstream_refuses" else up)})]
        for j in range(rng.range(2, 5)):
            c = "f%d" % j
            ops.append({"op": "dial", "id": c, "addr": "127.0.0.1:%d" % px})
            if fault == "upstream_rst_midstream":
                ops += [{"op": "upaccept", "id": "s%d" % j, "up": "u", "ms": 1000}, {"op": "send", "id": c, "n": 2000}, {"op": "close", "id": "s%d" % j, "how": "rst"}]
            elif fault == "client_rst":
                ops += [{"op": "send", "id": c, "n": 3000}, {"op": "close", "id": c, "how": "rst"}]
            elif fault == "client_half_open":
                ops += [{"op": "send", "id": c, "n": 100}, {"op": "close", "id": c, "how": "half"}]
            elif fault == "toxic_closes":
                if j == 0:
                    ops.insert(2, T.api("POST", "/proxies/p/toxics", {"type": "limit_data", "attributes": {"bytes": 10}}))
                ops += [{"op": "send", "id": c, "n": 500}, {"op": "recv", "id": c, "up": c, "n": 500, "ms": 500}]
            else:
                ops += [{"op": "send", "id": c, "n": 10}, {"op": "recv", "id": c, "up": c, "n": 10, "ms": 300}]
        # afterwards: the API answers and the proxy serves a fresh connection to a healthy upstream
        if fault in ("upstream_refuses", "upstream_rst_midstream", "upstream_closes_immediately", "toxic_closes"):
            ops += [{"op": "upstream", "id": "u2", "port": up + 3 - 5 + 5 if False else b + 8, "mode": "echo"},
                    T.api("DELETE", "/proxies/p/toxics/limit_data_downstream"),
                    T.api("POST", "/proxies/p", {"upstream": "127.0.0.1:%d" % (b + 8)})]
        ops += [T.api("GET", "/version"), {"op": "dial", "id": "ok", "addr": "127.0.0.1:%d" % px}, {"op": "send", "id": "ok", "n": 64},
                {"op": "recv", "id": "ok", "up": "ok", "n": 64, "ms": 1500}]
        cases.append({"ops": ops, "group": g, "fault": fault})
    # a proxy is stopped (deleted / disabled / re-addressed / replaced by populate) while a toxic that withholds the end of the stream
    # (slow_close, reset_peer, latency with data in flight) still holds one of its connections: the request must return and the API,
    # including every request that looks a proxy up, must keep answering
    nbase = len(cases)
    pairs = [(0, 0), (1, 1), (2, 2), (3, 3), (0, 4), (3, 5), (2, 4), (0, 6), (2, 5), (3, 4), (0, 5), (2, 6), (0, 1), (1, 0), (3, 6), (2, 3)]
    for i in range(max(8, n // 2)):
        g = i % 6
        b = T.port_base(g)
        up, px = b + 5, b + 6
        hi, si = pairs[i % len(pairs)]
        holder = [{"type": "slow_close", "name": "h", "attributes": {"delay": 600000}}, {"type": "reset_peer", "name": "h", "attributes": {"timeout": 600000}},
                  {"type": "latency", "name": "h", "attributes": {"latency": 600000}},
                  {"type": "slow_close", "name": "h", "stream": "upstream", "attributes": {"delay": 600000}}][hi]
        # ... or the holding toxic itself is removed, updated or reset away while it holds the connection (the request has to interrupt it)
        stopper = [T.api("DELETE", "/proxies/p"), T.api("POST", "/proxies/p", {"enabled": False}),
                   T.api("POST", "/proxies/p", {"listen": "127.0.0.1:%d" % (b + 7)}),
                   T.api("POST", "/populate", [{"name": "p", "listen": "127.0.0.1:%d" % px, "upstream": "127.0.0.1:%d" % (b + 8)}]),
                   T.api("DELETE", "/proxies/p/toxics/h"), T.api("POST", "/reset"),
                   T.api("POST", "/proxies/p/toxics/h", {"attributes": {"delay": 600001, "timeout": 600001, "latency": 600001}})][si]
        stopper["ms"] = 4000
        ops = [{"op": "upstream", "id": "u", "port": up, "mode": "echo"},
               T.api("POST", "/proxies", {"name": "p", "listen": "127.0.0.1:%d" % px, "upstream": "127.0.0.1:%d" % up}),
               T.api("POST", "/proxies", {"name": "other", "listen": "127.0.0.1:%d" % (b + 9), "upstream": "127.0.0.1:%d" % up}),
               T.api("POST", "/proxies/p/toxics", holder),
               {"op": "dial", "id": "c", "addr": "127.0.0.1:%d" % px}, {"op": "send", "id": "c", "n": 20}, {"op": "sleep", "ms": 30}] + \
              ([{"op": "close", "id": "c", "how": "half"}, {"op": "sleep", "ms": 80}] if si >= 4 else []) + [      # the sender has ended: slow_close is in its delay
               stopper,
               dict(T.api("GET", "/version"), ms=3000), dict(T.api("GET", "/proxies"), ms=3000), dict(T.api("GET", "/proxies/other"), ms=3000),
               {"op": "dial", "id": "ok", "addr": "127.0.0.1:%d" % (b + 9)}, {"op": "send", "id": "ok", "n": 64},
               {"op": "recv", "id": "ok", "up": "ok", "n": 64, "ms": 1500}]
        cases.append({"ops": ops, "group": g, "fault": "stop_while_%s_holds_a_connection" % holder["type"], "held": True})
    # finding F14 (known): a reset_peer stage that has seen its first data sits out its timeout in an uninterruptible wait; a request
    # that has to interrupt it (remove / update the toxic, reset, add behind it) waits with the collection lock held for what is left of
    # the timeout - which the client chose. Witness with a timeout of 6 s so that the scenario ends by itself.
    b = T.port_base(7)
    up, px = b + 5, b + 6
    cases.append({"ops": [{"op": "upstream", "id": "u", "port": up, "mode": "echo"},
                          T.api("POST", "/proxies", {"name": "p", "listen": "127.0.0.1:%d" % px, "upstream": "127.0.0.1:%d" % up}),
                          T.api("POST", "/proxies", {"name": "other", "listen": "127.0.0.1:%d" % (b + 9), "upstream": "127.0.0.1:%d" % up}),
                          T.api("POST", "/proxies/p/toxics", {"type": "reset_peer", "name": "h", "attributes": {"timeout": 6000}}),
                          {"op": "dial", "id": "c", "addr": "127.0.0.1:%d" % px}, {"op": "send", "id": "c", "n": 20}, {"op": "sleep", "ms": 100},
                          dict(T.api("DELETE", "/proxies/p/toxics/h"), ms=2500),
                          dict(T.api("GET", "/version"), ms=1000), dict(T.api("GET", "/proxies"), ms=1000), dict(T.api("GET", "/proxies/other"), ms=1000),
                          {"op": "dial", "id": "ok", "addr": "127.0.0.1:%d" % (b + 9)}, {"op": "send", "id": "ok", "n": 64},
                          {"op": "recv", "id": "ok", "up": "ok", "n": 64, "ms": 1500}, {"op": "sleep", "ms": 3500}],
                  "group": 7, "fault": "stop_while_reset_peer_holds_a_connection", "held": True, "f14": True})
    results = T.run_tcp(ctx, cases, "c07")
    fails = []
    for c, r in zip(cases, results):
        if c.get("held") and isinstance(r, list) and not T.env_broken(r):
            rp = {"kind": "failing-input", "tcp": True, "case": c, "observed": r}
            st = [x for x in r if x.get("op") == "api"]
            stuck = [x for x in st if x.get("status") == -1]
            if stuck:
                which = c["ops"][r.index(stuck[0])]
                fails.append(("reset-peer-wait-blocks-toxic-requests" if c.get("f14") else "api-wedged-by-held-connection",
                              "%s %s did not return within %d s while a %s toxic held a connection of the proxy (then: %s)"
                              % (which.get("method"), which.get("path"), which.get("ms", 0) // 1000, c["fault"].split("_")[2] + "_" + c["fault"].split("_")[3],
                                 ", ".join("%s %s -> %s" % (c["ops"][r.index(x)].get("method"), c["ops"][r.index(x)].get("path"), x.get("status")) for x in st[3:])), rp))
            elif not (r[-1].get("ok") and r[-1].get("content_ok")):
                fails.append(("proxy-down", "after a proxy was stopped while a toxic held one of its connections, another proxy does not serve (%s)" % r[-1].get("end"), rp))
            continue
        if c.get("held"):
            if isinstance(r, dict):
                fails.append(("process-died", "the process crashed when a proxy was stopped while a toxic held a connection", {"kind": "failing-input", "tcp": True, "case": c, "observed": r}))
            continue
        rp = {"kind": "failing-input", "tcp": True, "case": c, "observed": r}
        if T.env_broken(r):
            continue
        if isinstance(r, dict):
            fails.append(("process-died", "the process crashed after faults of kind %s" % c["fault"], rp))
            continue
        ver, dial, rcv = r[-4], r[-3], r[-1]
        if ver.get("status") != 200:
            fails.append(("api-down", "after %s the API answered /version with %s" % (c["fault"], ver.get("status")), rp))
        elif not dial.get("ok") or not (rcv.get("ok") and rcv.get("content_ok")):
            fails.append(("proxy-down", "after %s on some connections the proxy does not serve a fresh connection (%s / %s)"
                          % (c["fault"], dial.get("end"), rcv.get("end")), rp))
    return fails, {"fault_scenarios": len(cases), "fault_failures": len(fails)}


# ---------------------------------------------------------------- attribute updates racing with the stages that read the attributes
RACE_CASES = [
    # (toxic, update bodies applied in turn, chunk size)
    (L.tx("bandwidth", rate=1), ['{"attributes": {"rate": 1000}}', '{"attributes": {"rate": 1}}'], 2000),
    (L.tx("bandwidth", rate=3), ['{"attributes": {"rate": 0}}', '{"attributes": {"rate": 92233720368547758}}', '{"attributes": {"rate": 2}}'], 5000),
    (L.tx("slicer", average_size=10, size_variation=0, delay=20000), ['{"attributes": {"average_size": 1000, "size_variation": 999}}',
                                                                          '{"attributes": {"average_size": 3, "size_variation": 1}}'], 3000),
    (L.tx("latency", latency=50, jitter=0), ['{"attributes": {"latency": 1, "jitter": 4611686018427387903}}', '{"attributes": {"latency": 80, "jitter": 0}}'], 500),
    (L.tx("limit_data", bytes=1 << 40), ['{"attributes": {"bytes": 1099511627777}}', '{"attributes": {"bytes": 1099511627776}}'], 700),
]


def race_family(ctx, rounds):
    """real time, real scheduler: 200-300 in-memory connections stream through one toxic while its attributes are updated back and forth
    (the stages read the attributes of the shared toxic object while the update writes them). A stage that crashes kills the harness
    process; every case runs in a process of its own."""
    vt = os.path.join(C.BUILD, "vt.test")
    if not os.path.exists(vt):
        C.go_build_harness(ctx, "vt")
    findings, cov = [], {"attribute_update_races": 0, "race_updates": 0, "race_bytes": 0}
    from concurrent.futures import ThreadPoolExecutor

    def one(k):
        tox, bodies, chunk = RACE_CASES[k % len(RACE_CASES)]
        case = {"toxic": tox, "bodies": bodies, "links": 300 if k % len(RACE_CASES) < 2 else 120, "chunk": chunk, "updates": 10,
                "period_us": 110000 + 1000 * (k // len(RACE_CASES)), "stagger_us": 333}
        fin = os.path.join(C.BUILD, "race_in_%d.json" % k)
        fout = os.path.join(C.BUILD, "race_out_%d.json" % k)
        with open(fin, "w") as f:
            json.dump({"cases": [case]}, f)
        if os.path.exists(fout):
            os.remove(fout)
        rc, out = C.sh([vt, "-test.run", "^TestHarness$", "-test.timeout", "120s", "-mode", "race", "-in", fin, "-out", fout],
                       env=dict(C.GOENV, LOG_LEVEL="fatal"), timeout=180)
        if not os.path.exists(fout):
            m = re.search(r"(panic: .*|fatal error: .*)", out)
            where = re.search(r"toxics/\w+\.go:\d+", out)
            return case, {"crash": (m.group(1) if m else out[-300:]) + (" at " + where.group(0) if where else "")}
        return case, json.load(open(fout))[0]

    with ThreadPoolExecutor(max_workers=3) as ex:
        for case, r in ex.map(one, range(rounds * len(RACE_CASES))):
            cov["attribute_update_races"] += 1
            if "crash" in r:
                ty = case["toxic"]["type"]
                findings.append(("attribute-update-race-" + ty,
                                 "a %s stage crashed the process while its attributes were being updated on %d streaming connections (%s): %s"
                                 % (ty, case["links"], " / ".join(case["bodies"]), re.sub(r"\s+", " ", r["crash"])[:200]),
                                 {"kind": "failing-input", "race": True, "case": case, "observed": r}))
            else:
                cov["race_updates"] += r.get("updates", 0)
                cov["race_bytes"] += r.get("delivered", 0)
    seen, out = set(), []
    for f in findings:
        if f[0] not in seen:
            seen.add(f[0])
            out.append(f)
    return out, cov


def slow_body_races(ctx, rounds):
    """requests whose body arrives in two parts (a slow client) racing with requests that remove or replace what they address: the toxic
    deleted, all toxics reset, the proxy deleted while an update or a create of a toxic is half received. Whatever each request is
    answered, the process survives and every route still answers afterwards (in-process server, requests released together; the
    harness reports requests that never return)."""
    rng = C.Rng(ctx.seed).fork("C07slow")
    base = C.free_port_base("c07slow", 20)
    if not getattr(ctx, "_h_built", False):
        C.go_build_harness(ctx, "h")
        ctx._h_built = True
    h = os.path.join(C.BUILD, "h")

    def wire(method, path, body=None, pause=0):
        d = {"method": method, "path": path, "ua": "", "body": json.dumps(body) if body is not None else ""}
        if pause:
            d["pause_ms"] = pause
        return d
    cases = []
    for r, other in enumerate(["delete_toxic", "reset", "delete_proxy", "delete_toxic_then_add"]):
        L0 = "127.0.0.1:%d" % (base + r)
        setup = [wire("POST", "/proxies", {"name": "p", "listen": L0, "upstream": "127.0.0.1:9"}),
                 wire("POST", "/proxies/p/toxics", {"type": "latency", "name": "a", "attributes": {"latency": 1, "jitter": 0}})]
        slow = [wire(rng.choice(["PATCH", "POST"]), "/proxies/p/toxics/a", {"attributes": {"latency": 50}, "toxicity": 1}, pause=rng.choice([15, 40])),
                wire("POST", "/proxies/p/toxics", {"type": "bandwidth", "name": "b", "attributes": {"rate": 5}}, pause=rng.choice([15, 40]))]
        fast = {"delete_toxic": [wire("DELETE", "/proxies/p/toxics/a")], "reset": [wire("POST", "/reset")], "delete_proxy": [wire("DELETE", "/proxies/p")],
                "delete_toxic_then_add": [wire("DELETE", "/proxies/p/toxics/a"), wire("POST", "/proxies/p/toxics", {"type": "noop", "name": "a"})]}[other]
        cases.append({"setup": setup, "batch": slow + fast, "probes": [], "rounds": rounds, "churn": [], "other": other})
    fin, fout = os.path.join(C.BUILD, "c07_slow_in.json"), os.path.join(C.BUILD, "c07_slow_out.json")
    json.dump({"cases": [{k: v for k, v in c.items() if k != "other"} for c in cases]}, open(fin, "w"))
    if os.path.exists(fout):
        os.remove(fout)
    rc, out = C.sh([h, "-mode", "conc", "-in", fin, "-out", fout], env=C.GOENV, timeout=900)
    cov = {"slow_body_race_rounds": 0}
    if rc != 0 or not os.path.exists(fout):
        m = re.search(r"(panic: .*|fatal error: .*)", out)
        return [("crash", "the process died while a request whose body arrives in two parts raced with a delete / reset: %s" % ((m.group(1) if m else out[-300:])[:200]),
                 {"kind": "failing-input", "conc": True, "cases": cases})], cov
    fails = []
    for c, rds in zip(cases, json.load(open(fout))):
        for ri, rd in enumerate(rds):
            cov["slow_body_race_rounds"] += 1
            bad = [x for x in rd["batch"] if x["status"] >= 500 or x["status"] <= 0]
            if rd.get("stuck") or bad:
                fails.append(("api-wedged" if rd.get("stuck") else "server-error",
                              "round %d: an update / create of a toxic whose body arrives in two parts raced with %s: %s"
                              % (ri, c["other"], ("%d of the requests never returned - the API is wedged" % rd["stuck"]) if rd.get("stuck")
                                 else "answered %s" % sorted(x["status"] for x in rd["batch"])),
                              {"kind": "failing-input", "conc": True, "case": c, "observed": rd}))
                break
    return fails[:1], cov


def side(ctx, proof):
    cov = {}
    deep = 1 if proof["build_ok"] else 5
    fz, cov1 = server_fuzz(ctx, (1500 if ctx.tier == "quick" else 200000) * deep, stalled_upload=(deep > 1 or ctx.tier != "quick"))
    cov.update(cov1)
    ff, cov2 = T.stable(lambda: fault_scenarios(ctx, (12 if ctx.tier == "quick" else 300) * deep))
    cov.update(cov2)
    rf, cov3 = race_family(ctx, (1 if ctx.tier == "quick" else 12) * deep)
    cov.update(cov3)
    sb, cov4 = slow_body_races(ctx, (20 if ctx.tier == "quick" else 400) * deep)
    cov.update(cov4)
    return rf + fz + ff + sb, cov


def run(ctx):
    return L.run_link_property(
        ctx, PID, gen_grid, grid_oracle,
        classify=lambda w: "stage-crash" if "crashed the process" in w else ("stage-spins" if "progress" in w else "other"),
        rule="(1) every toxic type x attribute values from the int64 boundary set {min64,-2^62,-1,0,1,2,99,100,101,2^31,2^53,2^62-1,2^62,"
             "max64/100,max64/100+1,max64} x chunk sizes {1,2,99,100,101,32768}, a quarter of them arriving by update on a connection that "
             "already carried data; API requests (remove / reset / update / add) on connections whose sender has gone while a toxic still drains "
             "their data; a case that kills or wedges the process is found by the per-case re-run and the watchdog; (2) a real "
             "toxiproxy-server fed a fuzzed request stream (model stream, mutated bodies, oversize bodies, raw bytes, boundary attributes) "
             "with a health check every 100 requests; (3) fault scenarios on real sockets after which a fresh connection must be served; "
             "(4) real-time races: 120-300 streaming connections through one toxic whose attributes are updated back and forth between "
             "extreme values (bandwidth rate, slicer sizes, latency jitter, limit) while the stages read them; "
             "non-trivial = attribute outside the documented range; distinct by JSON",
        nontrivial=lambda c: "c07" in c and outside_guard(effective_toxic(c)),
        assumptions=["memory exhaustion by sheer volume, fd limits and net/http internals are outside the model",
                     "F5a-d (slicer / bandwidth / latency outside their documented ranges) were repaired in /repo; their inputs stay in the grid"],
        model_filter=lambda c: not c.get("ops") and L.est_pieces(c) <= 1400, known_class=grid_known, hang_is_failure=True, side_findings=side)


def replay(ctx, path):
    rp = json.load(open(path))
    if rp.get("race"):
        vt = os.path.join(C.BUILD, "vt.test")
        C.go_build_harness(ctx, "vt")
        fin, fout = os.path.join(C.BUILD, "race_replay_in.json"), os.path.join(C.BUILD, "race_replay_out.json")
        for attempt in range(5):
            with open(fin, "w") as f:
                json.dump({"cases": [rp["case"]]}, f)
            if os.path.exists(fout):
                os.remove(fout)
            rc, out = C.sh([vt, "-test.run", "^TestHarness$", "-test.timeout", "120s", "-mode", "race", "-in", fin, "-out", fout],
                           env=dict(C.GOENV, LOG_LEVEL="fatal"), timeout=180)
            if not os.path.exists(fout):
                m = re.search(r"(panic: .*|fatal error: .*)", out)
                print("VIOLATION property=%s replay=%s" % (PID, path))
                print("  what: the process crashed during the race (attempt %d): %s" % (attempt + 1, m.group(1) if m else out[-300:]))
                return 1
        print("replay passes on the current tree (5 attempts)")
        return 0
    return L.replay_link(ctx, PID, path, grid_oracle)

"""C12 — slicer re-chunks without changing the stream, within its size bound."""
import json
import os
import re

from . import common as C
from . import links as L

PID = "C12"


def gen_pure(ctx, rng):
    cs = []
    amax, nmax = (14, 60) if ctx.tier == "quick" else (40, 200)
    for a in range(1, amax + 1):
        for v in range(0, a):
            for n in ([1, 2, a - 1, a, a + v, a + v + 1, 2 * a + 1] + [rng.range(1, nmax) for _ in range(3)]):
                if n >= 1:
                    cs.append({"avg": a, "var": v, "n": n, "seed": rng.range(1, 1 << 30)})
    for _ in range(300 if ctx.tier == "quick" else 20000):
        a = rng.range(1, 5000)
        v = rng.range(0, a - 1)
        cs.append({"avg": a, "var": v, "n": rng.range(1, 65536), "seed": rng.range(1, 1 << 30)})
    return cs


def pure_oracle(c, r):
    if r.get("panic"):
        return "chunk panicked inside the guard"
    os_ = r["offsets"] or []
    if len(os_) < 2 or len(os_) % 2:
        return "odd offset list"
    if os_[0] != 0 or os_[-1] != c["n"]:
        return "offsets do not span the input"
    for i in range(0, len(os_), 2):
        lo, hi = os_[i], os_[i + 1]
        if i and lo != os_[i - 1]:
            return "pieces are not consecutive"
        if not (0 < hi - lo <= c["avg"] + c["var"]):
            return "piece of %d bytes outside 1..%d" % (hi - lo, c["avg"] + c["var"])
    return None


def pure_model(ctx, cs, rs):
    from concurrent.futures import ThreadPoolExecutor
    shard = 400
    idx = list(range(len(cs)))

    def one(s):
        part = idx[s:s + shard]
        body = "From TP Require Import Model.Prelude Extracted Model.Toxics Run.PureRun.\n"
        for j, i in enumerate(part):
            body += "Eval vm_compute in (%d, chunk_verdict %d %d %d %s %s).\n" % (
                j, cs[i]["avg"], cs[i]["var"], cs[i]["n"], C.coq_zlist(rs[i].get("draws") or []), C.coq_zlist(rs[i]["offsets"] or []))
        rc, out = C.coq_eval(ctx, "c12p_%d" % (s // shard), body)
        if rc != 0:
            raise C.BuildError("model evaluation failed:\n" + out[-1500:])
        res = {}
        for m in re.finditer(r"=\s*\((\d+),\s*(\d+)\)", out):
            if int(m.group(2)) != 0:
                res[part[int(m.group(1))]] = int(m.group(2))
        return res

    bad = {}
    with ThreadPoolExecutor(max_workers=12) as ex:
        for r in ex.map(one, range(0, len(idx), shard)):
            bad.update(r)
    return bad


def gen_cases(ctx, rng):
    n = 120 if ctx.tier == "quick" else 3000
    cases = []
    stats = {"variation>0": 0, "delay>0": 0, "position": {}}
    for i in range(n):
        a = rng.choice([1, 2, 3, 10, 64, 100, 1000, 5000])
        randomized = rng.chance(1, 2) and a > 1
        v = rng.range(1, a - 1) if randomized else 0
        d = rng.choice([0, 1, 10, 250, 1000, 20000])
        sl = L.tx("slicer", name="s", average_size=a, size_variation=v, delay=d)
        pre = [L.tx("noop", name="n%d" % j) for j in range(rng.range(0, 2))]
        post = [L.tx("noop", name="m%d" % j) for j in range(rng.range(0, 1))]
        src = L.gen_src(rng, rng.range(1, 4), rng.choice([10, 300, 3000]), rng.choice([1, 30]) * L.MS, big_chance=(1, 12))
        c = {"dir": "downstream", "chain": pre + [sl] + post, "src": src, "horizon": 3600 * 1000 * L.MS, "seed": i}
        if d > 0 and rng.chance(1, 3):
            # a receiver that takes a while to accept each piece: the wait must start after the hand-off
            c["sink_delay"] = [rng.choice([0, d * 1000 // 3, d * 800, d * 1000, d * 3000]) + rng.range(0, 3) for _ in range(rng.range(1, 3))]
            stats["slow_sink"] = stats.get("slow_sink", 0) + 1
        if randomized:
            c["reseed"] = rng.range(1, 1 << 30)
            c["draw_kind"], c["draw_n"] = "intn", 2 * v
            c = L.cap_case(c, 1200)
            c["draw_count"] = 2 * L.est_pieces(c) + 64
            stats["variation>0"] += 1
        else:
            c = L.cap_case(c, 1500)
        if d:
            stats["delay>0"] += 1
        stats["position"][str(len(pre))] = stats["position"].get(str(len(pre)), 0) + 1
        cases.append(c)
    # the stage interrupted while it is handing a piece to a receiver that is not ready, or in its wait: nothing lost, nothing repeated
    stats["interrupted"] = 0
    for i in range(40 if ctx.tier == "quick" else 1200):
        a = rng.choice([8, 64, 500])
        d = rng.choice([0, 1000, 20000])
        chain = [L.tx("slicer", name="s", average_size=a, size_variation=0, delay=d)] + ([L.tx("noop", name="q")] if rng.chance(1, 2) else [])
        n = a * rng.range(4, 12) + rng.range(0, a - 1)
        src = [{"at": 1 * L.MS, "n": n}, {"at": 2 * L.MS, "n": rng.range(1, a)}, {"at": 60000 * L.MS, "close": True}]
        sd = rng.choice([30, 70, 200]) * L.MS           # the receiver takes this long per write: the slicer is mostly blocked in its send
        at = rng.range(5, 600) * L.MS + rng.range(1, 999)
        op = rng.choice(["add", "remove", "update_self", "update_nb"]) if len(chain) == 2 else rng.choice(["add", "update_self"])
        ops = [{"add": {"at": at, "op": "add", "toxic": L.tx("noop", name="z")},
                "remove": {"at": at, "op": "remove", "name": "q"},
                "update_self": {"at": at, "op": "update", "name": "s", "body": '{"attributes": {"average_size": %d}}' % a},
                "update_nb": {"at": at, "op": "update", "name": "q", "body": '{"toxicity": 1}'}}[op]]
        cases.append({"dir": rng.choice(["upstream", "downstream"]), "chain": chain, "src": src, "ops": ops, "sink_delay": [sd], "interrupted": True,
                      "horizon": 3600 * 1000 * L.MS, "seed": 6000 + i})
        stats["interrupted"] += 1
    # ... and with a ready receiver, the interrupt landing in any of the waits between the pieces (in particular the last one)
    for i in range(60 if ctx.tier == "quick" else 1500):
        a = rng.choice([8, 64, 500])
        npieces = rng.range(2, 6)
        d = rng.choice([20000, 50000])                                  # 20 / 50 ms between pieces
        chain = [L.tx("slicer", name="s", average_size=a, size_variation=0, delay=d)] + ([L.tx("noop", name="q")] if rng.chance(1, 2) else [])
        n = a * npieces - rng.range(0, a - 1) if rng.chance(1, 2) else a * npieces
        src = [{"at": 1 * L.MS, "n": n}, {"at": 60000 * L.MS, "close": True}]
        k = rng.range(0, npieces - 1)                                    # the wait after piece k+1 (the window after the last-but-one is k = npieces-2)
        at = 1 * L.MS + k * d * 1000 + rng.range(1, d * 1000 - 1)
        op = rng.choice(["add", "remove", "update_self", "reset"]) if len(chain) == 2 else rng.choice(["add", "update_self", "reset"])
        ops = [{"add": {"at": at, "op": "add", "toxic": L.tx("noop", name="z")},
                "remove": {"at": at, "op": "remove", "name": "q"}, "reset": {"at": at, "op": "reset"},
                "update_self": {"at": at, "op": "update", "name": "s", "body": '{"attributes": {"average_size": %d}}' % a}}[op]]
        cases.append({"dir": rng.choice(["upstream", "downstream"]), "chain": chain, "src": src, "ops": ops, "interrupted": True,
                      "horizon": 3600 * 1000 * L.MS, "seed": 6500 + i})
        stats["interrupted"] += 1
    # the delay raised (or lowered) by an update after the slicer has already carried data, then more data on the same connection: the
    # pieces cut afterwards are spaced by the NEW delay
    stats["delay_updated"] = 0
    for i in range(16 if ctx.tier == "quick" else 400):
        a = rng.choice([10, 50])
        d1, d2 = rng.choice([(100, 20000), (1000, 40000), (30000, 500)])
        chain = [L.tx("slicer", name="s", average_size=a, size_variation=0, delay=d1)]
        n1, n2 = rng.range(2 * a, 8 * a), rng.range(3 * a, 10 * a)
        t1 = 1 * L.MS
        tu = t1 + (n1 // a + 3) * d1 * 1000 + 5 * L.MS + 333
        t2 = tu + 2 * L.MS
        src = [{"at": t1, "n": n1}, {"at": t2, "n": n2}, {"at": t2 + (n2 // a + 5) * max(d1, d2) * 1000 + 50 * L.MS, "close": True}]
        cases.append({"dir": rng.choice(["upstream", "downstream"]), "chain": chain, "src": src,
                      "ops": [{"at": tu, "op": "update", "name": "s", "body": '{"attributes": {"delay": %d}}' % d2}],
                      "horizon": 3600 * 1000 * L.MS, "seed": 8500 + i, "delay_updated": {"at": tu, "delay": d2, "first": n1}})
        stats["delay_updated"] += 1
    # several connections through the same slicer at once (one toxic object serves every link of the proxy), their packets overlapping in
    # time and differing in length: each connection's stream is cut on its own
    stats["shared_by_connections"] = 0
    for i in range(20 if ctx.tier == "quick" else 500):
        a = rng.choice([10, 50, 100])
        d = rng.choice([200, 2000, 5000])
        chain = [L.tx("slicer", name="s", average_size=a, size_variation=0, delay=d)]
        nl = rng.range(2, 3)
        srcs = []
        for k in range(nl):
            t, src = 1 * L.MS + k * rng.range(0, 3) * d * 1000 + rng.range(0, 999), []
            for _ in range(rng.range(1, 4)):
                n = rng.range(2 * a, 40 * a) + k * 7
                src.append({"at": t, "n": n})
                t += rng.range(0, n // a + 2) * d * 1000 + rng.range(0, 999)
            src.append({"at": t + 3000 * L.MS, "close": True})
            srcs.append(src)
        cases.append({"dir": rng.choice(["upstream", "downstream"]), "chain": chain, "src": srcs[0], "srcs": srcs, "links": nl,
                      "horizon": 3600 * 1000 * L.MS, "seed": 8000 + i})
        stats["shared_by_connections"] += 1
    return cases, stats


def oracle(case, res):
    if res is None or "crash" in res:
        return "the process crashed: " + (res or {}).get("crash", "")[-300:]
    if not res["prefix_ok"]:
        return "bytes received differ from bytes sent"
    sent = sum(e.get("n", 0) for e in case["src"])
    if res["total"] != sent:
        return "receiver got %d of %d bytes" % (res["total"], sent)
    du = case.get("delay_updated")
    if du:
        ws = res["writes"] or []
        later = [w for w in ws if w["t"] > du["at"]]
        for x, y in zip(later, later[1:]):
            if y["t"] - x["t"] < du["delay"] * 1000:
                return "pieces %d ns apart after the delay was updated to %d us (the update does not take effect on the pacing)" % (y["t"] - x["t"], du["delay"])
        return None
    sls = [t for t in case["chain"] if t["type"] == "slicer"]
    if not sls or case.get("interrupted"):
        return None                          # interrupted runs: content and completeness only (the remainder is flushed as one piece)
    sl = sls[0]["attributes"]
    bound = sl["average_size"] + sl["size_variation"]
    ws = res["writes"] or []
    for w in ws:
        if not (0 < w["n"] <= bound):
            return "piece of %d bytes outside 1..%d" % (w["n"], bound)
    # pieces of one input chunk are spaced by at least delay; chunk boundaries are where the
    # running total hits a multiple of the source chunking, which the oracle reconstructs
    bounds = set()
    tot = 0
    for e in case["src"]:
        n = e.get("n", 0)
        while n > 0:
            k = min(n, 32768)
            tot += k
            n -= k
            bounds.add(tot)
    acc = 0
    # the spacing is the slicer's own: it is visible in the receiver's arrival times when the receiver is
    # always ready, or when the slicer hands its pieces to the writer directly (last stage)
    direct = not case.get("sink_delay") or case["chain"][-1]["type"] == "slicer"
    for a, b in (zip(ws, ws[1:]) if direct else []):
        acc += a["n"]
        # (with a slow receiver the hand-off of piece k+1 happens when the receiver is back, and the
        #  recorded time is the hand-off; the wait starts at the hand-off of piece k, so the bound holds)
        if b["t"] - a["t"] < sl["delay"] * 1000:
            return "pieces %d ns apart, less than delay %d us" % (b["t"] - a["t"], sl["delay"])
    return None


def run(ctx):
    # ---- direct differential of slicer.chunk through the verif shim
    rng = C.Rng(ctx.seed).fork(PID + "pure")
    pure = gen_pure(ctx, rng)
    extra = {}

    def extra_cov(cases, results):
        return extra

    C.go_build_harness(ctx, "vt")
    ctx._vt_built = True
    fin = os.path.join(C.BUILD, "c12_pure_in.json")
    fout = os.path.join(C.BUILD, "c12_pure_out.json")
    json.dump({"chunk": pure}, open(fin, "w"))
    if os.path.exists(fout):
        os.remove(fout)
    rc, out = C.sh([os.path.join(C.BUILD, "vt.test"), "-test.run", "^TestHarness$", "-mode", "pure", "-in", fin, "-out", fout],
                   env=C.GOENV, timeout=600)
    pure_fail, pure_mis = [], {}
    unavailable = getattr(ctx, "pure_unavailable", None)
    if unavailable:
        prs = []                                    # the shim does not compile: the direct differential is not established (tie broken)
    elif rc != 0 or not os.path.exists(fout):
        pure_fail.append((0, "the chunk function crashed the process: " + out[-300:]))
        prs = []
    else:
        prs = json.load(open(fout))["chunk"]
        for i, (c, r) in enumerate(zip(pure, prs)):
            w = pure_oracle(c, r)
            if w:
                pure_fail.append((i, w))
    ctx._c12_pure = (pure, prs, pure_fail)

    def gen_and_pure(ctx2, rng2):
        return gen_cases(ctx2, rng2)

    # model comparison of the pure cases happens after the Coq build inside run_link_property via extra hook
    def known_class(case, res, w):
        return None

    rc_link = None

    # run the link part (builds Coq, runs vt, compares) and add the pure results to its verdict
    verdict_holder = {}
    orig_finish = C.Verdict.finish

    def finish(self):
        # executed once, at the end of run_link_property: add the pure-function findings first
        pure_cases, prs2, pf = ctx._c12_pure
        if os.path.exists(os.path.join(C.COQ, "Run", "PureRun.vo")) and prs2 and not pf:
            mis = pure_model(ctx, pure_cases, prs2)
        else:
            mis = {}
        extra.update({"pure_chunk_calls": len(pure_cases), "pure_oracle_failures": len(pf), "pure_model_mismatches": len(mis),
                      "pure_sample": {"case": pure_cases[len(pure_cases) // 2], "result": (prs2[len(pure_cases) // 2] if prs2 else None)}})
        if getattr(ctx, "pure_unavailable", None) and not self.findings_with_input():
            self.add("tie-broken", "the direct differential of slicer.chunk cannot be established: the verif shim VerifChunk no longer compiles against "
                     "the working tree (the function's signature changed); no failing input was found by the link runs",
                     {"kind": "correspondence", "names": "toxics/export_verif.go VerifChunk <-> SlicerToxic.chunk", "build_output": ctx.pure_unavailable},
                     has_input=False)
        if pf:
            i, w = pf[0]
            self.add("chunk-spec", "slicer.chunk: " + w, {"kind": "failing-input", "pure": True, "case": pure_cases[i],
                                                        "observed": prs2[i] if prs2 else None})
        elif mis:
            i = sorted(mis)[0]
            self.add("chunk-correspondence", "extracted slicer_chunk and slicer.chunk disagree on %d calls (code %d)" % (len(mis), mis[i]),
                     {"kind": "correspondence", "pure": True, "case": pure_cases[i], "observed": prs2[i]}, has_input=False)
        return orig_finish(self)

    C.Verdict.finish = finish
    try:
        return L.run_link_property(
            ctx, PID, gen_cases, oracle,
            classify=lambda w: "piece-bound" if "piece of" in w else ("delay" if "apart" in w else ("stream-not-exact" if "bytes" in w else "crash")),
            rule="(1) direct calls of slicer.chunk through the verif shim over a grid of (average, variation, n) with 0 <= v < a plus random "
                 "triples up to 64 KiB, draws mirrored from the seed; (2) links with one slicer (variation 0 exact; variation > 0 with "
                 "mirrored draws) at positions 1-3, random writes/pacing; (3) links whose slicer is interrupted (neighbour added / removed / "
                 "updated, own attributes rewritten) while it hands a piece to a slow receiver or waits between pieces; non-trivial = slicer cuts at least one chunk; distinct by JSON",
            nontrivial=lambda c: any(e.get("n", 0) > ([t for t in c["chain"] if t["type"] == "slicer"] or [{"attributes": {"average_size": 1 << 40}}])[0]["attributes"]["average_size"] for e in c["src"]),
            assumptions=["math/rand.Intn(n) returns values in [0,n) (mirrored from the same seed)",
                         "interruption at piece boundaries: theorem C12_stream_exact; interrupted links are judged on content and completeness by the oracle"],
            extra_targets=["Run/PureRun.vo"], extra_cov=extra_cov, model_filter=lambda c: not c.get("ops"))
    finally:
        C.Verdict.finish = orig_finish


def replay(ctx, path):
    rp = json.load(open(path))
    if rp.get("pure"):
        C.go_build_harness(ctx, "vt")
        fin = os.path.join(C.BUILD, "c12_pure_in.json")
        fout = os.path.join(C.BUILD, "c12_pure_out.json")
        json.dump({"chunk": [rp["case"]]}, open(fin, "w"))
        rc, out = C.sh([os.path.join(C.BUILD, "vt.test"), "-test.run", "^TestHarness$", "-mode", "pure", "-in", fin, "-out", fout],
                       env=C.GOENV, timeout=120)
        r = json.load(open(fout))["chunk"][0]
        w = pure_oracle(rp["case"], r)
        print("observed:", r)
        if w:
            print("VIOLATION property=%s replay=%s" % (PID, path))
            return 1
        print("replay passes on the current tree")
        return 0
    return L.replay_link(ctx, PID, path, oracle)

"""C08 — latency toxic delays every piece by latency +/- jitter, without throttling."""
import json

from . import common as C
from . import links as L

PID = "C08"


def gen_cases(ctx, rng):
    n = 140 if ctx.tier == "quick" else 4000
    cases = []
    stats = {"jitter>0": 0, "burst>1024": 0, "two_in_series": 0, "slow_sink": 0}
    for i in range(n):
        Lms = rng.choice([0, 1, 5, 20, 100, 250])
        J = rng.choice([0, 0, 1, 5, 30, 300]) if rng.chance(1, 2) else 0
        lat = L.tx("latency", name="l", latency=Lms, jitter=J)
        pre = [L.tx("noop", name="n%d" % j) for j in range(rng.range(0, 2))]
        post = [L.tx("noop", name="m%d" % j) for j in range(rng.range(0, 2))]
        chain = pre + [lat] + post
        kind = rng.choice(["single", "burst", "paced", "paced", "pause"])
        src, t = [], rng.range(0, 20) * L.MS
        if kind == "single":
            src.append({"at": t, "n": rng.range(1, 3000)})
        elif kind == "burst":
            k = rng.choice([2, 10, 200]) if ctx.tier == "quick" or rng.chance(9, 10) else 1100
            if i == 3:
                k = 1100          # beyond the 1024-chunk buffer
            if k > 1024:
                stats["burst>1024"] += 1
            for _ in range(k):
                src.append({"at": t, "n": rng.range(1, 40)})
        else:
            for _ in range(rng.range(2, 25)):
                src.append({"at": t, "n": rng.range(1, 1500)})
                t += rng.choice([0, 1, 2, 13, 60, 400]) * L.MS + rng.range(0, 999) if kind == "paced" else rng.choice([1, 500]) * L.MS
        t = (src[-1]["at"] if src else t) + rng.range(1, 700) * L.MS
        src.append({"at": t, "close": True})
        c = {"dir": rng.choice(["upstream", "downstream"]), "chain": chain, "src": src, "horizon": 3600 * 1000 * L.MS, "seed": i}
        if J > 0:
            c["reseed"] = rng.range(1, 1 << 30)
            c["draw_kind"], c["draw_n"], c["draw_count"] = "int63n", 2 * J, len(src) + 4
            stats["jitter>0"] += 1
        elif rng.chance(1, 6):
            # two latency toxics in series (finding F6 lives here): keep arrivals far apart so that the first is idle
            L2 = rng.choice([5, 50])
            c["chain"] = chain + [L.tx("latency", name="l2", latency=L2, jitter=0)]
            gap = (Lms + L2 + 5) * L.MS
            t = 0
            for e in c["src"]:
                e["at"] = t
                t += gap
            stats["two_in_series"] += 1
        cases.append(c)
    # connections established AFTER the toxic was updated through the API (or added later): still no throttling - a burst is delayed once
    stats["updated_before_connect"] = 0
    for i in range(24 if ctx.tier == "quick" else 600):
        Lms = rng.choice([20, 100, 400])
        chain = [L.tx("latency", name="l", latency=rng.choice([Lms, 1]), jitter=0)]
        how = rng.choice(["update", "update_twice", "add"])
        if how == "add":
            ops = [{"at": 1 * L.MS, "op": "add", "toxic": L.tx("latency", name="l9", latency=0, jitter=0)},
                   {"at": 2 * L.MS, "op": "update", "name": "l", "body": '{"attributes": {"latency": %d}}' % Lms}]
        else:
            ops = [{"at": (k + 1) * L.MS, "op": "update", "name": "l", "body": '{"attributes": {"latency": %d}}' % Lms}
                   for k in range(2 if how == "update_twice" else 1)]
        t0 = 10 * L.MS + rng.range(1, 20) * L.MS
        src = [{"at": t0, "n": rng.range(1, 2000)} for _ in range(rng.choice([5, 20, 120]))]
        src.append({"at": t0 + 20 * Lms * L.MS, "close": True})
        cases.append({"dir": rng.choice(["upstream", "downstream"]), "chain": chain, "src": src, "ops": ops, "links": 1, "link_start": [8 * L.MS],
                      "horizon": 3600 * 1000 * L.MS, "seed": 4000 + i, "expect_latency": Lms, "updated_before_connect": True})
        stats["updated_before_connect"] += 1
    # latency behind a toxic that cuts chunks into pieces (bandwidth instalments, slices): every piece is still forwarded no earlier than
    # latency after the proxy received its bytes (the pieces carry the receive time of the chunk they were cut from)
    stats["behind_a_splitter"] = 0
    for i in range(16 if ctx.tier == "quick" else 400):
        Lms = rng.choice([300, 1000])
        first = rng.choice([L.tx("bandwidth", name="b", rate=rng.choice([5, 10])), L.tx("slicer", name="s", average_size=rng.choice([100, 400]), size_variation=0, delay=rng.choice([1000, 20000]))])
        chain = [first, L.tx("latency", name="l", latency=Lms, jitter=0)]
        t0 = rng.range(1, 10) * L.MS
        src = [{"at": t0, "n": rng.range(1500, 4000)}, {"at": t0 + 5000 * L.MS, "n": rng.range(1200, 2500)}, {"at": t0 + 12000 * L.MS, "close": True}]
        cases.append({"dir": rng.choice(["upstream", "downstream"]), "chain": chain, "src": src, "horizon": 3600 * 1000 * L.MS, "seed": 7500 + i,
                      "behind_splitter": Lms})
        stats["behind_a_splitter"] += 1
    # several connections through the same latency toxic at once (one toxic object serves every link of the proxy): the delay is
    # per piece and per connection - waits that overlap in time on different connections must not disturb one another
    stats["shared_by_connections"] = 0
    for i in range(24 if ctx.tier == "quick" else 500):
        Lms = rng.choice([5, 20, 100, 300])
        chain = [L.tx("latency", name="l", latency=Lms, jitter=0)] + [L.tx("noop", name="m%d" % j) for j in range(rng.range(0, 1))]
        nl = rng.range(2, 4)
        srcs = []
        for k in range(nl):
            t = rng.range(0, 3) * L.MS + k * rng.choice([0, 1, Lms // 2, Lms - 1]) * L.MS + rng.range(0, 999)
            src = []
            for _ in range(rng.range(1, 6)):
                src.append({"at": t, "n": rng.range(1, 1500)})
                t += rng.choice([0, 1, Lms // 3 + 1, Lms, 2 * Lms]) * L.MS + rng.range(0, 999)
            src.append({"at": t + rng.range(1, 3 * Lms) * L.MS, "close": True})
            srcs.append(src)
        cases.append({"dir": rng.choice(["upstream", "downstream"]), "chain": chain, "src": srcs[0], "srcs": srcs, "links": nl,
                      "horizon": 3600 * 1000 * L.MS, "seed": 7000 + i})
        stats["shared_by_connections"] += 1
    # latencies far above the 5 s after which other parts of the code give up, with a sender that closes right behind its last piece:
    # the piece still arrives after the latency, and the end of the stream only behind it
    stats["above_5s_then_close"] = 0
    for i in range(8 if ctx.tier == "quick" else 200):
        Lms = rng.choice([5001, 6000, 9000, 20000])
        chain = [L.tx("noop", name="n0")] * (i % 2) + [L.tx("latency", name="l", latency=Lms, jitter=0)]
        src, t = [], rng.range(1, 20) * L.MS
        for _ in range(rng.range(1, 4)):
            src.append({"at": t, "n": rng.range(1, 2000)})
            t += rng.choice([0, 1, 300]) * L.MS
        src.append({"at": t + rng.choice([0, 1, 50]) * L.MS, "close": True})
        cases.append({"dir": rng.choice(["upstream", "downstream"]), "chain": chain, "src": src, "horizon": 3600 * 1000 * L.MS, "seed": 8500 + i})
        stats["above_5s_then_close"] += 1
    # the latency toxic created (or raised from 0) while the connection's last stage is stuck handing data to a receiver that takes longer
    # than the 5 s after which other parts of the code give up: the request waits for the stage, and from then on every piece of that
    # connection is delayed like on any other
    stats["added_under_back_pressure"] = 0
    for i in range(10 if ctx.tier == "quick" else 200):
        lat = rng.choice([200, 400, 1500])
        slow = rng.choice([6500, 9000, 15000]) * L.MS
        A = 1 * L.MS + slow                      # the first write occupies the receiver until then; the second is handed over at that instant
        src = [{"at": 1 * L.MS, "n": 100}, {"at": 2 * L.MS, "n": 100}]
        t = A + 4 * slow
        for _ in range(4):
            src.append({"at": t, "n": rng.range(1, 600)})
            t += 2 * slow
        src.append({"at": t + 4 * slow, "close": True})
        R = rng.range(50, 900) * L.MS + rng.range(1, 999)
        if rng.chance(1, 2):
            chain = [L.tx("noop", name="n0")] if rng.chance(1, 2) else []
            ops = [{"at": R, "op": "add", "toxic": L.tx("latency", name="l", latency=lat, jitter=0)}]
        else:
            chain = [L.tx("latency", name="l", latency=0, jitter=0)]
            ops = [{"at": R, "op": "update", "name": "l", "body": json.dumps({"attributes": {"latency": lat}})}]
        cases.append({"dir": rng.choice(["upstream", "downstream"]), "chain": chain, "src": src, "sink_delay": [slow, 0], "ops": ops,
                      "horizon": 3600 * 1000 * L.MS, "seed": 8000 + i, "late_latency": {"from": A, "lat": lat}})
        stats["added_under_back_pressure"] += 1
    return cases, stats


def oracle(case, res):
    if res is None or "crash" in res:
        return "the process crashed: " + (res or {}).get("crash", "")[-300:]
    if not res["prefix_ok"]:
        return "content or order changed"
    sent = sum(e.get("n", 0) for e in case["src"])
    if res["total"] != sent:
        return "receiver got %d of %d bytes" % (res["total"], sent)
    if res.get("closed", -1) not in (-1, None) and (res["writes"] or []) and res["closed"] < res["writes"][-1]["t"]:
        return ("the receiver's end of the connection was closed at %d ns, before the delayed data was forwarded to it at %d ns: the end of the stream "
                "overtook data that was waiting out its latency" % (res["closed"], res["writes"][-1]["t"]))
    srcclose = [e["at"] for e in case["src"] if e.get("close")]
    lat_only = [t for t in case["chain"] if t["type"] == "latency"]
    if srcclose and lat_only and not case.get("ops") and res.get("closed", -1) not in (-1, None):
        lo_close = srcclose[0] + sum(max(0, t["attributes"]["latency"] - t["attributes"]["jitter"]) for t in lat_only) * 0
        if res["closed"] < lo_close:
            return "the receiver saw the end of the stream at %d ns, before the sender closed at %d ns" % (res["closed"], srcclose[0])
    if case.get("late_latency"):
        ll = case["late_latency"]
        writes = [e for e in case["src"] if not e.get("close")]
        ws = res["writes"] or []
        if len(ws) == len(writes):
            for k, (e, w) in enumerate(zip(writes, ws)):
                if e["at"] > ll["from"] and w["t"] - e["at"] < ll["lat"] * L.MS:
                    return ("the latency toxic (%d ms) was created or raised while the connection's stage was stalled towards its receiver; the request returned, "
                            "yet piece %d sent at %d ns was forwarded %d ns later, earlier than the latency" % (ll["lat"], k, e["at"], w["t"] - e["at"]))
        return None
    if case.get("behind_splitter"):
        # byte k of the stream was received by the proxy at the time of the write that carried it
        ws, pos = res["writes"] or [], 0
        bounds, acc = [], 0
        for e in case["src"]:
            if not e.get("close"):
                acc += e["n"]
                bounds.append((acc, e["at"]))
        for w in ws:
            at = [t for (end, t) in bounds if pos < end][0]
            if w["t"] - at < case["behind_splitter"] * L.MS:
                return ("a piece of %d bytes (stream offset %d) was forwarded %d ns after the proxy received it, earlier than the latency of %d ms (latency behind a "
                        "toxic that cuts chunks into pieces)" % (w["n"], pos, w["t"] - at, case["behind_splitter"]))
            pos += w["n"]
        return None
    lats = [t for t in case["chain"] if t["type"] == "latency"]
    lo = sum(max(0, t["attributes"]["latency"] - t["attributes"]["jitter"]) for t in lats) * L.MS
    hi = sum(t["attributes"]["latency"] + t["attributes"]["jitter"] for t in lats) * L.MS
    if case.get("updated_before_connect"):
        lo = hi = case["expect_latency"] * L.MS          # the values in effect when the connection was established
    writes = [e for e in case["src"] if not e.get("close") and e["n"] > 0]
    ws = res["writes"] or []
    if len(ws) != len(writes):
        return None     # chunks were split (above 32 KiB): per-piece timing is judged by the model comparison only
    nb = len(writes)
    for k, (e, w) in enumerate(zip(writes, ws)):
        if w["n"] != e["n"]:
            return None
        if w["t"] - e["at"] < lo:
            return "piece %d forwarded %d ns after it was sent, earlier than latency - jitter = %d ns" % (k, w["t"] - e["at"], lo)
        if nb <= 1000 and w["t"] - e["at"] > hi + (0 if len(lats) == 1 else 0) and not case.get("sink_delay"):
            return "piece %d forwarded %d ns after it arrived, later than latency + jitter = %d ns with a ready receiver" % (k, w["t"] - e["at"], hi)
    return None


def known_class(case, res, w):
    lats = [t for t in case["chain"] if t["type"] == "latency"]
    if len(lats) >= 2 and "earlier than" in w:
        return "series-under-delay"
    return None


def run(ctx):
    return L.run_link_property(
        ctx, PID, gen_cases, oracle,
        classify=lambda w: "close-order" if ("overtook" in w or "before the sender closed" in w) else "too-early" if "earlier" in w else ("too-late" if "later" in w else ("stream" if "bytes" in w or "content" in w else "crash")),
        rule="one latency toxic (latency from {0,1,5,20,100,250} ms, jitter 0 or up to 300 ms with draws mirrored from the seed) at positions "
             "1-3 among noops; single pieces, bursts (one of them 1100 chunks, beyond the 1024 buffer), paced traffic, pauses; some with a second "
             "latency toxic in series and arrivals far apart; plus connections established after the toxic was updated (once, twice) or a further "
             "toxic was added through the API, carrying a burst of 5-120 pieces; plus 2-4 connections at once through the same toxic with overlapping "
             "waits, each judged and replayed on its own; non-trivial = at least two pieces and latency + jitter > 0; distinct by JSON",
        nontrivial=lambda c: len(c["src"]) > 2 and any(t["type"] == "latency" and t["attributes"]["latency"] + t["attributes"]["jitter"] > 0 for t in c["chain"]),
        assumptions=["math/rand.Int63n(n) in [0,n), mirrored from the same seed",
                     "known finding F6: two latency toxics in series under-delay a piece that waited behind another (theorem C08_series_refuted); "
                     "the generator keeps series cases apart so that they are judged, and the under-delay itself is replayed as a known finding"],
        known_class=known_class, model_filter=lambda c: not c.get("ops"))


def replay(ctx, path):
    return L.replay_link(ctx, PID, path, oracle)

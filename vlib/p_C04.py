"""C04 — listed toxics are exactly the toxics in effect, on old and new connections."""
import json

from . import common as C
from . import links as L

PID = "C04"
KINDS = ["noop", "latency", "bandwidth", "slicer", "slow_close", "timeout", "limit_data"]


def mk(rng, name, kind=None):
    k = kind or rng.choice(KINDS)
    if k == "noop":
        return L.tx("noop", name=name)
    if k == "latency":
        return L.tx("latency", name=name, latency=rng.choice([1, 20, 300, 3000]), jitter=0)
    if k == "bandwidth":
        return L.tx("bandwidth", name=name, rate=rng.choice([1, 10, 1000]))
    if k == "slicer":
        return L.tx("slicer", name=name, average_size=rng.choice([5, 100]), size_variation=0, delay=rng.choice([0, 100]))
    if k == "slow_close":
        return L.tx("slow_close", name=name, delay=rng.choice([0, 20, 500]))
    if k == "timeout":
        return L.tx("timeout", name=name, timeout=rng.choice([0, 50, 5000]))
    return L.tx("limit_data", name=name, bytes=rng.choice([0, 10, 1000, 100000]))


def update_body(rng, t):
    a = dict(t["attributes"])
    for f in a:
        if f in ("jitter", "size_variation"):
            continue        # stay deterministic and inside the slicer's guard
        if rng.chance(1, 2):
            a[f] = rng.choice([2, 7, 50, 400])
    body = {"attributes": a}
    # an update sets attributes and toxicity; whatever else a client posts back with them (it read the toxic, edited it and sent the whole
    # object) must change neither what is listed nor what is in effect
    if rng.chance(1, 3):
        extra = rng.choice(["stream", "type", "name", "all"])
        if extra in ("stream", "all"):
            body["stream"] = rng.choice(["upstream", "downstream"])
        if extra in ("type", "all"):
            body["type"] = rng.choice(["latency", "timeout", "bandwidth", "noop"])
        if extra in ("name", "all"):
            body["name"] = rng.choice(["renamed", "t0", "t1"])
    return json.dumps(body)


def gen_cases(ctx, rng):
    n = 150 if ctx.tier == "quick" else 4000
    cases = []
    stats = {"ops": {"add": 0, "update": 0, "remove": 0, "reset": 0}, "middle_removals": 0, "source_closes_during_history": 0, "name_reuse": 0}
    for i in range(n):
        chain = [mk(rng, "t%d" % j) for j in range(rng.range(0, 3))]
        live = [t["name"] for t in chain]
        specs = {t["name"]: t for t in chain}
        ops, t = [], 10 * L.MS
        nextid = len(chain)
        for _ in range(rng.range(1, 7)):
            t += rng.choice([1, 5, 40, 200]) * L.MS + rng.range(0, 999)
            k = rng.below(100)
            if k < 35 or not live:
                name = "t%d" % nextid if rng.chance(3, 4) or not specs else rng.choice(sorted(specs))   # sometimes re-use a removed name
                if name in live:
                    name = "t%d" % nextid
                if name in specs:
                    stats["name_reuse"] += 1
                nextid += 1
                tx = mk(rng, name)
                ops.append({"at": t, "op": "add", "toxic": tx})
                live.append(name)
                specs[name] = tx
                stats["ops"]["add"] += 1
            elif k < 60:
                name = rng.choice(live)
                ops.append({"at": t, "op": "update", "name": name, "body": update_body(rng, specs[name])})
                stats["ops"]["update"] += 1
            elif k < 92:
                name = rng.choice(live)
                if 0 < live.index(name) < len(live) - 1 or (len(live) > 1 and live.index(name) == 0):
                    stats["middle_removals"] += 1
                ops.append({"at": t, "op": "remove", "name": name})
                live.remove(name)
                stats["ops"]["remove"] += 1
            else:
                ops.append({"at": t, "op": "reset"})
                live = []
                stats["ops"]["reset"] += 1
        tend = t + 50 * L.MS
        # link 0: busy old connection whose sender may close in the middle of the history (while toxics hold data)
        close0 = rng.choice([rng.range(11, max(12, tend // L.MS)) * L.MS + 5, tend + 4000 * L.MS])
        if close0 < tend:
            stats["source_closes_during_history"] += 1
        src0, tt = [], 1 * L.MS
        while tt < min(close0, tend) and len(src0) < 12:
            src0.append({"at": tt, "n": rng.range(1, 300)})
            tt += rng.choice([3, 17, 90]) * L.MS
        src0.append({"at": max(close0, tt), "close": True})
        # link 1: idle old connection, link 2: new connection established after the history; both get the same probe
        probe = [{"at": tend + 6000 * L.MS, "n": 700}, {"at": tend + 6050 * L.MS, "n": 5}, {"at": tend + 30000 * L.MS, "close": True}]
        cases.append({"dir": rng.choice(["upstream", "downstream"]), "chain": chain, "src": src0, "srcs": [src0, probe, probe],
                      "links": 3, "link_start": [0, 0, tend + 10 * L.MS], "ops": ops, "horizon": tend + 120000 * L.MS, "seed": i,
                      "expect_chain": live, "expect_types": {n: specs[n]["type"] for n in live}})
    # a connection whose sender has already closed but whose data (or close) is still held by a delaying toxic is still a connection:
    # removing / neutralising that toxic must take effect on it at once
    stats["draining_connections"] = 0
    for i in range(30 if ctx.tier == "quick" else 800):
        D = rng.choice([3000, 6000])
        holder = rng.choice([L.tx("latency", name="h", latency=D, jitter=0), L.tx("slow_close", name="h", delay=D)])
        chain = ([L.tx("noop", name="p")] if rng.chance(1, 3) else []) + [holder]
        src = [{"at": 1 * L.MS, "n": rng.range(1, 4000)}, {"at": 2 * L.MS, "n": rng.range(1, 400)}, {"at": 5 * L.MS, "close": True}]
        R = rng.range(20, 900) * L.MS + rng.range(1, 999)
        how = rng.choice(["remove", "update", "reset"])
        attr = "latency" if holder["type"] == "latency" else "delay"
        ops = [{"remove": {"at": R, "op": "remove", "name": "h"}, "reset": {"at": R, "op": "reset"},
                "update": {"at": R, "op": "update", "name": "h", "body": '{"attributes": {"%s": 0}}' % attr}}[how]]
        live = [x["name"] for x in chain if not (x["name"] == "h" and how in ("remove", "reset")) and how != "reset"]
        cases.append({"dir": rng.choice(["upstream", "downstream"]), "chain": chain, "src": src, "ops": ops, "horizon": 600000 * L.MS,
                      "seed": 7000 + i, "expect_chain": live, "drain": {"at": R, "how": how, "holder": holder["type"]}})
        stats["draining_connections"] += 1
    # an add / remove / update arriving while the connection's stage is stuck for 6.5-15 s handing data to a receiver that does not
    # read: the request waits for the stage, and once it has returned that connection too is subject to exactly the listed toxics
    stats["operation_while_stalled"] = 0
    for i in range(12 if ctx.tier == "quick" else 300):
        slow = rng.choice([6500, 9000, 15000]) * L.MS
        how = rng.choice(["add_limit0", "remove_latency", "update_latency"])
        D = 800
        if how == "add_limit0":
            chain, A = ([L.tx("noop", name="n0")] if rng.chance(1, 2) else []), 1 * L.MS + slow
            op = {"op": "add", "toxic": L.tx("limit_data", name="d", bytes=0)}
        else:
            chain, A = [L.tx("latency", name="l", latency=D, jitter=0)], (1 + D) * L.MS + slow
            op = {"op": "remove", "name": "l"} if how == "remove_latency" else {"op": "update", "name": "l", "body": '{"attributes": {"latency": 0}}'}
        op["at"] = A - slow + rng.range(100, 900) * L.MS + rng.range(1, 999)
        t3 = A + rng.range(2000, 4000) * L.MS + 13
        src = [{"at": 1 * L.MS, "n": 100}, {"at": 2 * L.MS, "n": 100}, {"at": t3, "n": 300}, {"at": t3 + 20000 * L.MS, "close": True}]
        cases.append({"dir": rng.choice(["upstream", "downstream"]), "chain": chain, "src": src, "ops": [op], "sink_delay": [slow, 0, 0, 0, 0, 0],
                      "horizon": 3600 * 1000 * L.MS, "seed": 9000 + i, "stalled_op": {"how": how, "t3": t3, "A": A}})
        stats["operation_while_stalled"] += 1
    return cases, stats


def oracle(case, res):
    if res is None or "crash" in res:
        return "the process crashed (a stage of the wrong toxic was started?): " + (res or {}).get("crash", "")[-400:]
    if "stalled_op" in case:
        so = case["stalled_op"]
        late = [w for w in (res["writes"] or []) if w["t"] >= so["t3"]]
        if so["how"] == "add_limit0":
            if late:
                return ("a limit_data toxic of 0 bytes was added while the connection's stage was stalled towards its receiver; the request returned at %s ns, "
                        "yet %d bytes sent afterwards were delivered on that connection (the listed toxic is not in effect on it)"
                        % ((res.get("ops") or [{}])[0].get("done"), late[0]["n"]))
            return None
        if not late:
            return "the data sent after the stalled operation returned never arrived"
        if late[0]["t"] != so["t3"]:
            return ("the latency toxic was %s while the connection's stage was stalled towards its receiver; the request returned, yet data sent at %d ns "
                    "was forwarded %d ns later (the old toxic is still in effect on that connection)"
                    % ("removed" if so["how"] == "remove_latency" else "updated to 0", so["t3"], late[0]["t"] - so["t3"]))
        return None
    if "expect_chain" not in case:
        return None
    for o in (res.get("ops") or []):
        if o.get("err"):
            return "operation failed: " + o["err"]
    for v in (res.get("align") or []):
        chain, stubs = v[2].split(","), v[3].split(",")
        if len(chain) != len(stubs):
            return "link %s: %d stubs for a chain of %d toxics (%s) - stubs and listed toxics are misaligned" % (v[0], len(stubs), len(chain), v[2])
        names = [c.split(":", 1)[1] for c in chain[1:]]
        if names != case["expect_chain"]:
            return "listed chain %s, expected %s" % (names, case["expect_chain"])
    if res.get("listing") is not None and case.get("expect_types") is not None:
        lst = res["listing"] or []
        got = [(t.get("name"), t.get("type"), t.get("stream")) for t in lst]
        want = [(n, case["expect_types"][n], case["dir"]) for n in case["expect_chain"]]
        if got != want:
            return "the API lists %s, the history leaves %s (name, type, stream)" % (got, want)
    if case.get("drain"):
        R = case["drain"]["at"]
        sent = sum(e.get("n", 0) for e in case["src"])
        if res["total"] != sent or not res["prefix_ok"]:
            return "draining connection: %d of %d bytes delivered" % (res["total"], sent)
        if res["closed"] != R:
            return ("the %s toxic was %s at %d ns while it still held the %s of a connection whose sender had closed, but that connection was served "
                    "as if the toxic were still there: closed at %d ns" % (case["drain"]["holder"], {"remove": "removed", "reset": "reset away", "update": "updated to 0"}[case["drain"]["how"]],
                                                                           R, "data" if case["drain"]["holder"] == "latency" else "close", res["closed"]))
        return None
    more = res.get("more") or []
    timed = any(t["type"] == "timeout" for t in case["chain"]) or any((o.get("toxic") or {}).get("type") == "timeout" for o in case.get("ops") or [])
    # (a timeout toxic counts from the moment it took effect on each connection, and removing one closes the
    #  connections it was applied to: histories with one are compared on alignment only)
    if len(more) == 2 and not timed:
        old, new = more
        if (old["writes"], old["closed"], old["total"]) != (new["writes"], new["closed"], new["total"]):
            return ("an idle connection established before the history and one established after it treat the same probe differently: "
                    "old %s closed %s, new %s closed %s" % (json.dumps(old["writes"])[:120], old["closed"], json.dumps(new["writes"])[:120], new["closed"]))
    return None


def many_in_one_direction(ctx, proof):
    """real sockets: 8-13 toxics listed for ONE direction of a proxy, the last of them a latency toxic; a connection made afterwards is
    delayed in that direction and not at all in the other one (nothing is listed there); after the toxics are removed (one by one or by
    reset) a new connection is delayed in neither"""
    from . import tcp as T

    def scen(n):
        rng = C.Rng(ctx.seed).fork("C04many")
        cases = []
        for i in range(n):
            g = i % 6
            b = T.port_base(g)
            up, px = b, b + 1
            k = [8, 9, 10, 13][i % 4]
            side = ["upstream", "downstream"][(i // 4) % 2]
            ops = [{"op": "upstream", "id": "u", "port": up, "mode": "manual"},
                   T.api("POST", "/proxies", {"name": "p", "listen": "127.0.0.1:%d" % px, "upstream": "127.0.0.1:%d" % up})]
            for j in range(k - 1):
                ops.append(T.api("POST", "/proxies/p/toxics", {"type": rng.choice(["noop", "latency", "slicer"]), "name": "f%d" % j, "stream": side, "attributes": {}}))
            ops.append(T.api("POST", "/proxies/p/toxics", {"type": "latency", "name": "last", "stream": side, "attributes": {"latency": 700}}))
            ops += [{"op": "dial", "id": "c", "addr": "127.0.0.1:%d" % px}, {"op": "upaccept", "id": "s", "up": "u", "ms": 1000}]
            fwd, back = ("c", "s") if side == "upstream" else ("s", "c")
            mark1 = len(ops)
            ops += [{"op": "send", "id": back, "n": 40}, {"op": "recv", "id": fwd, "up": back, "n": 40, "ms": 400},      # the direction without toxics
                    {"op": "send", "id": fwd, "n": 40}, {"op": "recv", "id": back, "up": fwd, "n": 40, "ms": 2000}]    # the delayed direction
            if i % 2:
                ops.append(T.api("POST", "/reset"))
            else:
                ops.append(T.api("DELETE", "/proxies/p/toxics/last"))
                for j in range(k - 1):
                    ops.append(T.api("DELETE", "/proxies/p/toxics/f%d" % j))
            ops += [{"op": "dial", "id": "c2", "addr": "127.0.0.1:%d" % px}, {"op": "upaccept", "id": "s2", "up": "u", "ms": 1000}]
            mark2 = len(ops)
            ops += [{"op": "send", "id": "s2", "n": 40}, {"op": "recv", "id": "c2", "up": "s2", "n": 40, "ms": 400},
                    {"op": "send", "id": "c2", "n": 40}, {"op": "recv", "id": "s2", "up": "c2", "n": 40, "ms": 400},
                    T.api("GET", "/proxies/p/toxics")]
            cases.append({"ops": ops, "group": g, "k": k, "side": side, "mark1": mark1, "mark2": mark2})
        results = T.run_tcp(ctx, cases, "c04m")
        fails = []
        for c, r in zip(cases, results):
            if T.env_broken(r):
                continue
            rp = {"kind": "failing-input", "tcp": True, "case": c, "observed": r}
            if isinstance(r, dict):
                fails.append(("crash", "process crashed with %d toxics in one direction" % c["k"], rp))
                continue
            free, delayed = r[c["mark1"] + 1], r[c["mark1"] + 3]
            if not free.get("ok"):
                fails.append(("unlisted-toxic-in-effect", "%d toxics listed for the %s direction, none for the other: data in the other direction did not arrive within 400 ms "
                                                          "(%s) - a toxic is in effect where none is listed" % (c["k"], c["side"], free.get("end") or "nothing"), rp))
            elif not delayed.get("ok") or delayed.get("took_ms", 0) < 650:
                fails.append(("listed-toxic-not-in-effect", "%d toxics listed for the %s direction, the last a latency of 700 ms: data in that direction arrived after %s ms"
                              % (c["k"], c["side"], delayed.get("took_ms")), rp))
            else:
                a, b2 = r[c["mark2"] + 1], r[c["mark2"] + 3]
                if not (a.get("ok") and b2.get("ok")) or r[-1].get("body", "").strip() != "[]":
                    fails.append(("removed-toxic-in-effect", "after all %d toxics of the %s direction were removed a new connection is still affected (towards client: %s, towards "
                                                             "upstream: %s; listed: %s)" % (c["k"], c["side"], a.get("end") or "ok", b2.get("end") or "ok", r[-1].get("body", "").strip()[:60]), rp))
        return fails, {"tcp_many_in_one_direction": len(cases), "tcp_many_failures": len(fails)}
    return T.stable(lambda: scen((8 if ctx.tier == "quick" else 160) * (1 if proof["build_ok"] else 2)))


def run(ctx):
    def keep_more(cases, results):
        return {}
    # the generic runner flattens `more`; here the comparison between links is the point, so the oracle runs first on the raw result
    orig = L.run_impl

    def run_impl(ctx2, cases, tag, procs=8, timeout=900):
        rs = orig(ctx2, cases, tag, procs, timeout)
        for c, r in zip(cases, rs):
            if r and "crash" not in r and "expect_chain" in c:
                w = oracle(c, r)
                r["c04_verdict"] = w
                r["more_all"] = r.get("more")        # kept for the replay of all connections through Model/MultiRun.v
                r["more"] = None
        return rs

    L.run_impl = run_impl
    try:
        return L.run_link_property(
            ctx, PID, gen_cases, lambda c, r: (r.get("c04_verdict") if "expect_chain" in c and r and "crash" not in r else oracle(c, r)),
            classify=lambda w: "draining-connection-skipped" if "sender had closed" in w or "draining" in w else "misaligned" if "misaligned" in w else ("crash" if "crashed" in w else ("old-vs-new" if "treat the same probe" in w else "other")),
            rule="histories of 1-7 add/update/remove/reset operations (all toxic types, removals from the middle, name re-use) on a proxy with a busy "
                 "connection whose sender may close mid-history, an idle old connection and a connection established afterwards; after the history "
                 "the verif shim lists chain vs stubs per link and the idle-old and new connections get the same probe; plus connections whose sender "
                 "has closed while a latency / slow_close toxic still holds their data or close, when that toxic is removed, updated to 0 or reset; plus "
                 "add / remove / update arriving while the connection's stage is stalled for 6.5-15 s towards its receiver; non-trivial = at least one "
                 "removal or update; distinct by JSON",
            nontrivial=lambda c: any(o["op"] in ("remove", "update", "reset") for o in c.get("ops") or []),
            assumptions=["toxicity 0 or 1 only (deterministic comparison)", "reset_peer is excluded (socket option applied at connect time only, C13)"],
            model_filter=lambda c: False, side_findings=many_in_one_direction)
    finally:
        L.run_impl = orig


def replay(ctx, path):
    return L.replay_link(ctx, PID, path, oracle)

"""Real-socket scenarios (h -mode tcp): scripted ops against an in-process server with real TCP
clients and upstreams on loopback. Used by C03, C13, C15, C17, C20."""
import json
import os
from concurrent.futures import ThreadPoolExecutor

from . import common as C


def port_base(group):
    return C.free_port_base("tcp", 80, 30000, 60000) + group * 10


def run_tcp(ctx, cases, tag, timeout=900):
    """cases: list of {"ops": [...], "group": g}; cases of one group share ports and run sequentially in one process"""
    if not getattr(ctx, "_h_built", False):
        C.go_build_harness(ctx, "h")
        ctx._h_built = True
    h = os.path.join(C.BUILD, "h")
    n = len(cases)
    if n == 0:
        return []
    groups = sorted(set(c.get("group", 0) for c in cases))
    parts = [[i for i in range(n) if cases[i].get("group", 0) == g] for g in groups]

    def one(k):
        fin = os.path.join(C.BUILD, "%s_tcp_in_%d.json" % (tag, k))
        fout = os.path.join(C.BUILD, "%s_tcp_out_%d.json" % (tag, k))
        with open(fin, "w") as f:
            json.dump({"cases": [cases[i]["ops"] for i in parts[k]]}, f)
        if os.path.exists(fout):
            os.remove(fout)
        rc, out = C.sh([h, "-mode", "tcp", "-in", fin, "-out", fout], env=C.GOENV, timeout=timeout)
        if rc != 0 or not os.path.exists(fout):
            return k, None, out
        return k, json.load(open(fout)), out

    results = [None] * n
    with ThreadPoolExecutor(max_workers=len(parts)) as ex:
        for k, r, out in ex.map(one, range(len(parts))):
            if r is None:
                # find the culprit by re-running the group's cases one by one
                for i in parts[k]:
                    fin = os.path.join(C.BUILD, "%s_tcp_in_single_%d.json" % (tag, k))
                    fout = os.path.join(C.BUILD, "%s_tcp_out_single_%d.json" % (tag, k))
                    json.dump({"cases": [cases[i]["ops"]]}, open(fin, "w"))
                    if os.path.exists(fout):
                        os.remove(fout)
                    rc, o = C.sh([h, "-mode", "tcp", "-in", fin, "-out", fout], env=C.GOENV, timeout=120)
                    results[i] = json.load(open(fout))[0] if rc == 0 and os.path.exists(fout) else {"crash": o[-1500:]}
            else:
                for i, x in zip(parts[k], r):
                    results[i] = x
    return results


def stable(run, attempts=3):
    """real-socket scenarios are timing sensitive on a loaded machine (a reply that misses its deadline looks like a failure). The families
    are deterministic functions of the seed, so a family that reports failures is run again (up to `attempts` times in all) and only the
    kinds of failure that show up EVERY time are kept: a defect in the code reproduces, a scheduling hiccup does not."""
    fails, cov = run()
    if not fails:
        return fails, cov
    keys = set(f[0] for f in fails)
    reruns = 0
    for _ in range(attempts - 1):
        reruns += 1
        f2, _c = run()
        keys &= set(f[0] for f in f2)
        if not keys:
            break
    cov = dict(cov)
    cov["reruns_after_a_failure"] = reruns
    cov["failure_kinds_not_reproduced"] = sorted(set(f[0] for f in fails) - keys)
    return [f for f in fails if f[0] in keys], cov


def env_broken(r):
    """the scenario could not set up its own upstreams (a foreign process holds a port): inconclusive, never an alarm"""
    return isinstance(r, list) and any(x.get("op") == "upstream" and not x.get("ok") for x in r)


def api(method, path, body=None):
    return {"op": "api", "method": method, "path": path, "body": json.dumps(body) if body is not None else ""}


# ---------------------------------------------------------------- C13: reset_peer on real sockets
def reset_peer_runs(ctx, n):
    rng = C.Rng(ctx.seed).fork("C13tcp")
    cases = []
    for i in range(n):
        g = i % 6
        b = port_base(g)
        up, px = b, b + 1
        T = rng.choice([0, 20, 80, 1100])       # 1100: the reset must not depend on the timeout being below a second
        stream = rng.choice(["upstream", "downstream"])
        payload = rng.choice([0, 1, 500, 65536])
        closer = rng.choice(["client", "upstream", "none"])
        ops = [{"op": "upstream", "id": "u", "port": up, "mode": "manual"},
               api("POST", "/proxies", {"name": "p", "listen": "127.0.0.1:%d" % px, "upstream": "127.0.0.1:%d" % up}),
               api("POST", "/proxies/p/toxics", {"type": "reset_peer", "name": "rp", "stream": stream, "attributes": {"timeout": T}})]
        # a history of other toxic operations before the connection is made - the reset_peer toxic stays listed, so the connection
        # must still end with a reset
        other = "downstream" if stream == "upstream" else "upstream"
        hist = rng.choice(["none", "none", "other_stream_added_removed", "same_stream_added_removed", "second_reset_removed", "timeout_updated", "disabled_enabled", "other_before"])
        if hist == "other_stream_added_removed":
            ops += [api("POST", "/proxies/p/toxics", {"type": rng.choice(["latency", "slow_close", "noop"]), "name": "o", "stream": other, "attributes": {}}),
                    api("DELETE", "/proxies/p/toxics/o")]
        elif hist == "same_stream_added_removed":
            ops += [api("POST", "/proxies/p/toxics", {"type": "noop", "name": "o", "stream": stream, "attributes": {}}),
                    api("DELETE", "/proxies/p/toxics/o")]
        elif hist == "second_reset_removed":
            ops += [api("POST", "/proxies/p/toxics", {"type": "reset_peer", "name": "o", "stream": other, "attributes": {"timeout": 5000}}),
                    api("DELETE", "/proxies/p/toxics/o")]
        elif hist == "timeout_updated":
            ops += [api("POST", "/proxies/p/toxics/rp", {"attributes": {"timeout": T}})]
        elif hist == "disabled_enabled":
            ops += [api("POST", "/proxies/p", {"enabled": False}), api("POST", "/proxies/p", {"enabled": True})]
        elif hist == "other_before":
            ops.insert(2, api("POST", "/proxies/p/toxics", {"type": "noop", "name": "o", "stream": other, "attributes": {}}))
            ops.append(api("DELETE", "/proxies/p/toxics/o"))
        ops += [{"op": "dial", "id": "c", "addr": "127.0.0.1:%d" % px},
                {"op": "upaccept", "id": "s", "up": "u", "ms": 1000}]
        sender, receiver = ("c", "s") if stream == "upstream" else ("s", "c")
        if payload:
            ops.append({"op": "send", "id": sender, "n": payload})
        elif closer == "none":
            closer = "client" if stream == "upstream" else "upstream"
        if payload == 0:
            # nothing is sent: the sender's close is what the toxic's timeout counts from
            ops.append({"op": "close", "id": sender, "how": "half"})
        elif closer != "none" and rng.chance(1, 2):
            if (closer == "client") == (stream == "upstream"):
                ops.append({"op": "close", "id": sender, "how": "half"})
        ops.append({"op": "recv", "id": receiver, "up": sender, "n": max(payload, 1), "ms": T + 1500})
        ops.append({"op": "recv", "id": sender, "up": receiver, "n": 1, "ms": T + 1500})
        cases.append({"ops": ops, "group": g, "T": T, "stream": stream, "payload": payload, "history": hist})
    results = run_tcp(ctx, cases, "c13")
    fails = []
    ok = 0
    for c, r in zip(cases, results):
        if env_broken(r):
            continue
        if isinstance(r, dict):
            fails.append(("crash", "process crashed in a reset_peer scenario", {"kind": "failing-input", "tcp": True, "case": c, "observed": r}))
            continue
        recv_rx, recv_tx = r[-2], r[-1]
        if recv_rx.get("got", 0) != 0:
            fails.append(("reset-peer-data", "reset_peer delivered %d bytes in its direction" % recv_rx["got"],
                          {"kind": "failing-input", "tcp": True, "case": c, "observed": r}))
        elif recv_rx.get("end") != "reset" and recv_tx.get("end") != "reset":
            fails.append(("reset-peer-no-rst", "reset_peer present at connect time (history before the connection: %s): peers saw %s / %s instead of a connection reset"
                          % (c.get("history"), recv_rx.get("end"), recv_tx.get("end")), {"kind": "failing-input", "tcp": True, "case": c, "observed": r}))
        elif recv_rx.get("took_ms", 0) + 5 < c["T"] and recv_rx.get("end") == "reset":
            fails.append(("reset-peer-early", "reset after %d ms, before timeout %d ms" % (recv_rx.get("took_ms", 0), c["T"]),
                          {"kind": "failing-input", "tcp": True, "case": c, "observed": r}))
        else:
            ok += 1
    return fails, {"tcp_runs": len(cases), "tcp_reset_observed": ok,
                   "tcp_sample": {"ops": cases[0]["ops"], "observed": results[0] if results else None}}


# ---------------------------------------------------------------- C13: slow_close on real sockets, with a receiver that keeps talking
def slow_close_runs(ctx, n):
    """slow_close on one stream; the sender closes its socket completely while the receiver of the withheld close keeps writing in the
    other direction (those writes run into the sender's closed socket): the receiver must still not see the end before the delay"""
    rng = C.Rng(ctx.seed).fork("C13slow")
    cases = []
    for i in range(n):
        g = i % 6
        b = port_base(g)
        up, px = b + 2, b + 3
        D = rng.choice([300, 600, 900])
        stream = rng.choice(["upstream", "downstream"])
        pings = rng.choice([0, 2, 5, 8])
        ops = [{"op": "upstream", "id": "u", "port": up, "mode": "manual"},
               api("POST", "/proxies", {"name": "p", "listen": "127.0.0.1:%d" % px, "upstream": "127.0.0.1:%d" % up}),
               api("POST", "/proxies/p/toxics", {"type": "slow_close", "stream": stream, "attributes": {"delay": D}}),
               {"op": "dial", "id": "c", "addr": "127.0.0.1:%d" % px},
               {"op": "upaccept", "id": "s", "up": "u", "ms": 1000}]
        sender, receiver = ("c", "s") if stream == "upstream" else ("s", "c")
        ops += [{"op": "send", "id": sender, "n": 100}, {"op": "recv", "id": receiver, "up": sender, "n": 100, "ms": 1000},
                {"op": "close", "id": sender, "how": rng.choice(["full", "full", "half"])}]
        mark = len(ops)
        for _ in range(pings):
            ops += [{"op": "send", "id": receiver, "n": 10}, {"op": "sleep", "ms": 40}]
        ops.append({"op": "recv", "id": receiver, "up": sender, "n": 1, "ms": D + 2000})
        cases.append({"ops": ops, "group": g, "D": D, "stream": stream, "pings": pings, "mark": mark})
    results = run_tcp(ctx, cases, "c13s")
    fails, ok = [], 0
    for c, r in zip(cases, results):
        if env_broken(r):
            continue
        rp = {"kind": "failing-input", "tcp": True, "case": c, "observed": r}
        if isinstance(r, dict):
            fails.append(("crash", "process crashed in a slow_close scenario", rp))
            continue
        if not r[c["mark"] - 2].get("ok"):
            continue                                   # the data did not get through in time (loaded machine): inconclusive
        elapsed = sum(x.get("took_ms", 0) for x in r[c["mark"]:])
        last = r[-1]
        if last.get("end") == "timeout":
            fails.append(("slow-close-never", "slow_close %d ms: the receiver saw no end of stream within %d ms of the sender's close"
                          % (c["D"], elapsed), rp))
        elif elapsed + 25 < c["D"]:
            fails.append(("slow-close-early", "slow_close %d ms on %s: the receiver's connection ended (%s) %d ms after the sender closed, while it was "
                          "sending %d small messages the other way" % (c["D"], c["stream"], last.get("end"), elapsed, c["pings"]), rp))
        else:
            ok += 1
    return fails, {"tcp_slow_close_runs": len(cases), "tcp_slow_close_ok": ok}


# ---------------------------------------------------------------- C10: the timeout toxic's close while another request holds the proxy's toxic lock
def timeout_under_lock_runs(ctx, n):
    """connection A's receiver does not read (its link is blocked), a toxic request for that direction waits on A and holds the lock of the
    proxy's toxic collection; on connection B a timeout toxic of the other direction expires meanwhile: B must be closed T ms after the
    toxic took effect - not whenever the other request gets through"""
    rng = C.Rng(ctx.seed).fork("C10lock")
    cases = []
    for i in range(n):
        g = i % 6
        b = port_base(g)
        up, px = b + 4, b + 5
        T = rng.choice([400, 600, 900])
        ops = [{"op": "upstream", "id": "u", "port": up, "mode": "manual"},
               api("POST", "/proxies", {"name": "p", "listen": "127.0.0.1:%d" % px, "upstream": "127.0.0.1:%d" % up}),
               {"op": "dial", "id": "a", "addr": "127.0.0.1:%d" % px}, {"op": "upaccept", "id": "sa", "up": "u", "ms": 1000},
               {"op": "dial", "id": "b", "addr": "127.0.0.1:%d" % px}, {"op": "upaccept", "id": "sb", "up": "u", "ms": 1000},
               {"op": "flood", "id": "sa"}, {"op": "sleep", "ms": 400},
               dict(api("POST", "/proxies/p/toxics", {"type": "timeout", "name": "t", "stream": "upstream", "attributes": {"timeout": T}}), ms=3000)]
        mark = len(ops)
        ops += [dict(api("POST", "/proxies/p/toxics", {"type": rng.choice(["latency", "noop"]), "name": "l", "stream": "downstream", "attributes": {}}), ms=250),
                {"op": "send", "id": "b", "n": 10},
                {"op": "recv", "id": "b", "up": "sb", "n": 1, "ms": T + 1500}]
        cases.append({"ops": ops, "group": g, "T": T, "mark": mark})
    results = run_tcp(ctx, cases, "c10l")
    fails, ok, blocked = [], 0, 0
    for c, r in zip(cases, results):
        if env_broken(r):
            continue
        rp = {"kind": "failing-input", "tcp": True, "case": c, "observed": r}
        if isinstance(r, dict):
            fails.append(("crash", "process crashed in a timeout-under-lock scenario", rp))
            continue
        if r[c["mark"] - 1].get("status") != 200:
            continue                                    # the timeout toxic could not be added in time: inconclusive
        if r[c["mark"]].get("status") != -1:
            continue                                    # the second request was not held up (buffers did not fill): nothing to judge
        blocked += 1
        elapsed = sum(x.get("took_ms", 0) for x in r[c["mark"]:])
        last = r[-1]
        if last.get("end") == "timeout":
            fails.append(("timeout-close-waits-for-lock", "timeout %d ms: the connection was still open %d ms after the toxic took effect, while another toxic request on the "
                          "proxy was waiting for a connection whose receiver does not read" % (c["T"], elapsed), rp))
        elif elapsed + 40 < c["T"]:
            fails.append(("timeout-early", "timeout %d ms: the connection was closed after %d ms" % (c["T"], elapsed), rp))
        else:
            ok += 1
    return fails, {"tcp_timeout_under_lock_runs": len(cases), "tcp_timeout_under_lock_blocked": blocked, "tcp_timeout_under_lock_ok": ok}


def limit_under_lock_runs(ctx, n):
    """connection A's receiver does not read (its link is blocked), a toxic request for that direction waits on A and holds the lock of the
    proxy's toxic collection; on connection B a limit_data toxic of the other direction reaches its limit meanwhile: B's receiver gets
    exactly the first N bytes and then the end of the stream at once - not whenever the other request gets through"""
    rng = C.Rng(ctx.seed).fork("C11lock")
    cases = []
    for i in range(n):
        g = i % 6
        b = port_base(g)
        up, px = b + 8, b + 9
        N = rng.choice([1, 100, 250])
        ops = [{"op": "upstream", "id": "u", "port": up, "mode": "manual"},
               api("POST", "/proxies", {"name": "p", "listen": "127.0.0.1:%d" % px, "upstream": "127.0.0.1:%d" % up}),
               {"op": "dial", "id": "a", "addr": "127.0.0.1:%d" % px}, {"op": "upaccept", "id": "sa", "up": "u", "ms": 1000},
               {"op": "dial", "id": "b", "addr": "127.0.0.1:%d" % px}, {"op": "upaccept", "id": "sb", "up": "u", "ms": 1000},
               {"op": "flood", "id": "sa"}, {"op": "sleep", "ms": 400},
               dict(api("POST", "/proxies/p/toxics", {"type": "limit_data", "name": "t", "stream": "upstream", "attributes": {"bytes": N}}), ms=3000)]
        mark = len(ops)
        ops += [dict(api("POST", "/proxies/p/toxics", {"type": rng.choice(["latency", "noop"]), "name": "l", "stream": "downstream", "attributes": {}}), ms=250),
                {"op": "send", "id": "b", "n": N + 200},
                {"op": "recv", "id": "sb", "up": "b", "n": N + 200, "ms": 1200}]
        cases.append({"ops": ops, "group": g, "N": N, "mark": mark})
    results = run_tcp(ctx, cases, "c11l")
    fails, ok, blocked = [], 0, 0
    for c, r in zip(cases, results):
        if env_broken(r):
            continue
        rp = {"kind": "failing-input", "tcp": True, "case": c, "observed": r}
        if isinstance(r, dict):
            fails.append(("crash", "process crashed in a limit-under-lock scenario", rp))
            continue
        if r[c["mark"] - 1].get("status") != 200:
            continue
        if r[c["mark"]].get("status") != -1:
            continue                                    # the second request was not held up (buffers did not fill): nothing to judge
        blocked += 1
        last = r[-1]
        if last.get("got") != c["N"]:
            fails.append(("limit-bytes", "limit_data %d: the receiver got %s bytes" % (c["N"], last.get("got")), rp))
        elif last.get("end") != "eof":
            fails.append(("limit-close-waits-for-lock", "limit_data %d: the receiver got the %d bytes but the connection was still open %d ms later (%s), while another toxic "
                          "request on the proxy was waiting for a connection whose receiver does not read" % (c["N"], c["N"], last.get("took_ms", 0), last.get("end")), rp))
        else:
            ok += 1
    return fails, {"tcp_limit_under_lock_runs": len(cases), "tcp_limit_under_lock_blocked": blocked, "tcp_limit_under_lock_ok": ok}

#!/bin/bash
# usage: confirm_seed.sh <seed dir name under /verif/seeded>
# Confirms a seeded change in a fresh scratch worktree of /repo HEAD: patch applies, project builds,
# full suite passes with the patch (2 runs, known-flaky timing tests retried), demo fails with the
# patch and passes without. Writes seeded/<name>/confirm.json.
set -u
name=$1
d=/verif/seeded/$name
wt=/tmp/confirm_$name
export GOFLAGS=-mod=mod GOPROXY=off GOSUMDB=off GOTOOLCHAIN=local
# the suite uses fixed ports (8475, 7070, ...): run it in a private network namespace so that concurrent runs do not collide
gt() { unshare -n sh -c "ip link set lo up; exec go test $*"; }
git -C /repo worktree remove --force $wt 2>/dev/null
git -C /repo worktree add -q --detach $wt HEAD || exit 2
cd $wt
res() { echo "$1" >> $d/confirm.log; }
: > $d/confirm.log
if ! git apply $d/patch.diff 2>>$d/confirm.log; then res "APPLY_FAILED"; cd /; git -C /repo worktree remove --force $wt; exit 1; fi
go build ./... >>$d/confirm.log 2>&1 && res "BUILD_OK" || res "BUILD_FAILED"
suite_ok=1
for r in 1 2; do
  gt -vet=off -count=1 -timeout 25m ./... > /tmp/confirm_$name.suite 2>&1
  if grep -q '^FAIL' /tmp/confirm_$name.suite; then
    # retry once failed packages (timing flakiness under load)
    gt -vet=off -count=1 -timeout 25m ./... > /tmp/confirm_$name.suite 2>&1
    if grep -q '^FAIL' /tmp/confirm_$name.suite; then suite_ok=0; grep -E '^(--- FAIL|FAIL)' /tmp/confirm_$name.suite >> $d/confirm.log; fi
  fi
done
[ $suite_ok = 1 ] && res "SUITE_PASS_WITH_PATCH" || res "SUITE_FAIL_WITH_PATCH"
# demo with patch
(cd $d/demo && find . -type f) | while read f; do mkdir -p $(dirname $f); cp $d/demo/$f $f; done
pk=$(cd $d/demo && find . -name '*_test.go' -printf '%h\n' | sort -u | head -1)
run=$(grep -ho 'func Test[A-Za-z0-9_]*' $(find $d/demo -name '*_test.go') | sed 's/func //' | paste -sd'|')
gt -vet=off -count=1 -timeout 10m -run "'^($run)\$'" $pk/ > /tmp/confirm_$name.demo1 2>&1
if grep -q '^--- FAIL\|^FAIL\|panic:' /tmp/confirm_$name.demo1; then res "DEMO_FAILS_WITH_PATCH"; else res "DEMO_PASSES_WITH_PATCH(!)"; fi
git apply -R $d/patch.diff
gt -vet=off -count=1 -timeout 10m -run "'^($run)\$'" $pk/ > /tmp/confirm_$name.demo2 2>&1
if grep -q '^--- FAIL\|^FAIL\|panic:' /tmp/confirm_$name.demo2; then res "DEMO_FAILS_WITHOUT_PATCH(!)"; tail -20 /tmp/confirm_$name.demo2 >> $d/confirm.log; else res "DEMO_PASSES_WITHOUT_PATCH"; fi
cd /
git -C /repo worktree remove --force $wt
rm -f /tmp/confirm_$name.*
cat $d/confirm.log | grep -E '^[A-Z_()!]+$'

#!/usr/bin/env python3
"""Fills Section 0 of DESIGN.md from tools/design_section0.md, the Coq sources, claims.json, the evidence files and seeded/*/meta.json."""
import glob, json, os, re

V = "/verif"


def theorems(pid):
    return re.findall(r"^Theorem ([A-Za-z0-9_']+)", open("%s/coq/Properties/%s.v" % (V, pid)).read(), re.M)


def main():
    sec = open(V + "/tools/design_section0.md").read()
    claims = json.load(open(V + "/tools/claims.json"))
    pids = ["C%02d" % i for i in range(1, 21)]
    nthm = sum(len(theorems(p)) for p in pids)
    ex = V + "/coq/Extracted.v"
    nex = len(re.findall(r"^Definition ", open(ex).read(), re.M)) if os.path.exists(ex) else 0
    known = {}
    for l in open(V + "/known_findings.txt"):
        m = re.match(r"known: property=(C\d+) key=(\S+)", l)
        if m:
            known.setdefault(m.group(1), []).append(m.group(2))
    rows = ["| property | claim | theorems (Properties/Cxx.v) | cases per quick run (impl / replayed in Coq) | known findings |", "|---|---|---|---|---|"]
    for p in pids:
        c = claims.get(p, {})
        lvl = "partial" if c.get("text", "").lower().startswith("partial") else "full on the model"
        ev = {}
        if os.path.exists("%s/evidence/%s.json" % (V, p)):
            ev = json.load(open("%s/evidence/%s.json" % (V, p))).get("coverage", {})
        th = theorems(p)
        rows.append("| %s | %s | %d: %s | %s / %s | %s |" % (
            p, lvl, len(th), ", ".join("`%s`" % t for t in th), ev.get("evaluations", "?"), ev.get("traces_validated_against_impl", "?"),
            ", ".join(known.get(p, [])) or "–"))
    inv = "\n".join(rows)
    srows = ["| seed | files | +/- | suite passes, demo fails with / passes without | caught by its property's quick check | other checks that alarm |", "|---|---|---|---|---|---|"]
    ncaught = ninput = n = 0
    for f in sorted(glob.glob(V + "/seeded/*/meta.json")):
        m = json.load(open(f))
        n += 1
        own = [r for r in m.get("checks", []) if r["check"] == m["property"]]
        others = [r["check"] for r in m.get("checks", []) if r["check"] != m["property"] and r["exit"] != 0]
        how = "MISSED"
        if m.get("caught"):
            ncaught += 1
            how = "yes, with failing input" if m.get("caught_with_failing_input") else "yes, no-failing-input-found (proof or tie broken)"
            ninput += 1 if m.get("caught_with_failing_input") else 0
            line = [l for r in own for l in r["lines"] if l.startswith("  what:")]
            if line:
                how += ": " + line[0][8:150].replace("|", "/")
        c = m.get("confirm", {})
        conf = "yes" if all(c.get(k) for k in ("BUILD_OK", "SUITE_PASS_WITH_PATCH", "DEMO_FAILS_WITH_PATCH", "DEMO_PASSES_WITHOUT_PATCH")) else \
            ", ".join(k for k in ("BUILD_OK", "SUITE_PASS_WITH_PATCH", "DEMO_FAILS_WITH_PATCH", "DEMO_PASSES_WITHOUT_PATCH") if not c.get(k)) + " not confirmed"
        srows.append("| %s | %s | +%d/-%d | %s | %s | %s |" % (m["id"], ", ".join(m["files"]), m["lines_added"], m["lines_removed"], conf, how, ", ".join(others) or "–"))
    seedtable = "\n".join(srows) + "\n\n%d seeded changes; %d caught by the quick check of their own property, %d of them with a concrete failing input." % (n, ncaught, ninput)
    sec = sec.replace("<!-- NTHEOREMS -->", str(nthm)).replace("<!-- NEXTRACTED -->", str(nex)).replace("<!-- INVENTORY -->", inv).replace("<!-- SEEDTABLE -->", seedtable)
    d = open(V + "/DESIGN.md").read()
    a = d.index("<!-- SECTION0 -->")
    if "<!-- /SECTION0 -->" in d:
        b = d.index("<!-- /SECTION0 -->") + len("<!-- /SECTION0 -->")
    else:
        b = a + len("<!-- SECTION0 -->")
    d = d[:a] + "<!-- SECTION0 -->\n" + sec + "\n<!-- /SECTION0 -->" + d[b:]
    open(V + "/DESIGN.md", "w").write(d)
    print("Section 0 written: %d theorems, %d extracted definitions, %d seeds" % (nthm, nex, n))


if __name__ == "__main__":
    main()

#!/bin/bash
# MANIFEST.setup_cmd: builds everything that does not depend on the state of /repo's working tree
# beyond what every check re-verifies itself (checks rebuild harnesses and re-make the Coq
# development incrementally, so this only warms the caches).
set -e
cd "$(dirname "$0")/.."
export GOFLAGS=-mod=mod GOPROXY=off GOSUMDB=off GOTOOLCHAIN=local
mkdir -p build evidence replays
python3 - <<'PY'
import sys, os
sys.path.insert(0, os.getcwd())
from vlib import common as C
ctx = C.Ctx("setup", "quick", 1)
C.regenerate_extracted(ctx)
ok, out = C.coq_make(ctx, [])
if not ok:
    print(out[-3000:])
    print("setup: Coq development does not build completely on this tree (individual checks report which obligations break)")
for w in ("vt", "h"):
    try:
        C.go_build_harness(ctx, w)
    except Exception as e:
        print("setup: harness", w, "not built:", str(e)[:500])
PY
echo setup done

#!/bin/bash
# usage: tools/sweep.sh [seed] [ids...] — run the quick check of every property (or the listed ones) on /repo, one after another;
# prints one line per property (exit code, seconds, VIOLATION / KNOWN-FINDING lines)
seed=${1:-1}; shift
ids=${@:-C01 C02 C03 C04 C05 C06 C07 C08 C09 C10 C11 C12 C13 C14 C15 C16 C17 C18 C19 C20}
cd /verif
for id in $ids; do
  t0=$(date +%s)
  VERIF_SEED=$seed ./check $id > /tmp/sweep_$id.log 2>&1; rc=$?
  echo "$id rc=$rc $(( $(date +%s) - t0 ))s $(grep -c '^KNOWN-FINDING' /tmp/sweep_$id.log) known $(grep '^VIOLATION\|cannot run\|Traceback' /tmp/sweep_$id.log | head -2 | tr '\n' ' ' | cut -c1-200)"
done

#!/bin/bash
# usage: import_seed.sh <id>   copies SEED/ of the sub-agent's scratch worktree /tmp/sw/<id> into /verif/seeded/<id> and removes the worktree
set -eu
id=$1; wt=/tmp/sw/$id; d=/verif/seeded/$id
mkdir -p $d
cp $wt/SEED/patch.diff $d/patch.diff
cp $wt/SEED/README.md $d/README.md
rm -rf $d/demo; cp -r $wt/SEED/demo $d/demo
git -C /repo worktree remove --force $wt
echo imported $id: $(grep -c '^diff --git' $d/patch.diff) files, demo: $(cd $d/demo && find . -type f | tr '\n' ' ')

#!/bin/bash
# usage: goal.sh <file.v> <line>  -- shows the proof state after line <line>
f=$1; n=$2
d=$(dirname $f); b=$(basename $f .v)
head -n $n $f > $d/zz_goal_$b.v
echo "Show." >> $d/zz_goal_$b.v
(cd /verif/coq && timeout 120 coqc -Q . TP ${d#/verif/coq/}/zz_goal_$b.v 2>&1 | head -${3:-80})
rm -f $d/zz_goal_$b.* $d/.zz_goal_$b.aux

#!/usr/bin/env python3
"""regenerates MANIFEST.json from tools/manifest_src.json-ish table below (single source of truth)"""
import json, os
V = os.path.dirname(os.path.dirname(os.path.abspath(__file__)))
props = [json.loads(l) for l in open(os.path.join(V, "properties.jsonl"))]
claims = json.load(open(os.path.join(V, "tools", "claims.json")))
checks, na = [], []
for p in props:
    pid = p["id"]
    c = claims.get(pid)
    if c is None or c.get("not_applicable"):
        na.append({"property_id": pid, "reason": (c or {}).get("reason", "check not built yet in this round (planned, see DESIGN.md section 4); nothing is claimed for it until its proof and correspondence run")})
        continue
    checks.append({
        "property_id": pid,
        "quick_cmd": "./check %s --tier quick" % pid,
        "thorough_cmd": "./check %s --tier thorough" % pid,
        "evidence_file": "/verif/evidence/%s.json" % pid,
        "replay_cmd_template": "./check %s --replay {path}" % pid,
        "engine": "coq-model",
        "level_claimed": {"category": "proof", "text": c["text"], "design_ref": "DESIGN.md section 4, %s" % pid},
        "level_note": c["note"],
        "technique": c["technique"],
    })
m = {
    "version": 1,
    "setup_cmd": "./tools/setup.sh",
    "hooks": {
        "guard": "verif",
        "enable": "go build -tags verif (harness module /verif/harness with replace => /repo)",
        "baseline_off_cmd": "cd /repo && go test -mod=mod -json -vet=off -count=1 -timeout 25m ./...",
        "source_commits": json.load(open(os.path.join(V, "tools", "hook_commits.json"))),
        "add_only": True,
    },
    "engines": [
        {"name": "coq-model", "path": "/verif/coq", "serves_properties": [c["property_id"] for c in checks],
         "kind_free_text": "Coq 8.16.1 development: executable model (Model/), proofs (Proofs/), property statements (Properties/), regenerated Extracted.v"},
        {"name": "extract", "path": "/verif/extract", "serves_properties": [c["property_id"] for c in checks],
         "kind_free_text": "Go translator (go/ast) from /repo sources to coq/Extracted.v, run on every check"},
        {"name": "harness", "path": "/verif/harness", "serves_properties": [c["property_id"] for c in checks],
         "kind_free_text": "Go correspondence harnesses run against /repo's working tree (synctest virtual time; httptest API; real TCP)"},
    ],
    "checks": checks,
    "not_applicable": na,
    "notes": "All checks share ./check <id>; see DESIGN.md section 6 for the protocol. known_findings.txt lists findings and fixes.",
}
json.dump(m, open(os.path.join(V, "MANIFEST.json"), "w"), indent=1)
print("checks:", len(checks), "not_applicable:", len(na))

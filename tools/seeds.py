#!/usr/bin/env python3
"""Runs the seeded changes against the checks.  usage: seeds.py confirm|check|meta [ids...]
   confirm: tools/confirm_seed.sh per seed (scratch worktree of /repo HEAD: builds, suite passes with the patch, demo fails with / passes without)
   check:   applies the patch to /repo's working tree, runs the quick check of the seed's property (and the extra ones listed below),
            records the VIOLATION lines, reverts with git checkout
   meta:    (re)writes seeded/<id>/meta.json from confirm.log, check.json and the patch"""
import json, os, re, subprocess, sys, time

V = "/verif"
EXTRA = {"C03-a": ["C15"], "C15-a": ["C03"], "C07-a": ["C11"], "C10-a": ["C02"], "C04-a": ["C07"]}


def sh(cmd, **kw):
    return subprocess.run(cmd, shell=True, capture_output=True, text=True, **kw)


def seeds(args):
    all_ = sorted(d for d in os.listdir(V + "/seeded") if os.path.isdir(V + "/seeded/" + d))
    return [s for s in all_ if not args or s in args]


def confirm(ids):
    for s in ids:
        r = sh("%s/tools/confirm_seed.sh %s" % (V, s))
        print(s, " ".join(r.stdout.split()))


def check(ids):
    assert sh("git -C /repo status --porcelain").stdout.strip() == "", "/repo has uncommitted changes"
    for s in ids:
        d = "%s/seeded/%s" % (V, s)
        prop = s.split("-")[0]
        res = {"repo_head": sh("git -C /repo rev-parse --short HEAD").stdout.strip(), "runs": []}
        # evidence files must come from runs on the unchanged tree: keep them aside while the seed is applied
        saved = {}
        for p in [prop] + EXTRA.get(s, []) + os.environ.get("SEED_EXTRA", "").split():
            ef = "%s/evidence/%s.json" % (V, p)
            if os.path.exists(ef):
                saved[ef] = open(ef).read()
        a = sh("git -C /repo apply %s/patch.diff" % d)
        if a.returncode != 0:
            res["error"] = "patch does not apply: " + a.stderr[-300:]
        else:
            try:
                for p in [prop] + EXTRA.get(s, []) + os.environ.get("SEED_EXTRA", "").split():
                    t0 = time.time()
                    r = sh("%s/check %s" % (V, p), cwd=V)
                    out = r.stdout + r.stderr
                    viol = [l for l in out.split("\n") if l.startswith("VIOLATION") or l.startswith("  what:") or l.startswith("CHECK-CANNOT-RUN")]
                    res["runs"].append({"check": p, "exit": r.returncode, "seconds": round(time.time() - t0, 1), "lines": viol[:8],
                                        "with_failing_input": any(l.startswith("VIOLATION") and "no-failing-input-found" not in l for l in viol)})
                    print(s, p, r.returncode, (viol[:2] or ["(no alarm)"]))
            finally:
                sh("git -C /repo checkout -- .")
                for ef, txt in saved.items():
                    open(ef, "w").write(txt)
                left = sh("git -C /repo status --porcelain").stdout.strip()
                for l in left.split("\n"):
                    if l.startswith("??"):
                        sh("rm -rf /repo/%s" % l[3:])
        json.dump(res, open(d + "/check.json", "w"), indent=1)
    # leave the generated files of /verif in the state of the unchanged tree
    sh("%s/check C20 --regen-only" % V, cwd=V)


def meta(ids):
    for s in ids:
        d = "%s/seeded/%s" % (V, s)
        patch = open(d + "/patch.diff").read()
        files = re.findall(r"^diff --git a/(\S+)", patch, re.M)
        add = len(re.findall(r"^\+(?!\+\+)", patch, re.M))
        rem = len(re.findall(r"^-(?!--)", patch, re.M))
        conf = open(d + "/confirm.log").read() if os.path.exists(d + "/confirm.log") else ""
        chk = json.load(open(d + "/check.json")) if os.path.exists(d + "/check.json") else {}
        needs = ""
        rd = open(d + "/README.md").read() if os.path.exists(d + "/README.md") else ""
        mm = re.search(r"^#+[^\n]*(?:need|manifest|trigger)[^\n]*\n(.*?)(?=^#+ |\Z)", rd, re.M | re.S | re.I)
        if mm:
            needs = " ".join(mm.group(1).split())[:1200]
        else:
            mm = re.search(r"(?:needs?|needed|manifest)[^\n]*\n(.*?)(?=^#+ |\Z)", rd, re.M | re.S | re.I)
            needs = " ".join(mm.group(1).split())[:800] if mm else "see README.md"
        m = {"id": s, "property": s.split("-")[0], "needs_in_order_to_manifest": needs, "files": files, "lines_added": add, "lines_removed": rem,
             "written_by": "a sub-agent given only the property text and a scratch worktree of /repo; rebased by hand where a later fix: commit touched the same lines",
             "confirm": {k: (k in conf) for k in ("BUILD_OK", "SUITE_PASS_WITH_PATCH", "DEMO_FAILS_WITH_PATCH", "DEMO_PASSES_WITHOUT_PATCH")},
             "demonstration": "demo/ (go test files; see README.md)",
             "what_was_run": "tools/confirm_seed.sh (scratch worktree of /repo HEAD: go build, full suite twice with the patch, demo with and "
                             "without the patch) and tools/seeds.py check (patch applied to /repo's working tree, ./check <property> --tier quick, tree restored)",
             "checked_at_repo_head": chk.get("repo_head"),
             "checks": chk.get("runs", []),
             "caught": any(r["exit"] != 0 for r in chk.get("runs", []) if r["check"] == s.split("-")[0]),
             "caught_with_failing_input": any(r.get("with_failing_input") for r in chk.get("runs", []) if r["check"] == s.split("-")[0])}
        json.dump(m, open(d + "/meta.json", "w"), indent=1)
        print(s, "caught" if m["caught"] else "MISSED", "input" if m["caught_with_failing_input"] else "no-input", m["confirm"])


if __name__ == "__main__":
    {"confirm": confirm, "check": check, "meta": meta}[sys.argv[1]](seeds(sys.argv[2:]))

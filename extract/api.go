package main

import (
	"fmt"
	"go/ast"
	"go/token"
	"path/filepath"
	"sort"
	"strconv"
	"strings"
)

var httpStatus = map[string]int{
	"http.StatusOK": 200, "http.StatusCreated": 201, "http.StatusNoContent": 204,
	"http.StatusBadRequest": 400, "http.StatusForbidden": 403, "http.StatusNotFound": 404,
	"http.StatusMethodNotAllowed": 405, "http.StatusConflict": 409, "http.StatusInternalServerError": 500,
}

func statusOf(p *pkg, x ast.Expr) (int, bool) {
	if v, ok := httpStatus[show(p.fset, x)]; ok {
		return v, true
	}
	if v, ok := constInt(p.fset, x); ok {
		return int(v), true
	}
	return 0, false
}

func coqStr(s string) string { return "\"" + strings.ReplaceAll(s, "\"", "\"\"") + "\"%string" }

// extractAPI: api.go / toxic_collection.go / toxics registry
func extractAPI(repo string, o *out) {
	p, err := loadPkg(repo)
	if err != nil {
		p = &pkg{fset: token.NewFileSet(), files: map[string]*ast.File{}}
	}
	fs := p.fset

	// ---- error table: var ErrX = newError("msg", http.StatusY)
	errs := map[string]int{}
	for _, f := range p.files {
		ast.Inspect(f, func(n ast.Node) bool {
			vs, ok := n.(*ast.ValueSpec)
			if !ok || len(vs.Names) != 1 || len(vs.Values) != 1 {
				return true
			}
			if c, ok := isCall(fs, vs.Values[0], "newError"); ok && len(c.Args) == 2 {
				if v, ok := statusOf(p, c.Args[1]); ok {
					errs[vs.Names[0].Name] = v
				}
			}
			return true
		})
	}
	emitStatus := func(name, errName string, last int) {
		if v, ok := errs[errName]; ok {
			o.emit(name, "", "Z", strconv.Itoa(v), strconv.Itoa(last), errName, "")
		} else {
			o.emit(name, "", "Z", "", strconv.Itoa(last), errName, "")
		}
	}
	emitStatus("status_bad_request_body", "ErrBadRequestBody", 400)
	emitStatus("status_missing_field", "ErrMissingField", 400)
	emitStatus("status_proxy_not_found", "ErrProxyNotFound", 404)
	emitStatus("status_proxy_exists", "ErrProxyAlreadyExists", 409)
	emitStatus("status_invalid_stream", "ErrInvalidStream", 400)
	emitStatus("status_invalid_toxic_type", "ErrInvalidToxicType", 400)
	emitStatus("status_toxic_exists", "ErrToxicAlreadyExists", 409)
	emitStatus("status_toxic_not_found", "ErrToxicNotFound", 404)

	// ---- ApiServer.Listen: the http.Server bounds the time a client may take to send a request INCLUDING its body (ReadTimeout).
	// Handlers decode the body while holding the toxic collection lock, so without that bound one stalled upload freezes the proxy.
	rdl := ""
	if fd := p.method("ApiServer", "Listen"); fd != nil && fd.Body != nil {
		consts := map[string]int64{}
		for _, f := range p.files {
			ast.Inspect(f, func(n ast.Node) bool {
				if vs, ok := n.(*ast.ValueSpec); ok && len(vs.Names) == 1 && len(vs.Values) == 1 {
					if v, ok := constInt(fs, vs.Values[0]); ok {
						consts[vs.Names[0].Name] = v
					}
				}
				return true
			})
		}
		if n := find(fd.Body, func(x ast.Node) bool {
			cl, ok := x.(*ast.CompositeLit)
			return ok && show(fs, cl.Type) == "http.Server"
		}); n != nil {
			for _, e := range n.(*ast.CompositeLit).Elts {
				if kv, ok := e.(*ast.KeyValueExpr); ok && show(fs, kv.Key) == "ReadTimeout" {
					if v, ok := constInt(fs, kv.Value); ok {
						rdl = coqZ(v)
					} else if v, ok := consts[show(fs, kv.Value)]; ok {
						rdl = coqZ(v)
					}
				}
			}
		}
	}
	o.emit("api_body_read_deadline_ns", "", "Z", rdl, "15000000000", "", "")

	// ---- apiError: status of an error that is not an *ApiError
	internal := ""
	if fd := p.method("ApiServer", "apiError"); fd != nil {
		if n := find(fd.Body, func(x ast.Node) bool {
			cl, ok := x.(*ast.CompositeLit)
			return ok && show(fs, cl.Type) == "ApiError" && len(cl.Elts) == 2
		}); n != nil {
			if v, ok := statusOf(p, n.(*ast.CompositeLit).Elts[1]); ok {
				internal = strconv.Itoa(v)
			}
		}
	}
	o.emit("status_internal", "", "Z", internal, "500", "", "")

	// ---- success statuses: WriteHeader literal in the handler, default 200
	writeHeader := func(handler string) string {
		fd := p.method("ApiServer", handler)
		if fd == nil {
			return ""
		}
		n := find(fd.Body, func(x ast.Node) bool {
			c, ok := x.(*ast.CallExpr)
			return ok && strings.HasSuffix(show(fs, c.Fun), ".WriteHeader") && len(c.Args) == 1
		})
		if n == nil {
			return "200"
		}
		a := n.(*ast.CallExpr).Args[0]
		if v, ok := statusOf(p, a); ok {
			return strconv.Itoa(v)
		}
		// responseCode := http.StatusCreated ...
		if id, ok := a.(*ast.Ident); ok {
			if r := p.assignRHS(fd.Body, id.Name); r != nil {
				if v, ok := statusOf(p, r); ok {
					return strconv.Itoa(v)
				}
			}
		}
		return ""
	}
	okAll := true
	for _, h := range []string{"ProxyIndex", "ProxyShow", "ProxyUpdate", "ToxicIndex", "ToxicCreate", "ToxicShow", "ToxicUpdate", "Version"} {
		if writeHeader(h) != "200" {
			okAll = false
		}
	}
	if okAll {
		o.emit("status_ok", "", "Z", "200", "200", "", "")
	} else {
		o.emit("status_ok", "", "Z", "", "200", "", "a read/update handler sets a non-default status")
	}
	cr, po := writeHeader("ProxyCreate"), writeHeader("Populate")
	if cr == po {
		o.emit("status_created", "", "Z", cr, "201", "", "")
	} else {
		o.emit("status_created", "", "Z", "", "201", "", "ProxyCreate and Populate disagree")
	}
	d1, d2, d3 := writeHeader("ProxyDelete"), writeHeader("ToxicDelete"), writeHeader("ResetState")
	if d1 == d2 && d2 == d3 {
		o.emit("status_no_content", "", "Z", d1, "204", "", "")
	} else {
		o.emit("status_no_content", "", "Z", "", "204", "", "delete/reset handlers disagree")
	}
	// gorilla/mux + net/http behaviour for unmatched paths / methods (library constants)
	o.emit("status_not_found", "", "Z", "404", "404", "", "gorilla/mux NotFoundHandler")
	o.emit("status_method_not_allowed", "", "Z", "405", "405", "", "gorilla/mux MethodNotAllowedHandler")

	// ---- browser middleware
	forb := ""
	inUse := false
	if fd := p.method("", "stopBrowsersMiddleware"); fd != nil {
		if n := find(fd.Body, func(x ast.Node) bool { _, ok := isCall(fs, x, "http.Error"); return ok }); n != nil {
			if v, ok := statusOf(p, n.(*ast.CallExpr).Args[2]); ok {
				forb = strconv.Itoa(v)
			}
		}
	}
	routes := ""
	if fd := p.method("ApiServer", "Routes"); fd != nil {
		var rows []string
		for _, st := range fd.Body.List {
			es, ok := st.(*ast.ExprStmt)
			if !ok {
				continue
			}
			s := show(fs, es.X)
			if strings.Contains(s, ".Use(stopBrowsersMiddleware)") {
				inUse = true
			}
			// r.HandleFunc("/path", server.H).Methods("A", "B").Name("N")
			var path, handler string
			var methods []string
			ast.Inspect(es.X, func(n ast.Node) bool {
				c, ok := n.(*ast.CallExpr)
				if !ok {
					return true
				}
				f := show(fs, c.Fun)
				switch {
				case strings.HasSuffix(f, ".HandleFunc") && len(c.Args) == 2:
					path, _ = strconv.Unquote(show(fs, c.Args[0]))
					handler = strings.TrimPrefix(show(fs, c.Args[1]), "server.")
				case strings.HasSuffix(f, ".Methods"):
					for _, a := range c.Args {
						m, _ := strconv.Unquote(show(fs, a))
						methods = append(methods, m)
					}
				}
				return true
			})
			if path != "" && handler != "" && len(methods) > 0 {
				var segs []string
				for _, sg := range strings.Split(strings.Trim(path, "/"), "/") {
					segs = append(segs, coqStr(sg))
				}
				var ms []string
				for _, m := range methods {
					ms = append(ms, coqStr(m))
				}
				rows = append(rows, fmt.Sprintf("([%s], [%s], %s)", strings.Join(segs, "; "), strings.Join(ms, "; "), coqStr(handler)))
			}
		}
		if len(rows) > 0 {
			routes = "[" + strings.Join(rows, ";\n  ") + "]"
		}
	}
	if !inUse {
		forb = "" // middleware not installed: the model's 403 rule no longer describes the code
	}
	o.emit("status_browser_forbidden", "", "Z", forb, "403", "", "")
	o.emit("routes", "", "list (list string * list string * string)", routes, "[]", "", "")

	// ---- defaults
	ce := ""
	if fd := p.method("ApiServer", "ProxyCreate"); fd != nil {
		if n := find(fd.Body, func(x ast.Node) bool {
			cl, ok := x.(*ast.CompositeLit)
			return ok && show(fs, cl.Type) == "Proxy"
		}); n != nil {
			ce = "false"
			for _, e := range n.(*ast.CompositeLit).Elts {
				if kv, ok := e.(*ast.KeyValueExpr); ok && show(fs, kv.Key) == "Enabled" {
					ce = show(fs, kv.Value)
				}
			}
		}
	}
	o.emit("create_enabled_default", "", "bool", ce, "true", "", "")
	sd, td, inPlace := "", "", ""
	if fd := p.method("ToxicCollection", "AddToxicJson"); fd != nil {
		if n := find(fd.Body, func(x ast.Node) bool {
			cl, ok := x.(*ast.CompositeLit)
			return ok && strings.HasSuffix(show(fs, cl.Type), "ToxicWrapper")
		}); n != nil {
			sd, td = coqStr(""), "0"
			for _, e := range n.(*ast.CompositeLit).Elts {
				if kv, ok := e.(*ast.KeyValueExpr); ok {
					switch show(fs, kv.Key) {
					case "Stream":
						s, _ := strconv.Unquote(show(fs, kv.Value))
						sd = coqStr(s)
					case "Toxicity":
						if f, err := strconv.ParseFloat(show(fs, kv.Value), 64); err == nil && f*1024 == float64(int64(f*1024)) {
							td = strconv.FormatInt(int64(f*1024), 10)
						} else {
							td = ""
						}
					}
				}
			}
		}
	}
	o.emit("toxic_stream_default", "", "string", sd, coqStr("downstream"), "", "")
	o.emit("toxic_toxicity_default_1024", "", "Z", td, "1024", "", "")
	if fd := p.method("ToxicCollection", "UpdateToxicJson"); fd != nil {
		// the decode target: struct{ Attributes interface{}; Toxicity float32 }{ X, ... } - is X the live toxic object?
		if n := find(fd.Body, func(x ast.Node) bool {
			cl, ok := x.(*ast.CompositeLit)
			if !ok {
				return false
			}
			_, isStruct := cl.Type.(*ast.StructType)
			return isStruct && len(cl.Elts) >= 1
		}); n != nil {
			first := n.(*ast.CompositeLit).Elts[0]
			if kv, ok := first.(*ast.KeyValueExpr); ok {
				first = kv.Value
			}
			if strings.HasSuffix(show(fs, first), ".Toxic") {
				inPlace = "true"
			} else {
				inPlace = "false"
			}
		}
	}
	o.emit("update_in_place", "", "bool", inPlace, "false", "", "")

	// ---- toxic registry: Register("name", new(T)) + json tags of T's fields
	tp, err := loadPkg(filepath.Join(repo, "toxics"))
	reg := ""
	if err == nil {
		types := map[string][]string{}
		regs := map[string]string{}
		for _, f := range tp.files {
			ast.Inspect(f, func(n ast.Node) bool {
				switch x := n.(type) {
				case *ast.TypeSpec:
					if st, ok := x.Type.(*ast.StructType); ok {
						var fields []string
						for _, fl := range st.Fields.List {
							if fl.Tag == nil {
								continue
							}
							tag, _ := strconv.Unquote(fl.Tag.Value)
							if i := strings.Index(tag, `json:"`); i >= 0 {
								name := tag[i+6:]
								name = name[:strings.Index(name, `"`)]
								name = strings.Split(name, ",")[0]
								if name != "" && name != "-" {
									fields = append(fields, name)
								}
							}
						}
						types[x.Name.Name] = fields
					}
				case *ast.CallExpr:
					if show(tp.fset, x.Fun) == "Register" && len(x.Args) == 2 {
						nm, _ := strconv.Unquote(show(tp.fset, x.Args[0]))
						if c, ok := x.Args[1].(*ast.CallExpr); ok && show(tp.fset, c.Fun) == "new" && len(c.Args) == 1 {
							regs[nm] = show(tp.fset, c.Args[0])
						}
					}
				}
				return true
			})
		}
		var names []string
		for k := range regs {
			names = append(names, k)
		}
		sort.Strings(names)
		var rows []string
		for _, k := range names {
			var fl []string
			for _, f := range types[regs[k]] {
				fl = append(fl, coqStr(f))
			}
			rows = append(rows, fmt.Sprintf("(%s, [%s])", coqStr(k), strings.Join(fl, "; ")))
		}
		if len(rows) > 0 {
			reg = "[" + strings.Join(rows, ";\n  ") + "]"
		}
	}
	o.emit("toxic_fields", "", "list (string * list string)", reg, "[]", "", "")
}

package main

import (
	"go/ast"
	"go/token"
	"path/filepath"
	"strings"
)

// extractOps: the shape of the reconfiguration operations that Model/ReconfRun.v writes by hand
//
//	update_writes_before_interrupt — UpdateToxicJson stores the new attributes and the new toxicity before it calls chainUpdateToxic
//	update_always_restarts         — ... and calls it unconditionally, in the same block
//	interrupt_is_unbounded         — InterruptToxic is a select of exactly {<-closed: false | Interrupt <- : wait for running, true}
//	ops_use_plain_interrupt        — AddToxic / UpdateToxic / RemoveToxic reach stages only through InterruptToxic()
//	run_decides_on_every_start     — Run draws rand.Float32() on every start and compares it with toxic.Toxicity (no remembered outcome)
//	add_connects_after_interrupt   — AddToxic re-points the last stub's Output and starts both stages only inside `if InterruptToxic()`
func extractOps(repo string, o *out) {
	p, err := loadPkg(repo)
	if err != nil {
		p = &pkg{files: map[string]*ast.File{}}
	}
	fs := p.fset
	tp, err := loadPkg(filepath.Join(repo, "toxics"))
	if err != nil {
		tp = &pkg{files: map[string]*ast.File{}}
	}
	tfs := tp.fset

	// ---- UpdateToxicJson
	wb := ""
	if fd := p.method("ToxicCollection", "UpdateToxicJson"); fd != nil && fd.Body != nil {
		var setPos, toxPos, chainPos token.Pos
		ast.Inspect(fd.Body, func(n ast.Node) bool {
			switch x := n.(type) {
			case *ast.CallExpr:
				f := show(fs, x.Fun)
				if strings.HasSuffix(f, ".Set") && setPos == 0 {
					setPos = x.Pos()
				}
				if strings.HasSuffix(f, ".chainUpdateToxic") && chainPos == 0 {
					chainPos = x.Pos()
				}
			case *ast.AssignStmt:
				if len(x.Lhs) == 1 && strings.HasSuffix(show(fs, x.Lhs[0]), ".Toxicity") && toxPos == 0 {
					toxPos = x.Pos()
				}
			}
			return true
		})
		if chainPos != 0 {
			wb = boolS(setPos != 0 && toxPos != 0 && setPos < chainPos && toxPos < chainPos)
		}
	}
	o.emit("update_writes_before_interrupt", "", "bool", wb, "true", "", "")

	// update_always_restarts: the call of chainUpdateToxic is a statement of the same block as the write of the new toxicity - it is not
	// made to depend on what changed (a stage reads some attributes only when it starts: reset_peer's timeout, the toxicity decision)
	ar := ""
	if fd := p.method("ToxicCollection", "UpdateToxicJson"); fd != nil && fd.Body != nil {
		found := false
		ast.Inspect(fd.Body, func(n ast.Node) bool {
			b, ok := n.(*ast.BlockStmt)
			if !ok {
				return true
			}
			wrote, set := false, false
			for _, st := range b.List {
				if as, ok := st.(*ast.AssignStmt); ok && len(as.Lhs) == 1 && strings.HasSuffix(show(fs, as.Lhs[0]), ".Toxicity") {
					wrote = true
				}
				if es, ok := st.(*ast.ExprStmt); ok {
					if c, ok := es.X.(*ast.CallExpr); ok {
						if strings.HasSuffix(show(fs, c.Fun), ".Set") {
							set = true // the attribute write
						}
						if strings.HasSuffix(show(fs, c.Fun), ".chainUpdateToxic") && wrote && set {
							found = true
						}
					}
				}
			}
			return true
		})
		if wb != "" {
			ar = boolS(found)
		}
	}
	o.emit("update_always_restarts", "", "bool", ar, "true", "", "")

	// ---- InterruptToxic
	unb := ""
	if fd := tp.method("ToxicStub", "InterruptToxic"); fd != nil && fd.Body != nil {
		if len(fd.Body.List) == 1 {
			if sel, ok := fd.Body.List[0].(*ast.SelectStmt); ok && len(sel.Body.List) == 2 {
				okClosed, okIntr := false, false
				for _, c := range sel.Body.List {
					cc := c.(*ast.CommClause)
					comm := ""
					if cc.Comm != nil {
						comm = show(tfs, cc.Comm)
					}
					body := ""
					for _, st := range cc.Body {
						body += show(tfs, st) + ";"
					}
					if strings.Contains(comm, "<-") && strings.HasSuffix(comm, ".closed") && body == "return false;" {
						okClosed = true
					}
					if strings.Contains(comm, ".Interrupt <-") && strings.Contains(body, ".running") && strings.HasSuffix(body, "return true;") {
						okIntr = true
					}
				}
				unb = boolS(okClosed && okIntr)
			} else {
				unb = "false"
			}
		} else {
			unb = "false"
		}
	}
	o.emit("interrupt_is_unbounded", "", "bool", unb, "true", "", "")

	// ---- the link operations reach the stages through InterruptToxic() only
	plain := ""
	{
		found, bad := 0, 0
		for _, name := range []string{"AddToxic", "UpdateToxic", "RemoveToxic"} {
			fd := p.method("ToxicLink", name)
			if fd == nil || fd.Body == nil {
				bad++
				continue
			}
			ast.Inspect(fd.Body, func(n ast.Node) bool {
				if c, ok := n.(*ast.CallExpr); ok {
					if se, ok := c.Fun.(*ast.SelectorExpr); ok && strings.HasPrefix(se.Sel.Name, "Interrupt") {
						// (AddToxic 1, UpdateToxic 1, RemoveToxic 2: its own stub and, from the helper goroutine, the previous one)
						if se.Sel.Name == "InterruptToxic" && len(c.Args) == 0 {
							found++
						} else {
							bad++
						}
					}
				}
				return true
			})
		}
		if found > 0 || bad > 0 {
			plain = boolS(found >= 4 && bad == 0)
		}
	}
	o.emit("ops_use_plain_interrupt", "", "bool", plain, "true", "", "")

	// ---- Run
	every := ""
	if fd := tp.method("ToxicStub", "Run"); fd != nil && fd.Body != nil {
		draws := 0
		var ifs []*ast.IfStmt
		ast.Inspect(fd.Body, func(n ast.Node) bool {
			switch x := n.(type) {
			case *ast.CallExpr:
				if show(tfs, x.Fun) == "rand.Float32" {
					draws++
				}
			case *ast.IfStmt:
				ifs = append(ifs, x)
			}
			return true
		})
		okIf := len(ifs) == 1 && strings.Contains(show(tfs, ifs[0].Cond), ".Toxicity") && ifs[0].Else != nil
		// the stub must not carry a remembered decision: no assignment to a field of the receiver other than running
		memo := false
		recv := recvName(fd)
		ast.Inspect(fd.Body, func(n ast.Node) bool {
			if a, ok := n.(*ast.AssignStmt); ok {
				for _, l := range a.Lhs {
					s := show(tfs, l)
					if strings.HasPrefix(s, recv+".") && s != recv+".running" {
						memo = true
					}
				}
			}
			return true
		})
		every = boolS(draws == 1 && okIf && !memo)
	}
	o.emit("run_decides_on_every_start", "", "bool", every, "true", "", "")

	// ---- AddToxic
	conn := ""
	if fd := p.method("ToxicLink", "AddToxic"); fd != nil && fd.Body != nil {
		for _, st := range fd.Body.List {
			if is, ok := st.(*ast.IfStmt); ok && strings.HasSuffix(show(fs, is.Cond), ".InterruptToxic()") {
				outAssign, gos := false, 0
				ast.Inspect(is.Body, func(n ast.Node) bool {
					switch x := n.(type) {
					case *ast.AssignStmt:
						if len(x.Lhs) == 1 && strings.HasSuffix(show(fs, x.Lhs[0]), ".Output") {
							outAssign = true
						}
					case *ast.GoStmt:
						if strings.HasSuffix(show(fs, x.Call.Fun), ".Run") {
							gos++
						}
					}
					return true
				})
				// nothing starts a stage outside that branch
				outside := 0
				ast.Inspect(fd.Body, func(n ast.Node) bool {
					if g, ok := n.(*ast.GoStmt); ok && strings.HasSuffix(show(fs, g.Call.Fun), ".Run") {
						if g.Pos() < is.Body.Pos() || g.End() > is.Body.End() {
							outside++
						}
					}
					return true
				})
				conn = boolS(outAssign && gos == 2 && outside == 0)
			}
		}
		if conn == "" {
			conn = "false"
		}
	}
	o.emit("add_connects_after_interrupt", "", "bool", conn, "true", "", "")
}

package main

import (
	"go/ast"
	"path/filepath"
	"strings"
)

// extractLink: link.go items
//
//	start_sets_linger_before_writer — Start calls SetLinger(0) on source and dest (for a ResetToxic in the chain) before `go link.write`
//	sent_counted_on_error           — whether write() adds to the sent counter also when io.Copy failed
//	metric_labels                   — the label values of the two counters, in order
//	remove_flush_timeout_ns         — the WriteOutput timeout used while removing a toxic
func extractLink(repo string, o *out) {
	p, err := loadPkg(repo)
	if err != nil {
		p = &pkg{files: map[string]*ast.File{}}
	}
	fs := p.fset
	// ---- Start
	linger, labels := "", ""
	if fd := p.method("ToxicLink", "Start"); fd != nil && fd.Body != nil {
		var lingerPos []ast.Node
		var writerGo ast.Node
		ast.Inspect(fd.Body, func(n ast.Node) bool {
			switch x := n.(type) {
			case *ast.CallExpr:
				if strings.HasSuffix(show(fs, x.Fun), ".SetLinger") && len(x.Args) == 1 && show(fs, x.Args[0]) == "0" {
					lingerPos = append(lingerPos, x)
				}
			case *ast.GoStmt:
				if strings.HasSuffix(show(fs, x.Call.Fun), ".write") {
					writerGo = x
				}
			}
			return true
		})
		if writerGo != nil {
			ok := len(lingerPos) >= 2
			src, dst := false, false
			for _, c := range lingerPos {
				if c.End() > writerGo.Pos() {
					ok = false
				}
				s := show(fs, c)
				if strings.HasPrefix(s, "source") {
					src = true
				}
				if strings.HasPrefix(s, "dest") {
					dst = true
				}
			}
			linger = boolS(ok && src && dst)
		}
		if n := find(fd.Body, func(x ast.Node) bool {
			a, ok := x.(*ast.AssignStmt)
			return ok && len(a.Lhs) == 1 && show(fs, a.Lhs[0]) == "labels"
		}); n != nil {
			if cl, ok := n.(*ast.AssignStmt).Rhs[0].(*ast.CompositeLit); ok {
				var parts []string
				for _, e := range cl.Elts {
					s := show(fs, e)
					s = strings.TrimPrefix(s, "link.")
					if s == "Direction()" {
						s = "direction"
					}
					parts = append(parts, "\""+s+"\"")
				}
				labels = "[" + strings.Join(parts, "; ") + "]%string"
			}
		}
	}
	o.emit("start_sets_linger_before_writer", "", "bool", linger, "true", "", "")
	o.emit("metric_labels", "", "list string", labels, "[\"direction\"; \"proxy.Name\"; \"proxy.Listen\"; \"proxy.Upstream\"]%string", "", "")

	// ---- write
	sentOnErr := ""
	if fd := p.method("ToxicLink", "write"); fd != nil && fd.Body != nil {
		var addCall ast.Node
		ast.Inspect(fd.Body, func(n ast.Node) bool {
			if c, ok := n.(*ast.CallExpr); ok && strings.Contains(show(fs, c.Fun), "SentBytesTotal") && strings.HasSuffix(show(fs, c.Fun), ".Add") {
				addCall = c
			}
			return true
		})
		if addCall != nil {
			// is the Add inside the else-branch (or a negated test) of an `err != nil` if?
			guarded := false
			ast.Inspect(fd.Body, func(n ast.Node) bool {
				if s, ok := n.(*ast.IfStmt); ok {
					c := show(fs, s.Cond)
					if c == "err != nil" && s.Else != nil && s.Else.Pos() <= addCall.Pos() && addCall.End() <= s.Else.End() {
						guarded = true
					}
					if c == "err == nil" && s.Body.Pos() <= addCall.Pos() && addCall.End() <= s.Body.End() {
						guarded = true
					}
				}
				return true
			})
			sentOnErr = boolS(!guarded)
		}
	}
	o.emit("sent_counted_on_error", "", "bool", sentOnErr, "false", "", "")

	// ---- RemoveToxic flush timeout
	rm := ""
	if fd := p.method("ToxicLink", "RemoveToxic"); fd != nil && fd.Body != nil {
		vals := map[string]bool{}
		ast.Inspect(fd.Body, func(n ast.Node) bool {
			if c, ok := n.(*ast.CallExpr); ok && strings.HasSuffix(show(fs, c.Fun), ".WriteOutput") && len(c.Args) == 2 {
				if v, ok := constInt(fs, c.Args[1]); ok {
					vals[coqZ(v)] = true
				} else {
					vals["?"] = true
				}
			}
			return true
		})
		if len(vals) == 1 {
			for k := range vals {
				if k != "?" {
					rm = k
				}
			}
		}
	}
	o.emit("remove_flush_timeout_ns", "", "Z", rm, "5000000000", "", "")

	// ---- RemoveToxic: does every way out drop the stub of the removed toxic from link.stubs?
	// (a splice is `link.stubs = append(link.stubs[:i], link.stubs[i+1:]...)` or a call to a method whose body is that)
	splices := ""
	if fd := p.method("ToxicLink", "RemoveToxic"); fd != nil && fd.Body != nil {
		isSpliceAssign := func(st ast.Stmt) bool {
			a, ok := st.(*ast.AssignStmt)
			return ok && len(a.Lhs) == 1 && show(fs, a.Lhs[0]) == "link.stubs" && strings.HasPrefix(show(fs, a.Rhs[0]), "append(link.stubs[:")
		}
		helpers := map[string]bool{}
		for _, f := range p.files {
			for _, d := range f.Decls {
				if hd, ok := d.(*ast.FuncDecl); ok && hd.Recv != nil && hd.Body != nil && len(hd.Body.List) == 1 && isSpliceAssign(hd.Body.List[0]) {
					helpers["link."+hd.Name.Name] = true
				}
			}
		}
		isSplice := func(st ast.Stmt) bool {
			if isSpliceAssign(st) {
				return true
			}
			if es, ok := st.(*ast.ExprStmt); ok {
				if c, ok := es.X.(*ast.CallExpr); ok && helpers[show(fs, c.Fun)] {
					return true
				}
			}
			return false
		}
		ok := true
		nret := 0
		var walk func(list []ast.Stmt)
		walk = func(list []ast.Stmt) {
			for i, st := range list {
				switch x := st.(type) {
				case *ast.ReturnStmt:
					nret++
					if i == 0 || !isSplice(list[i-1]) {
						ok = false
					}
				case *ast.IfStmt:
					walk(x.Body.List)
					if b, isb := x.Else.(*ast.BlockStmt); isb {
						walk(b.List)
					} else if e, ise := x.Else.(*ast.IfStmt); ise {
						walk([]ast.Stmt{e})
					}
				case *ast.ForStmt:
					walk(x.Body.List)
				case *ast.BlockStmt:
					walk(x.List)
				case *ast.SelectStmt:
					for _, cc := range x.Body.List {
						walk(cc.(*ast.CommClause).Body)
					}
				}
			}
		}
		walk(fd.Body.List)
		// the main `if link.stubs[i].InterruptToxic() { ... }`: both branches must contain a splice at their end
		var mainIf *ast.IfStmt
		for _, st := range fd.Body.List {
			if is, isif := st.(*ast.IfStmt); isif && strings.Contains(show(fs, is.Cond), "InterruptToxic()") {
				mainIf = is
			}
		}
		if mainIf == nil {
			ok = false
		} else {
			hasSplice := func(list []ast.Stmt) bool {
				for _, st := range list {
					if isSplice(st) {
						return true
					}
				}
				return false
			}
			if !hasSplice(mainIf.Body.List) {
				ok = false
			}
			eb, isb := mainIf.Else.(*ast.BlockStmt)
			if !isb || !hasSplice(eb.List) {
				ok = false
			}
		}
		splices = boolS(ok)
	}
	o.emit("remove_always_splices", "", "bool", splices, "true", "", "")
	_ = filepath.Join
}

package main

import (
	"go/ast"
	"path/filepath"
	"strings"
)

// extractLink: link.go items
//
//	start_sets_linger_before_writer — Start calls SetLinger(0) on source and dest (for a ResetToxic in the chain) before `go link.write`
//	sent_counted_on_error           — whether write() adds to the sent counter also when io.Copy failed
//	metric_labels                   — the label values of the two counters, in order
//	remove_flush_timeout_ns         — the WriteOutput timeout used while removing a toxic
//	state_created_only_for_new_stubs — NewState() is reached for the stubs Start creates and the one AddToxic appends, never on a restart
//	remove_cleanup_before_flush     — RemoveToxic runs Cleanup and returns on a closed stub before any forwarding past the removed toxic
func extractLink(repo string, o *out) {
	p, err := loadPkg(repo)
	if err != nil {
		p = &pkg{files: map[string]*ast.File{}}
	}
	fs := p.fset
	// ---- Start
	linger, labels := "", ""
	if fd := p.method("ToxicLink", "Start"); fd != nil && fd.Body != nil {
		var lingerPos []ast.Node
		var writerGo ast.Node
		ast.Inspect(fd.Body, func(n ast.Node) bool {
			switch x := n.(type) {
			case *ast.CallExpr:
				if strings.HasSuffix(show(fs, x.Fun), ".SetLinger") && len(x.Args) == 1 && show(fs, x.Args[0]) == "0" {
					lingerPos = append(lingerPos, x)
				}
			case *ast.GoStmt:
				if strings.HasSuffix(show(fs, x.Call.Fun), ".write") {
					writerGo = x
				}
			}
			return true
		})
		if writerGo != nil {
			ok := len(lingerPos) >= 2
			src, dst := false, false
			for _, c := range lingerPos {
				if c.End() > writerGo.Pos() {
					ok = false
				}
				s := show(fs, c)
				if strings.HasPrefix(s, "source") {
					src = true
				}
				if strings.HasPrefix(s, "dest") {
					dst = true
				}
			}
			linger = boolS(ok && src && dst)
		}
		if n := find(fd.Body, func(x ast.Node) bool {
			a, ok := x.(*ast.AssignStmt)
			return ok && len(a.Lhs) == 1 && show(fs, a.Lhs[0]) == "labels"
		}); n != nil {
			if cl, ok := n.(*ast.AssignStmt).Rhs[0].(*ast.CompositeLit); ok {
				var parts []string
				for _, e := range cl.Elts {
					s := show(fs, e)
					s = strings.TrimPrefix(s, "link.")
					if s == "Direction()" {
						s = "direction"
					}
					parts = append(parts, "\""+s+"\"")
				}
				labels = "[" + strings.Join(parts, "; ") + "]%string"
			}
		}
	}
	o.emit("start_sets_linger_before_writer", "", "bool", linger, "true", "", "")
	o.emit("metric_labels", "", "list string", labels, "[\"direction\"; \"proxy.Name\"; \"proxy.Listen\"; \"proxy.Upstream\"]%string", "", "")

	// ---- write
	sentOnErr := ""
	if fd := p.method("ToxicLink", "write"); fd != nil && fd.Body != nil {
		var addCall ast.Node
		ast.Inspect(fd.Body, func(n ast.Node) bool {
			if c, ok := n.(*ast.CallExpr); ok && strings.Contains(show(fs, c.Fun), "SentBytesTotal") && strings.HasSuffix(show(fs, c.Fun), ".Add") {
				addCall = c
			}
			return true
		})
		if addCall != nil {
			// is the Add inside the else-branch (or a negated test) of an `err != nil` if?
			guarded := false
			ast.Inspect(fd.Body, func(n ast.Node) bool {
				if s, ok := n.(*ast.IfStmt); ok {
					c := show(fs, s.Cond)
					if c == "err != nil" && s.Else != nil && s.Else.Pos() <= addCall.Pos() && addCall.End() <= s.Else.End() {
						guarded = true
					}
					if c == "err == nil" && s.Body.Pos() <= addCall.Pos() && addCall.End() <= s.Body.End() {
						guarded = true
					}
				}
				return true
			})
			sentOnErr = boolS(!guarded)
		}
	}
	// sent_counted_on_every_clean_end: ... and on a clean end nothing but the metrics switch stands between the copy and the Add: the else
	// of `err != nil` is directly the `if <metrics enabled>` that holds the Add (no further condition on the link or its stubs)
	everyClean := ""
	if fd := p.method("ToxicLink", "write"); fd != nil && fd.Body != nil {
		ast.Inspect(fd.Body, func(n ast.Node) bool {
			s, ok := n.(*ast.IfStmt)
			if !ok || show(fs, s.Cond) != "err != nil" || s.Else == nil {
				return true
			}
			hasAdd := func(b ast.Node) bool {
				return find(b, func(x ast.Node) bool {
					c, ok := x.(*ast.CallExpr)
					return ok && strings.Contains(show(fs, c.Fun), "SentBytesTotal") && strings.HasSuffix(show(fs, c.Fun), ".Add")
				}) != nil
			}
			switch e := s.Else.(type) {
			case *ast.IfStmt:
				everyClean = boolS(strings.HasSuffix(show(fs, e.Cond), "proxyMetricsEnabled()") && hasAdd(e.Body) && !strings.Contains(show(fs, e.Cond), "&&"))
			case *ast.BlockStmt:
				everyClean = boolS(hasAdd(e))
			}
			return true
		})
	}
	o.emit("sent_counted_on_every_clean_end", "", "bool", everyClean, "true", "", "")
	o.emit("sent_counted_on_error", "", "bool", sentOnErr, "false", "", "")

	// ---- RemoveToxic flush timeout
	rm := ""
	if fd := p.method("ToxicLink", "RemoveToxic"); fd != nil && fd.Body != nil {
		vals := map[string]bool{}
		ast.Inspect(fd.Body, func(n ast.Node) bool {
			if c, ok := n.(*ast.CallExpr); ok && strings.HasSuffix(show(fs, c.Fun), ".WriteOutput") && len(c.Args) == 2 {
				if v, ok := constInt(fs, c.Args[1]); ok {
					vals[coqZ(v)] = true
				} else {
					vals["?"] = true
				}
			}
			return true
		})
		if len(vals) == 1 {
			for k := range vals {
				if k != "?" {
					rm = k
				}
			}
		}
	}
	o.emit("remove_flush_timeout_ns", "", "Z", rm, "5000000000", "", "")

	// ---- a link leaves the collection (RemoveLink) only from write(), i.e. after the destination was closed: until then every
	// chain operation (add / update / remove / reset) reaches it, also when its source has already hit EOF and toxics still hold data
	unreg := ""
	{
		callers := map[string]bool{}
		for _, f := range p.files {
			for _, d := range f.Decls {
				fd, ok := d.(*ast.FuncDecl)
				if !ok || fd.Body == nil || fd.Recv == nil || recvType(fd) != "ToxicLink" {
					continue
				}
				if find(fd.Body, func(x ast.Node) bool {
					c, ok := x.(*ast.CallExpr)
					return ok && strings.HasSuffix(show(fs, c.Fun), ".RemoveLink")
				}) != nil {
					callers[fd.Name.Name] = true
				}
			}
		}
		if w := p.method("ToxicLink", "write"); w != nil && len(callers) > 0 {
			unreg = boolS(len(callers) == 1 && callers["write"])
		}
	}
	o.emit("link_unregistered_only_by_writer", "", "bool", unreg, "true", "", "")

	// reader_closes_only_its_input: ToxicLink.read copies the source into the chain and then closes the chain's input - it closes nothing
	// else (not the destination) and waits for nothing (no timer, no select): the end of the stream reaches the receiver only through
	// the chain, behind the data
	rdr := ""
	if fd := p.method("ToxicLink", "read"); fd != nil && fd.Body != nil {
		closes, other, waits := 0, false, false
		ast.Inspect(fd.Body, func(n ast.Node) bool {
			switch x := n.(type) {
			case *ast.CallExpr:
				f := show(fs, x.Fun)
				if strings.HasSuffix(f, ".Close") {
					if f == "link.input.Close" {
						closes++
					} else {
						other = true
					}
				}
				if strings.HasPrefix(f, "time.") {
					waits = true
				}
			case *ast.SelectStmt, *ast.GoStmt:
				waits = true
			}
			return true
		})
		rdr = boolS(closes == 1 && !other && !waits)
	}
	o.emit("reader_closes_only_its_input", "", "bool", rdr, "true", "", "")

	// ---- per-connection toxic state (limit_data's byte counter) is created for NEW stubs only: NewState() is reached from Start
	// (every stub is new) and from AddToxic for the stub it appends (index i := len(link.stubs)), never from the restarts of
	// existing stubs in AddToxic / UpdateToxic / RemoveToxic, directly or through a helper method
	created := ""
	{
		callsNewState := func(n ast.Node) bool {
			return find(n, func(x ast.Node) bool {
				c, ok := x.(*ast.CallExpr)
				return ok && strings.HasSuffix(show(fs, c.Fun), ".NewState")
			}) != nil
		}
		helpers := map[string]bool{}
		for _, f := range p.files {
			for _, d := range f.Decls {
				fd, ok := d.(*ast.FuncDecl)
				if !ok || fd.Body == nil || fd.Recv == nil {
					continue
				}
				if fd.Name.Name != "Start" && fd.Name.Name != "AddToxic" && callsNewState(fd.Body) {
					helpers[fd.Name.Name] = true
				}
			}
		}
		usesHelper := func(n ast.Node) []*ast.CallExpr {
			var res []*ast.CallExpr
			ast.Inspect(n, func(x ast.Node) bool {
				if c, ok := x.(*ast.CallExpr); ok {
					if sel, ok := c.Fun.(*ast.SelectorExpr); ok && helpers[sel.Sel.Name] {
						res = append(res, c)
					}
				}
				return true
			})
			return res
		}
		start, add := p.method("ToxicLink", "Start"), p.method("ToxicLink", "AddToxic")
		upd, rem := p.method("ToxicLink", "UpdateToxic"), p.method("ToxicLink", "RemoveToxic")
		if start != nil && add != nil && upd != nil && rem != nil && start.Body != nil && add.Body != nil && upd.Body != nil && rem.Body != nil {
			ok := true
			for _, fd := range []*ast.FuncDecl{upd, rem} {
				if callsNewState(fd.Body) || len(usesHelper(fd.Body)) > 0 {
					ok = false
				}
			}
			// AddToxic: the new index is  i := len(link.stubs)  taken before the append
			newIdx := ""
			if a := find(add.Body, func(x ast.Node) bool {
				as, ok := x.(*ast.AssignStmt)
				return ok && len(as.Rhs) == 1 && show(fs, as.Rhs[0]) == "len(link.stubs)"
			}); a != nil {
				newIdx = show(fs, a.(*ast.AssignStmt).Lhs[0])
			}
			if newIdx == "" {
				ok = false
			}
			ast.Inspect(add.Body, func(x ast.Node) bool {
				if as, isA := x.(*ast.AssignStmt); isA && len(as.Rhs) == 1 && callsNewState(as.Rhs[0]) {
					if show(fs, as.Lhs[0]) != "link.stubs["+newIdx+"].State" {
						ok = false
					}
				}
				return true
			})
			for _, c := range usesHelper(add.Body) {
				if len(c.Args) == 0 || show(fs, c.Args[0]) != newIdx {
					ok = false
				}
			}
			if !callsNewState(start.Body) && len(usesHelper(start.Body)) == 0 {
				ok = false // Start no longer creates the state at all
			}
			created = boolS(ok)
		}
	}
	o.emit("state_created_only_for_new_stubs", "", "bool", created, "true", "", "")

	// ---- RemoveToxic: Cleanup (which closes a timeout toxic's stub) runs, and the function returns when the stub got closed,
	// before anything can be forwarded past the removed toxic: before the first WriteOutput and before the previous stub is interrupted
	cbf := ""
	if fd := p.method("ToxicLink", "RemoveToxic"); fd != nil && fd.Body != nil {
		var cleanup, firstWrite, firstGo ast.Node
		var retAfterClosed bool
		ast.Inspect(fd.Body, func(n ast.Node) bool {
			switch x := n.(type) {
			case *ast.CallExpr:
				f := show(fs, x.Fun)
				if strings.HasSuffix(f, ".Cleanup") && cleanup == nil {
					cleanup = x
				}
				if strings.HasSuffix(f, ".WriteOutput") && firstWrite == nil {
					firstWrite = x
				}
			case *ast.GoStmt:
				if firstGo == nil {
					firstGo = x
				}
			case *ast.IfStmt:
				// if link.stubs[i].Closed() { ...; return }   right after the Cleanup call
				if cleanup != nil && x.Pos() > cleanup.End() && strings.HasSuffix(show(fs, x.Cond), ".Closed()") && len(x.Body.List) > 0 {
					if _, ok := x.Body.List[len(x.Body.List)-1].(*ast.ReturnStmt); ok {
						if (firstWrite == nil || x.End() < firstWrite.Pos()) && (firstGo == nil || x.End() < firstGo.Pos()) {
							retAfterClosed = true
						}
					}
				}
			}
			return true
		})
		// ... and Cleanup runs whenever the removed toxic has one: the innermost if around the call tests nothing but the result of the
		// type assertion (not, say, whether the toxic happened to apply to this connection at its last start)
		condOK := false
		if cleanup != nil {
			var inner *ast.IfStmt
			ast.Inspect(fd.Body, func(n ast.Node) bool {
				if is, ok := n.(*ast.IfStmt); ok && is.Body.Pos() <= cleanup.Pos() && cleanup.End() <= is.Body.End() {
					inner = is // later (nested) matches overwrite earlier ones
				}
				return true
			})
			if inner != nil {
				_, bare := inner.Cond.(*ast.Ident)
				condOK = bare
			}
		}
		if cleanup != nil && firstWrite != nil && firstGo != nil {
			cbf = boolS(cleanup.End() < firstWrite.Pos() && cleanup.End() < firstGo.Pos() && retAfterClosed && condOK)
		}
	}
	o.emit("remove_cleanup_before_flush", "", "bool", cbf, "true", "", "")

	// ---- RemoveToxic: does every way out drop the stub of the removed toxic from link.stubs?
	// (a splice is `link.stubs = append(link.stubs[:i], link.stubs[i+1:]...)` or a call to a method whose body is that)
	splices := ""
	if fd := p.method("ToxicLink", "RemoveToxic"); fd != nil && fd.Body != nil {
		isSpliceAssign := func(st ast.Stmt) bool {
			a, ok := st.(*ast.AssignStmt)
			return ok && len(a.Lhs) == 1 && show(fs, a.Lhs[0]) == "link.stubs" && strings.HasPrefix(show(fs, a.Rhs[0]), "append(link.stubs[:")
		}
		helpers := map[string]bool{}
		for _, f := range p.files {
			for _, d := range f.Decls {
				if hd, ok := d.(*ast.FuncDecl); ok && hd.Recv != nil && hd.Body != nil && len(hd.Body.List) == 1 && isSpliceAssign(hd.Body.List[0]) {
					helpers["link."+hd.Name.Name] = true
				}
			}
		}
		isSplice := func(st ast.Stmt) bool {
			if isSpliceAssign(st) {
				return true
			}
			if es, ok := st.(*ast.ExprStmt); ok {
				if c, ok := es.X.(*ast.CallExpr); ok && helpers[show(fs, c.Fun)] {
					return true
				}
			}
			return false
		}
		ok := true
		nret := 0
		var walk func(list []ast.Stmt)
		walk = func(list []ast.Stmt) {
			for i, st := range list {
				switch x := st.(type) {
				case *ast.ReturnStmt:
					nret++
					if i == 0 || !isSplice(list[i-1]) {
						ok = false
					}
				case *ast.IfStmt:
					walk(x.Body.List)
					if b, isb := x.Else.(*ast.BlockStmt); isb {
						walk(b.List)
					} else if e, ise := x.Else.(*ast.IfStmt); ise {
						walk([]ast.Stmt{e})
					}
				case *ast.ForStmt:
					walk(x.Body.List)
				case *ast.BlockStmt:
					walk(x.List)
				case *ast.SelectStmt:
					for _, cc := range x.Body.List {
						walk(cc.(*ast.CommClause).Body)
					}
				}
			}
		}
		walk(fd.Body.List)
		// the main `if link.stubs[i].InterruptToxic() { ... }`: both branches must contain a splice at their end
		var mainIf *ast.IfStmt
		for _, st := range fd.Body.List {
			if is, isif := st.(*ast.IfStmt); isif && strings.Contains(show(fs, is.Cond), "InterruptToxic()") {
				mainIf = is
			}
		}
		if mainIf == nil {
			ok = false
		} else {
			hasSplice := func(list []ast.Stmt) bool {
				for _, st := range list {
					if isSplice(st) {
						return true
					}
				}
				return false
			}
			if !hasSplice(mainIf.Body.List) {
				ok = false
			}
			eb, isb := mainIf.Else.(*ast.BlockStmt)
			if !isb || !hasSplice(eb.List) {
				ok = false
			}
		}
		splices = boolS(ok)
	}
	o.emit("remove_always_splices", "", "bool", splices, "true", "", "")

	// chains_are_separate: NewToxicCollection gives every direction a chain of its own - a fresh make(...) per direction, assigned inside a
	// loop over the directions (or once per direction) - so that appending to one direction's chain can never write into another's
	sep := ""
	if fd := p.method("", "NewToxicCollection"); fd != nil && fd.Body != nil {
		fresh, shared := 0, false
		ast.Inspect(fd.Body, func(n ast.Node) bool {
			as, ok := n.(*ast.AssignStmt)
			if !ok || len(as.Lhs) != 1 || len(as.Rhs) != 1 {
				return true
			}
			ix, ok := as.Lhs[0].(*ast.IndexExpr)
			if !ok || !strings.HasSuffix(show(fs, ix.X), ".chain") {
				return true
			}
			if c, ok := as.Rhs[0].(*ast.CallExpr); ok && show(fs, c.Fun) == "make" {
				fresh++
			} else {
				shared = true // a slice expression of something else, a variable, ...
			}
			return true
		})
		// ... and the assignment sits in a loop over the directions
		inLoop := find(fd.Body, func(n ast.Node) bool {
			r, ok := n.(*ast.RangeStmt)
			return ok && strings.HasSuffix(show(fs, r.X), ".chain") && strings.Contains(show(fs, r.Body), "make(")
		}) != nil
		if fresh > 0 || shared {
			sep = boolS(!shared && (inLoop || fresh >= 2))
		}
	}
	o.emit("chains_are_separate", "", "bool", sep, "true", "", "")
	_ = filepath.Join
}

package main

import (
	"fmt"
	"go/ast"
	"go/token"
	"sort"
	"strings"
)

// extractLocks regenerates the "requested while held" relation between lock classes from the working tree:
// for every function of the toxiproxy and toxics packages, every region in which a mutex is held (Lock ... Unlock,
// or Lock; defer Unlock ... end of block), and inside that region every lock taken directly or by a callee
// (callees resolved by inferred receiver type, by name over both packages when the type is not inferable).
// Waiting for another goroutine counts as requesting a token that goroutine holds for its whole life: x.Wait() on a
// tomb requests the token named after x, held by the function that calls x.Done(); <-x.started requests "started",
// held by the function that sends on .started.
// Channel waits on toxic stages are not part of the relation (see DESIGN.md, finding F8).

type lockFn struct {
	key    string
	fd     *ast.FuncDecl
	body   *ast.BlockStmt
	env    map[string]string
	direct map[string]bool // classes acquired directly anywhere in the body
	calls  map[string]bool // callee keys anywhere in the body
	tokens map[string]bool // join tokens held for the whole life of the goroutine that runs it
}

type lockAn struct {
	fset    *token.FileSet
	structs map[string]*ast.StructType
	globals map[string]string
	fns     map[string]*lockFn
	byName  map[string][]string
	results map[string]string // function key -> first result type
	edges   map[[2]string]string
	sites   int
	unknown []string
	unbal   []string
	acq     map[string]map[string]bool
	lits    int
	wanted  map[string]bool
}

func typeName(t ast.Expr) string {
	switch x := t.(type) {
	case *ast.Ident:
		return x.Name
	case *ast.StarExpr:
		return typeName(x.X)
	case *ast.SelectorExpr:
		if id, ok := x.X.(*ast.Ident); ok {
			return id.Name + "." + x.Sel.Name
		}
	case *ast.MapType:
		return "elem:" + typeName(x.Value)
	case *ast.ArrayType:
		return "elem:" + typeName(x.Elt)
	case *ast.ChanType:
		return "chan:" + typeName(x.Value)
	}
	return ""
}

func (a *lockAn) fieldType(st, f string, depth int) string {
	s, ok := a.structs[st]
	if !ok || depth > 4 {
		return ""
	}
	for _, fl := range s.Fields.List {
		if len(fl.Names) == 0 { // embedded
			tn := typeName(fl.Type)
			base := tn
			if i := strings.LastIndex(tn, "."); i >= 0 {
				base = tn[i+1:]
			}
			if base == f {
				return tn
			}
			if r := a.fieldType(tn, f, depth+1); r != "" {
				return r
			}
			continue
		}
		for _, n := range fl.Names {
			if n.Name == f {
				return typeName(fl.Type)
			}
		}
	}
	return ""
}

func (a *lockAn) embedsMutex(st string, depth int) bool {
	s, ok := a.structs[st]
	if !ok || depth > 4 {
		return false
	}
	for _, fl := range s.Fields.List {
		if len(fl.Names) == 0 {
			tn := typeName(fl.Type)
			if tn == "sync.Mutex" || tn == "sync.RWMutex" || a.embedsMutex(tn, depth+1) {
				return true
			}
		}
	}
	return false
}

func (a *lockAn) hasMethod(typ, name string) bool {
	_, ok := a.fns[typ+"."+name]
	return ok
}

func (a *lockAn) typeOf(env map[string]string, e ast.Expr) string {
	switch x := e.(type) {
	case *ast.Ident:
		if t, ok := env[x.Name]; ok {
			return t
		}
		return a.globals[x.Name]
	case *ast.ParenExpr:
		return a.typeOf(env, x.X)
	case *ast.StarExpr:
		return a.typeOf(env, x.X)
	case *ast.UnaryExpr:
		if x.Op == token.AND {
			return a.typeOf(env, x.X)
		}
		if x.Op == token.ARROW {
			t := a.typeOf(env, x.X)
			if strings.HasPrefix(t, "chan:") {
				return t[5:]
			}
		}
	case *ast.CompositeLit:
		if x.Type != nil {
			return typeName(x.Type)
		}
	case *ast.SelectorExpr:
		t := a.typeOf(env, x.X)
		if t != "" {
			return a.fieldType(t, x.Sel.Name, 0)
		}
	case *ast.IndexExpr:
		t := a.typeOf(env, x.X)
		if strings.HasPrefix(t, "elem:") {
			return t[5:]
		}
	case *ast.CallExpr:
		for _, k := range a.resolve(env, x) {
			if r, ok := a.results[k]; ok && r != "" {
				return r
			}
		}
	}
	return ""
}

// resolve gives the keys of the functions a call may reach (empty for calls out of the two packages).
func (a *lockAn) resolve(env map[string]string, c *ast.CallExpr) []string {
	switch f := c.Fun.(type) {
	case *ast.Ident:
		if _, ok := a.fns["."+f.Name]; ok {
			return []string{"." + f.Name}
		}
	case *ast.SelectorExpr:
		if id, ok := f.X.(*ast.Ident); ok {
			if _, isVar := env[id.Name]; !isVar {
				if _, isGlob := a.globals[id.Name]; !isGlob {
					// package-qualified: toxics.New(...), stream.NewChanWriter(...)
					if _, ok := a.fns["."+f.Sel.Name]; ok && (id.Name == "toxics" || id.Name == "toxiproxy") {
						return []string{"." + f.Sel.Name}
					}
					if id.Name != "toxics" && id.Name != "toxiproxy" {
						if _, known := a.structs[id.Name]; !known {
							return nil // another package
						}
					}
				}
			}
		}
		t := a.typeOf(env, f.X)
		if t != "" {
			if a.hasMethod(t, f.Sel.Name) {
				return []string{t + "." + f.Sel.Name}
			}
			// promoted through an embedded struct
			if s, ok := a.structs[t]; ok {
				for _, fl := range s.Fields.List {
					if len(fl.Names) == 0 {
						if tn := typeName(fl.Type); a.hasMethod(tn, f.Sel.Name) {
							return []string{tn + "." + f.Sel.Name}
						}
					}
				}
				return nil // a known struct without such a method: a field of function type or a foreign method
			}
			if strings.Contains(t, ".") || strings.HasPrefix(t, "elem:") || strings.HasPrefix(t, "chan:") {
				return nil // a type of another package
			}
		}
		// receiver type not inferable (interfaces, locals of unknown origin): every method of that name
		var r []string
		for _, k := range a.byName[f.Sel.Name] {
			if !strings.HasPrefix(k, ".") {
				r = append(r, k)
			}
		}
		return r
	}
	return nil
}

func isLockName(n string) (acquire, release bool) {
	switch n {
	case "Lock", "RLock":
		return true, false
	case "Unlock", "RUnlock":
		return false, true
	}
	return false, false
}

// lockClass: the class of the mutex behind x in x.Lock(): the struct that embeds or wraps it, or the variable's name.
func (a *lockAn) lockClass(env map[string]string, x ast.Expr) string {
	t := a.typeOf(env, x)
	switch {
	case t == "sync.Mutex" || t == "sync.RWMutex":
		if s, ok := x.(*ast.SelectorExpr); ok {
			if o := a.typeOf(env, s.X); o != "" {
				return o
			}
		}
		if id, ok := x.(*ast.Ident); ok {
			return id.Name
		}
	case t != "" && (a.embedsMutex(t, 0) || a.hasMethod(t, "Lock")):
		return t
	}
	return ""
}

func (a *lockAn) buildEnv(fd *ast.FuncDecl, body *ast.BlockStmt, outer map[string]string, ft *ast.FuncType) map[string]string {
	env := map[string]string{}
	for k, v := range outer {
		env[k] = v
	}
	if fd != nil && fd.Recv != nil {
		for _, f := range fd.Recv.List {
			for _, n := range f.Names {
				env[n.Name] = typeName(f.Type)
			}
		}
	}
	if ft != nil && ft.Params != nil {
		for _, f := range ft.Params.List {
			for _, n := range f.Names {
				env[n.Name] = typeName(f.Type)
			}
		}
	}
	// flow-insensitive: two rounds so that a := f(); b := a.g() resolves
	for round := 0; round < 2; round++ {
		ast.Inspect(body, func(n ast.Node) bool {
			switch s := n.(type) {
			case *ast.AssignStmt:
				if len(s.Lhs) >= 1 && len(s.Rhs) == 1 {
					if id, ok := s.Lhs[0].(*ast.Ident); ok && id.Name != "_" {
						if _, have := env[id.Name]; !have || s.Tok == token.DEFINE {
							if t := a.typeOf(env, s.Rhs[0]); t != "" {
								env[id.Name] = t
							}
						}
					}
				}
				if len(s.Lhs) == len(s.Rhs) && len(s.Lhs) > 1 {
					for i := range s.Lhs {
						if id, ok := s.Lhs[i].(*ast.Ident); ok && id.Name != "_" {
							if t := a.typeOf(env, s.Rhs[i]); t != "" {
								env[id.Name] = t
							}
						}
					}
				}
			case *ast.RangeStmt:
				t := a.typeOf(env, s.X)
				if strings.HasPrefix(t, "elem:") {
					if id, ok := s.Value.(*ast.Ident); ok && id.Name != "_" {
						env[id.Name] = t[5:]
					}
				}
			case *ast.ValueSpec:
				if s.Type != nil {
					for _, n := range s.Names {
						env[n.Name] = typeName(s.Type)
					}
				}
			}
			return true
		})
	}
	return env
}

func lastName(x ast.Expr) string {
	switch e := x.(type) {
	case *ast.Ident:
		return e.Name
	case *ast.SelectorExpr:
		return e.Sel.Name
	case *ast.StarExpr:
		return lastName(e.X)
	case *ast.ParenExpr:
		return lastName(e.X)
	case *ast.UnaryExpr:
		return lastName(e.X)
	}
	return "?"
}

// joinToken: the token a wait for another goroutine requests: x.Wait() on a tomb (the goroutine that calls x.Done()
// holds it for its whole life) or the receive <-x.started (held by the function that sends on .started).
func (a *lockAn) joinToken(env map[string]string, n ast.Node) string {
	switch x := n.(type) {
	case *ast.CallExpr:
		if s, ok := x.Fun.(*ast.SelectorExpr); ok && s.Sel.Name == "Wait" && a.typeOf(env, s.X) == "tomb.Tomb" {
			return lastName(s.X)
		}
	case *ast.UnaryExpr:
		if x.Op == token.ARROW {
			if s, ok := x.X.(*ast.SelectorExpr); ok && s.Sel.Name == "started" {
				return "started"
			}
		}
	}
	return ""
}

// heldToken: the token a function holds for its whole life because it is the one that releases the waiters
func (a *lockAn) heldToken(env map[string]string, n ast.Node) string {
	switch x := n.(type) {
	case *ast.CallExpr:
		if s, ok := x.Fun.(*ast.SelectorExpr); ok && s.Sel.Name == "Done" && a.typeOf(env, s.X) == "tomb.Tomb" {
			return lastName(s.X)
		}
	case *ast.SendStmt:
		if s, ok := x.Chan.(*ast.SelectorExpr); ok && s.Sel.Name == "started" {
			return "started"
		}
	}
	return ""
}

// scan collects, for one function body, the direct acquisitions and the callees (go statements excluded: they run
// on another goroutine that holds nothing; their literal bodies become functions of their own).
func (a *lockAn) scan(fn *lockFn) {
	var visit func(n ast.Node) bool
	visit = func(n ast.Node) bool {
		switch x := n.(type) {
		case *ast.GoStmt:
			a.spawn(fn, x)
			return false
		case *ast.SendStmt:
			if t := a.heldToken(fn.env, x); t != "" {
				fn.tokens[t] = true
			}
		case *ast.UnaryExpr:
			if t := a.joinToken(fn.env, x); t != "" {
				fn.direct[t] = true
				a.wanted[t] = true
			}
		case *ast.CallExpr:
			if t := a.heldToken(fn.env, x); t != "" {
				fn.tokens[t] = true
				return true
			}
			if t := a.joinToken(fn.env, x); t != "" {
				fn.direct[t] = true
				a.wanted[t] = true
				return true
			}
			if s, ok := x.Fun.(*ast.SelectorExpr); ok {
				if acq, rel := isLockName(s.Sel.Name); acq || rel {
					if acq {
						a.sites++
						if c := a.lockClass(fn.env, s.X); c != "" {
							fn.direct[c] = true
						} else {
							a.unknown = append(a.unknown, fn.key+": "+show(a.fset, x))
						}
					}
					return true
				}
			}
			for _, k := range a.resolve(fn.env, x) {
				fn.calls[k] = true
			}
		}
		return true
	}
	ast.Inspect(fn.body, visit)
}

func (a *lockAn) spawn(fn *lockFn, g *ast.GoStmt) {
	if lit, ok := g.Call.Fun.(*ast.FuncLit); ok {
		a.lits++
		k := fmt.Sprintf("%s$go%d", fn.key, a.lits)
		nf := &lockFn{key: k, body: lit.Body, direct: map[string]bool{}, calls: map[string]bool{}, tokens: map[string]bool{}}
		nf.env = a.buildEnv(nil, lit.Body, fn.env, lit.Type)
		a.fns[k] = nf
		a.scan(nf)
	}
	// `go x.f(...)`: f is analysed as a function of its own like every other
}

func (a *lockAn) addEdge(from, to, where string) {
	k := [2]string{from, to}
	if _, ok := a.edges[k]; !ok {
		a.edges[k] = where
	}
}

// requests: what a simple statement or expression may request (direct or through callees), go statements excluded
func (a *lockAn) requests(fn *lockFn, n ast.Node) map[string]bool {
	r := map[string]bool{}
	if n == nil {
		return r
	}
	ast.Inspect(n, func(m ast.Node) bool {
		switch x := m.(type) {
		case *ast.GoStmt:
			return false
		case *ast.UnaryExpr:
			if t := a.joinToken(fn.env, x); t != "" {
				r[t] = true
			}
		case *ast.CallExpr:
			if t := a.joinToken(fn.env, x); t != "" {
				r[t] = true
				return true
			}
			if s, ok := x.Fun.(*ast.SelectorExpr); ok {
				if acq, rel := isLockName(s.Sel.Name); acq || rel {
					if acq {
						if c := a.lockClass(fn.env, s.X); c != "" {
							r[c] = true
						}
					}
					return true
				}
			}
			for _, k := range a.resolve(fn.env, x) {
				for c := range a.acq[k] {
					r[c] = true
				}
			}
		}
		return true
	})
	return r
}

func (a *lockAn) lockStmt(fn *lockFn, s ast.Stmt) (class string, acq, rel, deferred bool) {
	var call *ast.CallExpr
	switch x := s.(type) {
	case *ast.ExprStmt:
		call, _ = x.X.(*ast.CallExpr)
	case *ast.DeferStmt:
		call, deferred = x.Call, true
	}
	if call == nil {
		return
	}
	sel, ok := call.Fun.(*ast.SelectorExpr)
	if !ok {
		return
	}
	acq, rel = isLockName(sel.Sel.Name)
	if acq || rel {
		class = a.lockClass(fn.env, sel.X)
	}
	return
}

// deferredRelease: is there a deferred release of this class anywhere in the function (a lock released and re-taken
// inside a nested block is then balanced by it)
func (a *lockAn) deferredRelease(fn *lockFn, class string) bool {
	found := false
	ast.Inspect(fn.body, func(n ast.Node) bool {
		if d, ok := n.(*ast.DeferStmt); ok {
			if c, _, rel, _ := a.lockStmt(fn, d); rel && c == class {
				found = true
			}
		}
		return !found
	})
	return found
}

func (a *lockAn) walk(fn *lockFn, stmts []ast.Stmt, held []string) {
	cur := append([]string{}, held...)
	for i, s := range stmts {
		class, acq, rel, deferred := a.lockStmt(fn, s)
		if acq && !deferred {
			for _, h := range cur {
				a.addEdge(h, class, fn.key)
			}
			// where is it released?
			found := false
			for j := i + 1; j < len(stmts); j++ {
				c2, _, r2, _ := a.lockStmt(fn, stmts[j])
				if r2 && c2 == class {
					found = true
					break
				}
			}
			if !found && !a.deferredRelease(fn, class) {
				a.unbal = append(a.unbal, fn.key+": "+show(a.fset, s))
			}
			if class != "" {
				cur = append(cur, class)
			}
			continue
		}
		if rel && !deferred {
			for k := len(cur) - 1; k >= 0; k-- {
				if cur[k] == class {
					cur = append(cur[:k:k], cur[k+1:]...)
					break
				}
			}
			continue
		}
		if rel && deferred {
			continue // released at the end of the function: held for the rest of the block
		}
		a.walkStmt(fn, s, cur)
	}
}

func (a *lockAn) edgesFor(fn *lockFn, n ast.Node, held []string) {
	if len(held) == 0 || n == nil {
		return
	}
	for c := range a.requests(fn, n) {
		for _, h := range held {
			a.addEdge(h, c, fn.key)
		}
	}
}

func (a *lockAn) walkStmt(fn *lockFn, s ast.Stmt, held []string) {
	switch x := s.(type) {
	case *ast.BlockStmt:
		a.walk(fn, x.List, held)
	case *ast.IfStmt:
		if x.Init != nil {
			a.walkStmt(fn, x.Init, held)
		}
		a.edgesFor(fn, x.Cond, held)
		a.walk(fn, x.Body.List, held)
		if x.Else != nil {
			a.walkStmt(fn, x.Else, held)
		}
	case *ast.ForStmt:
		if x.Init != nil {
			a.walkStmt(fn, x.Init, held)
		}
		a.edgesFor(fn, x.Cond, held)
		if x.Post != nil {
			a.walkStmt(fn, x.Post, held)
		}
		a.walk(fn, x.Body.List, held)
	case *ast.RangeStmt:
		a.edgesFor(fn, x.X, held)
		a.walk(fn, x.Body.List, held)
	case *ast.SwitchStmt:
		if x.Init != nil {
			a.walkStmt(fn, x.Init, held)
		}
		a.edgesFor(fn, x.Tag, held)
		a.walk(fn, x.Body.List, held)
	case *ast.TypeSwitchStmt:
		a.walk(fn, x.Body.List, held)
	case *ast.SelectStmt:
		a.walk(fn, x.Body.List, held)
	case *ast.CaseClause:
		for _, e := range x.List {
			a.edgesFor(fn, e, held)
		}
		a.walk(fn, x.Body, held)
	case *ast.CommClause:
		if x.Comm != nil {
			a.walkStmt(fn, x.Comm, held)
		}
		a.walk(fn, x.Body, held)
	case *ast.LabeledStmt:
		a.walkStmt(fn, x.Stmt, held)
	case *ast.GoStmt:
		// another goroutine
	default:
		// simple statement (expression, assignment, return, defer of an ordinary call, send, ...); a function literal
		// called or deferred here runs on this goroutine: its body is walked with the locks held now
		handled := false
		ast.Inspect(s, func(m ast.Node) bool {
			if lit, ok := m.(*ast.FuncLit); ok {
				a.walk(fn, lit.Body.List, held)
				handled = true
				return false
			}
			return true
		})
		_ = handled
		a.edgesFor(fn, s, held)
	}
}

func extractLocks(repo string, o *out) {
	a := &lockAn{structs: map[string]*ast.StructType{}, globals: map[string]string{}, fns: map[string]*lockFn{},
		byName: map[string][]string{}, results: map[string]string{}, edges: map[[2]string]string{}, acq: map[string]map[string]bool{}, wanted: map[string]bool{}}
	var pkgs []*pkg
	for _, d := range []string{repo, repo + "/toxics"} {
		p, err := loadPkg(d)
		if err != nil {
			continue
		}
		pkgs = append(pkgs, p)
	}
	type pending struct {
		fd   *ast.FuncDecl
		fset *token.FileSet
	}
	var fds []pending
	for _, p := range pkgs {
		var names []string
		for n := range p.files {
			names = append(names, n)
		}
		sort.Strings(names)
		for _, n := range names {
			for _, d := range p.files[n].Decls {
				switch x := d.(type) {
				case *ast.GenDecl:
					for _, sp := range x.Specs {
						switch s := sp.(type) {
						case *ast.TypeSpec:
							if st, ok := s.Type.(*ast.StructType); ok {
								a.structs[s.Name.Name] = st
							}
						case *ast.ValueSpec:
							if x.Tok == token.VAR && s.Type != nil {
								for _, nm := range s.Names {
									a.globals[nm.Name] = typeName(s.Type)
								}
							}
						}
					}
				case *ast.FuncDecl:
					if x.Body != nil {
						fds = append(fds, pending{x, p.fset})
					}
				}
			}
		}
	}
	for _, pf := range fds {
		fd := pf.fd
		key := recvType(fd) + "." + fd.Name.Name
		if acq, rel := isLockName(fd.Name.Name); acq || rel {
			// wrappers (ConnectionList.Lock): the call sites are the acquisitions
			a.fns[key] = &lockFn{key: key, fd: fd, body: &ast.BlockStmt{}, direct: map[string]bool{}, calls: map[string]bool{}, tokens: map[string]bool{}}
			continue
		}
		a.fns[key] = &lockFn{key: key, fd: fd, body: fd.Body, direct: map[string]bool{}, calls: map[string]bool{}, tokens: map[string]bool{}}
		a.byName[fd.Name.Name] = append(a.byName[fd.Name.Name], key)
		if fd.Type.Results != nil && len(fd.Type.Results.List) > 0 {
			a.results[key] = typeName(fd.Type.Results.List[0].Type)
		}
	}
	if len(pkgs) > 0 {
		a.fset = pkgs[0].fset
	}
	var keys []string
	for k := range a.fns {
		keys = append(keys, k)
	}
	sort.Strings(keys)
	for _, k := range keys {
		fn := a.fns[k]
		if fn.fd == nil {
			continue
		}
		// the two packages were parsed with their own file sets; positions are only used for printing
		for _, pf := range fds {
			if pf.fd == fn.fd {
				a.fset = pf.fset
			}
		}
		fn.env = a.buildEnv(fn.fd, fn.body, nil, fn.fd.Type)
		a.scan(fn)
	}
	// transitive acquisitions
	for k, fn := range a.fns {
		a.acq[k] = map[string]bool{}
		for c := range fn.direct {
			a.acq[k][c] = true
		}
	}
	for changed := true; changed; {
		changed = false
		for k, fn := range a.fns {
			for cal := range fn.calls {
				for c := range a.acq[cal] {
					if !a.acq[k][c] {
						a.acq[k][c] = true
						changed = true
					}
				}
			}
		}
	}
	keys = keys[:0]
	for k := range a.fns {
		keys = append(keys, k)
	}
	sort.Strings(keys)
	holders := map[string]int{}
	for _, k := range keys {
		fn := a.fns[k]
		var held []string
		var toks []string
		for t := range fn.tokens {
			toks = append(toks, t)
		}
		sort.Strings(toks)
		for _, t := range toks {
			holders[t]++
			held = append(held, t)
			for c := range a.acq[k] {
				if c != t {
					a.addEdge(t, c, k)
				}
			}
		}
		a.walk(fn, fn.body.List, held)
	}
	var orphan []string
	for t := range a.wanted {
		if holders[t] == 0 {
			orphan = append(orphan, t)
		}
	}
	sort.Strings(orphan)
	var es [][2]string
	for e := range a.edges {
		es = append(es, e)
	}
	sort.Slice(es, func(i, j int) bool {
		if es[i][0] != es[j][0] {
			return es[i][0] < es[j][0]
		}
		return es[i][1] < es[j][1]
	})
	var parts, srcs []string
	for _, e := range es {
		parts = append(parts, fmt.Sprintf("(%s, %s)", coqStr(e[0]), coqStr(e[1])))
		srcs = append(srcs, fmt.Sprintf("%s->%s in %s", e[0], e[1], a.edges[e]))
	}
	body := "[" + strings.Join(parts, "; ") + "]"
	note := ""
	ok := a.sites > 0 && len(a.unknown) == 0 && len(a.unbal) == 0 && len(orphan) == 0 && len(a.wanted) > 0
	if !ok {
		note = fmt.Sprintf("lock sites %d, unclassified %v, without a release in the same block %v, waits without a goroutine that ends them %v", a.sites, a.unknown, a.unbal, orphan)
	}
	if ok {
		o.emit("lock_edges", "", "list (string * string)", body, "", strings.Join(srcs, "; "), "")
	} else {
		o.emit("lock_edges", "", "list (string * string)", "", body, strings.Join(srcs, "; "), note)
	}
	o.emit("lock_sites", "", "Z", fmt.Sprintf("%d", a.sites), "0", "", "")
}

package main

import (
	"go/ast"
	"go/token"
	"path/filepath"
	"sort"
	"strings"
)

// extractStream: stream/io_chan.go
//
//	read_early    — the first test of ChanReader.Read after the copy from the carry buffer
//	writer_copies — whether ChanWriter.Write sends a fresh copy of the caller's buffer
func extractStream(repo string, o *out) {
	const lastEarly = "(n =? o)"
	p, err := loadPkg(filepath.Join(repo, "stream"))
	if err != nil {
		o.def("read_early", "Definition read_early (o n bl : Z) : bool := "+lastEarly+".", item{false, "", "stream package not parsed: " + err.Error()})
		o.def("writer_copies", "Definition writer_copies : bool := true.", item{false, "", "stream package not parsed"})
		return
	}
	// ---- read_early
	done := false
	if fd := p.method("ChanReader", "Read"); fd != nil && fd.Body != nil && len(fd.Type.Params.List) == 1 && len(fd.Type.Params.List[0].Names) == 1 {
		c := recvName(fd)
		outv := fd.Type.Params.List[0].Names[0].Name
		buf := c + ".buffer"
		// role-based walk of the top-level statements:  n := copy(out, c.buffer); c.buffer = c.buffer[n:]; if COND {return n, nil} else if n > 0 {...}
		nvar := ""
		sliced := false
		for _, st := range fd.Body.List {
			switch s := st.(type) {
			case *ast.AssignStmt:
				if len(s.Lhs) == 1 && len(s.Rhs) == 1 {
					if call, ok := s.Rhs[0].(*ast.CallExpr); ok && show(p.fset, call.Fun) == "copy" && len(call.Args) == 2 &&
						show(p.fset, call.Args[0]) == outv && show(p.fset, call.Args[1]) == buf {
						nvar = show(p.fset, s.Lhs[0])
					}
					if nvar != "" && show(p.fset, s.Lhs[0]) == buf && show(p.fset, s.Rhs[0]) == buf+"["+nvar+":]" {
						sliced = true
					}
				}
			case *ast.IfStmt:
				if nvar == "" || !sliced || done || s.Init != nil {
					continue
				}
				// body must be `return n, nil`
				if len(s.Body.List) != 1 {
					continue
				}
				ret, ok := s.Body.List[0].(*ast.ReturnStmt)
				if !ok || len(ret.Results) != 2 || show(p.fset, ret.Results[0]) != nvar || show(p.fset, ret.Results[1]) != "nil" {
					continue
				}
				e := &env{fset: p.fset, vars: map[string]string{
					"len(" + outv + ")": "o", nvar: "n", "len(" + buf + ")": "bl"}}
				coq, err := e.toCoq(s.Cond)
				if err != nil {
					continue
				}
				note := ""
				// the else-branch test is hard-wired in the model as  n > 0 ; check it is still that
				if ei, ok := s.Else.(*ast.IfStmt); ok {
					e2 := &env{fset: p.fset, vars: map[string]string{nvar: "n"}}
					c2, err2 := e2.toCoq(ei.Cond)
					if err2 != nil || !(c2 == "(0 <? n)" || c2 == "(negb (n =? 0))" || c2 == "(1 <=? n)") {
						note = "second test of Read is not `n > 0` any more (" + show(p.fset, ei.Cond) + "): the hand-written part of Stream.read is tied by correspondence only"
					}
				} else {
					note = "Read has no else-if after the early return: shape changed"
				}
				o.def("read_early", "Definition read_early (o n bl : Z) : bool := "+coq+".",
					item{true, show(p.fset, s.Cond), note})
				done = true
			}
		}
	}
	if !done {
		o.def("read_early", "Definition read_early (o n bl : Z) : bool := "+lastEarly+".",
			item{false, "", "could not locate the early-return test of ChanReader.Read; last-known value emitted"})
	}

	// ---- writer_copies
	val, found, src := true, false, ""
	if fd := p.method("ChanWriter", "Write"); fd != nil && fd.Body != nil && len(fd.Type.Params.List) == 1 && len(fd.Type.Params.List[0].Names) == 1 {
		bufv := fd.Type.Params.List[0].Names[0].Name
		// data expression of every chunk variable, and whether a copy(x.Data, buf) precedes the send
		dataOf := map[string]ast.Expr{}
		copied := map[string]bool{}
		for _, st := range fd.Body.List {
			switch s := st.(type) {
			case *ast.AssignStmt:
				if len(s.Lhs) == 1 && len(s.Rhs) == 1 {
					if d := chunkData(s.Rhs[0]); d != nil {
						dataOf[show(p.fset, s.Lhs[0])] = d
					}
				}
			case *ast.ExprStmt:
				if call, ok := s.X.(*ast.CallExpr); ok && show(p.fset, call.Fun) == "copy" && len(call.Args) == 2 && show(p.fset, call.Args[1]) == bufv {
					dst := show(p.fset, call.Args[0])
					for v := range dataOf {
						if dst == v+".Data" {
							copied[v] = true
						}
					}
				}
			case *ast.SendStmt:
				v := show(p.fset, s.Value)
				var d ast.Expr
				if dd, ok := dataOf[v]; ok {
					d = dd
				} else {
					d = chunkData(s.Value)
				}
				if d == nil {
					continue
				}
				src = show(p.fset, d)
				switch {
				case isFresh(p.fset, d, bufv) == 1 && (copied[v] || isCloneOf(p.fset, d, bufv)):
					val, found = true, true
				case mentions(d, bufv) && !isCloneOf(p.fset, d, bufv):
					val, found = false, true // the caller's slice (or a reslice of it) is sent
				}
			}
		}
	}
	if found {
		o.def("writer_copies", "Definition writer_copies : bool := "+boolS(val)+".", item{true, src, ""})
	} else {
		o.def("writer_copies", "Definition writer_copies : bool := true.", item{false, src, "could not decide whether Write copies; last-known value emitted"})
	}
	// ---- the method sets: io.Copy(writer, src) goes through Write only as long as ChanWriter has no ReadFrom, and io.Copy(dst, reader)
	// through Read only as long as ChanReader has no WriteTo - the theorems are about Write and Read
	methods := func(typ string) string {
		var ms []string
		for _, f := range p.files {
			for _, d := range f.Decls {
				if fd, ok := d.(*ast.FuncDecl); ok && recvType(fd) == typ && ast.IsExported(fd.Name.Name) {
					ms = append(ms, fd.Name.Name)
				}
			}
		}
		sort.Strings(ms)
		for i := range ms {
			ms[i] = coqStr(ms[i])
		}
		return "[" + strings.Join(ms, "; ") + "]"
	}
	o.emit("chan_writer_methods", "", "list string", methods("ChanWriter"), "[]", "", "")
	o.emit("chan_reader_methods", "", "list string", methods("ChanReader"), "[]", "", "")
}

func boolS(b bool) string {
	if b {
		return "true"
	}
	return "false"
}

// chunkData returns the Data expression of &StreamChunk{...} / StreamChunk{...}
func chunkData(x ast.Expr) ast.Expr {
	if u, ok := x.(*ast.UnaryExpr); ok && u.Op == token.AND {
		x = u.X
	}
	cl, ok := x.(*ast.CompositeLit)
	if !ok {
		return nil
	}
	name := ""
	switch t := cl.Type.(type) {
	case *ast.Ident:
		name = t.Name
	case *ast.SelectorExpr:
		name = t.Sel.Name
	}
	if name != "StreamChunk" {
		return nil
	}
	for i, el := range cl.Elts {
		if kv, ok := el.(*ast.KeyValueExpr); ok {
			if id, ok := kv.Key.(*ast.Ident); ok && id.Name == "Data" {
				return kv.Value
			}
		} else if i == 0 {
			return el
		}
	}
	return nil
}

// isFresh: 1 if the expression allocates a new slice (make / clone / append to nil)
func isFresh(fset *token.FileSet, d ast.Expr, bufv string) int {
	if call, ok := d.(*ast.CallExpr); ok {
		f := show(fset, call.Fun)
		if f == "make" || f == "bytes.Clone" || f == "slices.Clone" {
			return 1
		}
		if f == "append" && len(call.Args) >= 1 {
			a0 := show(fset, call.Args[0])
			if a0 == "[]byte(nil)" || a0 == "[]byte{}" || a0 == "nil" {
				return 1
			}
		}
	}
	return 0
}

func isCloneOf(fset *token.FileSet, d ast.Expr, bufv string) bool {
	if call, ok := d.(*ast.CallExpr); ok {
		f := show(fset, call.Fun)
		if (f == "bytes.Clone" || f == "slices.Clone") && len(call.Args) == 1 && show(fset, call.Args[0]) == bufv {
			return true
		}
		if f == "append" && len(call.Args) == 2 && call.Ellipsis.IsValid() && show(fset, call.Args[1]) == bufv {
			a0 := show(fset, call.Args[0])
			return a0 == "[]byte(nil)" || a0 == "[]byte{}"
		}
	}
	return false
}

func mentions(x ast.Expr, name string) bool {
	found := false
	ast.Inspect(x, func(n ast.Node) bool {
		if id, ok := n.(*ast.Ident); ok && id.Name == name {
			found = true
		}
		return true
	})
	return found
}

package main

import (
	"fmt"
	"go/ast"
	"go/token"
	"path/filepath"
	"strings"
)

// extractAll: the remaining items (added as the model grows).
func extractAll(repo string, o *out) {
	extractToxics(repo, o)
	extractLink(repo, o)
	extractOps(repo, o)
	extractAPI(repo, o)
	extractClient(repo, o)
	extractProxy(repo, o)
	extractConc(repo, o)
	extractLocks(repo, o)
}

// emit writes  Definition name params : ty := body.  or, when body is empty, the last-known value.
func (o *out) emit(name, params, ty, body, last, src, note string) {
	if body != "" {
		o.def(name, fmt.Sprintf("Definition %s %s: %s := %s.", name, params, ty, body), item{true, src, note})
	} else {
		if note == "" {
			note = "not located in the source; last-known value emitted"
		}
		o.def(name, fmt.Sprintf("Definition %s %s: %s := %s.", name, params, ty, last), item{false, src, note})
	}
}

// find returns the first node in n satisfying pred.
func find(n ast.Node, pred func(ast.Node) bool) ast.Node {
	var res ast.Node
	if n == nil {
		return nil
	}
	ast.Inspect(n, func(x ast.Node) bool {
		if res != nil || x == nil {
			return false
		}
		if pred(x) {
			res = x
			return false
		}
		return true
	})
	return res
}

func findAll(n ast.Node, pred func(ast.Node) bool) []ast.Node {
	var res []ast.Node
	if n == nil {
		return nil
	}
	ast.Inspect(n, func(x ast.Node) bool {
		if x != nil && pred(x) {
			res = append(res, x)
		}
		return true
	})
	return res
}

func isCall(fset *token.FileSet, n ast.Node, fun string) (*ast.CallExpr, bool) {
	c, ok := n.(*ast.CallExpr)
	if ok && show(fset, c.Fun) == fun {
		return c, true
	}
	return nil, false
}

func (p *pkg) tryCoq(x ast.Expr, vars map[string]string, wrap bool) (string, string) {
	return p.tryCoqWide(x, vars, wrap, nil)
}

func (p *pkg) tryCoqWide(x ast.Expr, vars map[string]string, wrap bool, wide []string) (string, string) {
	if x == nil {
		return "", ""
	}
	e := &env{fset: p.fset, vars: vars, wrap: wrap, wide: wide}
	s, err := e.toCoq(x)
	if err != nil {
		return "", err.Error()
	}
	return s, ""
}

// durationOf finds `name := EXPR` (or the argument of time.After) and translates EXPR over the given vars
func (p *pkg) assignRHS(body ast.Node, lhs string) ast.Expr {
	n := find(body, func(x ast.Node) bool {
		a, ok := x.(*ast.AssignStmt)
		return ok && len(a.Lhs) == 1 && len(a.Rhs) == 1 && show(p.fset, a.Lhs[0]) == lhs && (a.Tok == token.DEFINE || a.Tok == token.ASSIGN)
	})
	if n == nil {
		return nil
	}
	return n.(*ast.AssignStmt).Rhs[0]
}

func extractToxics(repo string, o *out) {
	p, err := loadPkg(filepath.Join(repo, "toxics"))
	if err != nil {
		p = &pkg{fset: token.NewFileSet(), files: map[string]*ast.File{}}
	}
	fs := p.fset

	// ------------------------------------------------------------ slicer.chunk
	{
		var base, mid, guard, randn, adj, src string
		wide := []string{"avg", "var", "r"} // attribute values and draws range over all of int; offsets into a chunk do not
		if fd := p.method("SlicerToxic", "chunk"); fd != nil && fd.Body != nil && len(fd.Type.Params.List) >= 1 {
			t := recvName(fd)
			var names []string
			for _, f := range fd.Type.Params.List {
				for _, n := range f.Names {
					names = append(names, n.Name)
				}
			}
			if len(names) == 2 {
				vars := map[string]string{names[0]: "start", names[1]: "end_", t + ".AverageSize": "avg", t + ".SizeVariation": "var"}
				for _, st := range fd.Body.List {
					switch s := st.(type) {
					case *ast.IfStmt:
						if base == "" {
							// base case: returns []int{start, end}
							if len(s.Body.List) == 1 {
								if r, ok := s.Body.List[0].(*ast.ReturnStmt); ok && len(r.Results) == 1 &&
									show(fs, r.Results[0]) == "[]int{"+names[0]+", "+names[1]+"}" {
									base, _ = p.tryCoqWide(s.Cond, vars, false, wide)
									src = show(fs, s.Cond)
								}
							}
						} else if mid != "" && guard == "" {
							// if t.SizeVariation > 0 { mid += rand.Intn(ARG) - X }
							if len(s.Body.List) == 1 {
								if a, ok := s.Body.List[0].(*ast.AssignStmt); ok && a.Tok == token.ADD_ASSIGN && show(fs, a.Lhs[0]) == "mid" {
									call := find(a.Rhs[0], func(x ast.Node) bool { _, ok := isCall(fs, x, "rand.Intn"); return ok })
									if call != nil {
										c := call.(*ast.CallExpr)
										guard, _ = p.tryCoqWide(s.Cond, vars, false, wide)
										randn, _ = p.tryCoqWide(c.Args[0], vars, false, wide)
										v2 := map[string]string{show(fs, c): "r", "mid": "mid"}
										for k, v := range vars {
											v2[k] = v
										}
										rhs, _ := p.tryCoqWide(a.Rhs[0], v2, false, wide)
										if rhs != "" {
											adj = "(wrap64 (mid + " + rhs + "))"
										}
									}
								}
							}
						}
					case *ast.AssignStmt:
						if s.Tok == token.DEFINE && len(s.Lhs) == 1 && show(fs, s.Lhs[0]) == "mid" {
							mid, _ = p.tryCoqWide(s.Rhs[0], vars, false, wide)
						}
					}
				}
			}
		}
		// the recursive structure (left = chunk(start, mid); right = chunk(mid, end); append) is hand-modelled
		o.emit("slicer_base", "(start end_ avg var : Z) ", "bool", base, "(((end_ - start) - avg) <=? var)", src, "")
		o.emit("slicer_mid", "(start end_ : Z) ", "Z", mid, "(start + (godiv (end_ - start) 2))", "", "")
		o.emit("slicer_rand_guard", "(var : Z) ", "bool", guard, "(0 <? var)", "", "")
		o.emit("slicer_rand_n", "(var : Z) ", "Z", randn, "(var * 2)", "", "")
		o.emit("slicer_mid_adj", "(mid r var : Z) ", "Z", adj, "(mid + (r - var))", "", "")
		// optional clamp of the split point:  if C1 { mid = E1 } else if C2 { mid = E2 }
		clamp := "mid"
		if fd := p.method("SlicerToxic", "chunk"); fd != nil && fd.Body != nil {
			var names []string
			for _, f := range fd.Type.Params.List {
				for _, n := range f.Names {
					names = append(names, n.Name)
				}
			}
			if len(names) == 2 {
				vars := map[string]string{names[0]: "start", names[1]: "end_", "mid": "mid"}
				var conv func(s *ast.IfStmt) string
				conv = func(s *ast.IfStmt) string {
					if len(s.Body.List) != 1 {
						return ""
					}
					a, ok := s.Body.List[0].(*ast.AssignStmt)
					if !ok || a.Tok != token.ASSIGN || show(fs, a.Lhs[0]) != "mid" {
						return ""
					}
					c, _ := p.tryCoq(s.Cond, vars, false)
					e, _ := p.tryCoq(a.Rhs[0], vars, false)
					if c == "" || e == "" {
						return ""
					}
					rest := "mid"
					if ei, ok := s.Else.(*ast.IfStmt); ok {
						rest = conv(ei)
						if rest == "" {
							return ""
						}
					} else if s.Else != nil {
						return ""
					}
					return "(if " + c + " then " + e + " else " + rest + ")"
				}
				for _, st := range fd.Body.List {
					if is, ok := st.(*ast.IfStmt); ok {
						if r := conv(is); r != "" {
							clamp = r
						}
					}
				}
			}
		}
		o.emit("slicer_clamp", "(start end_ mid : Z) ", "Z", clamp, "mid", "", "")
	}
	// slicer delay unit
	{
		body := ""
		if fd := p.method("SlicerToxic", "Pipe"); fd != nil {
			t := recvName(fd)
			n := find(fd.Body, func(x ast.Node) bool { _, ok := isCall(fs, x, "time.After"); return ok })
			if n != nil {
				body, _ = p.tryCoq(n.(*ast.CallExpr).Args[0], map[string]string{t + ".Delay": "delay"}, true)
			}
		}
		o.emit("slicer_delay_ns", "(delay : Z) ", "Z", body, "(wrap64 (delay * 1000))", "", "")
	}

	// ------------------------------------------------------------ latency.delay
	{
		var guard, randn, withJ, base string
		if fd := p.method("LatencyToxic", "delay"); fd != nil && fd.Body != nil {
			t := recvName(fd)
			vars := map[string]string{t + ".Latency": "lat", t + ".Jitter": "jit"}
			thenVars := map[string]string{}
			for _, st := range fd.Body.List {
				switch s := st.(type) {
				case *ast.AssignStmt:
					if s.Tok == token.DEFINE && len(s.Lhs) == 1 {
						if v, _ := p.tryCoq(s.Rhs[0], vars, true); v != "" {
							vars[show(fs, s.Lhs[0])] = v
						}
					}
				case *ast.IfStmt:
					if len(s.Body.List) == 1 {
						if a, ok := s.Body.List[0].(*ast.AssignStmt); ok && a.Tok == token.ASSIGN && len(a.Lhs) == 1 && s.Else == nil {
							// if cond { x = e }  ->  x := if cond then e else x
							lhs := show(fs, a.Lhs[0])
							c, _ := p.tryCoq(s.Cond, vars, true)
							e, _ := p.tryCoq(a.Rhs[0], vars, true)
							if old, ok := vars[lhs]; ok && c != "" && e != "" {
								vars[lhs] = "(if " + c + " then " + e + " else " + old + ")"
							}
							continue
						}
						if a, ok := s.Body.List[0].(*ast.AssignStmt); ok && a.Tok == token.ADD_ASSIGN {
							call := find(a.Rhs[0], func(x ast.Node) bool { _, ok := isCall(fs, x, "rand.Int63n"); return ok })
							if call != nil {
								c := call.(*ast.CallExpr)
								guard, _ = p.tryCoq(s.Cond, vars, true)
								randn, _ = p.tryCoq(c.Args[0], vars, true)
								for k, v := range vars {
									thenVars[k] = v
								}
								thenVars[show(fs, c)] = "r"
								rhs, _ := p.tryCoq(a.Rhs[0], thenVars, true)
								lhs := show(fs, a.Lhs[0])
								if rhs != "" && vars[lhs] != "" {
									thenVars[lhs] = "(wrap64 (" + vars[lhs] + " + " + rhs + "))"
								}
							}
						}
					}
				case *ast.ReturnStmt:
					if len(s.Results) == 1 {
						base, _ = p.tryCoq(s.Results[0], vars, true)
						if len(thenVars) > 0 {
							withJ, _ = p.tryCoq(s.Results[0], thenVars, true)
						}
					}
				}
			}
		}
		o.emit("latency_jitter_guard", "(jit : Z) ", "bool", guard, "(0 <? jit)", "", "")
		o.emit("latency_rand_n", "(jit : Z) ", "Z", randn, "(wrap64 (jit * 2))", "", "")
		o.emit("latency_delay_ns", "(lat r jit : Z) ", "Z", withJ, "(wrap64 ((wrap64 (lat + (wrap64 (r - jit)))) * 1000000))", "", "")
		o.emit("latency_base_ns", "(lat : Z) ", "Z", base, "(wrap64 (lat * 1000000))", "", "")
		// buffer size
		bs := ""
		if fd := p.method("LatencyToxic", "GetBufferSize"); fd != nil && fd.Body != nil && len(fd.Body.List) == 1 {
			if r, ok := fd.Body.List[0].(*ast.ReturnStmt); ok && len(r.Results) == 1 {
				if v, ok := constInt(fs, r.Results[0]); ok {
					bs = coqZ(v)
				}
			}
		}
		o.emit("latency_buffer_size", "", "Z", bs, "1024", "", "")
	}

	// ------------------------------------------------------------ bandwidth.Pipe
	{
		var add, split, inst, instBytes, flush, cutTested string
		if fd := p.method("BandwidthToxic", "Pipe"); fd != nil && fd.Body != nil {
			t := recvName(fd)
			vars := map[string]string{t + ".Rate": "rate", "len(p.Data)": "len", "sleep": "acc"}
			// if t.Rate <= 0 { sleep = 0 } else { sleep += E }
			n := find(fd.Body, func(x ast.Node) bool {
				s, ok := x.(*ast.IfStmt)
				if !ok || s.Else == nil || len(s.Body.List) != 1 {
					return false
				}
				a, ok := s.Body.List[0].(*ast.AssignStmt)
				return ok && show(fs, a.Lhs[0]) == "sleep"
			})
			if n != nil {
				s := n.(*ast.IfStmt)
				cond, _ := p.tryCoq(s.Cond, vars, true)
				th, _ := p.tryCoq(s.Body.List[0].(*ast.AssignStmt).Rhs[0], vars, true)
				if eb, ok := s.Else.(*ast.BlockStmt); ok && len(eb.List) == 1 {
					if a, ok := eb.List[0].(*ast.AssignStmt); ok && a.Tok == token.ADD_ASSIGN && show(fs, a.Lhs[0]) == "sleep" {
						el, _ := p.tryCoq(a.Rhs[0], vars, true)
						if cond != "" && th != "" && el != "" {
							add = "if " + cond + " then " + th + " else (wrap64 (acc + " + el + "))"
						}
					}
				}
			}
			// for int64(len(p.Data)) > t.Rate*100 { select { case <-time.After(X): ... p.Data[:E] ... sleep -= X
			// or, reading the rate once per round:  for { rate := t.Rate; if <stop test> { break }; select { ... p.Data[:rate*100] ...
			if fn := find(fd.Body, func(x ast.Node) bool {
				f, ok := x.(*ast.ForStmt)
				if !ok {
					return false
				}
				if f.Cond != nil {
					return true
				}
				// the inner loop is the one whose body starts by copying the rate into a local variable
				if len(f.Body.List) >= 2 {
					if a, ok := f.Body.List[0].(*ast.AssignStmt); ok && a.Tok == token.DEFINE && len(a.Rhs) == 1 && show(fs, a.Rhs[0]) == t+".Rate" {
						return true
					}
				}
				return false
			}); fn != nil {
				f := fn.(*ast.ForStmt)
				cutVars := vars
				if f.Cond != nil {
					split, _ = p.tryCoq(f.Cond, vars, true)
					cutTested = "false" // the cut re-reads the field the test read: an update in between changes it
				} else {
					a := f.Body.List[0].(*ast.AssignStmt)
					local := show(fs, a.Lhs[0])
					cutVars = map[string]string{local: "rate", "len(p.Data)": "len", "sleep": "acc"}
					if br, ok := f.Body.List[1].(*ast.IfStmt); ok && br.Else == nil && len(br.Body.List) == 1 {
						if b, ok := br.Body.List[0].(*ast.BranchStmt); ok && b.Tok == token.BREAK {
							if c, _ := p.tryCoq(br.Cond, cutVars, true); c != "" {
								split = "(negb " + c + ")"
								cutTested = "true"
							}
						}
					}
					// no other read of the field inside the loop
					if find(f.Body, func(x ast.Node) bool {
						se, ok := x.(*ast.SelectorExpr)
						return ok && show(fs, se) == t+".Rate" && se.Pos() > a.End()
					}) != nil {
						cutTested = ""
					}
				}
				vars := cutVars
				if c := find(f.Body, func(x ast.Node) bool { _, ok := isCall(fs, x, "time.After"); return ok }); c != nil {
					if v, ok := constInt(fs, c.(*ast.CallExpr).Args[0]); ok {
						inst = coqZ(v)
					}
				}
				if sl := find(f.Body, func(x ast.Node) bool {
					s, ok := x.(*ast.SliceExpr)
					return ok && s.Low == nil && s.High != nil
				}); sl != nil {
					instBytes, _ = p.tryCoq(sl.(*ast.SliceExpr).High, vars, true)
				}
				// consistency: the amount subtracted from sleep per instalment must be the timer length
				if sub := find(f.Body, func(x ast.Node) bool {
					a, ok := x.(*ast.AssignStmt)
					return ok && a.Tok == token.SUB_ASSIGN && show(fs, a.Lhs[0]) == "sleep"
				}); sub != nil {
					if v, ok := constInt(fs, sub.(*ast.AssignStmt).Rhs[0]); !ok || coqZ(v) != inst {
						inst = "" // shapes differ: fall back to correspondence for this item
					}
				}
			}
			if c := find(fd.Body, func(x ast.Node) bool {
				ce, ok := x.(*ast.CallExpr)
				return ok && strings.HasSuffix(show(fs, ce.Fun), ".WriteOutput")
			}); c != nil {
				if v, ok := constInt(fs, c.(*ast.CallExpr).Args[1]); ok {
					flush = coqZ(v)
				}
			}
		}
		o.emit("bw_sleep_add", "(acc len rate : Z) ", "Z", add, "if (rate <=? 0) then 0 else (wrap64 (acc + (godiv (wrap64 (len * 1000000)) rate)))", "", "")
		o.emit("bw_split_test", "(len rate : Z) ", "bool", split, "((wrap64 (rate * 100)) <? len)", "", "")
		o.emit("bw_instalment_ns", "", "Z", inst, "100000000", "", "")
		o.emit("bw_instalment_bytes", "(rate : Z) ", "Z", instBytes, "(wrap64 (rate * 100))", "", "")
		// does the cut p.Data[:E] use the very value the loop test used (true), or does it read the shared attribute again (false)?
		o.emit("bw_cut_uses_tested_rate", "", "bool", cutTested, "true", "", "")
		o.emit("flush_timeout_ns", "", "Z", flush, "5000000000", "", "")
	}

	// ------------------------------------------------------------ limit_data.Pipe
	{
		var rem, closeT string
		if fd := p.method("LimitDataToxic", "Pipe"); fd != nil && fd.Body != nil {
			t := recvName(fd)
			vars := map[string]string{t + ".Bytes": "nbytes", "state.bytesTransmitted": "counter", "bytesRemaining": "rem"}
			if r := p.assignRHS(fd.Body, "bytesRemaining"); r != nil {
				rem, _ = p.tryCoq(r, vars, true)
			}
			// the if whose body closes the stub and returns, testing bytesRemaining
			n := find(fd.Body, func(x ast.Node) bool {
				s, ok := x.(*ast.IfStmt)
				if !ok || !strings.Contains(show(fs, s.Cond), "bytesRemaining") || len(s.Body.List) != 2 {
					return false
				}
				return strings.Contains(show(fs, s.Body.List[0]), ".Close()")
			})
			if n != nil {
				closeT, _ = p.tryCoq(n.(*ast.IfStmt).Cond, vars, true)
			}
		}
		o.emit("limit_remaining", "(nbytes counter : Z) ", "Z", rem, "(wrap64 (nbytes - counter))", "", "")
		o.emit("limit_close_test", "(rem : Z) ", "bool", closeT, "(rem <=? 0)", "", "")
	}

	// ------------------------------------------------------------ timeout / slow_close / reset_peer
	{
		var tns, pos string
		rearm := ""
		if fd := p.method("TimeoutToxic", "Pipe"); fd != nil && fd.Body != nil {
			t := recvName(fd)
			vars := map[string]string{t + ".Timeout": "t"}
			if r := p.assignRHS(fd.Body, "timeout"); r != nil {
				tns, _ = p.tryCoq(r, vars, true)
			}
			if n := find(fd.Body, func(x ast.Node) bool {
				s, ok := x.(*ast.IfStmt)
				return ok && strings.Contains(show(fs, s.Cond), "timeout")
			}); n != nil && tns != "" {
				pos, _ = p.tryCoq(n.(*ast.IfStmt).Cond, map[string]string{"timeout": "(timeout_ns t)"}, true)
			}
			// is the timer created inside a loop (re-armed by every chunk) or once before it?
			inLoop, outLoop := false, false
			for _, c := range findAll(fd.Body, func(x ast.Node) bool {
				ce, ok := x.(*ast.CallExpr)
				if !ok {
					return false
				}
				f := show(fs, ce.Fun)
				return f == "time.After" || f == "time.NewTimer"
			}) {
				in := false
				for _, f := range findAll(fd.Body, func(x ast.Node) bool { _, ok := x.(*ast.ForStmt); return ok }) {
					if f.Pos() <= c.Pos() && c.End() <= f.End() {
						in = true
					}
				}
				if in {
					inLoop = true
				} else {
					outLoop = true
				}
			}
			if inLoop != outLoop {
				rearm = boolS(inLoop)
			}
		}
		o.emit("timeout_ns", "(t : Z) ", "Z", tns, "(wrap64 (t * 1000000))", "", "")
		o.emit("timeout_positive", "(t : Z) ", "bool", pos, "(0 <? (timeout_ns t))", "", "")
		o.emit("timeout_rearms", "", "bool", rearm, "false", "", "")
	}
	// ------------------------------------------------------------ sends are plain
	// In every built-in toxic a hand-off to the next stage is a plain statement `stub.Output <- x` (possibly in the BODY of a select
	// case), never itself an arm of a select: a stage that is sending cannot be interrupted (the model's [Send] states ignore interrupts;
	// WriteOutput, the 5 s give-up, is toxic.go's own and modelled separately as [SendT]).
	{
		plain := ""
		pipes, arms := 0, 0
		for _, f := range p.files {
			for _, d := range f.Decls {
				fd, ok := d.(*ast.FuncDecl)
				if !ok || fd.Body == nil || fd.Name.Name != "Pipe" || fd.Recv == nil {
					continue
				}
				pipes++
				ast.Inspect(fd.Body, func(x ast.Node) bool {
					if cc, ok := x.(*ast.CommClause); ok && cc.Comm != nil {
						if snd, ok := cc.Comm.(*ast.SendStmt); ok && strings.HasSuffix(show(fs, snd.Chan), ".Output") {
							arms++
						}
					}
					return true
				})
			}
		}
		if pipes >= 7 {
			plain = boolS(arms == 0)
		}
		o.emit("toxic_sends_are_plain", "", "bool", plain, "true", "", "")
		// ... and the only hand-offs that may be given up (WriteOutput with a time limit) sit on interrupt paths: inside a select
		// arm that received from stub.Interrupt. On a connection that is not being reconfigured nothing is ever given up on.
		giveup := ""
		nw, outside := 0, 0
		for _, f := range p.files {
			for _, d := range f.Decls {
				fd, ok := d.(*ast.FuncDecl)
				if !ok || fd.Body == nil || fd.Name.Name != "Pipe" || fd.Recv == nil {
					continue
				}
				var arms []*ast.CommClause
				ast.Inspect(fd.Body, func(x ast.Node) bool {
					if cc, ok := x.(*ast.CommClause); ok && cc.Comm != nil && strings.Contains(show(fs, cc.Comm), ".Interrupt") {
						arms = append(arms, cc)
					}
					return true
				})
				ast.Inspect(fd.Body, func(x ast.Node) bool {
					if c, ok := x.(*ast.CallExpr); ok && strings.HasSuffix(show(fs, c.Fun), ".WriteOutput") {
						nw++
						in := false
						for _, a := range arms {
							if a.Pos() <= c.Pos() && c.End() <= a.End() {
								in = true
							}
						}
						if !in {
							outside++
						}
					}
					return true
				})
			}
		}
		if pipes >= 7 {
			giveup = boolS(outside == 0)
		}
		_ = nw
		o.emit("give_up_only_when_interrupted", "", "bool", giveup, "true", "", "")

		sc := ""
		if fd := p.method("SlowCloseToxic", "Pipe"); fd != nil && fd.Body != nil {
			if r := p.assignRHS(fd.Body, "delay"); r != nil {
				sc, _ = p.tryCoq(r, map[string]string{recvName(fd) + ".Delay": "d"}, true)
			}
		}
		o.emit("slow_close_ns", "(d : Z) ", "Z", sc, "(wrap64 (d * 1000000))", "", "")
		rp := ""
		if fd := p.method("ResetToxic", "Pipe"); fd != nil && fd.Body != nil {
			if r := p.assignRHS(fd.Body, "timeout"); r != nil {
				rp, _ = p.tryCoq(r, map[string]string{recvName(fd) + ".Timeout": "t"}, true)
			}
		}
		o.emit("reset_peer_ns", "(t : Z) ", "Z", rp, "(wrap64 (t * 1000000))", "", "")
	}

	// ------------------------------------------------------------ toxic.go: Run's toxicity test
	{
		body := ""
		if fd := p.method("ToxicStub", "Run"); fd != nil && fd.Body != nil {
			if n := find(fd.Body, func(x ast.Node) bool {
				s, ok := x.(*ast.IfStmt)
				return ok && strings.Contains(show(fs, s.Cond), "Toxicity")
			}); n != nil {
				s := n.(*ast.IfStmt)
				// which comparison decides "run the toxic" (then-branch calls toxic.Pipe)
				if b, ok := s.Cond.(*ast.BinaryExpr); ok && strings.Contains(show(fs, s.Body), ".Pipe(") && !strings.Contains(show(fs, s.Body), "NoopToxic") {
					l, r := show(fs, b.X), show(fs, b.Y)
					draw := "randomToxicity"
					switch {
					case l == draw && strings.HasSuffix(r, ".Toxicity"):
						body = map[token.Token]string{token.LSS: "TLt", token.LEQ: "TLe"}[b.Op]
					case r == draw && strings.HasSuffix(l, ".Toxicity"):
						body = map[token.Token]string{token.GTR: "TLt", token.GEQ: "TLe"}[b.Op]
					}
				}
			}
		}
		o.def("toxicity_cmp_t", "Inductive toxicity_cmp_t := TLt | TLe.", item{true, "", "type of the comparison `draw ? toxicity`"})
		o.emit("toxicity_cmp", "", "toxicity_cmp_t", body, "TLt", "", "")
	}
}

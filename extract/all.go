package main

// extractAll: the remaining items (added as the model grows).
func extractAll(repo string, o *out) {
}

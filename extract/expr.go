package main

import (
	"bytes"
	"fmt"
	"go/ast"
	"go/printer"
	"go/token"
	"regexp"
	"strconv"
)

// show prints an expression in canonical gofmt form (used as the key of environments).
func show(fset *token.FileSet, n ast.Node) string {
	var b bytes.Buffer
	printer.Fprint(&b, fset, n)
	return b.String()
}

// known constants of the standard library, in the unit the Go type uses (time.Duration = ns)
var stdConsts = map[string]int64{
	"time.Nanosecond":  1,
	"time.Microsecond": 1000,
	"time.Millisecond": 1000000,
	"time.Second":      1000000000,
	"time.Minute":      60000000000,
	"time.Hour":        3600000000000,
	"math.MaxInt64":    9223372036854775807,
	"math.MaxInt":      9223372036854775807,
	"math.MinInt64":    -9223372036854775808,
}

// conversions that do not change the integer value (modulo range, which the model handles with wrap64)
var identityConv = map[string]bool{
	"int": true, "int64": true, "int32": true, "uint": true, "time.Duration": true, "float64": true,
}

type env struct {
	fset *token.FileSet
	vars map[string]string // printed Go expression -> Coq term
	wrap bool              // wrap +,-,* to int64
	wide []string          // Coq variables that range over all of int64 (attribute values, draws): with wrap off, only
	// arithmetic mentioning one of them is wrapped; arithmetic on slice offsets alone (0 <= offset <= len) cannot overflow
}

// toCoq translates an integer/boolean Go expression into a Gallina term over Z / bool.
func (e *env) toCoq(x ast.Expr) (string, error) {
	if v, ok := e.vars[show(e.fset, x)]; ok {
		return v, nil
	}
	switch t := x.(type) {
	case *ast.ParenExpr:
		return e.toCoq(t.X)
	case *ast.BasicLit:
		if t.Kind == token.INT {
			v, err := strconv.ParseInt(t.Value, 0, 64)
			if err != nil {
				return "", err
			}
			return coqZ(v), nil
		}
	case *ast.Ident:
		if t.Name == "true" || t.Name == "false" {
			return t.Name, nil
		}
	case *ast.SelectorExpr:
		if v, ok := stdConsts[show(e.fset, t)]; ok {
			return coqZ(v), nil
		}
	case *ast.CallExpr:
		if len(t.Args) == 1 && identityConv[show(e.fset, t.Fun)] {
			return e.toCoq(t.Args[0])
		}
	case *ast.UnaryExpr:
		a, err := e.toCoq(t.X)
		if err != nil {
			return "", err
		}
		switch t.Op {
		case token.NOT:
			return "(negb " + a + ")", nil
		case token.SUB:
			return e.w("(- " + a + ")"), nil
		case token.ADD:
			return a, nil
		}
	case *ast.BinaryExpr:
		a, err := e.toCoq(t.X)
		if err != nil {
			return "", err
		}
		b, err := e.toCoq(t.Y)
		if err != nil {
			return "", err
		}
		switch t.Op {
		case token.ADD:
			return e.w("(" + a + " + " + b + ")"), nil
		case token.SUB:
			return e.w("(" + a + " - " + b + ")"), nil
		case token.MUL:
			return e.w("(" + a + " * " + b + ")"), nil
		case token.QUO:
			return "(godiv " + a + " " + b + ")", nil
		case token.REM:
			return "(gorem " + a + " " + b + ")", nil
		case token.EQL:
			return "(" + a + " =? " + b + ")", nil
		case token.NEQ:
			return "(negb (" + a + " =? " + b + "))", nil
		case token.LSS:
			return "(" + a + " <? " + b + ")", nil
		case token.LEQ:
			return "(" + a + " <=? " + b + ")", nil
		case token.GTR:
			return "(" + b + " <? " + a + ")", nil
		case token.GEQ:
			return "(" + b + " <=? " + a + ")", nil
		case token.LAND:
			return "(" + a + " && " + b + ")", nil
		case token.LOR:
			return "(" + a + " || " + b + ")", nil
		}
	}
	return "", fmt.Errorf("expression outside the translated subset: %s", show(e.fset, x))
}

func (e *env) w(s string) string {
	if e.wrap {
		return "(wrap64 " + s + ")"
	}
	for _, v := range e.wide {
		if regexp.MustCompile(`(^|[^A-Za-z0-9_])` + regexp.QuoteMeta(v) + `($|[^A-Za-z0-9_])`).MatchString(s) {
			return "(wrap64 " + s + ")"
		}
	}
	return s
}

func coqZ(v int64) string {
	if v < 0 {
		return fmt.Sprintf("(%d)", v)
	}
	return fmt.Sprintf("%d", v)
}

// constInt folds a constant integer expression (literals, std constants, + - * /, conversions).
func constInt(fset *token.FileSet, x ast.Expr) (int64, bool) {
	switch t := x.(type) {
	case *ast.ParenExpr:
		return constInt(fset, t.X)
	case *ast.BasicLit:
		if t.Kind == token.INT {
			v, err := strconv.ParseInt(t.Value, 0, 64)
			return v, err == nil
		}
	case *ast.SelectorExpr:
		v, ok := stdConsts[show(fset, t)]
		return v, ok
	case *ast.CallExpr:
		if len(t.Args) == 1 && identityConv[show(fset, t.Fun)] {
			return constInt(fset, t.Args[0])
		}
	case *ast.UnaryExpr:
		if v, ok := constInt(fset, t.X); ok && t.Op == token.SUB {
			return -v, true
		}
	case *ast.BinaryExpr:
		a, ok1 := constInt(fset, t.X)
		b, ok2 := constInt(fset, t.Y)
		if ok1 && ok2 {
			switch t.Op {
			case token.ADD:
				return a + b, true
			case token.SUB:
				return a - b, true
			case token.MUL:
				return a * b, true
			case token.QUO:
				if b != 0 {
					return a / b, true
				}
			}
		}
	}
	return 0, false
}

package main

import (
	"go/ast"
	"strings"
)

// extractConc: which handlers do their whole effect inside one critical section
func extractConc(repo string, o *out) {
	p, err := loadPkg(repo)
	if err != nil {
		p = &pkg{files: map[string]*ast.File{}}
	}
	fs := p.fset
	wholeBodyLocked := func(typ, name, recv string) bool {
		fd := p.method(typ, name)
		if fd == nil || fd.Body == nil {
			return false
		}
		// skip leading statements that do not touch the receiver's data (logging setup)
		idx := -1
		for i, st := range fd.Body.List {
			s := show(fs, st)
			if s == recv+".Lock()" {
				idx = i
				break
			}
			if strings.Contains(s, recv+".proxies") || strings.Contains(s, recv+".chain") || strings.Contains(s, recv+".links") ||
				strings.Contains(s, recv+".Get(") || strings.Contains(s, recv+".getByName(") || strings.Contains(s, recv+".findToxicByName(") ||
				strings.Contains(s, recv+".RLock()") {
				return false
			}
		}
		if idx < 0 || idx+1 >= len(fd.Body.List) {
			return false
		}
		if show(fs, fd.Body.List[idx+1]) != "defer "+recv+".Unlock()" {
			return false
		}
		// ... and the lock is not released and re-taken anywhere in between: exactly one Lock and one (deferred) Unlock on the receiver
		locks, unlocks := 0, 0
		ast.Inspect(fd.Body, func(x ast.Node) bool {
			if c, ok := x.(*ast.CallExpr); ok {
				switch show(fs, c.Fun) {
				case recv + ".Lock", recv + ".RLock":
					locks++
				case recv + ".Unlock", recv + ".RUnlock":
					unlocks++
				}
			}
			return true
		})
		return locks == 1 && unlocks == 1
	}
	coll := wholeBodyLocked("ProxyCollection", "Add", "collection") && wholeBodyLocked("ProxyCollection", "AddOrReplace", "collection") &&
		wholeBodyLocked("ProxyCollection", "Remove", "collection")
	o.emit("collection_mutators_atomic", "", "bool", boolS(coll), "true", "", "")
	tox := wholeBodyLocked("ToxicCollection", "AddToxicJson", "c") && wholeBodyLocked("ToxicCollection", "UpdateToxicJson", "c") &&
		wholeBodyLocked("ToxicCollection", "RemoveToxic", "c") && wholeBodyLocked("ToxicCollection", "ResetToxics", "c") &&
		wholeBodyLocked("ToxicCollection", "StartLink", "c") && wholeBodyLocked("ToxicCollection", "RemoveLink", "c")
	o.emit("toxic_mutators_atomic", "", "bool", boolS(tox), "true", "", "")
	// ProxyUpdate: lookup (collection read lock), defaults read without a lock, then Proxy.Update under the proxy lock
	two := ""
	if fd := p.method("ApiServer", "ProxyUpdate"); fd != nil && fd.Body != nil {
		s := show(fs, fd.Body)
		two = boolS(strings.Contains(s, "server.Collection.Get(") && strings.Contains(s, "proxy.Update("))
	}
	o.emit("proxy_update_two_sections", "", "bool", two, "true", "", "")
}

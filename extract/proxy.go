package main

import (
	"go/ast"
	"strings"
)

// extractProxy: proxy.go
//
//	free_blocker_waits_for_accept_loop — freeBlocker calls acceptTomb.Wait() before proxy.tomb.Done()
//	conn_key_is_dest                   — connections.list[name+X] holds the destination socket of link name+X
//	registers_before_links             — both sockets are put in the table before the first StartLink
//	stop_waits_then_closes             — stop(): tomb.Kill, tomb.Wait, then closes every registered connection
//	writer_deregisters_its_name        — a link's writer closes the destination and deregisters the name the link was started under
func extractProxy(repo string, o *out) {
	p, err := loadPkg(repo)
	if err != nil {
		p = &pkg{files: map[string]*ast.File{}}
	}
	fs := p.fset
	pos := func(body ast.Node, pred func(string) bool) int {
		n := find(body, func(x ast.Node) bool {
			es, ok := x.(*ast.ExprStmt)
			return ok && pred(show(fs, es.X))
		})
		if n == nil {
			return -1
		}
		return int(n.Pos())
	}
	waits := ""
	if fd := p.method("Proxy", "freeBlocker"); fd != nil && fd.Body != nil {
		kill := pos(fd.Body, func(s string) bool { return strings.HasPrefix(s, "acceptTomb.Kill") })
		cl := pos(fd.Body, func(s string) bool { return s == "proxy.close()" })
		wait := pos(fd.Body, func(s string) bool { return s == "acceptTomb.Wait()" })
		done := pos(fd.Body, func(s string) bool { return s == "proxy.tomb.Done()" })
		if kill >= 0 && cl >= 0 && wait >= 0 && done >= 0 {
			waits = boolS(kill < cl && cl < wait && wait < done)
		}
	}
	o.emit("free_blocker_waits_for_accept_loop", "", "bool", waits, "true", "", "")

	keyDest, regFirst := "", ""
	if fd := p.method("Proxy", "server"); fd != nil && fd.Body != nil {
		// table[name+"upstream"] = X ; StartLink(server, name+"upstream", src, dst, dir)
		table := map[string]string{}
		firstLink, lastReg := -1, -1
		ast.Inspect(fd.Body, func(n ast.Node) bool {
			switch x := n.(type) {
			case *ast.AssignStmt:
				if len(x.Lhs) == 1 && len(x.Rhs) == 1 {
					if ix, ok := x.Lhs[0].(*ast.IndexExpr); ok && strings.HasSuffix(show(fs, ix.X), "connections.list") {
						table[show(fs, ix.Index)] = show(fs, x.Rhs[0])
						if int(x.Pos()) > lastReg {
							lastReg = int(x.Pos())
						}
					}
				}
			case *ast.CallExpr:
				if strings.HasSuffix(show(fs, x.Fun), ".StartLink") && len(x.Args) == 5 {
					if firstLink < 0 || int(x.Pos()) < firstLink {
						firstLink = int(x.Pos())
					}
					key, dst := show(fs, x.Args[1]), show(fs, x.Args[3])
					if v, ok := table[key]; ok {
						if v == dst && keyDest != "false" {
							keyDest = "true"
						} else {
							keyDest = "false"
						}
					} else {
						keyDest = "false"
					}
				}
			}
			return true
		})
		if firstLink >= 0 && lastReg >= 0 {
			regFirst = boolS(lastReg < firstLink)
		}
	}
	o.emit("conn_key_is_dest", "", "bool", keyDest, "true", "", "")
	o.emit("registers_before_links", "", "bool", regFirst, "true", "", "")

	// writer_deregisters_its_name: StartLink(name) files the link under links[name] and starts it with that name; Start hands
	// its name and destination to the writer goroutine; the writer closes that destination and calls RemoveLink and
	// RemoveConnection with that name
	paramAt := func(fd *ast.FuncDecl, i int) string {
		k := 0
		for _, f := range fd.Type.Params.List {
			for _, n := range f.Names {
				if k == i {
					return n.Name
				}
				k++
			}
		}
		return ""
	}
	paramIdx := func(fd *ast.FuncDecl, name string) int {
		k := 0
		for _, f := range fd.Type.Params.List {
			for _, n := range f.Names {
				if n.Name == name {
					return k
				}
				k++
			}
		}
		return -1
	}
	callArgs := func(body ast.Node, suffix string) []ast.Expr {
		var r []ast.Expr
		ast.Inspect(body, func(n ast.Node) bool {
			if c, ok := n.(*ast.CallExpr); ok && r == nil && strings.HasSuffix(show(fs, c.Fun), suffix) {
				r = c.Args
				if r == nil {
					r = []ast.Expr{}
				}
			}
			return r == nil
		})
		return r
	}
	own := ""
	wr, st, sl := p.method("ToxicLink", "write"), p.method("ToxicLink", "Start"), p.method("ToxicCollection", "StartLink")
	if wr != nil && st != nil && sl != nil && wr.Body != nil && st.Body != nil && sl.Body != nil {
		ok := true
		rl, rc := callArgs(wr.Body, ".RemoveLink"), callArgs(wr.Body, ".RemoveConnection")
		ok = ok && len(rl) == 1 && len(rc) == 1 && show(fs, rl[0]) == show(fs, rc[0])
		wName, wDest := -1, -1
		if ok {
			wName = paramIdx(wr, show(fs, rl[0]))
			ok = wName >= 0
		}
		// the destination it closes
		ast.Inspect(wr.Body, func(n ast.Node) bool {
			if es, isE := n.(*ast.ExprStmt); isE {
				if c, isC := es.X.(*ast.CallExpr); isC {
					if se, isS := c.Fun.(*ast.SelectorExpr); isS && se.Sel.Name == "Close" {
						if i := paramIdx(wr, show(fs, se.X)); i >= 0 {
							wDest = i
						}
					}
				}
			}
			return true
		})
		ok = ok && wDest >= 0
		// Start: go link.write(.., name, .., dest)
		sName, sDest := -1, -1
		if ok {
			a := callArgs(st.Body, ".write")
			if len(a) > wName && len(a) > wDest {
				sName, sDest = paramIdx(st, show(fs, a[wName])), paramIdx(st, show(fs, a[wDest]))
			}
			ok = sName >= 0 && sDest >= 0
		}
		// StartLink: link.Start(server, name, input, output); c.links[name] = link; output is StartLink's destination parameter
		if ok {
			a := callArgs(sl.Body, ".Start")
			ok = len(a) > sName && len(a) > sDest
			if ok {
				nm := show(fs, a[sName])
				ok = paramIdx(sl, nm) >= 0 && paramIdx(sl, show(fs, a[sDest])) >= 0 && paramAt(sl, paramIdx(sl, nm)) == nm
				filed := false
				ast.Inspect(sl.Body, func(n ast.Node) bool {
					if as, isA := n.(*ast.AssignStmt); isA && len(as.Lhs) == 1 {
						if ix, isI := as.Lhs[0].(*ast.IndexExpr); isI && strings.HasSuffix(show(fs, ix.X), ".links") && show(fs, ix.Index) == nm {
							filed = true
						}
					}
					return true
				})
				ok = ok && filed
			}
		}
		own = boolS(ok)
	}
	o.emit("writer_deregisters_its_name", "", "bool", own, "true", "", "")

	// writer_closes_before_deregistering: in ToxicLink.write the destination is closed by a plain statement that comes after the copy
	// and before RemoveLink / RemoveConnection (which take locks other requests may hold for seconds): the receiver sees the end of
	// the stream when the chain ends, not when those locks are free
	first := ""
	if wr != nil && wr.Body != nil {
		cp, cl, rl, rc := -1, -1, -1, -1
		deferred := false
		for i, st := range wr.Body.List {
			txt := show(fs, st)
			switch x := st.(type) {
			case *ast.DeferStmt:
				if strings.Contains(txt, ".Close()") || strings.Contains(txt, "RemoveLink") || strings.Contains(txt, "RemoveConnection") {
					deferred = true
				}
			case *ast.ExprStmt:
				if strings.HasSuffix(txt, ".Close()") && cl < 0 {
					if c, ok := x.X.(*ast.CallExpr); ok {
						if se, ok := c.Fun.(*ast.SelectorExpr); ok && paramIdx(wr, show(fs, se.X)) >= 0 {
							cl = i
						}
					}
				}
				if strings.Contains(txt, ".RemoveLink(") && rl < 0 {
					rl = i
				}
				if strings.Contains(txt, ".RemoveConnection(") && rc < 0 {
					rc = i
				}
			}
			if strings.Contains(txt, "io.Copy(") && cp < 0 {
				cp = i
			}
		}
		if cp >= 0 && cl >= 0 && rl >= 0 && rc >= 0 {
			first = boolS(!deferred && cp < cl && cl < rl && cl < rc)
		}
	}
	o.emit("writer_closes_before_deregistering", "", "bool", first, "true", "", "")

	// replace_stops_the_old_proxy: AddOrReplace stops the proxy it replaces by a statement directly in the "exists" branch (after the
	// differs test), before the replacement is started or filed - whatever the replacement's listen address and enabled flag are
	rep := ""
	if fd := p.method("ProxyCollection", "AddOrReplace"); fd != nil && fd.Body != nil {
		stopAt, startAt, fileAt := -1, -1, -1
		for _, st := range fd.Body.List {
			switch x := st.(type) {
			case *ast.IfStmt:
				cond := show(fs, x.Cond)
				if x.Init != nil && strings.Contains(show(fs, x.Init), ".proxies[") {
					for _, in := range x.Body.List {
						if es, ok := in.(*ast.ExprStmt); ok && strings.HasSuffix(show(fs, es.X), ".Stop()") {
							stopAt = int(es.Pos())
						}
					}
				} else if cond == "start" && startAt < 0 {
					startAt = int(x.Pos())
				}
			case *ast.AssignStmt:
				if len(x.Lhs) == 1 && strings.Contains(show(fs, x.Lhs[0]), ".proxies[") && fileAt < 0 {
					fileAt = int(x.Pos())
				}
			}
		}
		if startAt >= 0 && fileAt >= 0 {
			rep = boolS(stopAt >= 0 && stopAt < startAt && stopAt < fileAt)
		}
	}
	o.emit("replace_stops_the_old_proxy", "", "bool", rep, "true", "", "")

	stopOrder := ""
	if fd := p.method("", "stop"); fd != nil && fd.Body != nil {
		kill := pos(fd.Body, func(s string) bool { return strings.HasPrefix(s, "proxy.tomb.Kill") })
		wait := pos(fd.Body, func(s string) bool { return s == "proxy.tomb.Wait()" })
		cl := -1
		if n := find(fd.Body, func(x ast.Node) bool {
			r, ok := x.(*ast.RangeStmt)
			return ok && strings.HasSuffix(show(fs, r.X), "connections.list") && strings.Contains(show(fs, r.Body), ".Close()")
		}); n != nil {
			cl = int(n.Pos())
		}
		if kill >= 0 && wait >= 0 && cl >= 0 {
			stopOrder = boolS(kill < wait && wait < cl)
		}
	}
	o.emit("stop_waits_then_closes", "", "bool", stopOrder, "true", "", "")
}

package main

import (
	"go/ast"
	"strings"
)

// extractProxy: proxy.go
//
//	free_blocker_waits_for_accept_loop — freeBlocker calls acceptTomb.Wait() before proxy.tomb.Done()
//	conn_key_is_dest                   — connections.list[name+X] holds the destination socket of link name+X
//	registers_before_links             — both sockets are put in the table before the first StartLink
//	stop_waits_then_closes             — stop(): tomb.Kill, tomb.Wait, then closes every registered connection
func extractProxy(repo string, o *out) {
	p, err := loadPkg(repo)
	if err != nil {
		p = &pkg{files: map[string]*ast.File{}}
	}
	fs := p.fset
	pos := func(body ast.Node, pred func(string) bool) int {
		n := find(body, func(x ast.Node) bool {
			es, ok := x.(*ast.ExprStmt)
			return ok && pred(show(fs, es.X))
		})
		if n == nil {
			return -1
		}
		return int(n.Pos())
	}
	waits := ""
	if fd := p.method("Proxy", "freeBlocker"); fd != nil && fd.Body != nil {
		kill := pos(fd.Body, func(s string) bool { return strings.HasPrefix(s, "acceptTomb.Kill") })
		cl := pos(fd.Body, func(s string) bool { return s == "proxy.close()" })
		wait := pos(fd.Body, func(s string) bool { return s == "acceptTomb.Wait()" })
		done := pos(fd.Body, func(s string) bool { return s == "proxy.tomb.Done()" })
		if kill >= 0 && cl >= 0 && wait >= 0 && done >= 0 {
			waits = boolS(kill < cl && cl < wait && wait < done)
		}
	}
	o.emit("free_blocker_waits_for_accept_loop", "", "bool", waits, "true", "", "")

	keyDest, regFirst := "", ""
	if fd := p.method("Proxy", "server"); fd != nil && fd.Body != nil {
		// table[name+"upstream"] = X ; StartLink(server, name+"upstream", src, dst, dir)
		table := map[string]string{}
		firstLink, lastReg := -1, -1
		ast.Inspect(fd.Body, func(n ast.Node) bool {
			switch x := n.(type) {
			case *ast.AssignStmt:
				if len(x.Lhs) == 1 && len(x.Rhs) == 1 {
					if ix, ok := x.Lhs[0].(*ast.IndexExpr); ok && strings.HasSuffix(show(fs, ix.X), "connections.list") {
						table[show(fs, ix.Index)] = show(fs, x.Rhs[0])
						if int(x.Pos()) > lastReg {
							lastReg = int(x.Pos())
						}
					}
				}
			case *ast.CallExpr:
				if strings.HasSuffix(show(fs, x.Fun), ".StartLink") && len(x.Args) == 5 {
					if firstLink < 0 || int(x.Pos()) < firstLink {
						firstLink = int(x.Pos())
					}
					key, dst := show(fs, x.Args[1]), show(fs, x.Args[3])
					if v, ok := table[key]; ok {
						if v == dst && keyDest != "false" {
							keyDest = "true"
						} else {
							keyDest = "false"
						}
					} else {
						keyDest = "false"
					}
				}
			}
			return true
		})
		if firstLink >= 0 && lastReg >= 0 {
			regFirst = boolS(lastReg < firstLink)
		}
	}
	o.emit("conn_key_is_dest", "", "bool", keyDest, "true", "", "")
	o.emit("registers_before_links", "", "bool", regFirst, "true", "", "")

	stopOrder := ""
	if fd := p.method("", "stop"); fd != nil && fd.Body != nil {
		kill := pos(fd.Body, func(s string) bool { return strings.HasPrefix(s, "proxy.tomb.Kill") })
		wait := pos(fd.Body, func(s string) bool { return s == "proxy.tomb.Wait()" })
		cl := -1
		if n := find(fd.Body, func(x ast.Node) bool {
			r, ok := x.(*ast.RangeStmt)
			return ok && strings.HasSuffix(show(fs, r.X), "connections.list") && strings.Contains(show(fs, r.Body), ".Close()")
		}); n != nil {
			cl = int(n.Pos())
		}
		if kill >= 0 && wait >= 0 && cl >= 0 {
			stopOrder = boolS(kill < wait && wait < cl)
		}
	}
	o.emit("stop_waits_then_closes", "", "bool", stopOrder, "true", "", "")
}

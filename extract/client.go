package main

import (
	"go/ast"
	"go/token"
	"path/filepath"
	"strconv"
	"strings"
)

func floatConst1024(p *pkg, x ast.Expr) string {
	s := show(p.fset, x)
	if f, err := strconv.ParseFloat(s, 64); err == nil && f*1024 == float64(int64(f*1024)) {
		return coqZ(int64(f * 1024))
	}
	return ""
}

// extractClient: client/*.go and cmd/cli/cli.go
func extractClient(repo string, o *out) {
	cp, err := loadPkg(filepath.Join(repo, "client"))
	if err != nil {
		cp = &pkg{fset: token.NewFileSet(), files: map[string]*ast.File{}}
	}
	// Populate marks the returned proxies as created
	created := ""
	if fd := cp.method("Client", "Populate"); fd != nil {
		created = "false"
		ast.Inspect(fd.Body, func(n ast.Node) bool {
			if a, ok := n.(*ast.AssignStmt); ok && len(a.Lhs) == 1 && strings.HasSuffix(show(cp.fset, a.Lhs[0]), ".created") && show(cp.fset, a.Rhs[0]) == "true" {
				created = "true"
			}
			return true
		})
	}
	o.emit("client_populate_marks_created", "", "bool", created, "true", "", "")
	// UpdateToxic omits toxicity when it equals the sentinel
	sentinel := ""
	if fd := cp.method("Proxy", "UpdateToxic"); fd != nil {
		if n := find(fd.Body, func(x ast.Node) bool {
			s, ok := x.(*ast.IfStmt)
			if !ok {
				return false
			}
			b, ok := s.Cond.(*ast.BinaryExpr)
			return ok && b.Op == token.NEQ && show(cp.fset, b.X) == "toxicity"
		}); n != nil {
			sentinel = floatConst1024(cp, n.(*ast.IfStmt).Cond.(*ast.BinaryExpr).Y)
		}
	}
	o.emit("client_update_keep_sentinel_1024", "", "Z", sentinel, "(-1024)", "", "")
	// AddToxic maps the sentinel to the default 1
	addDefault := ""
	if fd := cp.method("Proxy", "AddToxic"); fd != nil {
		if n := find(fd.Body, func(x ast.Node) bool {
			s, ok := x.(*ast.IfStmt)
			return ok && strings.Contains(show(cp.fset, s.Cond), "Toxicity == -1")
		}); n != nil {
			if a, ok := n.(*ast.IfStmt).Body.List[0].(*ast.AssignStmt); ok {
				addDefault = floatConst1024(cp, a.Rhs[0])
			}
		}
	}
	o.emit("client_add_default_toxicity_1024", "", "Z", addDefault, "1024", "", "")
	// validateResponse: which status codes count as success
	lo, hi := "", ""
	if fd := cp.method("Client", "validateResponse"); fd != nil {
		if n := find(fd.Body, func(x ast.Node) bool { _, ok := x.(*ast.IfStmt); return ok }); n != nil {
			c := show(cp.fset, n.(*ast.IfStmt).Cond)
			if c == "resp.StatusCode < 300 && resp.StatusCode >= 200" || c == "resp.StatusCode >= 200 && resp.StatusCode < 300" {
				lo, hi = "200", "300"
			}
		}
	}
	o.emit("client_ok_from", "", "Z", lo, "200", "", "")
	o.emit("client_ok_below", "", "Z", hi, "300", "", "")

	// ---- CLI defaults
	lp, err := loadPkg(filepath.Join(repo, "cmd", "cli"))
	if err != nil {
		lp = &pkg{fset: token.NewFileSet(), files: map[string]*ast.File{}}
	}
	def := func(fn string) string {
		fd := lp.method("", fn)
		if fd == nil {
			return ""
		}
		n := find(fd.Body, func(x ast.Node) bool { _, ok := isCall(lp.fset, x, "parseToxicity"); return ok })
		if n == nil {
			return ""
		}
		c := n.(*ast.CallExpr)
		if len(c.Args) != 2 {
			return ""
		}
		return floatConst1024(lp, c.Args[1])
	}
	o.emit("cli_update_default_toxicity_1024", "", "Z", def("parseUpdateToxicParams"), "(-1024)", "", "")
	o.emit("cli_add_default_toxicity_1024", "", "Z", def("parseAddToxicParams"), "1024", "", "")
}

(** Executable driver for the C18 correspondence: evaluates scripts through the model and
    reports the indices of the cases whose observed trace differs. *)
From TP Require Import Model.Prelude Model.Stream Extracted.

Definition obs := (bool * bytes * Z)%type.

Definition obs_eqb (a b : obs) : bool :=
  let '(b1, d1, e1) := a in let '(b2, d2, e2) := b in
  Bool.eqb b1 b2 && zlist_eqb d1 d2 && (e1 =? e2).

Definition case := (list action * list obs)%type.

Definition case_ok (c : case) : bool :=
  list_eqb obs_eqb (observe read_early writer_copies pipe_init (fst c)) (snd c).

Fixpoint mismatches_from (i : Z) (cs : list case) : list Z :=
  match cs with
  | [] => []
  | c :: cs' => if case_ok c then mismatches_from (i + 1) cs' else i :: mismatches_from (i + 1) cs'
  end.

Definition mismatches (cs : list case) : list Z := mismatches_from 0 cs.

Definition model_trace (l : list action) : list obs := observe read_early writer_copies pipe_init l.

(** Executable driver for the link correspondence (vt harness): evaluates a script through
    [run_quiet] and compares the projected observables with what the implementation did. *)
From TP Require Import Model.Prelude Extracted Model.Toxics Model.Timed.

(** source bytes are [pattern k]; a write of n bytes starting at stream offset k *)
Definition pattern (k : Z) : Z := (k * 7 + 3) mod 251.

Fixpoint pat_from (k : Z) (n : nat) : bytes :=
  match n with O => [] | S n' => pattern k :: pat_from (k + 1) n' end.

(** script events: (at, n) with n < 0 meaning close *)
Fixpoint mk_src (evs : list (Z * Z)) (off : Z) : list src_ev :=
  match evs with
  | [] => []
  | (t, n) :: r => if n <? 0 then [SClose t] else SWrite t (pat_from off (Z.to_nat n)) :: mk_src r (off + n)
  end.

Record lcase := mkCase {
  c_chain : list (toxic * bool);
  c_src : list (Z * Z);
  c_draws : list Z;
  c_horizon : Z;
  c_fuel : Z;
  c_sink_delay : list Z;
  (* observed *)
  o_writes : list (Z * Z);
  o_closed : Z;
}.

Definition zz_eqb (a b : Z * Z) : bool := (fst a =? fst b) && (snd a =? snd b).

Definition model_run (c : lcase) : option link :=
  run_quiet (Z.to_nat (c_fuel c)) (c_horizon c) (link_init_slow (c_chain c) (mk_src (c_src c) 0) (c_draws c) (c_sink_delay c)).

Definition closed_z (l : link) : Z := match l_sink_closed l with Some t => t | None => -1 end.

(** 0 = agree; 1 = out of fuel; 2 = sink trace differs; 3 = close time differs; 4 = content not a
    prefix of the source pattern (cannot happen for a contract-abiding chain: see Proofs) *)
Definition case_verdict (c : lcase) : Z :=
  match model_run c with
  | None => 1
  | Some l =>
    if negb (list_eqb zz_eqb (sink_trace l) (o_writes c)) then 2
    else if negb (closed_z l =? o_closed c) then 3
    else 0
  end.

Fixpoint verdicts_from (i : Z) (cs : list lcase) : list (Z * Z) :=
  match cs with
  | [] => []
  | c :: r => let v := case_verdict c in
              if v =? 0 then verdicts_from (i + 1) r else (i, v) :: verdicts_from (i + 1) r
  end.

Definition model_trace (c : lcase) : option (list (Z * Z) * Z * Z * Z) :=
  match model_run c with
  | Some l => Some (sink_trace l, closed_z l, l_rx l, l_tx l)
  | None => None
  end.

(** C07: does the model say this configuration kills a stage? 0 = no, 1 = out of fuel,
    5 = some stage panics (the process dies), 6 = some stage recurses for ever *)
Definition stage_outcome (c : lcase) : Z :=
  match model_run c with
  | None => 1
  | Some l =>
    if existsb (fun s => match s_st s with Panicked _ => true | _ => false end) (l_stubs l) then 5
    else if existsb (fun s => match s_st s with Diverged => true | _ => false end) (l_stubs l) then 6
    else 0
  end.

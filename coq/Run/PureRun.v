(** Executable drivers for the direct differentials of the extracted pure functions. *)
From TP Require Import Model.Prelude Extracted Model.Toxics.

(** slicer.chunk(0, n): 0 = agree, 1 = model out of fuel, 2 = model says rand panics, 3 = offsets differ *)
Definition chunk_verdict (avg var n : Z) (draws expected : list Z) : Z :=
  match slicer_chunk (S (Z.to_nat n)) avg var 0 n draws with
  | CROk os _ => if zlist_eqb os expected then 0 else 3
  | CRFuel => 1
  | CRBadRand => 2
  end.

(** latency.delay(): None = model says Int63n panics *)
Definition delay_value (lat jit : Z) (draws : list Z) : option Z := fst (latency_delay lat jit draws).

(** correspondence driver for the counter model: see [Model.Metrics.scrape_check].
    0 = every scrape agrees; k > 0 = the k-th scrape differs; -1 = number of scrapes differs *)
From TP Require Import Model.Prelude Model.Metrics.
Definition metrics_verdict (h : list mev) (obs : list (list (series * Z) * Z)) : Z := scrape_check m_init h obs 0.

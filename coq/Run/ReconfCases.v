(** Executable driver for the reconfiguration correspondence: a script with add / update / remove
    operations at virtual instants is evaluated through [rrun_quiet] and compared with what the
    implementation did (vt harness, mode link, single connection). Where Go's scheduler had a
    choice (a data move and a control move possible at the same instant, counted by [r_conf]) both
    priorities are tried; the case counts as explained if either reproduces the observation. *)
From TP Require Import Model.Prelude Extracted Model.Toxics Model.Timed Model.Reconf Model.ReconfRun Run.LinkRun.

Record rcase := mkRCase {
  rc_chain : list (toxic * bool);
  rc_src : list (Z * Z);
  rc_ops : list (Z * opreq);
  rc_horizon : Z;
  rc_fuel : Z;
  rc_sink_delay : list Z;
  ro_writes : list (Z * Z);
  ro_closed : Z;
}.

Definition rmodel_run (pol : bool) (c : rcase) : option rrun :=
  rrun_quiet pol (Z.to_nat (rc_fuel c)) (rc_horizon c)
             (rrun_init (rc_chain c) (mk_src (rc_src c) 0) (rc_sink_delay c) (rc_ops c)).

Definition is_stuck (ph : phase) : bool := match ph with PStuck => true | _ => false end.

(** (verdict, choice points): 0 = agree; 1 = out of fuel; 2 = sink trace differs; 3 = close time
    differs; 7 = the executable model does not cover this run *)
Definition rverdict1 (pol : bool) (c : rcase) : Z * Z :=
  match rmodel_run pol c with
  | None => (1, 0)
  | Some r =>
    let l := r_l r in
    let v := if is_stuck (r_ph r) then 7
             else if negb (list_eqb zz_eqb (sink_trace l) (ro_writes c)) then 2
             else if negb (closed_z l =? ro_closed c) then 3 else 0 in
    (v, r_conf r)
  end.

(** the deterministic run first; where it disagrees and the run met choice points, the guided search
    over the scheduler's choices (code 0 if some resolution reproduces the observation). The third
    component is the number of bytes the deterministic run delivered (the model loses data only by a
    5 s give-up, a timeout toxic or a limit: see C02). *)
Definition rverdict (c : rcase) : Z * Z * Z :=
  let tot := match rmodel_run false c with Some r => l_tx (r_l r) | None => -1 end in
  let '(v, k) := rverdict1 false c in
  if v =? 0 then (0, k, tot)
  else if (k =? 0) || (v =? 1) then (v, k, tot)
  else match rsearch (Z.to_nat (rc_fuel c)) (rc_horizon c) (ro_writes c) (ro_closed c)
                     (rrun_init (rc_chain c) (mk_src (rc_src c) 0) (rc_sink_delay c) (rc_ops c)) with
       | Some _ => (0, k, tot)
       | None => (v, k, tot)
       end.

Definition rmodel_trace (pol : bool) (c : rcase) : option (list (Z * Z) * Z * Z) :=
  match rmodel_run pol c with
  | Some r => Some (sink_trace (r_l r), closed_z (r_l r), r_conf r)
  | None => None
  end.

(** ---- several connections under one history of operations (Model/MultiRun.v) *)
From TP Require Import Model.MultiRun.

Record mcase := mkMCase {
  mc_chain : list (toxic * bool);
  mc_links : list (Z * (list (Z * Z) * list Z));      (* per connection: instant it is established, source script, receiver delays *)
  mc_ops : list (Z * opreq);
  mc_horizon : Z;
  mc_fuel : Z;
  mo_links : list (list (Z * Z) * Z);                 (* observed per connection: sink writes, close time *)
}.

Definition mmodel_run (c : mcase) : option mrun :=
  mrun_quiet (Z.to_nat (mc_fuel c)) (mc_horizon c)
             (mrun_init (mc_chain c) (mc_ops c) (map (fun x => (fst x, (mk_src (fst (snd x)) 0, snd (snd x)))) (mc_links c))).

Fixpoint links_verdict (k : Z) (ls : list rrun) (obs : list (list (Z * Z) * Z)) : Z :=
  match ls, obs with
  | [], [] => 0
  | r :: ls', (w, cl) :: obs' =>
    if is_stuck (r_ph r) then 7
    else if negb (list_eqb zz_eqb (sink_trace (r_l r)) w) then 200 + k
    else if negb (closed_z (r_l r) =? cl) then 300 + k
    else links_verdict (k + 1) ls' obs'
  | _, _ => 9
  end.

(** (verdict, choice points): 0 = every connection agrees; 1 = out of fuel; 200+k / 300+k = sink trace / close time of
    connection k differs; 7 = not covered; 9 = number of connections differs *)
Definition mverdict (c : mcase) : Z * Z :=
  match mmodel_run c with
  | None => (1, 0)
  | Some m => (links_verdict 0 (m_links m) (mo_links c), fold_right (fun r a => r_conf r + a) 0 (m_links m))
  end.

Definition mmodel_trace (c : mcase) : option (list (list (Z * Z) * Z)) :=
  match mmodel_run c with
  | Some m => Some (map (fun r => (sink_trace (r_l r), closed_z (r_l r))) (m_links m))
  | None => None
  end.

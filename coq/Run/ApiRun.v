(** Executable driver for the API correspondence: replays a request sequence through [api_step]
    and compares status, payload and the state listed by GET /proxies after every request. *)
From Coq Require Import String.
From TP Require Import Model.Prelude Extracted Model.Json Model.Api.

Definition attrs_eqb (a b : attrs) : bool :=
  list_eqb (fun (x y : string * Z) => String.eqb (fst x) (fst y) && (snd x =? snd y)%Z) a b.

Definition toxic_eqb (a b : toxic_rec) : bool :=
  String.eqb (t_name a) (t_name b) && String.eqb (t_type a) (t_type b) && String.eqb (t_stream a) (t_stream b) &&
  Bool.eqb (t_down a) (t_down b) && (t_toxicity a =? t_toxicity b)%Z && attrs_eqb (t_attrs a) (t_attrs b).

Definition proxy_eqb (a b : proxy_rec) : bool :=
  String.eqb (p_name a) (p_name b) && String.eqb (p_listen a) (p_listen b) && String.eqb (p_upstream a) (p_upstream b) &&
  Bool.eqb (p_enabled a) (p_enabled b) && list_eqb toxic_eqb (p_up a) (p_up b) && list_eqb toxic_eqb (p_down a) (p_down b).

(** order-insensitive (GET /proxies is a map) *)
Definition server_eqb (s expected : server) : bool :=
  (Nat.eqb (length s) (length expected)) &&
  forallb (fun p => match find_proxy s (p_name p) with Some q => proxy_eqb q p | None => false end) expected.

Definition payload_eqb (a b : payload) : bool :=
  match a, b with
  | PNone, PNone | PErr, PErr | PVersion, PVersion => true
  | PProxy p, PProxy q => proxy_eqb p q
  | PProxies l, PProxies m => server_eqb l m
  | PToxic t, PToxic u => toxic_eqb t u
  | PToxics l, PToxics m => list_eqb toxic_eqb l m
  | PPopulate l, PPopulate m => list_eqb proxy_eqb l m
  | _, _ => false
  end.

Record step := mkStep { st_req : request; st_status : Z; st_payload : payload; st_after : server;
  st_cut : bool  (* compare the status only and stop: the effects of a failing reset depend on Go's map order *) }.

(** (index of the first disagreeing request, code) — code 1 status, 2 payload, 3 state; (-1, 0) = agree *)
Fixpoint replay (e : env) (s : server) (i : Z) (steps : list step) : Z * Z :=
  match steps with
  | [] => (-1, 0)
  | st :: r =>
    let '(resp, s') := api_step e s (st_req st) in
    if negb (status resp =? st_status st)%Z then (i, 1)
    else if st_cut st then (-1, 0)
    else if negb (payload_eqb (pl resp) (st_payload st)) then (i, 2)
    else if negb (server_eqb s' (st_after st)) then (i, 3)
    else replay e s' (i + 1) r
  end.

Definition model_step (e : env) (s : server) (r : request) := api_step e s r.

(** client / CLI correspondence: each operation is mapped to the raw request it denotes (None for
    pure reads); the operation must fail iff the raw request is rejected, and the server state
    afterwards must be the state the raw request produces. code 1 = error flag, 3 = state *)
Record cstep := mkCStep { cs_req : option request; cs_failed : bool; cs_after : server }.

Fixpoint replay_client (e : env) (s : server) (i : Z) (steps : list cstep) : Z * Z :=
  match steps with
  | [] => (-1, 0)
  | st :: r =>
    let '(failed, s') :=
      match cs_req st with
      | Some q => let '(resp, s1) := api_step e s q in ((400 <=? status resp)%Z, s1)
      | None => (cs_failed st, s)
      end in
    if negb (Bool.eqb failed (cs_failed st)) then (i, 1)
    else if negb (server_eqb s' (cs_after st)) then (i, 3)
    else replay_client e s' (i + 1) r
  end.

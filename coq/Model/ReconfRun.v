(** M5x: the reconfiguration operations of link.go as an executable process. [AddToxic],
    [UpdateToxic] and [RemoveToxic] (with [InterruptToxic], the helper goroutine that interrupts the
    previous stub, the flush loop with its 5 s hand-offs, Cleanup, the splice and the restarts) are
    written as a small state machine ([phase]) whose every move is one control action of
    Model/Reconf.v (or a change of the phase alone), running under the same maximal-progress virtual
    time as [run_quiet]: computation takes no time, the clock jumps to the next deadline when nothing
    can move. Operations are serialised (the collection lock) and start at scripted instants.
    Compared with the real code to the nanosecond by the vt harness (Run/ReconfCases.v);
    Proofs/ReconfRunProofs.v shows that every run is a [mixed_run], so the theorems about all
    interleavings apply to it. *)
From TP Require Import Model.Prelude Extracted Model.Toxics Model.Timed Model.Reconf.

Inductive opreq :=
| OAdd (tx : toxic) (eff effp : bool)      (* eff: toxicity decision of the new stage; effp: of the restarted last stage *)
| OUpdate (k : nat) (tx : toxic) (eff : bool)   (* k = index in link.stubs = index in the chain *)
| ORemove (k : nat) (effp : bool).

Inductive stopst := StPending | StWaitExit | StDone (b : bool).

Inductive phase :=
| PIdle
| PAdd (tx : toxic) (eff effp : bool) (p : nat) (w : bool)   (* InterruptToxic(last stub p); w: delivered, waiting for <-running *)
| PAdd2 (p : nat) (effp : bool)                              (* new stub connected; restart p *)
| PUpd (p : nat) (tx : toxic) (eff : bool) (w : bool)
| PRem (p q : nat) (effp : bool) (w : bool)                  (* InterruptToxic(stub p); q = previous stub of link.stubs *)
| PFlush (p q : nat) (effp : bool) (st : stopst) (stopped : bool) (dl : option Z)
                                                             (* the flush loop; dl = deadline of the WriteOutput in progress *)
| PFlushEnd (p q : nat) (st : stopst) (stopped : bool)       (* nil received, stub closed; <-stop unless already received *)
| PDrain (p q : nat) (effp : bool) (dl : option Z)           (* for len(Input) > 0 *)
| PRem2 (q : nat) (effp : bool)                              (* spliced; restart q *)
| PStuck.                                                    (* a situation this executable model does not cover *)

Record rrun := mkRun {
  r_l : link;
  r_gone : list bool;        (* parallel to l_stubs: true = dropped from link.stubs by removeStub, kept here as a dead placeholder *)
  r_ph : phase;
  r_ops : list (Z * opreq);
  r_conf : Z;                (* instants at which a data move and a control move were both possible (Go's select picks at random) *)
}.

Fixpoint live_pos (gone : list bool) (k : nat) (base : nat) : option nat :=
  match gone with
  | [] => None
  | g :: r =>
    if g then live_pos r k (S base)
    else match k with O => Some base | S k' => live_pos r k' (S base) end
  end.

Fixpoint last_live (gone : list bool) (base : nat) (acc : option nat) : option nat :=
  match gone with
  | [] => acc
  | g :: r => last_live r (S base) (if g then acc else Some base)
  end.

Definition insert_after {A} (p : nat) (x : A) (l : list A) : list A := firstn (S p) l ++ x :: skipn (S p) l.

Definition is_timeout (tx : toxic) : bool := match tx with TTimeout _ => true | _ => false end.

Definition inq_empty (s : stub) : bool := match s_inq s with [] => true | _ => false end.

(** one attempt of [InterruptToxic] on stub p *)
Inductive ires := IBlocked | IFalse | IDeliver | ITrue.
Definition interrupt_try (l : link) (p : nat) (w : bool) : ires :=
  match nth_error (l_stubs l) p with
  | None => IBlocked
  | Some s =>
    if w then (if is_exited s then ITrue else IBlocked)
    else if s_closed s then IFalse
    else if listens_interrupt s then IDeliver
    else IBlocked
  end.

Definition with_l (r : rrun) (l : link) : rrun := mkRun l (r_gone r) (r_ph r) (r_ops r) (r_conf r).
Definition with_ph (r : rrun) (ph : phase) : rrun := mkRun (r_l r) (r_gone r) ph (r_ops r) (r_conf r).
Definition with_gone (r : rrun) (g : list bool) : rrun := mkRun (r_l r) g (r_ph r) (r_ops r) (r_conf r).

(** a control action of Model/Reconf.v, then the new phase *)
Definition do_ctl (r : rrun) (a : cact) (ph : phase) : option (option mact * rrun) :=
  match ctl_step (r_l r) a with
  | Some l' => Some (Some (MCtl a), mkRun l' (r_gone r) ph (r_ops r) (r_conf r))
  | None => None
  end.
Definition just_ph (r : rrun) (ph : phase) : option (option mact * rrun) := Some (None, with_ph r ph).

(** the hand-off of the flush loop / drain loop on stub p with WriteOutput deadline [dl]:
    [k] rebuilds the phase from the new deadline *)
Definition flush_move (r : rrun) (p : nat) (dl : option Z) (k : option Z -> phase) : option (option mact * rrun) :=
  let l := r_l r in
  match nth_error (l_stubs l) p with
  | None => None
  | Some s =>
    match dl with
    | None =>
      (* select: take the next chunk of the input if there is one *)
      match s_inq s with
      | _ :: _ => just_ph r (k (Some (l_now l + remove_flush_timeout_ns)))
      | [] =>
        match ctl_step l (CFlushRecv p) with
        | Some l' => Some (Some (MCtl (CFlushRecv p)), mkRun l' (r_gone r) (k (Some (l_now l + remove_flush_timeout_ns))) (r_ops r) (r_conf r))
        | None => None
        end
      end
    | Some d =>
      match ctl_step l (CForward p) with
      | Some l' => Some (Some (MCtl (CForward p)), mkRun l' (r_gone r) (k None) (r_ops r) (r_conf r))
      | None =>
        if d <=? l_now l then do_ctl r (CForwardDrop p) (k None) else None
      end
    end
  end.

(** progress of the helper goroutine [stop <- stubs[q].InterruptToxic()] *)
Definition stop_move (r : rrun) (q : nat) (st : stopst) (k : stopst -> phase) : option (option mact * rrun) :=
  match st with
  | StPending =>
    match interrupt_try (r_l r) q false with
    | IFalse => just_ph r (k (StDone false))
    | IDeliver => do_ctl r (CInterrupt q) (k StWaitExit)
    | _ => None
    end
  | StWaitExit =>
    match interrupt_try (r_l r) q true with
    | ITrue => just_ph r (k (StDone true))
    | _ => None
    end
  | StDone _ => None
  end.

Definition or_else {A} (a : option A) (b : option A) : option A := match a with Some _ => a | None => b end.

Definition ctl_move (r : rrun) : option (option mact * rrun) :=
  let l := r_l r in
  match r_ph r with
  | PStuck => None
  | PIdle =>
    match r_ops r with
    | (at_, o) :: rest =>
      if at_ <=? l_now l then
        let r0 := mkRun l (r_gone r) PIdle rest (r_conf r) in
        (* once the writer has closed the destination it unregisters the link (RemoveLink, right after dest.Close()):
           operations that start afterwards do not touch this connection any more *)
        if (match l_sink_closed l with Some _ => true | None => false end) then just_ph r0 PIdle else
        match o with
        | OAdd tx eff effp =>
          match last_live (r_gone r) 0 None with
          | Some p => just_ph r0 (PAdd tx eff effp p false)
          | None => just_ph r0 PStuck
          end
        | OUpdate k tx eff =>
          match live_pos (r_gone r) k 0 with
          | Some p => or_else (do_ctl r0 (CSetTx p tx) (PUpd p tx eff false)) (just_ph r0 PStuck)
          | None => just_ph r0 PStuck
          end
        | ORemove k effp =>
          match live_pos (r_gone r) k 0, live_pos (r_gone r) (pred k) 0 with
          | Some p, Some q => if Nat.ltb q p then just_ph r0 (PRem p q effp false) else just_ph r0 PStuck
          | _, _ => just_ph r0 PStuck
          end
        end
      else None
    | [] => None
    end
  | PAdd tx eff effp p w =>
    match interrupt_try l p w with
    | IFalse =>
      match ctl_step l (CInsertDead p tx) with
      | Some l' => Some (Some (MCtl (CInsertDead p tx)), mkRun l' (insert_after p false (r_gone r)) PIdle (r_ops r) (r_conf r))
      | None => None
      end
    | IDeliver => do_ctl r (CInterrupt p) (PAdd tx eff effp p true)
    | ITrue =>
      match ctl_step l (CInsertAfter p tx eff) with
      | Some l' => Some (Some (MCtl (CInsertAfter p tx eff)), mkRun l' (insert_after p false (r_gone r)) (PAdd2 p effp) (r_ops r) (r_conf r))
      | None => None
      end
    | IBlocked => None
    end
  | PAdd2 p effp =>
    match nth_error (l_stubs l) p with
    | Some s => do_ctl r (CRestart p (s_tx s) effp) PIdle
    | None => None
    end
  | PUpd p tx eff w =>
    match interrupt_try l p w with
    | IFalse => just_ph r PIdle
    | IDeliver => do_ctl r (CInterrupt p) (PUpd p tx eff true)
    | ITrue => do_ctl r (CRestart p tx eff) PIdle
    | IBlocked => None
    end
  | PRem p q effp w =>
    match interrupt_try l p w with
    | IFalse => Some (None, mkRun l (set_nth p true (r_gone r)) PIdle (r_ops r) (r_conf r))
    | IDeliver => do_ctl r (CInterrupt p) (PRem p q effp true)
    | ITrue =>
      match nth_error (l_stubs l) p with
      | Some s =>
        if is_timeout (s_tx s) then
          (* Cleanup closes the stub: removeStub, no flush *)
          match ctl_step l (CSever p) with
          | Some l' => Some (Some (MCtl (CSever p)), mkRun l' (set_nth p true (r_gone r)) PIdle (r_ops r) (r_conf r))
          | None => None
          end
        else just_ph r (PFlush p q effp StPending false None)
      | None => None
      end
    | IBlocked => None
    end
  | PFlush p q effp st stopped dl =>
    match nth_error (l_stubs l) p with
    | None => None
    | Some s =>
      (* the flush loop first (its select prefers nothing; the outcome does not depend on the order, see DESIGN) *)
      let flush :=
        match dl with
        | Some _ => flush_move r p dl (fun d => PFlush p q effp st stopped d)
        | None =>
          match flush_move r p None (fun d => PFlush p q effp st stopped d) with
          | Some x => Some x
          | None =>
            if inq_empty s && s_in_closed s then
              (* nil: Close(), wait for stop unless already received, removeStub *)
              match ctl_step l (CCloseEnd p) with
              | Some l' => Some (Some (MCtl (CCloseEnd p)), mkRun l' (r_gone r) (PFlushEnd p q st stopped) (r_ops r) (r_conf r))
              | None => None
              end
            else
              match st, stopped with
              | StDone b, false =>
                if b then just_ph r (PDrain p q effp None) else just_ph r (PFlush p q effp st true None)
              | _, _ => None
              end
          end
        end in
      or_else flush (stop_move r q st (fun st' => PFlush p q effp st' stopped dl))
    end
  | PFlushEnd p q st stopped =>
    if stopped then Some (None, mkRun l (set_nth p true (r_gone r)) PIdle (r_ops r) (r_conf r))
    else match st with
         | StDone _ => Some (None, mkRun l (set_nth p true (r_gone r)) PIdle (r_ops r) (r_conf r))
         | _ => stop_move r q st (fun st' => PFlushEnd p q st' stopped)
         end
  | PDrain p q effp dl =>
    match nth_error (l_stubs l) p with
    | None => None
    | Some s =>
      match dl, s_inq s with
      | None, [] =>
        if Nat.eqb (S q) p then
          match ctl_step l (CDelete p) with
          | Some l' => Some (Some (MCtl (CDelete p)), mkRun l' (remove_nth p (r_gone r)) (PRem2 q effp) (r_ops r) (r_conf r))
          | None => None
          end
        else just_ph r PStuck
      | _, _ => flush_move r p dl (fun d => PDrain p q effp d)
      end
    end
  | PRem2 q effp =>
    match nth_error (l_stubs l) q with
    | Some s => do_ctl r (CRestart q (s_tx s) effp) PIdle
    | None => None
    end
  end.

(** the other arm of the flush loop's select. Once the helper goroutine has its answer ([StDone true]:
    the stage before the removed one was interrupted) the loop may receive it at any iteration, also while
    its input arm is ready. For chunks still queued that makes no difference (the drain loop that
    follows forwards them), but the drain loop only looks at [len(Input)] and therefore never sees
    the end of a closed input: taking the answer first keeps the link alive and rewires it, taking the
    [nil] first closes it. [ctl_move] prefers the input arm; this is the alternative, a move of the
    system whenever it is defined, and [r_conf] counts the instants at which it was. *)
Definition bump1 (x : option (option mact * rrun)) : option (option mact * rrun) :=
  match x with
  | Some (a, r') => Some (a, mkRun (r_l r') (r_gone r') (r_ph r') (r_ops r') (r_conf r' + 1))
  | None => None
  end.

(** (the helper goroutine runs beside the loop: while the loop still has input it may already deliver its
    interrupt, see the stage exit, and offer its answer - these are the alternative moves too) *)
Definition ctl_alt (r : rrun) : option (option mact * rrun) :=
  match r_ph r with
  | PFlush p q effp st false None =>
    match nth_error (l_stubs (r_l r)) p with
    | Some s =>
      if s_in_closed s then
        match st with
        | StDone true => bump1 (just_ph r (PDrain p q effp None))
        | StDone false => None
        | _ => bump1 (stop_move r q st (fun st' => PFlush p q effp st' false None))
        end
      else None
    | None => None
    end
  | _ => None
  end.

(** both a data move and a control move are possible at this instant: the real scheduler (and Go's
    select) may take either first; [ctl_first] fixes the choice, [r_conf] counts such instants *)
Definition rstep0 (ctl_first : bool) (r : rrun) : option (option mact * rrun) :=
  match step_now (r_l r), ctl_move r with
  | Some l', Some (a, r') =>
    if ctl_first then Some (a, mkRun (r_l r') (r_gone r') (r_ph r') (r_ops r') (r_conf r + 1))
    else Some (None, mkRun l' (r_gone r) (r_ph r) (r_ops r) (r_conf r + 1))
  | Some l', None => Some (None, with_l r l')
  | None, Some x => Some x
  | None, None => None
  end.

Definition rstep (ctl_first : bool) (r : rrun) : option (option mact * rrun) :=
  match rstep0 ctl_first r with
  | Some (a, r') =>
    Some (a, match ctl_alt r with
             | Some _ => mkRun (r_l r') (r_gone r') (r_ph r') (r_ops r') (r_conf r' + 1)
             | None => r'
             end)
  | None => None
  end.

Definition phase_deadline (ph : phase) : option Z :=
  match ph with
  | PFlush _ _ _ _ _ (Some d) => Some d
  | PDrain _ _ _ (Some d) => Some d
  | _ => None
  end.

Definition rnext_time (r : rrun) : option Z :=
  let t2 := match r_ph r, r_ops r with PIdle, (at_, _) :: _ => Some at_ | _, _ => None end in
  opt_min (next_time (r_l r)) (opt_min (phase_deadline (r_ph r)) t2).

Fixpoint rrun_quiet (ctl_first : bool) (fuel : nat) (horizon : Z) (r : rrun) : option rrun :=
  match fuel with
  | O => None
  | S f =>
    match rstep ctl_first r with
    | Some (_, r') => rrun_quiet ctl_first f horizon r'
    | None =>
      match rnext_time r with
      | Some t =>
        if t <=? horizon then rrun_quiet ctl_first f horizon (with_l r (set_now (r_l r) (Z.max t (l_now (r_l r)))))
        else Some r
      | None => Some r
      end
    end
  end.

Definition rrun_init (chain : list (toxic * bool)) (src : list src_ev) (sink_delay : list Z) (ops : list (Z * opreq)) : rrun :=
  let l := link_init_slow chain src [] sink_delay in
  mkRun l (map (fun _ => false) (l_stubs l)) PIdle ops 0.

(** ---- the scheduler's choices. Where a data move and a control move are both possible, Go's
    select / scheduler takes either (for instance a slicer with delay 0: its timer and the pending
    Interrupt are ready together, and the runtime picks at random - again at every piece). The
    search below follows the observed sink trace: it explores both choices at such a point, depth
    first, and abandons a branch as soon as what the model has delivered is no longer a prefix of what
    was observed. It answers whether SOME resolution of the choices reproduces the observation. *)
Definition zz_eq (a b : Z * Z) : bool := (fst a =? fst b) && (snd a =? snd b).

(** the newest sink write agrees with the observation at its position *)
Definition newest_ok (obs : list (Z * Z)) (l : link) : bool :=
  match l_trace l with
  | [] => true
  | (t, d) :: older =>
    match nth_error obs (length older) with
    | Some o => zz_eq (t, zlen d) o
    | None => false
    end
  end.

Definition close_ok (oclosed : Z) (l : link) : bool :=
  match l_sink_closed l with
  | Some t => t =? oclosed
  | None => true
  end.

Definition final_ok (obs : list (Z * Z)) (oclosed : Z) (r : rrun) : bool :=
  (Nat.eqb (length (l_trace (r_l r))) (length obs))
  && (match l_sink_closed (r_l r) with Some t => t =? oclosed | None => oclosed =? -1 end)
  && negb (match r_ph r with PStuck => true | _ => false end).

(** continue the search from [r1], reached from [r], unless what it delivered contradicts the observation *)
Definition rsearch_go (cont : rrun -> option rrun) (obs : list (Z * Z)) (oclosed : Z) (r r1 : rrun) : option rrun :=
  if Nat.eqb (length (l_trace (r_l r1))) (length (l_trace (r_l r))) then
    (if close_ok oclosed (r_l r1) then cont r1 else None)
  else if newest_ok obs (r_l r1) then cont r1 else None.

Fixpoint rsearch (fuel : nat) (horizon : Z) (obs : list (Z * Z)) (oclosed : Z) (r : rrun) : option rrun :=
  match fuel with
  | O => None
  | S f =>
    let go := rsearch_go (rsearch f horizon obs oclosed) obs oclosed r in
    match (match ctl_alt r with Some (_, ra) => go ra | None => None end) with
    | Some x => Some x
    | None =>
    match step_now (r_l r), ctl_move r with
    | Some l', Some (_, r') =>
      match go (mkRun l' (r_gone r) (r_ph r) (r_ops r) (r_conf r + 1)) with
      | Some x => Some x
      | None => go (mkRun (r_l r') (r_gone r') (r_ph r') (r_ops r') (r_conf r + 1))
      end
    | Some l', None => go (with_l r l')
    | None, Some (_, r') => go r'
    | None, None =>
      match rnext_time r with
      | Some t =>
        if t <=? horizon then go (with_l r (set_now (r_l r) (Z.max t (l_now (r_l r)))))
        else if final_ok obs oclosed r then Some r else None
      | None => if final_ok obs oclosed r then Some r else None
      end
    end
    end
  end.

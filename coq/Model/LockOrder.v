(** Lock discipline: which lock classes (and the accept-loop "join token") may be requested while
    which are held. The edge list itself is regenerated from the source ([Extracted.lock_edges]);
    here are the executable definitions: a ranking computed from the edges, the check that it
    orders every edge, and a small model of threads holding and wanting locks.
    Definitions only. *)
From Coq Require Import String List Arith Bool.
Import ListNotations.
Open Scope string_scope.

Definition edge := (string * string)%type.
Definition rank_tbl := list (string * nat).

Definition classes (es : list edge) : list string := nodup string_dec (map fst es ++ map snd es).

Fixpoint lookup (t : rank_tbl) (c : string) : nat :=
  match t with
  | [] => 0
  | (k, v) :: t' => if String.eqb k c then v else lookup t' c
  end.

(** one relaxation round: rank c := max (rank c) (1 + rank a) over the edges (a, c) *)
Definition relax1 (es : list edge) (t : rank_tbl) : rank_tbl :=
  map (fun cr : string * nat =>
         (fst cr, fold_left (fun acc (e : edge) => if String.eqb (snd e) (fst cr) then Nat.max acc (S (lookup t (fst e))) else acc) es (snd cr))) t.

Fixpoint iter {A} (n : nat) (f : A -> A) (x : A) : A :=
  match n with O => x | S n' => iter n' f (f x) end.

Definition compute_ranks (es : list edge) : rank_tbl :=
  iter (length (classes es)) (relax1 es) (map (fun c => (c, 0)) (classes es)).

Definition ranks_ok (t : rank_tbl) (es : list edge) : bool :=
  forallb (fun e : edge => Nat.ltb (lookup t (fst e)) (lookup t (snd e))) es.

(** the decision used on the extracted edges: acyclic iff the longest-path ranking orders every edge *)
Definition lock_order_ok (es : list edge) : bool := ranks_ok (compute_ranks es) es.

(** threads: a lock is a class and an instance number (which proxy, which collection); the accept
    loop's join token is a lock its goroutine holds for its whole life and [stop] / [start] request *)
Definition lock := (string * nat)%type.
Definition lock_eqb (a b : lock) : bool := String.eqb (fst a) (fst b) && Nat.eqb (snd a) (snd b).

Record thread := { held : list lock; want : option lock }.
Definition state := list thread.

Definition holdsb (th : thread) (l : lock) : bool := existsb (lock_eqb l) (held th).

(** the first other thread that holds [l] *)
Fixpoint holder_from (st : state) (k i : nat) (l : lock) : option nat :=
  match st with
  | [] => None
  | th :: st' => if negb (Nat.eqb k i) && holdsb th l then Some k else holder_from st' (S k) i l
  end.

Definition blocker (st : state) (i : nat) : option nat :=
  match nth_error st i with
  | Some th => match want th with Some l => holder_from st 0 i l | None => None end
  | None => None
  end.

(** follow the blockers for at most [n] steps *)
Fixpoint chase (n : nat) (st : state) (i : nat) : nat :=
  match n with
  | O => i
  | S n' => match blocker st i with Some j => chase n' st j | None => i end
  end.

Definition bound (t : rank_tbl) : nat := S (list_max (map snd t)).

(** does a state follow an edge list: whatever a thread holds while it wants a lock is an edge *)
Definition followsb (es : list edge) (st : state) : bool :=
  forallb (fun th => match want th with
                     | Some l => forallb (fun h : lock => existsb (fun e : edge => String.eqb (fst e) (fst h) && String.eqb (snd e) (fst l)) es) (held th)
                     | None => true
                     end) st.

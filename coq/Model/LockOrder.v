(** Lock discipline: which lock classes (and the accept-loop "join token") may be requested while
    which are held. The edge list itself is regenerated from the source ([Extracted.lock_edges]);
    here are the executable definitions: a ranking computed from the edges, the check that it
    orders every edge, and a small model of threads holding and wanting locks.
    Definitions only. *)
From Coq Require Import String List Arith Bool.
Import ListNotations.
Open Scope string_scope.

Definition edge := (string * string)%type.
Definition rank_tbl := list (string * nat).

Definition classes (es : list edge) : list string := nodup string_dec (map fst es ++ map snd es).

Fixpoint lookup (t : rank_tbl) (c : string) : nat :=
  match t with
  | [] => 0
  | (k, v) :: t' => if String.eqb k c then v else lookup t' c
  end.

(** one relaxation round: rank c := max (rank c) (1 + rank a) over the edges (a, c) *)
Definition relax1 (es : list edge) (t : rank_tbl) : rank_tbl :=
  map (fun cr : string * nat =>
         (fst cr, fold_left (fun acc (e : edge) => if String.eqb (snd e) (fst cr) then Nat.max acc (S (lookup t (fst e))) else acc) es (snd cr))) t.

Fixpoint iter {A} (n : nat) (f : A -> A) (x : A) : A :=
  match n with O => x | S n' => iter n' f (f x) end.

Definition compute_ranks (es : list edge) : rank_tbl :=
  iter (length (classes es)) (relax1 es) (map (fun c => (c, 0)) (classes es)).

Definition ranks_ok (t : rank_tbl) (es : list edge) : bool :=
  forallb (fun e : edge => Nat.ltb (lookup t (fst e)) (lookup t (snd e))) es.

(** the decision used on the extracted edges: acyclic iff the longest-path ranking orders every edge *)
Definition lock_order_ok (es : list edge) : bool := ranks_ok (compute_ranks es) es.

(** threads: a lock is a class and an instance number (which proxy, which collection); the accept
    loop's join token is a lock its goroutine holds for its whole life and [stop] / [start] request *)
Definition lock := (string * nat)%type.
Definition lock_eqb (a b : lock) : bool := String.eqb (fst a) (fst b) && Nat.eqb (snd a) (snd b).

Record thread := { held : list lock; want : option lock }.
Definition state := list thread.

Definition holdsb (th : thread) (l : lock) : bool := existsb (lock_eqb l) (held th).

(** the first other thread that holds [l] *)
Fixpoint holder_from (st : state) (k i : nat) (l : lock) : option nat :=
  match st with
  | [] => None
  | th :: st' => if negb (Nat.eqb k i) && holdsb th l then Some k else holder_from st' (S k) i l
  end.

Definition blocker (st : state) (i : nat) : option nat :=
  match nth_error st i with
  | Some th => match want th with Some l => holder_from st 0 i l | None => None end
  | None => None
  end.

(** follow the blockers for at most [n] steps *)
Fixpoint chase (n : nat) (st : state) (i : nat) : nat :=
  match n with
  | O => i
  | S n' => match blocker st i with Some j => chase n' st j | None => i end
  end.

Definition bound (t : rank_tbl) : nat := S (list_max (map snd t)).

(** does a state follow an edge list: whatever a thread holds while it wants a lock is an edge *)
Definition followsb (es : list edge) (st : state) : bool :=
  forallb (fun th => match want th with
                     | Some l => forallb (fun h : lock => existsb (fun e : edge => String.eqb (fst e) (fst h) && String.eqb (snd e) (fst l)) es) (held th)
                     | None => true
                     end) st.

(** ---- executions: threads acquire and release locks one operation at a time. A thread may request a
    lock only if the relation allows it under everything it holds; it gets it when nobody holds it and
    waits otherwise (and may retry while waiting); only a thread that is not waiting releases. *)
Inductive lop := OAcq (t : nat) (l : lock) | ORel (t : nat) (l : lock).

Definition edge_in (es : list edge) (a b : string) : bool :=
  existsb (fun e : edge => String.eqb (fst e) a && String.eqb (snd e) b) es.

Definition allowed (es : list edge) (th : thread) (l : lock) : bool :=
  forallb (fun h : lock => edge_in es (fst h) (fst l)) (held th).

Definition is_free (st : state) (l : lock) : bool := forallb (fun th => negb (holdsb th l)) st.

Fixpoint set_thread (st : state) (t : nat) (th : thread) : state :=
  match st, t with
  | [], _ => []
  | _ :: r, O => th :: r
  | x :: r, S t' => x :: set_thread r t' th
  end.

Fixpoint remove_lock (l : lock) (ls : list lock) : list lock :=
  match ls with
  | [] => []
  | x :: r => if lock_eqb l x then r else x :: remove_lock l r
  end.

Definition lstep (es : list edge) (st : state) (op : lop) : option state :=
  match op with
  | OAcq t l =>
    match nth_error st t with
    | Some th =>
      if allowed es th l && (match want th with None => true | Some l' => lock_eqb l l' end) then
        if is_free st l then Some (set_thread st t {| held := l :: held th; want := None |})
        else Some (set_thread st t {| held := held th; want := Some l |})
      else None
    | None => None
    end
  | ORel t l =>
    match nth_error st t with
    | Some th =>
      match want th with
      | None => if holdsb th l then Some (set_thread st t {| held := remove_lock l (held th); want := None |}) else None
      | Some _ => None
      end
    | None => None
    end
  end.

Fixpoint lrun (es : list edge) (st : state) (ops : list lop) : option state :=
  match ops with
  | [] => Some st
  | op :: r => match lstep es st op with Some st' => lrun es st' r | None => None end
  end.

Definition idle_threads (n : nat) : state := repeat {| held := []; want := None |} n.

(** M7: lifecycle of one proxy incarnation (proxy.go: start/stop/server/freeBlocker, and the part
    of link.go's writer that closes its destination and deregisters it). All schedules of the
    accept loop, the links ending, and stop(). Sockets are numbers: connection c has client socket
    2c and upstream socket 2c+1; link key 2c is the upstream link of c (client -> upstream, its
    destination is the upstream socket), key 2c+1 the downstream link. Three facts about the code
    are parameters extracted from the source: freeBlocker waits for the accept loop before it
    signals proxy.tomb.Done, a connection-table key holds the destination socket of the link of
    that name, both sockets are registered before the links are started, and a link's writer
    deregisters the name the link was started under. *)
From TP Require Import Model.Prelude Extracted.
Local Open Scope nat_scope.

Inductive apc := APending | AAccepted (c : nat) | ADialed (c : nat) | ARegistered (c : nat) | ALinks1 (c : nat) | ADone.
Inductive spc := SNone | SKilled | SWaited | SReturned.

Record px := mkPx {
  x_listening : bool;
  x_acc : apc;
  x_next : nat;
  x_open : list nat;            (* open sockets *)
  x_table : list (nat * nat);   (* proxy.connections.list: link key -> socket *)
  x_links : list nat;           (* running links, by key *)
  x_dying : bool; x_accdying : bool; x_done : bool;
  x_stop : spc;
}.

Definition px_init : px := mkPx true APending 0 [] [] [] false false false SNone.

Definition dest_of (k : nat) : nat := if Nat.even k then S k else pred k.

Fixpoint rm (x : nat) (l : list nat) : list nat :=
  match l with [] => [] | y :: r => if Nat.eqb x y then rm x r else y :: rm x r end.
Fixpoint rm_key (k : nat) (t : list (nat * nat)) : list (nat * nat) :=
  match t with [] => [] | (k', v) :: r => if Nat.eqb k k' then rm_key k r else (k', v) :: rm_key k r end.
Fixpoint rm_all (xs l : list nat) : list nat := match xs with [] => l | x :: r => rm_all r (rm x l) end.

Inductive pact :=
| PAccept | PAcceptFail | PDialOk | PDialFail | PRegister | PLink1 | PLink2
| PLinkEnd (k : nat)
| PStopKill | PFreeBlocker1 | PFreeBlocker2 | PStopWaited | PStopCloseAll.

Definition pstep_gen (own : bool) (s : px) (a : pact) : option px :=
  match a with
  | PAccept =>
    match x_acc s with
    | APending => if x_listening s then
        Some (mkPx true (AAccepted (x_next s)) (S (x_next s)) (2 * x_next s :: x_open s) (x_table s) (x_links s)
                   (x_dying s) (x_accdying s) (x_done s) (x_stop s)) else None
    | _ => None
    end
  | PAcceptFail =>
    match x_acc s with
    | APending => if x_listening s then None else
        Some (mkPx false ADone (x_next s) (x_open s) (x_table s) (x_links s) (x_dying s) (x_accdying s) (x_done s) (x_stop s))
    | _ => None
    end
  | PDialOk =>
    match x_acc s with
    | AAccepted c => Some (mkPx (x_listening s) (ADialed c) (x_next s) (S (2 * c) :: x_open s) (x_table s) (x_links s)
                                (x_dying s) (x_accdying s) (x_done s) (x_stop s))
    | _ => None
    end
  | PDialFail =>
    match x_acc s with
    | AAccepted c => Some (mkPx (x_listening s) APending (x_next s) (rm (2 * c) (x_open s)) (x_table s) (x_links s)
                                (x_dying s) (x_accdying s) (x_done s) (x_stop s))
    | _ => None
    end
  | PRegister =>
    match x_acc s with
    | ADialed c =>
      let up := if conn_key_is_dest then S (2 * c) else 2 * c in
      let dn := if conn_key_is_dest then 2 * c else S (2 * c) in
      Some (mkPx (x_listening s) (ARegistered c) (x_next s) (x_open s) ((2 * c, up) :: (S (2 * c), dn) :: x_table s) (x_links s)
                 (x_dying s) (x_accdying s) (x_done s) (x_stop s))
    | _ => None
    end
  | PLink1 =>
    match x_acc s with
    | ARegistered c => Some (mkPx (x_listening s) (ALinks1 c) (x_next s) (x_open s) (x_table s) (2 * c :: x_links s)
                                  (x_dying s) (x_accdying s) (x_done s) (x_stop s))
    | _ => None
    end
  | PLink2 =>
    match x_acc s with
    | ALinks1 c => Some (mkPx (x_listening s) APending (x_next s) (x_open s) (x_table s) (S (2 * c) :: x_links s)
                              (x_dying s) (x_accdying s) (x_done s) (x_stop s))
    | _ => None
    end
  | PLinkEnd k =>
    (* link.write: dest.Close(); RemoveLink; RemoveConnection(name) *)
    (* the name it deregisters is the one it was started and registered under (extracted); were it not, the entries of
       the link of the other direction would go instead *)
    let dk := if own then k else dest_of k in
    if existsb (Nat.eqb k) (x_links s) then
      Some (mkPx (x_listening s) (x_acc s) (x_next s) (rm (dest_of k) (x_open s)) (rm_key dk (x_table s)) (rm dk (x_links s))
                 (x_dying s) (x_accdying s) (x_done s) (x_stop s))
    else None
  | PStopKill =>
    match x_stop s with
    | SNone => Some (mkPx (x_listening s) (x_acc s) (x_next s) (x_open s) (x_table s) (x_links s) true (x_accdying s) (x_done s) SKilled)
    | _ => None
    end
  | PFreeBlocker1 =>
    if x_dying s && negb (x_accdying s) then
      Some (mkPx false (x_acc s) (x_next s) (x_open s) (x_table s) (x_links s) true true (x_done s) (x_stop s))
    else None
  | PFreeBlocker2 =>
    if x_accdying s && (negb free_blocker_waits_for_accept_loop || match x_acc s with ADone => true | _ => false end) then
      Some (mkPx (x_listening s) (x_acc s) (x_next s) (x_open s) (x_table s) (x_links s) (x_dying s) true true (x_stop s))
    else None
  | PStopWaited =>
    match x_stop s with
    | SKilled => if x_done s then
        Some (mkPx (x_listening s) (x_acc s) (x_next s) (x_open s) (x_table s) (x_links s) (x_dying s) (x_accdying s) true SWaited) else None
    | _ => None
    end
  | PStopCloseAll =>
    match x_stop s with
    | SWaited => Some (mkPx (x_listening s) (x_acc s) (x_next s) (rm_all (map snd (x_table s)) (x_open s)) (x_table s) (x_links s)
                            (x_dying s) (x_accdying s) (x_done s) SReturned)
    | _ => None
    end
  end.

Definition pstep := pstep_gen writer_deregisters_its_name.

Fixpoint prun (s : px) (l : list pact) : option px :=
  match l with [] => Some s | a :: r => match pstep s a with Some s' => prun s' r | None => None end end.

(** M5y: several connections of one proxy under a common history of operations. Every connection is
    a link of its own (Model/ReconfRun.v); what they share is the toxic chain and the collection
    lock: an operation is carried out on all links of the direction at once (one goroutine per link,
    then wg.Wait), the next operation - and the start of a new connection, which takes the same
    lock - waits until every link has finished the current one. A connection established at instant
    S is built from the chain as it is then (NewToxicLink), each stage started with its own toxicity
    decision. Executable; compared with the real code per connection to the nanosecond. *)
From TP Require Import Model.Prelude Extracted Model.Toxics Model.Timed Model.Reconf Model.ReconfRun.

Record mrun := mkMRun {
  m_now : Z;
  m_links : list rrun;
  m_chain : list (toxic * bool);          (* the listed toxics of this direction, with the 0/1 toxicity decision *)
  m_ops : list (Z * opreq);
  m_starts : list (Z * (list src_ev * list Z));   (* connections still to be established: instant, source script, receiver delays *)
}.

Definition link_at (chain : list (toxic * bool)) (src : list src_ev) (sink_delay : list Z) (now : Z) : rrun :=
  let l := mkLink now src [] RIdle (mk_stubs ((TNoop, true) :: chain) true now) [] [] None 0 0 sink_delay now in
  mkRun l (map (fun _ => false) (l_stubs l)) PIdle [] 0.

Definition all_idle (ls : list rrun) : bool :=
  forallb (fun r => match r_ph r, r_ops r with PIdle, [] => true | _, _ => false end) ls.

Fixpoint replace_nth {A} (n : nat) (x : A) (l : list A) : list A :=
  match l, n with
  | [], _ => []
  | _ :: t, O => x :: t
  | h :: t, S n' => h :: replace_nth n' x t
  end.

Definition chain_after (chain : list (toxic * bool)) (o : opreq) : list (toxic * bool) :=
  match o with
  | OAdd tx eff _ => chain ++ [(tx, eff)]
  | OUpdate k tx eff => replace_nth (pred k) (tx, eff) chain
  | ORemove k _ => remove_nth (pred k) chain
  end.

(** one move of some link, if any (first link that can move) *)
Fixpoint links_step (ls : list rrun) : option (list rrun) :=
  match ls with
  | [] => None
  | r :: rest =>
    match rstep false r with
    | Some (_, r') => Some (r' :: rest)
    | None => match links_step rest with Some rest' => Some (r :: rest') | None => None end
    end
  end.

Definition mstep (m : mrun) : option mrun :=
  match links_step (m_links m) with
  | Some ls => Some (mkMRun (m_now m) ls (m_chain m) (m_ops m) (m_starts m))
  | None =>
    if all_idle (m_links m) then
      (* the lock is free: the earlier of the next operation and the next connection, if its instant has come *)
      let op_due := match m_ops m with (at_, _) :: _ => if at_ <=? m_now m then Some at_ else None | [] => None end in
      let st_due := match m_starts m with (s, _) :: _ => if s <=? m_now m then Some s else None | [] => None end in
      let start_first := match op_due, st_due with
                         | Some a, Some s => s <=? a
                         | None, Some _ => true
                         | _, _ => false
                         end in
      if start_first then
        match m_starts m with
        | (s, (src, sd)) :: rest =>
          Some (mkMRun (m_now m) (m_links m ++ [link_at (m_chain m) src sd (m_now m)]) (m_chain m) (m_ops m) rest)
        | [] => None
        end
      else match op_due, m_ops m with
           | Some _, (at_, o) :: rest =>
             Some (mkMRun (m_now m)
                          (map (fun r => mkRun (r_l r) (r_gone r) (r_ph r) [(at_, o)] (r_conf r)) (m_links m))
                          (chain_after (m_chain m) o) rest (m_starts m))
           | _, _ => None
           end
    else None
  end.

Definition mnext_time (m : mrun) : option Z :=
  let tl := fold_right (fun r acc => opt_min (rnext_time r) acc) None (m_links m) in
  let idle := all_idle (m_links m) in
  let t1 := match m_ops m with (at_, _) :: _ => if idle then Some at_ else None | [] => None end in
  let t2 := match m_starts m with (s, _) :: _ => if idle then Some s else None | [] => None end in
  opt_min tl (opt_min t1 t2).

Definition mset_now (m : mrun) (t : Z) : mrun :=
  mkMRun t (map (fun r => with_l r (set_now (r_l r) (Z.max t (l_now (r_l r))))) (m_links m)) (m_chain m) (m_ops m) (m_starts m).

Fixpoint mrun_quiet (fuel : nat) (horizon : Z) (m : mrun) : option mrun :=
  match fuel with
  | O => None
  | S f =>
    match mstep m with
    | Some m' => mrun_quiet f horizon m'
    | None =>
      match mnext_time m with
      | Some t => if t <=? horizon then mrun_quiet f horizon (mset_now m (Z.max t (m_now m))) else Some m
      | None => Some m
      end
    end
  end.

Definition mrun_init (chain : list (toxic * bool)) (ops : list (Z * opreq))
           (starts : list (Z * (list src_ev * list Z))) : mrun :=
  mkMRun 0 [] chain ops starts.

(** M1: stream.ChanWriter / stream.ChanReader (stream/io_chan.go).

    [read] is the body of [ChanReader.Read] as a pure function of the reader's carry buffer
    ([None] = [c.buffer == nil]), the length of [out], and what the channel operation yields if one
    is performed. Which of the three code paths is taken is decided by [early], the first [if] of
    the Go function, which the translator extracts from the source ([Extracted.read_early]).
    [copies] is [Extracted.writer_copies]: whether [ChanWriter.Write] sends a copy of the caller's
    buffer. *)
From TP Require Import Model.Prelude.

Inductive avail := VNone | VClosed | VChunk (d : bytes).
Inductive rerr := ENil | EEOF | EInterrupted.

Inductive rres :=
| RRet (buf' : option bytes) (out : bytes) (e : rerr) (consumed : bool)
| RBlock.

Section Reader.
  Variable early : Z -> Z -> Z -> bool.   (* len(out), n, len(c.buffer) after the first copy *)

  Definition refill (outlen n : nat) (out : bytes) (d : bytes) : rres :=
    let n2 := Nat.min (outlen - n) (length d) in
    RRet (Some (skipn n2 d)) (out ++ firstn n2 d) ENil true.

  Definition read (buf : option bytes) (outlen : nat) (av : avail) (intr : bool) : rres :=
    match buf with
    | None => RRet None [] EEOF false
    | Some b =>
      let n := Nat.min outlen (length b) in
      let out := firstn n b in
      let b' := skipn n b in
      if early (Z.of_nat outlen) (Z.of_nat n) (zlen b') then RRet (Some b') out ENil false
      else if (0 <? n)%nat then
        match av with                              (* non-blocking select with default *)
        | VChunk d => refill outlen n out d
        | VClosed => RRet None out ENil true
        | VNone => RRet (Some b') out ENil false
        end
      else if intr then RRet (Some []) out EInterrupted false   (* c.buffer = c.buffer[:0] *)
      else
        match av with                              (* blocking select *)
        | VChunk d => refill outlen n out d
        | VClosed => RRet None [] EEOF true
        | VNone => RBlock
        end
    end.
End Reader.

(** The pipe as a transition system. A queued chunk is either a copy of the bytes written or a
    reference to the caller's buffer (resolved when it is received). *)
Inductive qchunk := QCopy (d : bytes) | QRef (len : nat).

Record pipe := {
  written  : bytes;          (* ghost: everything passed to Write so far *)
  queue    : list qchunk;    (* chunks sent and not yet received (channel + blocked sender) *)
  closed   : bool;
  caller   : bytes;          (* current contents of the writer's caller buffer *)
  carry    : option bytes;   (* ChanReader.buffer *)
  returned : bytes;          (* ghost: everything Read handed out so far *)
  eof      : bool;           (* a Read returned io.EOF *)
  lastn    : Z;              (* size of the last Read's result, for the per-read clauses *)
}.

Definition pipe_init : pipe :=
  {| written := []; queue := []; closed := false; caller := []; carry := Some [];
     returned := []; eof := false; lastn := 0 |}.

Inductive action :=
| AWrite (d : bytes)          (* caller fills its buffer with d and calls Write *)
| AMutate (d : bytes)         (* caller overwrites its buffer after Write returned *)
| AClose
| ARead (outlen : nat) (intr : bool).   (* intr: an interrupt is pending and chosen if the read blocks *)

Definition resolve (caller : bytes) (q : qchunk) : bytes :=
  match q with QCopy d => d | QRef len => firstn len caller end.

Section Pipe.
  Variable early : Z -> Z -> Z -> bool.
  Variable copies : bool.

  Definition avail_of (p : pipe) : avail :=
    match queue p with
    | q :: _ => VChunk (resolve (caller p) q)
    | [] => if closed p then VClosed else VNone
    end.

  (** [None] = the action is not enabled (a Write after Close panics; a Read would block). *)
  Definition step (p : pipe) (a : action) : option pipe :=
    match a with
    | AWrite d =>
      if closed p then None else
      Some {| written := written p ++ d;
              queue := queue p ++ [if copies then QCopy d else QRef (length d)];
              closed := false; caller := d; carry := carry p; returned := returned p;
              eof := eof p; lastn := lastn p |}
    | AMutate d =>
      Some {| written := written p; queue := queue p; closed := closed p; caller := d;
              carry := carry p; returned := returned p; eof := eof p; lastn := lastn p |}
    | AClose =>
      if closed p then None else
      Some {| written := written p; queue := queue p; closed := true; caller := caller p;
              carry := carry p; returned := returned p; eof := eof p; lastn := lastn p |}
    | ARead outlen intr =>
      match read early (carry p) outlen (avail_of p) intr with
      | RBlock => None
      | RRet buf' out e consumed =>
        Some {| written := written p;
                queue := if consumed then tl (queue p) else queue p;
                closed := closed p; caller := caller p; carry := buf';
                returned := returned p ++ out;
                eof := match e with EEOF => true | _ => eof p end;
                lastn := zlen out |}
      end
    end.

  Fixpoint run (p : pipe) (l : list action) : option pipe :=
    match l with
    | [] => Some p
    | a :: l' => match step p a with Some p' => run p' l' | None => None end
    end.

  (** Observable trace of a script for the correspondence check: per Read, (blocked?, bytes, err). *)
  Definition err_code (e : rerr) : Z := match e with ENil => 0 | EEOF => 1 | EInterrupted => 2 end.

  Fixpoint observe (p : pipe) (l : list action) : list (bool * bytes * Z) :=
    match l with
    | [] => []
    | ARead outlen intr :: l' =>
      match read early (carry p) outlen (avail_of p) intr with
      | RBlock =>
        (* the harness interrupts a read that blocks *)
        match read early (carry p) outlen (avail_of p) true, step p (ARead outlen true) with
        | RRet _ out e _, Some p' => (true, out, err_code e) :: observe p' l'
        | _, _ => []
        end
      | RRet _ out e _ =>
        match step p (ARead outlen intr) with
        | Some p' => (false, out, err_code e) :: observe p' l'
        | None => []
        end
      end
    | a :: l' => match step p a with Some p' => observe p' l' | None => [] end
    end.
End Pipe.

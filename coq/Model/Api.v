(** M8 part 2: the HTTP API as a sequential state machine, handler by handler in the order of
    effects of api.go / proxy_collection.go / proxy.go / toxic_collection.go. Routes, status codes,
    defaults and the toxic registry come from [Extracted]. The OS is an oracle [env]: which listen
    strings resolve to which port; a port is free unless an enabled proxy of the model holds it
    (the harness owns the port range). *)
From Coq Require Import String Ascii.
From TP Require Import Model.Prelude Extracted Model.Json.
Open Scope string_scope.

Record toxic_rec := mkToxic {
  t_name : string; t_type : string; t_stream : string; t_down : bool;
  t_toxicity : Z;         (* in 1024ths *)
  t_attrs : attrs;
}.

Record proxy_rec := mkProxy {
  p_name : string; p_listen : string; p_upstream : string; p_enabled : bool;
  p_up : list toxic_rec;      (* chain[upstream] without the hidden noop *)
  p_down : list toxic_rec;
}.

Definition server := list proxy_rec.

(** what the OS says about a listen string: the port it denotes, how net.ResolveTCPAddr prints it
    (what Differs compares with) and how the bound listener prints its address (what a started
    proxy stores as its listen address). [None] = cannot be resolved / bound. *)
Record addr_info := mkAddr { a_port : Z; a_resolved : string; a_bound : string }.
Definition env := list (string * option addr_info).

Inductive meth := GET | POST | PATCH | DELETE | PUT | HEAD.
Definition meth_name (m : meth) : string :=
  match m with GET => "GET" | POST => "POST" | PATCH => "PATCH" | DELETE => "DELETE" | PUT => "PUT" | HEAD => "HEAD" end.

Record request := mkReq { r_meth : meth; r_path : list string; r_body : body; r_browser : bool }.

Inductive payload :=
| PNone | PErr
| PProxy (p : proxy_rec) | PProxies (l : list proxy_rec)
| PToxic (t : toxic_rec) | PToxics (l : list toxic_rec)
| PPopulate (l : list proxy_rec)      (* with status 201: all entries; with an error status: the entries applied so far *)
| PVersion.

Record response := mkResp { status : Z; pl : payload }.

(* ---------------------------------------------------------------- helpers *)
Fixpoint find_proxy (s : server) (name : string) : option proxy_rec :=
  match s with [] => None | p :: r => if String.eqb (p_name p) name then Some p else find_proxy r name end.

Fixpoint replace_proxy (s : server) (p' : proxy_rec) : server :=
  match s with
  | [] => []
  | p :: r => if String.eqb (p_name p) (p_name p') then p' :: r else p :: replace_proxy r p'
  end.

Fixpoint remove_proxy (s : server) (name : string) : server :=
  match s with [] => [] | p :: r => if String.eqb (p_name p) name then r else p :: remove_proxy r name end.

Fixpoint lookup_env (e : env) (l : string) : option addr_info :=
  match e with [] => None | (k, v) :: r => if String.eqb k l then v else lookup_env r l end.

(** does an enabled proxy other than [self] hold [port]? *)
Fixpoint port_busy (e : env) (s : server) (self : string) (port : Z) : bool :=
  match s with
  | [] => false
  | p :: r =>
    (negb (String.eqb (p_name p) self) && p_enabled p &&
       match lookup_env e (p_listen p) with Some q => a_port q =? port | None => false end)%Z
    || port_busy e r self port
  end.

(** start(proxy): None = error *)
Definition start_proxy (e : env) (s : server) (p : proxy_rec) : option proxy_rec :=
  match lookup_env e (p_listen p) with
  | None => None
  | Some a =>
    if port_busy e s (p_name p) (a_port a) then None
    else Some (mkProxy (p_name p) (a_bound a) (p_upstream p) true (p_up p) (p_down p))
  end.

Definition stop_proxy (p : proxy_rec) : proxy_rec :=
  mkProxy (p_name p) (p_listen p) (p_upstream p) false (p_up p) (p_down p).

Definition all_toxics (p : proxy_rec) : list toxic_rec := (p_up p ++ p_down p)%list.   (* listing order *)

Fixpoint find_toxic (l : list toxic_rec) (name : string) : option toxic_rec :=
  match l with [] => None | t :: r => if String.eqb (t_name t) name then Some t else find_toxic r name end.

Fixpoint replace_toxic (l : list toxic_rec) (t' : toxic_rec) : list toxic_rec :=
  match l with [] => [] | t :: r => if String.eqb (t_name t) (t_name t') then t' :: r else t :: replace_toxic r t' end.

Fixpoint remove_toxic (l : list toxic_rec) (name : string) : list toxic_rec :=
  match l with [] => [] | t :: r => if String.eqb (t_name t) name then r else t :: remove_toxic r name end.

Fixpoint lookup_fields (tbl : list (string * list string)) (ty : string) : option (list string) :=
  match tbl with [] => None | (k, v) :: r => if String.eqb k ty then Some v else lookup_fields r ty end.

(** stream.ParseDirection *)
Definition parse_direction (s : string) : option bool :=
  if String.eqb (lower s) "downstream" then Some true
  else if String.eqb (lower s) "upstream" then Some false else None.

Definition err (code : Z) : response := mkResp code PErr.

(* ---------------------------------------------------------------- handlers *)
Definition h_proxy_index (s : server) : response * server := (mkResp status_ok (PProxies s), s).

Definition h_proxy_create (e : env) (s : server) (b : body) : response * server :=
  match b with
  | BEmpty | BBad => (err status_bad_request_body, s)
  | BJson j =>
    let '(inp, bad) := dec_proxy (mkPIn "" "" "" (Some create_enabled_default)) j in
    if bad then (err status_bad_request_body, s)
    else if String.eqb (pi_name inp) "" then (err status_missing_field, s)
    else if String.eqb (pi_upstream inp) "" then (err status_missing_field, s)
    else
      let p := mkProxy (pi_name inp) (pi_listen inp) (pi_upstream inp) false [] [] in
      match find_proxy s (pi_name inp) with
      | Some _ => (err status_proxy_exists, s)
      | None =>
        if match pi_enabled inp with Some b => b | None => create_enabled_default end then
          match start_proxy e s p with
          | None => (err status_internal, s)
          | Some p' => (mkResp status_created (PProxy p'), (s ++ [p'])%list)
          end
        else (mkResp status_created (PProxy p), (s ++ [p])%list)
      end
  end.

Definition h_proxy_show (s : server) (name : string) : response * server :=
  match find_proxy s name with
  | None => (err status_proxy_not_found, s)
  | Some p => (mkResp status_ok (PProxy p), s)
  end.

(** Proxy.Update (proxy.go): stop and re-address when listen/upstream differ, then bring the
    enabled flag to the requested value. An unresolvable listen address is an error before any
    effect; a failing start leaves the proxy stopped with the new addresses. *)
Definition h_proxy_update (e : env) (s : server) (name : string) (b : body) : response * server :=
  match find_proxy s name with
  | None => (err status_proxy_not_found, s)
  | Some p =>
    match b with
    | BEmpty | BBad => (err status_bad_request_body, s)
    | BJson j =>
      let '(inp, bad) := dec_proxy (mkPIn "" (p_listen p) (p_upstream p) (Some (p_enabled p))) j in
      if bad then (err status_bad_request_body, s)
      else
        let want := match pi_enabled inp with Some b => b | None => p_enabled p end in
        match lookup_env e (pi_listen inp) with
        | None => (err status_internal, s)              (* Differs: ResolveTCPAddr fails *)
        | Some a =>
          let differs := negb (String.eqb (p_listen p) (a_resolved a)) || negb (String.eqb (p_upstream p) (pi_upstream inp)) in
          let p1 := if differs then mkProxy (p_name p) (pi_listen inp) (pi_upstream inp) false (p_up p) (p_down p) else p in
          let s1 := replace_proxy s p1 in
          if Bool.eqb want (p_enabled p1) then (mkResp status_ok (PProxy p1), s1)
          else if want then
            match start_proxy e s1 p1 with
            | None => (err status_internal, s1)
            | Some p2 => (mkResp status_ok (PProxy p2), replace_proxy s1 p2)
            end
          else let p2 := stop_proxy p1 in (mkResp status_ok (PProxy p2), replace_proxy s1 p2)
        end
    end
  end.

Definition h_proxy_delete (s : server) (name : string) : response * server :=
  match find_proxy s name with
  | None => (err status_proxy_not_found, s)
  | Some _ => (mkResp status_no_content PNone, remove_proxy s name)
  end.

(** PopulateJson: decode everything, validate everything, then AddOrReplace entry by entry *)
Fixpoint dec_populate (items : list json) : list proxy_in * bool :=
  match items with
  | [] => ([], false)
  | j :: r =>
    let '(pi, bad) := match j with
                      | JObj _ | JNull => dec_proxy (mkPIn "" "" "" None) j
                      | _ => (mkPIn "" "" "" None, true)
                      end in
    let '(rest, bad') := dec_populate r in
    (pi :: rest, bad || bad')
  end.

Fixpoint populate_valid (items : list proxy_in) : bool :=
  match items with
  | [] => true
  | i :: r => negb (String.eqb (pi_name i) "") && negb (String.eqb (pi_upstream i) "") && populate_valid r
  end.

(** the response lists proxy objects, marshalled after all entries were applied: an object that a
    later entry of the same body stopped shows up disabled *)
Definition mark_stopped (done : list proxy_rec) (name : string) : list proxy_rec :=
  map (fun p => if String.eqb (p_name p) name then stop_proxy p else p) done.

Fixpoint populate_apply (e : env) (s : server) (items : list proxy_in) (done : list proxy_rec)
  : response * server :=
  match items with
  | [] => (mkResp status_created (PPopulate done), s)
  | i :: r =>
    let enabled := match pi_enabled i with Some b => b | None => true end in
    let fresh := mkProxy (pi_name i) (pi_listen i) (pi_upstream i) false [] [] in
    match find_proxy s (pi_name i) with
    | Some old =>
      match lookup_env e (pi_listen i) with
      | None => (mkResp status_internal (PPopulate done), s)                       (* Differs fails *)
      | Some a =>
        let differs := negb (String.eqb (p_listen old) (a_resolved a)) || negb (String.eqb (p_upstream old) (pi_upstream i)) in
        if negb differs then populate_apply e s r (done ++ [old])%list
        else
          let s1 := replace_proxy s (stop_proxy old) in
          let done1 := mark_stopped done (pi_name i) in
          if enabled then
            match start_proxy e (remove_proxy s1 (pi_name i)) fresh with
            | None => (mkResp status_internal (PPopulate done1), s1)                (* old one stays, stopped *)
            | Some p' => populate_apply e (replace_proxy s1 p') r (done1 ++ [p'])%list
            end
          else populate_apply e (replace_proxy s1 fresh) r (done1 ++ [fresh])%list
      end
    | None =>
      if enabled then
        match start_proxy e s fresh with
        | None => (mkResp status_internal (PPopulate done), s)
        | Some p' => populate_apply e ((s ++ [p'])%list)%list r (done ++ [p'])%list
        end
      else populate_apply e (s ++ [fresh])%list r (done ++ [fresh])%list
    end
  end.

Definition h_populate (e : env) (s : server) (b : body) : response * server :=
  match b with
  | BJson (JArr items) =>
    let '(ins, bad) := dec_populate items in
    if bad then (mkResp status_bad_request_body (PPopulate []), s)
    else if negb (populate_valid ins) then (mkResp status_missing_field (PPopulate []), s)
    else populate_apply e s ins []
  | BJson JNull => (mkResp status_created (PPopulate []), s)
  | _ => (mkResp status_bad_request_body (PPopulate []), s)
  end.

(** ResetState: enable every proxy (an already enabled one is left alone), drop every toxic *)
Fixpoint reset_all (e : env) (s : server) (todo : list proxy_rec) : response * server :=
  match todo with
  | [] => (mkResp status_no_content PNone, s)
  | p0 :: r =>
    match find_proxy s (p_name p0) with
    | None => reset_all e s r
    | Some p =>
      if p_enabled p then reset_all e (replace_proxy s (mkProxy (p_name p) (p_listen p) (p_upstream p) true [] [])) r
      else match start_proxy e s p with
           | None => (err status_internal, s)
           | Some p' => reset_all e (replace_proxy s (mkProxy (p_name p') (p_listen p') (p_upstream p') true [] [])) r
           end
    end
  end.

Definition h_toxic_index (s : server) (name : string) : response * server :=
  match find_proxy s name with
  | None => (err status_proxy_not_found, s)
  | Some p => (mkResp status_ok (PToxics (all_toxics p)), s)
  end.

(** AddToxicJson *)
Definition h_toxic_create (s : server) (name : string) (b : body) : response * server :=
  match find_proxy s name with
  | None => (err status_proxy_not_found, s)
  | Some p =>
    match b with
    | BEmpty | BBad => (err status_bad_request_body, s)
    | BJson j =>
      let '(ti, bad) := dec_toxic (mkTIn "" "" toxic_stream_default toxic_toxicity_default_1024) j in
      if bad then (err status_bad_request_body, s)
      else match parse_direction (ti_stream ti) with
      | None => (err status_invalid_stream, s)
      | Some down =>
        let nm := if String.eqb (ti_name ti) "" then ti_type ti ++ "_" ++ ti_stream ti else ti_name ti in
        match lookup_fields toxic_fields (ti_type ti) with
        | None => (err status_invalid_toxic_type, s)
        | Some fields =>
          match find_toxic (all_toxics p) nm with
          | Some _ => (err status_toxic_exists, s)
          | None =>
            let '(a, _, bad2) := dec_update false (map (fun f => (f, 0%Z)) fields) 0%Z j in
            if bad2 then (err status_bad_request_body, s)
            else
              let t := mkToxic nm (ti_type ti) (ti_stream ti) down (ti_toxicity ti) a in
              let p' := if down then mkProxy (p_name p) (p_listen p) (p_upstream p) (p_enabled p) (p_up p) (p_down p ++ [t])%list
                        else mkProxy (p_name p) (p_listen p) (p_upstream p) (p_enabled p) (p_up p ++ [t])%list (p_down p) in
              (mkResp status_ok (PToxic t), replace_proxy s p')
          end
        end
      end
    end
  end.

Definition h_toxic_show (s : server) (name tname : string) : response * server :=
  match find_proxy s name with
  | None => (err status_proxy_not_found, s)
  | Some p =>
    match find_toxic (all_toxics p) tname with
    | None => (err status_toxic_not_found, s)
    | Some t => (mkResp status_ok (PToxic t), s)
    end
  end.

Definition put_toxic (p : proxy_rec) (t : toxic_rec) : proxy_rec :=
  mkProxy (p_name p) (p_listen p) (p_upstream p) (p_enabled p)
          (if t_down t then p_up p else replace_toxic (p_up p) t)
          (if t_down t then replace_toxic (p_down p) t else p_down p).

(** UpdateToxicJson. [update_in_place] (extracted): whether the body is decoded into the live toxic
    object, so that well-typed fields of a rejected body stay assigned (finding F3). *)
Definition h_toxic_update (s : server) (name tname : string) (b : body) : response * server :=
  match find_proxy s name with
  | None => (err status_proxy_not_found, s)
  | Some p =>
    match find_toxic (all_toxics p) tname with
    | None => (err status_toxic_not_found, s)
    | Some t =>
      match b with
      | BEmpty | BBad => (err status_bad_request_body, s)
      | BJson j =>
        let '(a, tox, bad) := dec_update true (t_attrs t) (t_toxicity t) j in
        if bad then
          if update_in_place
          then (err status_bad_request_body,
                replace_proxy s (put_toxic p (mkToxic (t_name t) (t_type t) (t_stream t) (t_down t) (t_toxicity t) a)))
          else (err status_bad_request_body, s)
        else
          let t' := mkToxic (t_name t) (t_type t) (t_stream t) (t_down t) tox a in
          (mkResp status_ok (PToxic t'), replace_proxy s (put_toxic p t'))
      end
    end
  end.

Definition h_toxic_delete (s : server) (name tname : string) : response * server :=
  match find_proxy s name with
  | None => (err status_proxy_not_found, s)
  | Some p =>
    match find_toxic (all_toxics p) tname with
    | None => (err status_toxic_not_found, s)
    | Some t =>
      let p' := mkProxy (p_name p) (p_listen p) (p_upstream p) (p_enabled p)
                        (if t_down t then p_up p else remove_toxic (p_up p) tname)
                        (if t_down t then remove_toxic (p_down p) tname else p_down p) in
      (mkResp status_no_content PNone, replace_proxy s p')
    end
  end.

(* ---------------------------------------------------------------- routing *)
Definition is_var (seg : string) : bool :=
  match seg with String "{"%char _ => true | _ => false end.

Fixpoint match_path (pat path : list string) : bool :=
  match pat, path with
  | [], [] => true
  | ps :: pr, s :: r => (if is_var ps then negb (String.eqb s "") else String.eqb ps s) && match_path pr r
  | _, _ => false
  end.

Fixpoint mem_str (x : string) (l : list string) : bool :=
  match l with [] => false | y :: r => String.eqb x y || mem_str x r end.

(** first route whose pattern and method match; if some pattern matches with another method: 405 *)
Fixpoint route (tbl : list (list string * list string * string)) (m : meth) (path : list string) (path_seen : bool)
  : option string * bool :=
  match tbl with
  | [] => (None, path_seen)
  | (pat, ms, h) :: r =>
    if match_path pat path then
      if mem_str (meth_name m) ms then (Some h, true) else route r m path true
    else route r m path path_seen
  end.

Definition seg (path : list string) (n : nat) : string := nth n path "".

Definition api_step (e : env) (s : server) (r : request) : response * server :=
  match route routes (r_meth r) (r_path r) false with
  | (None, false) => (mkResp status_not_found PNone, s)               (* mux: no route: middleware is not run *)
  | (None, true) => (mkResp status_method_not_allowed PNone, s)
  | (Some h, _) =>
    if r_browser r then (mkResp status_browser_forbidden PNone, s)   (* stopBrowsersMiddleware, before the handler *)
    else
      let p := seg (r_path r) 1 in
      let t := seg (r_path r) 3 in
      if String.eqb h "ProxyIndex" then h_proxy_index s
      else if String.eqb h "ProxyCreate" then h_proxy_create e s (r_body r)
      else if String.eqb h "Populate" then h_populate e s (r_body r)
      else if String.eqb h "ResetState" then reset_all e s s
      else if String.eqb h "ProxyShow" then h_proxy_show s p
      else if String.eqb h "ProxyUpdate" then h_proxy_update e s p (r_body r)
      else if String.eqb h "ProxyDelete" then h_proxy_delete s p
      else if String.eqb h "ToxicIndex" then h_toxic_index s p
      else if String.eqb h "ToxicCreate" then h_toxic_create s p (r_body r)
      else if String.eqb h "ToxicShow" then h_toxic_show s p t
      else if String.eqb h "ToxicUpdate" then h_toxic_update s p t (r_body r)
      else if String.eqb h "ToxicDelete" then h_toxic_delete s p t
      else if String.eqb h "Version" then (mkResp status_ok PVersion, s)
      else (mkResp status_not_found PNone, s)
  end.

Fixpoint api_run (e : env) (s : server) (rs : list request) : list response * server :=
  match rs with
  | [] => ([], s)
  | r :: rest =>
    let '(resp, s1) := api_step e s r in
    let '(resps, s2) := api_run e s1 rest in
    (resp :: resps, s2)
  end.

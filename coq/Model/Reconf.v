(** M5: hot swapping. The control steps that ToxicLink.AddToxic / UpdateToxic / RemoveToxic and
    ToxicStub.InterruptToxic / Run perform on a live link, as actions that interleave freely with
    the data-path actions of Model/Timed.v. The pipeline is positional (stub i's output is stub
    i+1's input), which is what link.go maintains at every instant (DESIGN.md Appendix C). *)
From TP Require Import Model.Prelude Extracted Model.Toxics Model.Timed.

Inductive cact :=
| CInterrupt (i : nat)                       (* stub.Interrupt <- {} received by a stage that listens to it *)
| CRestart (i : nat) (tx : toxic) (eff : bool)   (* go stub.Run(toxic) on a stub whose stage has returned *)
| CAppend (tx : toxic) (eff : bool)          (* AddToxic: a new stub at the end of the chain, its stage started *)
| CForward (i : nat)                         (* RemoveToxic's flush: head of stub i's input written to its output *)
| CForwardDrop (i : nat)                     (* the same hand-off given up after 5 s: the chunk is dropped *)
| CDelete (i : nat)                          (* splice: the stub of the removed toxic goes *)
| CSever (i : nat)                          (* RemoveToxic of a toxic whose Cleanup closes the stub (timeout): stub.Close()
                                                closes its output; the stub leaves link.stubs without its neighbour's output
                                                being re-pointed, so whatever is handed to it from now on reaches nobody. In
                                                this positional pipeline it stays as a dead stub (Exited, closed). *)
| CSetTx (i : nat) (tx : toxic)              (* UpdateToxicJson writes the attributes into the shared toxic object (under the lock,
                                                before it interrupts any stage): from now on the running stage reads the new values *)
| CFlushRecv (i : nat)                       (* RemoveToxic's flush loop receives, from the unbuffered input of stub i, the chunk
                                                that stub i-1 is sending: it becomes the loop's tmp (held in the stub's input slot) *)
| CCloseEnd (i : nat)                        (* the flush loop received nil from the closed, drained input: stub i.Close() *)
| CInsertAfter (i : nat) (tx : toxic) (eff : bool)   (* AddToxic connects the new stub behind stub i, the last stub of link.stubs
                                                (dead placeholders of stubs dropped by removeStub may follow it here) *)
| CInsertDead (i : nat) (tx : toxic).        (* AddToxic on a link whose last stub is closed: the new stub is closed at once *)

Definition listens_interrupt (s : stub) : bool :=
  match mode_of (s_st s) with MSelect _ true _ => true | _ => false end.

Definition is_exited (s : stub) : bool := match s_st s with Exited => true | _ => false end.

Fixpoint remove_nth {A} (n : nat) (l : list A) : list A :=
  match l, n with [], _ => [] | _ :: r, O => r | x :: r, S n' => x :: remove_nth n' r end.

Definition ctl_step (l : link) (a : cact) : option link :=
  match a with
  | CInterrupt i =>
    match nth_error (l_stubs l) i with
    | Some s => if listens_interrupt s then Some (upd_stub l i (with_st s (on_interrupt (l_now l) (s_st s)))) else None
    | None => None
    end
  | CRestart i tx eff =>
    match nth_error (l_stubs l) i with
    | Some s =>
      if is_exited s && negb (s_closed s) then
        let ps := if is_stateful tx then (match s_ps s with Some k => Some k | None => Some 0 end) else s_ps s in
        Some (upd_stub l i (mkStub tx eff (init_state (if eff then tx else TNoop) ps (l_now l)) ps
                                   (s_inq s) (s_cap s) (s_in_closed s) (s_closed s)))
      else None
    | None => None
    end
  | CAppend tx eff =>
    let ps := new_pstate tx in
    Some (mkLink (l_now l) (l_src l) (l_rest l) (l_rd l)
                 (l_stubs l ++ [mkStub tx eff (init_state (if eff then tx else TNoop) ps (l_now l)) ps [] (buffer_size tx) false false])
                 (l_draws l) (l_trace l) (l_sink_closed l) (l_rx l) (l_tx l) (l_sink_delay l) (l_wr_ready l))
  | CForward i =>
    match nth_error (l_stubs l) i with
    | Some s =>
      if is_exited s && negb (s_closed s) then
        match s_inq s with
        | c :: q =>
          match offer l (S i) c with
          | Some l1 =>
            match nth_error (l_stubs l1) i with
            | Some s1 => Some (upd_stub l1 i (mkStub (s_tx s1) (s_eff s1) (s_st s1) (s_ps s1) q (s_cap s1) (s_in_closed s1) (s_closed s1)))
            | None => None
            end
          | None => None
          end
        | [] => None
        end
      else None
    | None => None
    end
  | CForwardDrop i =>
    match nth_error (l_stubs l) i with
    | Some s =>
      if is_exited s && negb (s_closed s) then
        match s_inq s with
        | _ :: q => Some (upd_stub l i (mkStub (s_tx s) (s_eff s) (s_st s) (s_ps s) q (s_cap s) (s_in_closed s) (s_closed s)))
        | [] => None
        end
      else None
    | None => None
    end
  | CDelete i =>
    match nth_error (l_stubs l) i with
    | Some s =>
      if is_exited s && negb (s_closed s) && (match s_inq s with [] => true | _ => false end) && negb (Nat.eqb i 0)
      then Some (mkLink (l_now l) (l_src l) (l_rest l) (l_rd l) (remove_nth i (l_stubs l))
                        (l_draws l) (l_trace l) (l_sink_closed l) (l_rx l) (l_tx l) (l_sink_delay l) (l_wr_ready l))
      else None
    | None => None
    end
  | CSever i =>
    match nth_error (l_stubs l) i with
    | Some s =>
      if is_exited s && negb (s_closed s)
      then Some (close_downstream
                   (upd_stub l i (mkStub (s_tx s) (s_eff s) (s_st s) (s_ps s) (s_inq s) (s_cap s) (s_in_closed s) true)) (S i))
      else None
    | None => None
    end
  | CSetTx i tx =>
    match nth_error (l_stubs l) i with
    | Some s => Some (upd_stub l i (mkStub tx (s_eff s) (s_st s) (s_ps s) (s_inq s) (s_cap s) (s_in_closed s) (s_closed s)))
    | None => None
    end
  | CFlushRecv i =>
    match i with
    | O => None
    | S j =>
      match nth_error (l_stubs l) i, nth_error (l_stubs l) j with
      | Some s, Some sp =>
        if is_exited s && negb (s_closed s) && (s_cap s =? 0) && (match s_inq s with [] => true | _ => false end) then
          match mode_of (s_st sp) with
          | MSend c | MSendT c _ =>
            let l1 := upd_stub l i (mkStub (s_tx s) (s_eff s) (s_st s) (s_ps s) [c] (s_cap s) (s_in_closed s) (s_closed s)) in
            Some (stub_sent l1 j sp)
          | _ => None
          end
        else None
      | _, _ => None
      end
    end
  | CCloseEnd i =>
    match nth_error (l_stubs l) i with
    | Some s =>
      if is_exited s && negb (s_closed s) && s_in_closed s && (match s_inq s with [] => true | _ => false end)
      then Some (close_downstream
                   (upd_stub l i (mkStub (s_tx s) (s_eff s) (s_st s) (s_ps s) (s_inq s) (s_cap s) (s_in_closed s) true)) (S i))
      else None
    | None => None
    end
  | CInsertAfter i tx eff =>
    if Nat.ltb i (length (l_stubs l)) then
      let ps := new_pstate tx in
      let st := mkStub tx eff (init_state (if eff then tx else TNoop) ps (l_now l)) ps [] (buffer_size tx) false false in
      Some (mkLink (l_now l) (l_src l) (l_rest l) (l_rd l) (firstn (S i) (l_stubs l) ++ st :: skipn (S i) (l_stubs l))
                   (l_draws l) (l_trace l) (l_sink_closed l) (l_rx l) (l_tx l) (l_sink_delay l) (l_wr_ready l))
    else None
  | CInsertDead i tx =>
    if Nat.ltb i (length (l_stubs l)) then
      let st := mkStub tx false Exited (new_pstate tx) [] (buffer_size tx) true true in
      Some (mkLink (l_now l) (l_src l) (l_rest l) (l_rd l) (firstn (S i) (l_stubs l) ++ st :: skipn (S i) (l_stubs l))
                   (l_draws l) (l_trace l) (l_sink_closed l) (l_rx l) (l_tx l) (l_sink_delay l) (l_wr_ready l))
    else None
  end.

(** data-path and control actions interleaved arbitrarily *)
Inductive mact := MData (a : act) | MCtl (a : cact).

Definition mixed_step (l : link) (a : mact) : option link :=
  match a with MData d => sched_step l d | MCtl c => ctl_step l c end.

Fixpoint mixed_run (l : link) (sigma : list mact) : option link :=
  match sigma with
  | [] => Some l
  | a :: r => match mixed_step l a with Some l' => mixed_run l' r | None => None end
  end.

(** M6 (with the data path of M4): one direction of one connection under virtual time with
    maximal progress — computation takes no time; the clock jumps to the next deadline only when
    nothing else can run (what testing/synctest implements). Executable; compared with the real
    code to the nanosecond by the vt harness. *)
From TP Require Import Model.Prelude Extracted Model.Toxics.

Definition read_buf_size : Z := 32768.   (* io.Copy's buffer: the reader cuts source writes here *)

Record stub := mkStub {
  s_tx : toxic;           (* chain[i] as given to Run *)
  s_eff : bool;           (* toxicity draw: true = the toxic pipes, false = a noop pipes *)
  s_st : lstate;
  s_ps : pstate;
  s_inq : list chunk;     (* its Input channel *)
  s_cap : Z;
  s_in_closed : bool;     (* Input closed by the upstream neighbour *)
  s_closed : bool;        (* stub.closed *)
}.

Definition eff_tx (s : stub) : toxic := if s_eff s then s_tx s else TNoop.

Inductive src_ev := SWrite (at_ : Z) (d : bytes) | SClose (at_ : Z).
Definition ev_time (e : src_ev) : Z := match e with SWrite t _ => t | SClose t => t end.

Inductive rstate := RIdle | RSend (c : chunk) | RClosed.

Record link := mkLink {
  l_now : Z;
  l_src : list src_ev;
  l_rest : bytes;           (* rest of the source write being read *)
  l_rd : rstate;
  l_stubs : list stub;
  l_draws : list Z;
  l_trace : list (Z * bytes);   (* sink writes, newest first *)
  l_sink_closed : option Z;
  l_rx : Z;                 (* bytes the reader took from the source (link.read's count) *)
  l_tx : Z;                 (* bytes the writer wrote to the sink (link.write's count) *)
  l_sink_delay : list Z;    (* how long the receiver takes to accept each write, cyclically ([] = always ready) *)
  l_wr_ready : Z;           (* the writer is inside dest.Write until this instant *)
}.

Fixpoint set_nth {A} (n : nat) (x : A) (l : list A) : list A :=
  match l, n with
  | [], _ => []
  | _ :: t, O => x :: t
  | h :: t, S n' => h :: set_nth n' x t
  end.

Definition upd_stub (l : link) (i : nat) (s : stub) : link :=
  mkLink (l_now l) (l_src l) (l_rest l) (l_rd l) (set_nth i s (l_stubs l)) (l_draws l)
         (l_trace l) (l_sink_closed l) (l_rx l) (l_tx l) (l_sink_delay l) (l_wr_ready l).

Definition with_st (s : stub) (st : lstate) : stub :=
  mkStub (s_tx s) (s_eff s) st (s_ps s) (s_inq s) (s_cap s) (s_in_closed s) (s_closed s).

(** stub [s] receives [c] (None = nil from a closed input) in its top-level select *)
Definition stub_input (l : link) (i : nat) (s : stub) (c : option chunk) (inq' : list chunk) : link :=
  let '(st', ds) := on_input (eff_tx s) (s_ps s) (l_now l) (l_draws l) c (s_st s) in
  let s' := mkStub (s_tx s) (s_eff s) st' (s_ps s) inq' (s_cap s) (s_in_closed s) (s_closed s) in
  mkLink (l_now l) (l_src l) (l_rest l) (l_rd l) (set_nth i s' (l_stubs l)) ds
         (l_trace l) (l_sink_closed l) (l_rx l) (l_tx l) (l_sink_delay l) (l_wr_ready l).

Definition stub_sent (l : link) (i : nat) (s : stub) : link :=
  let '(st', ps') := on_sent (eff_tx s) (s_ps s) (l_now l) (s_st s) in
  upd_stub l i (mkStub (s_tx s) (s_eff s) st' ps' (s_inq s) (s_cap s) (s_in_closed s) (s_closed s)).

Definition listens_input (s : stub) : bool :=
  match mode_of (s_st s) with MSelect true _ _ => true | _ => false end.

Definition deliver_sink (l : link) (c : chunk) : link :=
  if (zlen (cdata c) =? 0) then l else
  mkLink (l_now l) (l_src l) (l_rest l) (l_rd l) (l_stubs l) (l_draws l)
         ((l_now l, cdata c) :: l_trace l) (l_sink_closed l) (l_rx l) (l_tx l + zlen (cdata c))
         (match l_sink_delay l with d :: r => r ++ [d] | [] => [] end)
         (l_now l + match l_sink_delay l with d :: _ => d | [] => 0 end).

(** hand [c] to the consumer at position [j] (a stub, or the sink when [j] is past the end);
    [None] if the hand-off cannot happen now *)
Definition offer (l : link) (j : nat) (c : chunk) : option link :=
  match nth_error (l_stubs l) j with
  | None => if l_wr_ready l <=? l_now l then Some (deliver_sink l c) else None
  | Some t =>
    if 0 <? s_cap t then
      if zlen (s_inq t) <? s_cap t then
        Some (upd_stub l j (mkStub (s_tx t) (s_eff t) (s_st t) (s_ps t) (s_inq t ++ [c]) (s_cap t)
                                   (s_in_closed t) (s_closed t)))
      else None
    else if listens_input t && (match s_inq t with [] => true | _ => false end)
    then Some (stub_input l j t (Some c) (s_inq t))
    else None
  end.

Definition close_downstream (l : link) (j : nat) : link :=
  match nth_error (l_stubs l) j with
  | None => mkLink (l_now l) (l_src l) (l_rest l) (l_rd l) (l_stubs l) (l_draws l)
                   (l_trace l) (Some (Z.max (l_now l) (l_wr_ready l))) (l_rx l) (l_tx l) (l_sink_delay l) (l_wr_ready l)
  | Some t => upd_stub l j (mkStub (s_tx t) (s_eff t) (s_st t) (s_ps t) (s_inq t) (s_cap t) true (s_closed t))
  end.

Definition timer_due (now : Z) (tm : option Z) : bool :=
  match tm with Some dl => dl <=? now | None => false end.

(** a timer of stub [i] that is due fires *)
Definition stub_timer (l : link) (i : nat) : option link :=
  match nth_error (l_stubs l) i with
  | None => None
  | Some s =>
    match mode_of (s_st s) with
    | MSelect _ _ tm =>
      if timer_due (l_now l) tm
      then Some (upd_stub l i (with_st s (on_timer (eff_tx s) (l_now l) (s_st s)))) else None
    | _ => None
    end
  end.

(** the 5 s give-up of WriteOutput (a distinct action so that theorems can exclude it) *)
Definition stub_send_timeout (l : link) (i : nat) : option link :=
  match nth_error (l_stubs l) i with
  | None => None
  | Some s =>
    match mode_of (s_st s) with
    | MSendT _ dl =>
      if dl <=? l_now l then Some (upd_stub l i (with_st s (on_send_timeout (s_st s)))) else None
    | _ => None
    end
  end.

(** the channel action stub [i] can take: close its output, complete a send, receive *)
Definition stub_move (l : link) (i : nat) : option link :=
  match nth_error (l_stubs l) i with
  | None => None
  | Some s =>
    match mode_of (s_st s) with
    | MClose =>
      let l1 := upd_stub l i (mkStub (s_tx s) (s_eff s) Exited (s_ps s) (s_inq s) (s_cap s)
                                     (s_in_closed s) true) in
      Some (close_downstream l1 (S i))
    | MSend c | MSendT c _ =>
      match offer l (S i) c with
      | Some l1 => match nth_error (l_stubs l1) i with Some s1 => Some (stub_sent l1 i s1) | None => None end
      | None => None
      end
    | MSelect true _ _ =>
      match s_inq s with
      | c :: q => Some (stub_input l i s (Some c) q)
      | [] => if s_in_closed s then Some (stub_input l i s None []) else None
      end
    | _ => None
    end
  end.

(** one enabled action of stub [i], if any (channel actions before timers) *)
Definition try_stub (l : link) (i : nat) : option link :=
  match stub_move l i with
  | Some l' => Some l'
  | None => match stub_timer l i with Some l' => Some l' | None => stub_send_timeout l i end
  end.

Fixpoint try_stubs (l : link) (k : nat) : option link :=   (* stubs k-1 down to 0 *)
  match k with
  | O => None
  | S k' => match try_stub l k' with Some l' => Some l' | None => try_stubs l k' end
  end.

Definition set_rd (l : link) (rd : rstate) (src : list src_ev) (rest : bytes) (rx : Z) : link :=
  mkLink (l_now l) src rest rd (l_stubs l) (l_draws l) (l_trace l) (l_sink_closed l) rx (l_tx l)
         (l_sink_delay l) (l_wr_ready l).

Definition take_piece (l : link) (d : bytes) (src : list src_ev) : link :=
  let n := Z.to_nat (Z.min read_buf_size (zlen d)) in
  set_rd l (RSend (mkChunk (firstn n d) (l_now l))) src (skipn n d) (l_rx l + Z.of_nat n).

Definition try_reader (l : link) : option link :=
  match l_rd l with
  | RSend c =>
    match offer l 0 c with
    | Some l1 => Some (set_rd l1 RIdle (l_src l1) (l_rest l1) (l_rx l1))
    | None => None
    end
  | RIdle =>
    match l_rest l with
    | _ :: _ => Some (take_piece l (l_rest l) (l_src l))
    | [] =>
      match l_src l with
      | SWrite t d :: src' =>
        if t <=? l_now l then
          match d with [] => Some (set_rd l RIdle src' [] (l_rx l)) | _ => Some (take_piece l d src') end
        else None
      | SClose t :: src' =>
        if t <=? l_now l then Some (close_downstream (set_rd l RClosed src' [] (l_rx l)) 0) else None
      | [] => None
      end
    end
  | RClosed => None
  end.

Definition step_now (l : link) : option link :=
  match try_stubs l (length (l_stubs l)) with
  | Some l' => Some l'
  | None => try_reader l
  end.

(** earliest future instant at which something becomes enabled *)
Definition opt_min (a : option Z) (b : option Z) : option Z :=
  match a, b with
  | Some x, Some y => Some (Z.min x y)
  | Some x, None => Some x
  | None, y => y
  end.

Definition stub_deadline (s : stub) : option Z :=
  match mode_of (s_st s) with
  | MSelect _ _ tm => tm
  | MSendT _ dl => Some dl
  | _ => None
  end.

Definition next_time (l : link) : option Z :=
  let ds0 := fold_right (fun s acc => opt_min (stub_deadline s) acc) None (l_stubs l) in
  let ds := if l_now l <? l_wr_ready l then opt_min (Some (l_wr_ready l)) ds0 else ds0 in
  match l_rd l, l_rest l, l_src l with
  | RIdle, [], e :: _ => opt_min (Some (ev_time e)) ds
  | _, _, _ => ds
  end.

Definition set_now (l : link) (t : Z) : link :=
  mkLink t (l_src l) (l_rest l) (l_rd l) (l_stubs l) (l_draws l) (l_trace l) (l_sink_closed l)
         (l_rx l) (l_tx l) (l_sink_delay l) (l_wr_ready l).

(** run until quiescent forever (nothing enabled, no deadline) or until virtual time [horizon];
    [None] = out of fuel *)
Fixpoint run_quiet (fuel : nat) (horizon : Z) (l : link) : option link :=
  match fuel with
  | O => None
  | S f =>
    match step_now l with
    | Some l' => run_quiet f horizon l'
    | None =>
      match next_time l with
      | Some t => if t <=? horizon then run_quiet f horizon (set_now l (Z.max t (l_now l))) else Some l
      | None => Some l
      end
    end
  end.

(** the stubs of a link started on [chain] (index 0 = the hidden noop), as NewToxicLink builds
    them: stub i's input has the capacity toxic i asks for; the first input is unbuffered *)
Fixpoint mk_stubs (chain : list (toxic * bool)) (first : bool) (now : Z) : list stub :=
  match chain with
  | [] => []
  | (tx, eff) :: rest =>
    let ps := new_pstate tx in
    mkStub tx eff (init_state (if eff then tx else TNoop) ps now) ps []
           (if first then 0 else buffer_size tx) false false :: mk_stubs rest false now
  end.

Definition link_init_slow (chain : list (toxic * bool)) (src : list src_ev) (draws : list Z) (sink_delay : list Z) : link :=
  mkLink 0 src [] RIdle (mk_stubs ((TNoop, true) :: chain) true 0) draws [] None 0 0 sink_delay 0.

Definition link_init (chain : list (toxic * bool)) (src : list src_ev) (draws : list Z) : link :=
  link_init_slow chain src draws [].

(** ---- all schedules: the same transitions, chosen by an arbitrary scheduler. [ATick] lets any
    amount of time pass at any moment (real executions take time to compute), so every timed
    execution of the real code is a schedule; [run_quiet] follows one particular schedule. *)
Inductive act :=
| AMove (i : nat)
| ATimer (i : nat)
| ASendTimeout (i : nat)
| AReader
| ATick (t : Z).

Definition sched_step (l : link) (a : act) : option link :=
  match a with
  | AMove i => stub_move l i
  | ATimer i => stub_timer l i
  | ASendTimeout i => stub_send_timeout l i
  | AReader => try_reader l
  | ATick t => if l_now l <=? t then Some (set_now l t) else None
  end.

Fixpoint sched_run (l : link) (sigma : list act) : option link :=
  match sigma with
  | [] => Some l
  | a :: r => match sched_step l a with Some l' => sched_run l' r | None => None end
  end.

Definition sink_trace (l : link) : list (Z * Z) := map (fun e => (fst e, zlen (snd e))) (rev (l_trace l)).
Definition sink_bytes (l : link) : bytes := concat (map snd (rev (l_trace l))).

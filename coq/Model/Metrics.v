(** Proxy byte counters (C20): which series a connection's bytes are added to.
    link.Start builds the label values {direction, proxy.Name, proxy.Listen, proxy.Upstream} once,
    when the link starts ([Extracted.metric_labels] regenerates that list from link.go); link.read
    and link.write add their byte counts to the series with those values when they leave.
    The counters are modelled as an append-only log of (series, amount): a series' value is the sum
    of its entries. *)
From TP Require Import Model.Prelude.

Definition labels := (Z * Z * Z)%type.                (* listen, proxy, upstream *)
Definition series := (bool * bool * labels)%type.     (* sent? , downstream? , labels *)

Definition labels_eqb (a b : labels) : bool :=
  let '(l1, p1, u1) := a in let '(l2, p2, u2) := b in (l1 =? l2) && (p1 =? p2) && (u1 =? u2).
Definition series_eqb (a b : series) : bool :=
  let '(m1, d1, l1) := a in let '(m2, d2, l2) := b in Bool.eqb m1 m2 && Bool.eqb d1 d2 && labels_eqb l1 l2.

Inductive mev :=
| MConfig (proxy listen up : Z)          (* create, or in-place update: the proxy now has these *)
| MStart (conn proxy : Z)                (* a connection is accepted: both links start *)
| MEnd (conn : Z) (up_rx up_tx down_rx down_tx : Z)   (* both links have left, with these counts *)
| MScrape.

Record mstate := mkM {
  m_cfg : list (Z * (Z * Z));            (* proxy -> (listen, upstream) *)
  m_open : list (Z * labels);            (* connection -> the label values its links were started with *)
  m_log : list (series * Z);
}.

Definition m_init : mstate := mkM [] [] [].

Fixpoint zassoc {A} (k : Z) (l : list (Z * A)) : option A :=
  match l with [] => None | (k', v) :: r => if k =? k' then Some v else zassoc k r end.
Fixpoint zremove {A} (k : Z) (l : list (Z * A)) : list (Z * A) :=
  match l with [] => [] | (k', v) :: r => if k =? k' then zremove k r else (k', v) :: zremove k r end.

Definition m_step (s : mstate) (e : mev) : mstate :=
  match e with
  | MConfig p listen up => mkM ((p, (listen, up)) :: zremove p (m_cfg s)) (m_open s) (m_log s)
  | MStart c p =>
    match zassoc p (m_cfg s) with
    | Some (listen, up) => mkM (m_cfg s) ((c, (listen, p, up)) :: zremove c (m_open s)) (m_log s)
    | None => s
    end
  | MEnd c urx utx drx dtx =>
    match zassoc c (m_open s) with
    | Some lab =>
      mkM (m_cfg s) (zremove c (m_open s))
          (m_log s ++ [((false, false, lab), urx); ((true, false, lab), utx);
                       ((false, true, lab), drx); ((true, true, lab), dtx)])
    | None => s
    end
  | MScrape => s
  end.

Definition m_run (h : list mev) : mstate := fold_left m_step h m_init.

Fixpoint log_sum (k : series) (l : list (series * Z)) : Z :=
  match l with [] => 0 | (k', v) :: r => (if series_eqb k k' then v else 0) + log_sum k r end.

(** the value GET /metrics shows for a series *)
Definition counter (s : mstate) (k : series) : Z := log_sum k (m_log s).

(** correspondence driver: at every scrape, the observed (series, value) pairs and the observed
    grand total must be what the model holds *)
Fixpoint log_total (l : list (series * Z)) : Z := match l with [] => 0 | (_, v) :: r => v + log_total r end.

Fixpoint scrape_check (s : mstate) (h : list mev) (obs : list (list (series * Z) * Z)) (i : Z) : Z :=
  match h with
  | [] => match obs with [] => 0 | _ => -1 end
  | MScrape :: r =>
    match obs with
    | [] => -1
    | (o, tot) :: obs' =>
      if forallb (fun kv => counter s (fst kv) =? snd kv) o && (log_total (m_log s) =? tot)
      then scrape_check s r obs' (i + 1) else i + 1
    end
  | e :: r => scrape_check (m_step s e) r obs i
  end.

(** M8 part 1: parsed JSON bodies and Go's encoding/json struct decoding, as far as the API uses it.
    The bytes-to-tree parser is trusted (the harness renders trees to text); what is modelled is
    which fields are assigned, in which order, and when an error is reported: keys match
    case-insensitively, unknown keys are ignored, null leaves a field alone, an ill-typed field is
    skipped and LATER fields are still assigned, and the first type error is returned at the end. *)
From Coq Require Import String Ascii.
From TP Require Import Model.Prelude.
Open Scope string_scope.

Inductive json :=
| JNull
| JBool (b : bool)
| JInt (z : Z)              (* an integer literal (no fraction, no exponent) *)
| JFrac (n1024 : Z)         (* any other number literal; value n/1024 (the generator uses dyadics) *)
| JStr (s : string)
| JArr (l : list json)
| JObj (l : list (string * json)).

Inductive body := BEmpty | BBad | BJson (j : json).

Definition lower_ascii (c : ascii) : ascii :=
  let n := nat_of_ascii c in
  if (Nat.leb 65 n && Nat.leb n 90)%bool then ascii_of_nat (n + 32) else c.

Fixpoint lower (s : string) : string :=
  match s with EmptyString => EmptyString | String c r => String (lower_ascii c) (lower r) end.

(** Go matches an object key to a struct field by exact name, else case-insensitively *)
Definition key_is (k field : string) : bool := String.eqb (lower k) field.

Definition in_int64 (z : Z) : bool := int64_ok z.

(** a decoded value or "leave the field alone" or "type error" *)
Inductive dres (A : Type) := DSet (a : A) | DSkip | DErr.
Arguments DSet {A}. Arguments DSkip {A}. Arguments DErr {A}.

Definition dec_string (j : json) : dres string :=
  match j with JStr s => DSet s | JNull => DSkip | _ => DErr end.
Definition dec_bool (j : json) : dres bool :=
  match j with JBool b => DSet b | JNull => DSkip | _ => DErr end.
Definition dec_int64 (j : json) : dres Z :=
  match j with JInt z => if in_int64 z then DSet z else DErr | JNull => DSkip | _ => DErr end.
(** float32 in 1024ths (values used are exactly representable) *)
Definition dec_float (j : json) : dres Z :=
  match j with JInt z => DSet (z * 1024)%Z | JFrac n => DSet n | JNull => DSkip | _ => DErr end.

Definition apply_d {A} (d : dres A) (old : A) (err : bool) : A * bool :=
  match d with DSet a => (a, err) | DSkip => (old, err) | DErr => (old, true) end.

(** ---- api.go: Proxy *)
Record proxy_in := mkPIn { pi_name : string; pi_listen : string; pi_upstream : string; pi_enabled : option bool }.

Definition dec_proxy_field (acc : proxy_in * bool) (kv : string * json) : proxy_in * bool :=
  let '(p, err) := acc in
  let '(k, v) := kv in
  if key_is k "name" then let '(x, e) := apply_d (dec_string v) (pi_name p) err in (mkPIn x (pi_listen p) (pi_upstream p) (pi_enabled p), e)
  else if key_is k "listen" then let '(x, e) := apply_d (dec_string v) (pi_listen p) err in (mkPIn (pi_name p) x (pi_upstream p) (pi_enabled p), e)
  else if key_is k "upstream" then let '(x, e) := apply_d (dec_string v) (pi_upstream p) err in (mkPIn (pi_name p) (pi_listen p) x (pi_enabled p), e)
  else if key_is k "enabled" then
    match dec_bool v with
    | DSet b => (mkPIn (pi_name p) (pi_listen p) (pi_upstream p) (Some b), err)
    | DSkip => (p, err)
    | DErr => (p, true)
    end
  else if key_is k "logger" then
    match v with JObj _ | JNull => (p, err) | _ => (p, true) end
  else (p, err).

(** decode a JSON value into a Proxy struct with the given defaults; the bool is "an error is reported" *)
Definition dec_proxy (defaults : proxy_in) (j : json) : proxy_in * bool :=
  match j with
  | JNull => (defaults, false)
  | JObj fields => fold_left dec_proxy_field fields (defaults, false)
  | _ => (defaults, true)
  end.

(** ---- toxics: wrapper and attributes *)
Record toxic_in := mkTIn { ti_name : string; ti_type : string; ti_stream : string; ti_toxicity : Z }.

Definition dec_toxic_field (acc : toxic_in * bool) (kv : string * json) : toxic_in * bool :=
  let '(t, err) := acc in
  let '(k, v) := kv in
  if key_is k "attributes" then match v with JObj _ | JNull => (t, err) | _ => (t, true) end   (* into *NoopToxic *)
  else if key_is k "name" then let '(x, e) := apply_d (dec_string v) (ti_name t) err in (mkTIn x (ti_type t) (ti_stream t) (ti_toxicity t), e)
  else if key_is k "type" then let '(x, e) := apply_d (dec_string v) (ti_type t) err in (mkTIn (ti_name t) x (ti_stream t) (ti_toxicity t), e)
  else if key_is k "stream" then let '(x, e) := apply_d (dec_string v) (ti_stream t) err in (mkTIn (ti_name t) (ti_type t) x (ti_toxicity t), e)
  else if key_is k "toxicity" then let '(x, e) := apply_d (dec_float v) (ti_toxicity t) err in (mkTIn (ti_name t) (ti_type t) (ti_stream t) x, e)
  else (t, err).

Definition dec_toxic (defaults : toxic_in) (j : json) : toxic_in * bool :=
  match j with
  | JNull => (defaults, false)
  | JObj fields => fold_left dec_toxic_field fields (defaults, false)
  | _ => (defaults, true)
  end.

(** attributes of a typed toxic: an association list over the toxic's JSON field names *)
Definition attrs := list (string * Z).

Fixpoint set_attr (a : attrs) (field : string) (z : Z) : attrs :=
  match a with
  | [] => []
  | (f, old) :: r => if String.eqb f field then (f, z) :: r else (f, old) :: set_attr r field z
  end.

Fixpoint has_field (a : attrs) (k : string) : option string :=
  match a with
  | [] => None
  | (f, _) :: r => if key_is k f then Some f else has_field r k
  end.

Definition dec_attr_field (acc : attrs * bool) (kv : string * json) : attrs * bool :=
  let '(a, err) := acc in
  let '(k, v) := kv in
  match has_field a k with
  | None => (a, err)
  | Some f =>
    match dec_int64 v with
    | DSet z => (set_attr a f z, err)
    | DSkip => (a, err)
    | DErr => (a, true)
    end
  end.

(** the value of the "attributes" key decoded over existing attribute values *)
Definition dec_attrs (a : attrs) (j : json) : attrs * bool :=
  match j with
  | JNull => (a, false)
  | JObj fields => fold_left dec_attr_field fields (a, false)
  | _ => (a, true)
  end.

(** struct { Attributes interface{} `json:"attributes"`; Toxicity float32 `json:"toxicity"` } decoded
    from a whole body; [with_toxicity] = false for the creation pass (only attributes) *)
Definition dec_update_field (with_toxicity : bool) (acc : attrs * Z * bool) (kv : string * json) : attrs * Z * bool :=
  let '(a, tox, err) := acc in
  let '(k, v) := kv in
  if key_is k "attributes" then let '(a', e) := dec_attrs a v in (a', tox, err || e)
  else if with_toxicity && key_is k "toxicity" then let '(x, e) := apply_d (dec_float v) tox err in (a, x, e)
  else (a, tox, err).

Definition dec_update (with_toxicity : bool) (a : attrs) (tox : Z) (j : json) : attrs * Z * bool :=
  match j with
  | JNull => (a, tox, false)
  | JObj fields => fold_left (dec_update_field with_toxicity) fields (a, tox, false)
  | _ => (a, tox, true)
  end.

(** The toxic collection of one direction of a proxy between API operations (no request in
    flight): the listed chain and, per registered link, the stubs that link.go keeps aligned with
    it by position. What matters for C04 is which stub an operation addresses ([toxic.Index]) and
    whether every path of ToxicLink.RemoveToxic drops the stub of the removed toxic
    ([remove_always_splices], extracted from link.go). *)
From Coq Require Import String.
From TP Require Import Model.Prelude Extracted.

Record cstub := mkCStub { cs_name : string; cs_closed : bool }.   (* "" = the hidden noop *)
Definition clink := list cstub.
Record coll := mkColl { c_chain : list string; c_links : list clink }.

Definition coll_init : coll := mkColl [""%string] [].

Inductive cop :=
| OAdd (name : string)
| OUpdate (name : string)
| ORemove (name : string) (early : list bool)   (* per link: did this link's removal take an early-return path
                                                   (stub already closed, closed by Cleanup, or input ended during the flush)? *)
| OLinkStart
| OLinkEnd (k : nat)
| OCloseFrom (k j : nat).                       (* on link k the stream ends at stub j: it and all later stubs close *)

Fixpoint index_of (name : string) (l : list string) (i : nat) : option nat :=
  match l with [] => None | x :: r => if String.eqb x name then Some i else index_of name r (S i) end.

Fixpoint remove_at {A} (i : nat) (l : list A) : list A :=
  match l, i with [], _ => [] | _ :: r, O => r | x :: r, S i' => x :: remove_at i' r end.

Definition last_closed (l : clink) : bool := match rev l with s :: _ => cs_closed s | [] => false end.

Fixpoint close_from (j : nat) (l : clink) : clink :=
  match l, j with
  | [], _ => []
  | s :: r, O => mkCStub (cs_name s) true :: close_from O r
  | s :: r, S j' => s :: close_from j' r
  end.

Fixpoint map2_remove (i : nat) (early : list bool) (links : list clink) : list clink :=
  match links with
  | [] => []
  | l :: r =>
    let e := match early with b :: _ => b | [] => false end in
    (if e && negb remove_always_splices then l else remove_at i l) :: map2_remove i (tl early) r
  end.

Definition cstep (c : coll) (o : cop) : coll :=
  match o with
  | OAdd name =>
    match index_of name (c_chain c) 0 with
    | Some _ => c                                                     (* 409: nothing happens *)
    | None => mkColl (c_chain c ++ [name]) (map (fun l => l ++ [mkCStub name (last_closed l)]) (c_links c))
    end
  | OUpdate _ => c
  | ORemove name early =>
    match index_of name (c_chain c) 0 with
    | Some (S i) => mkColl (remove_at (S i) (c_chain c)) (map2_remove (S i) early (c_links c))
    | _ => c                                                          (* 404 / the hidden noop is not addressable *)
    end
  | OLinkStart => mkColl (c_chain c) (c_links c ++ [map (fun n => mkCStub n false) (c_chain c)])
  | OLinkEnd k => mkColl (c_chain c) (remove_at k (c_links c))
  | OCloseFrom k j =>
    mkColl (c_chain c) (map (fun p => if Nat.eqb (fst p) k then close_from j (snd p) else snd p)
                            (combine (seq 0 (length (c_links c))) (c_links c)))
  end.

Definition crun (ops : list cop) : coll := fold_left cstep ops coll_init.

(** stub i of every registered link runs (or last ran) the toxic listed at position i *)
Definition aligned (c : coll) : Prop := Forall (fun l => map cs_name l = c_chain c) (c_links c).

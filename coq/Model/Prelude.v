(** M0: shared definitions of the toxiproxy model. Definitions only (no proofs) so that the
    model still runs when a proof breaks. Bytes are [Z]. *)
From Coq Require Export List ZArith Bool Lia.
Export ListNotations.
Open Scope Z_scope.

Definition byte := Z.
Definition bytes := list byte.

Definition zlen {A} (l : list A) : Z := Z.of_nat (length l).

(** Go's [a[lo:hi]] for [0 <= lo <= hi <= len a] (callers guard the bounds; see [slice_ok]). *)
Definition slice {A} (l : list A) (lo hi : Z) : list A :=
  firstn (Z.to_nat (hi - lo)) (skipn (Z.to_nat lo) l).
Definition slice_from {A} (l : list A) (lo : Z) : list A := skipn (Z.to_nat lo) l.
Definition slice_to {A} (l : list A) (hi : Z) : list A := firstn (Z.to_nat hi) l.
Definition slice_ok (lo hi len : Z) : bool := (0 <=? lo) && (lo <=? hi) && (hi <=? len).

(** int64 wrap-around, written explicitly where overflow is part of a property. *)
Definition two63 : Z := 9223372036854775808.
Definition two64 : Z := 18446744073709551616.
Definition wrap64 (z : Z) : Z := ((z + two63) mod two64) - two63.
Definition int64_ok (z : Z) : bool := (- two63 <=? z) && (z <? two63).
Definition max64 : Z := two63 - 1.
Definition min64 : Z := - two63.

(** Go's truncated integer division and remainder (towards zero); callers exclude a zero divisor. *)
Definition godiv (a b : Z) : Z := Z.quot a b.
Definition gorem (a b : Z) : Z := Z.rem a b.

Fixpoint list_eqb {A} (eqb : A -> A -> bool) (a b : list A) : bool :=
  match a, b with
  | [], [] => true
  | x :: a', y :: b' => eqb x y && list_eqb eqb a' b'
  | _, _ => false
  end.
Definition zlist_eqb := list_eqb Z.eqb.

Definition is_prefix {A} (a b : list A) : Prop := exists r, b = a ++ r.

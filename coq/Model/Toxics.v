(** M2: the built-in toxics as sequential programs over blocking points (toxics/*.go).
    One sum type of local states, total transition functions, attributes read at every use (the
    [toxic] value is an argument of every transition because the Go stages read [t.Field] from the
    shared wrapper each time). Time is in nanoseconds. See DESIGN.md Appendix A for the pc table.
    Constants and small decision expressions come from [Extracted] (regenerated from the source). *)
From TP Require Import Model.Prelude Extracted.
From Coq Require Import String.

Record chunk := mkChunk { cdata : bytes; cts : Z }.

Inductive toxic :=
| TNoop
| TLatency (lat jit : Z)
| TBandwidth (rate : Z)
| TSlicer (avg var delay : Z)
| TSlowClose (delay : Z)
| TTimeout (t : Z)
| TResetPeer (t : Z)
| TLimitData (nbytes : Z).

(** per-stub persistent state ([stub.State]): only limit_data has one (its byte counter) *)
Definition pstate := option Z.

Inductive after :=
| KIdle (acc : Z)                                (* back to the top-level select *)
| KExit                                          (* Pipe returns after the send *)
| KBwLoop (p : chunk) (sl : Z)                   (* bandwidth: re-test the instalment loop with the rest *)
| KSlNext (c : chunk) (rest : list Z) (o tot : Z)  (* slicer: wait [delay] after the piece ending at o;
                                                      c holds the data from o on, tot = len of the input chunk *)
| KLimit.                                        (* limit_data: count the bytes, re-test the budget *)

Inductive lstate :=
| Idle (acc : Z) (tmr : option Z)   (* select {Interrupt | Input (| timer: timeout toxic)} *)
| Send (c : chunk) (k : after)      (* stub.Output <- c *)
| SendT (c : chunk) (dl : Z)        (* stub.WriteOutput(c, 5s); then Pipe returns *)
| LatWait (c : chunk) (sleep dl : Z)
| BwInst (p : chunk) (r sl dl : Z)      (* r = the rate the loop test read (the cut may or may not re-read it) *)
| BwFinal (p : chunk) (sl t0 dl : Z)
| SlWait (c : chunk) (rest : list Z) (o tot : Z) (dl : Z)
| ScWait (dl : Z)
| RpWait (dl : Z)
| Closing                           (* about to run stub.Close() *)
| Exited                            (* Pipe returned *)
| Panicked (why : string)
| Diverged.

(** What a stage is blocked on. *)
Inductive mode :=
| MSelect (input interrupt : bool) (timer : option Z)
| MSend (c : chunk)
| MSendT (c : chunk) (dl : Z)
| MClose
| MExit
| MDead.

Definition mode_of (s : lstate) : mode :=
  match s with
  | Idle _ tmr => MSelect true true tmr
  | Send c _ => MSend c
  | SendT c dl => MSendT c dl
  | LatWait _ _ dl => MSelect false true (Some dl)
  | BwInst _ _ _ dl => MSelect false true (Some dl)
  | BwFinal _ _ _ dl => MSelect false true (Some dl)
  | SlWait _ _ _ _ dl => MSelect false true (Some dl)
  | ScWait dl => MSelect false true (Some dl)
  | RpWait dl => MSelect false false (Some dl)
  | Closing => MClose
  | Exited => MExit
  | Panicked _ | Diverged => MDead
  end.

(** ---- slicer.chunk: offsets [o0;o1;o1;o2;...] with oracle draws and fuel (None = out of fuel,
    which is how unbounded recursion shows up). The four expressions come from the source. *)
Inductive chunk_res := CROk (os : list Z) (draws : list Z) | CRFuel | CRBadRand.

Fixpoint slicer_chunk (fuel : nat) (avg var : Z) (start end_ : Z) (draws : list Z) : chunk_res :=
  match fuel with
  | O => CRFuel
  | S f =>
    if slicer_base start end_ avg var then CROk [start; end_] draws
    else
      let mid0 := slicer_mid start end_ in
      let '(mid, draws1, ok) :=
        if slicer_rand_guard var then
          let n := slicer_rand_n var in
          if n <=? 0 then (mid0, draws, false)                 (* rand.Intn panics *)
          else match draws with
               | r :: ds => (slicer_mid_adj mid0 (r mod n) var, ds, true)
               | [] => (slicer_mid_adj mid0 0 var, [], true)
               end
        else (mid0, draws, true) in
      if negb ok then CRBadRand else
      let mid := slicer_clamp start end_ mid in
      match slicer_chunk f avg var start mid draws1 with
      | CROk l d2 =>
        match slicer_chunk f avg var mid end_ d2 with
        | CROk r d3 => CROk (l ++ r) d3
        | e => e
        end
      | e => e
      end
  end.

(** next step of the slicer's piece loop. [c] holds the input chunk's data from offset [o] on,
    [rest] = remaining offsets [o_{i-1}; o_i; ...], [tot] = length of the input chunk. The offsets
    come in pairs that share their end points (append(left, right) with left ending and right
    starting at mid), so the next piece always starts at [o]; the bounds check is Go's. *)
Definition slicer_next (c : chunk) (rest : list Z) (o tot : Z) : lstate :=
  match rest with
  | lo :: hi :: rest' =>
    if (lo =? o) && slice_ok lo hi tot then
      let n := Z.to_nat (hi - lo) in
      Send (mkChunk (firstn n (cdata c)) (cts c))
           (KSlNext (mkChunk (skipn n (cdata c)) (cts c)) rest' hi tot)
    else Panicked "slicer: slice bounds out of range"
  | _ => Idle 0 None
  end.

(** ---- latency *)
Definition latency_delay (lat jit : Z) (draws : list Z) : option Z * list Z :=
  if latency_jitter_guard jit then
    let n := latency_rand_n jit in
    if n <=? 0 then (None, draws)                               (* rand.Int63n panics *)
    else match draws with
         | r :: ds => (Some (latency_delay_ns lat (r mod n) jit), ds)
         | [] => (Some (latency_delay_ns lat 0 jit), [])
         end
  else (Some (latency_base_ns lat), draws).

(** ---- bandwidth *)
Definition bw_loop (rate : Z) (p : chunk) (sl now : Z) : lstate :=
  if bw_split_test (zlen (cdata p)) rate then BwInst p rate sl (now + bw_instalment_ns)
  else BwFinal p sl now (now + sl).

(** ---- limit_data *)
Definition limit_after (nbytes counter : Z) : lstate :=
  let rem := limit_remaining nbytes counter in
  if limit_close_test rem then Closing else Idle rem None.

(** ---- timeout *)
Definition timeout_arm (t now : Z) : option Z :=
  if timeout_positive t then Some (now + timeout_ns t) else None.

(** Start of [Pipe] on a stub (after the toxicity draw chose this toxic). *)
Definition init_state (tx : toxic) (ps : pstate) (now : Z) : lstate :=
  match tx with
  | TLimitData nb =>
    match ps with
    | Some counter => Idle (limit_remaining nb counter) None
    | None => Panicked "limit_data: stub.State is not a LimitDataToxicState"
    end
  | TTimeout t => Idle 0 (timeout_arm t now)
  | _ => Idle 0 None
  end.

(** Input arm of the top-level select. [c = None] is the nil chunk of a closed input. *)
Definition on_input (tx : toxic) (ps : pstate) (now : Z) (draws : list Z) (c : option chunk)
           (s : lstate) : lstate * list Z :=
  match s with
  | Idle acc tmr =>
    match c with
    | None =>
      match tx with
      | TSlowClose d => (ScWait (now + slow_close_ns d), draws)
      | TResetPeer t => (RpWait (now + reset_peer_ns t), draws)
      | _ => (Closing, draws)
      end
    | Some c =>
      match tx with
      | TNoop => (Send c (KIdle 0), draws)
      | TLatency lat jit =>
        match latency_delay lat jit draws with
        | (Some d, ds) => let sleep := d - (now - cts c) in (LatWait c sleep (now + sleep), ds)
        | (None, ds) => (Panicked "latency: invalid argument to Int63n", ds)
        end
      | TBandwidth rate =>
        let sl := bw_sleep_add acc (zlen (cdata c)) rate in
        (bw_loop rate c sl now, draws)
      | TSlicer avg var delay =>
        match slicer_chunk (S (Z.to_nat (zlen (cdata c)))) avg var 0 (zlen (cdata c)) draws with
        | CROk os ds => (slicer_next c os 0 (zlen (cdata c)), ds)
        | CRFuel => (Diverged, draws)
        | CRBadRand => (Panicked "slicer: invalid argument to Intn", draws)
        end
      | TSlowClose _ => (Send c (KIdle 0), draws)
      | TTimeout t => (Idle 0 (if timeout_rearms then timeout_arm t now else tmr), draws)
      | TResetPeer t => (RpWait (now + reset_peer_ns t), draws)
      | TLimitData nb =>
        let rem := Z.max acc 0 in
        let c' := if rem <? zlen (cdata c) then mkChunk (slice_to (cdata c) rem) (cts c) else c in
        if 0 <? zlen (cdata c') then (Send c' KLimit, draws)
        else (limit_after nb (match ps with Some k => k | None => 0 end), draws)
      end
    end
  | _ => (s, draws)
  end.

(** [tested]: the cut of an instalment uses the rate value the loop test read ([true], one read per
    round) or reads the shared attribute again ([false]: an update between test and cut changes it).
    Which one the source does is the regenerated fact [bw_cut_uses_tested_rate]. *)
Definition on_timer_gen (tested : bool) (tx : toxic) (now : Z) (s : lstate) : lstate :=
  match s with
  | Idle _ (Some _) => Closing                                         (* timeout fired *)
  | LatWait c sleep _ => Send (mkChunk (cdata c) (cts c + sleep)) (KIdle 0)
  | BwInst p r0 sl _ =>
    match tx with
    | TBandwidth rate =>
      let r := bw_instalment_bytes (if tested then r0 else rate) in
      if slice_ok 0 r (zlen (cdata p)) then
        Send (mkChunk (slice_to (cdata p) r) (cts p))
             (KBwLoop (mkChunk (slice_from (cdata p) r) (cts p)) (sl - bw_instalment_ns))
      else Panicked "bandwidth: slice bounds out of range"
    | _ => s
    end
  | BwFinal p sl t0 _ => Send p (KIdle (sl - (now - t0)))
  | SlWait c rest o tot _ => slicer_next c rest o tot
  | ScWait _ => Closing
  | RpWait _ => Closing
  | _ => s
  end.

Definition on_timer := on_timer_gen bw_cut_uses_tested_rate.

(** The send completed. Returns the new local state and persistent state. *)
Definition on_sent (tx : toxic) (ps : pstate) (now : Z) (s : lstate) : lstate * pstate :=
  match s with
  | Send c k =>
    match k with
    | KIdle acc => (Idle acc None, ps)
    | KExit => (Exited, ps)
    | KBwLoop p sl =>
      match tx with TBandwidth rate => (bw_loop rate p sl now, ps) | _ => (Idle 0 None, ps) end
    | KSlNext c' rest o tot =>
      match tx with
      | TSlicer _ _ delay => (SlWait c' rest o tot (now + slicer_delay_ns delay), ps)
      | _ => (Idle 0 None, ps)
      end
    | KLimit =>
      match tx, ps with
      | TLimitData nb, Some counter =>
        let counter' := counter + zlen (cdata c) in (limit_after nb counter', Some counter')
      | _, _ => (Idle 0 None, ps)
      end
    end
  | SendT _ _ => (Exited, ps)
  | _ => (s, ps)
  end.

Definition on_interrupt (now : Z) (s : lstate) : lstate :=
  match s with
  | Idle _ _ => Exited
  | LatWait c _ _ => Send c KExit
  | BwInst p _ _ _ => SendT p (now + flush_timeout_ns)
  | BwFinal p _ _ _ => SendT p (now + flush_timeout_ns)
  | SlWait c _ _ _ _ => Send c KExit
  | ScWait _ => Exited
  | _ => s
  end.

Definition on_send_timeout (s : lstate) : lstate :=
  match s with SendT _ _ => Exited | _ => s end.

(** Bytes a stage has taken from its input and not yet written to its output (M3's [held]). *)
Definition after_held (k : after) : bytes :=
  match k with
  | KBwLoop p _ => cdata p
  | KSlNext c _ _ _ => cdata c
  | _ => []
  end.

Definition held (s : lstate) : bytes :=
  match s with
  | Send c k => cdata c ++ after_held k
  | SendT c _ => cdata c
  | LatWait c _ _ => cdata c
  | BwInst p _ _ _ => cdata p
  | BwFinal p _ _ _ => cdata p
  | SlWait c _ _ _ _ => cdata c
  | _ => []
  end.

(** channel capacity a toxic asks for its input ([GetBufferSize]) *)
Definition buffer_size (tx : toxic) : Z :=
  match tx with TLatency _ _ => latency_buffer_size | _ => 0 end.

Definition is_stateful (tx : toxic) : bool := match tx with TLimitData _ => true | _ => false end.
Definition new_pstate (tx : toxic) : pstate := if is_stateful tx then Some 0 else None.

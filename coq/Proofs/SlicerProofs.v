(** The slicer's offset computation (toxics/slicer.go: chunk), as extracted: for
    0 <= size_variation < average_size it terminates, and the offsets partition [start, end)
    into consecutive non-empty pieces of at most average_size + size_variation bytes. *)
From TP Require Import Model.Prelude Extracted Model.Toxics Proofs.GoArith.
From Coq Require Import ZifyBool ZifyNat.

(** [covers rest o tot]: the offset list is a sequence of pairs (lo, hi), the first starting at
    [o], each starting where the previous one ended, the last ending at [tot]. *)
Fixpoint covers (rest : list Z) (o tot : Z) : Prop :=
  match rest with
  | [] => o = tot
  | lo :: r =>
    match r with
    | hi :: rest' => lo = o /\ lo <= hi /\ covers rest' hi tot
    | [] => False
    end
  end.

(** every piece is non-empty and at most [b] long *)
Fixpoint pieces_within (b : Z) (rest : list Z) : Prop :=
  match rest with
  | [] => True
  | lo :: r =>
    match r with
    | hi :: rest' => 0 < hi - lo <= b /\ pieces_within b rest'
    | [] => False
    end
  end.

Lemma list_pair_ind (P : list Z -> Prop) :
  P [] -> (forall x, P [x]) -> (forall x y l, P l -> P (x :: y :: l)) -> forall l, P l.
Proof.
  intros H0 H1 H2.
  fix IH 1. intros [|x [|y l]]; [exact H0|apply H1|apply H2, IH].
Qed.

Lemma covers_app l : forall r o m t, covers l o m -> covers r m t -> covers (l ++ r) o t.
Proof.
  induction l as [| x | x y l IH] using list_pair_ind; intros r o m t Hl Hr.
  - simpl in *. subst. exact Hr.
  - simpl in Hl. contradiction.
  - simpl in Hl. destruct Hl as (-> & Hle & Hl). simpl. repeat split; try assumption.
    eapply IH; eassumption.
Qed.

Lemma pieces_within_app b l : forall r, pieces_within b l -> pieces_within b r -> pieces_within b (l ++ r).
Proof.
  induction l as [| x | x y l IH] using list_pair_ind; intros r Hl Hr.
  - exact Hr.
  - simpl in Hl. contradiction.
  - simpl in Hl. destruct Hl as (Hb & Hl). simpl. split; [exact Hb|]. apply IH; assumption.
Qed.

Lemma covers_le rest : forall o tot, covers rest o tot -> o <= tot.
Proof.
  induction rest as [| x | x y l IH] using list_pair_ind; intros o tot H; simpl in H.
  - lia.
  - contradiction.
  - destruct H as (-> & Hle & H). specialize (IH _ _ H). lia.
Qed.

Theorem slicer_chunk_spec (fuel : nat) : forall avg var start end_ draws,
  0 <= var < avg -> start <= end_ -> (Z.to_nat (end_ - start) < fuel)%nat ->
  exists os ds, slicer_chunk fuel avg var start end_ draws = CROk os ds /\
                covers os start end_ /\
                (start < end_ -> pieces_within (avg + var) os).
Proof.
  induction fuel as [|f IH]; intros avg var start end_ draws Hv Hle Hfuel; [lia|].
  cbn [slicer_chunk].
  unfold slicer_base, slicer_mid, slicer_rand_guard, slicer_rand_n, slicer_mid_adj.
  destruct ((end_ - start) - avg <=? var) eqn:Hbase.
  - exists [start; end_], draws. split; [reflexivity|]. split; [simpl; lia|].
    intros Hlt. simpl. lia.
  - assert (Hsize : end_ - start > avg + var) by lia.
    rewrite godiv_div by lia.
    set (half := (end_ - start) / 2).
    assert (Hhalf : 2 * half <= end_ - start < 2 * half + 2).
    { unfold half. pose proof (Z.div_mod (end_ - start) 2 ltac:(lia)).
      pose proof (Z.mod_pos_bound (end_ - start) 2 ltac:(lia)). lia. }
    (* the split point lies strictly inside (start, end) *)
    assert (Hmid : forall r, 0 <= r < 2 * var \/ (var = 0 /\ r = var) ->
                    start < start + half + (r - var) < end_) by (intros r Hr; lia).
    destruct (0 <? var) eqn:Hvar.
    + replace (var * 2 <=? 0) with false by lia.
      set (r := match draws with d :: _ => d mod (var * 2) | [] => 0 end).
      assert (Hr : 0 <= r < 2 * var).
      { unfold r. destruct draws as [|d ds]; [lia|].
        pose proof (Z.mod_pos_bound d (var * 2) ltac:(lia)). lia. }
      set (mid := start + half + (r - var)).
      specialize (Hmid r (or_introl Hr)). fold mid in Hmid.
      assert (Hdr : (if true then match draws with
                     | d :: ds => (start + half + (d mod (var * 2) - var), ds, true)
                     | [] => (start + half + (0 - var), [], true) end
                     else (start + half, draws, true)) =
                    (mid, match draws with _ :: ds => ds | [] => [] end, true)).
      { unfold mid, r. destruct draws; reflexivity. }
      destruct draws as [|d ds]; cbn [negb].
      * destruct (IH avg var start mid [] Hv ltac:(lia) ltac:(lia)) as (l & d2 & El & Cl & Pl).
        unfold mid, r in El. rewrite El.
        destruct (IH avg var mid end_ d2 Hv ltac:(lia) ltac:(lia)) as (rr & d3 & Er & Cr & Pr).
        unfold mid, r in Er. rewrite Er.
        exists (l ++ rr), d3. split; [reflexivity|]. split; [eapply covers_app; eassumption|].
        intros _. apply pieces_within_app; [apply Pl|apply Pr]; lia.
      * destruct (IH avg var start mid ds Hv ltac:(lia) ltac:(lia)) as (l & d2 & El & Cl & Pl).
        unfold mid, r in El. rewrite El.
        destruct (IH avg var mid end_ d2 Hv ltac:(lia) ltac:(lia)) as (rr & d3 & Er & Cr & Pr).
        unfold mid, r in Er. rewrite Er.
        exists (l ++ rr), d3. split; [reflexivity|]. split; [eapply covers_app; eassumption|].
        intros _. apply pieces_within_app; [apply Pl|apply Pr]; lia.
    + assert (var = 0) by lia. subst var.
      set (mid := start + half).
      assert (Hm : start < mid < end_) by (unfold mid; lia).
      cbn [negb].
      destruct (IH avg 0 start mid draws Hv ltac:(lia) ltac:(lia)) as (l & d2 & El & Cl & Pl).
      rewrite El.
      destruct (IH avg 0 mid end_ d2 Hv ltac:(lia) ltac:(lia)) as (rr & d3 & Er & Cr & Pr).
      rewrite Er.
      exists (l ++ rr), d3. split; [reflexivity|]. split; [eapply covers_app; eassumption|].
      intros _. apply pieces_within_app; [apply Pl|apply Pr]; lia.
Qed.

(** Outside the guard the recursion need not terminate: with average_size <= size_variation (for
    instance the defaults 0/0) a one-byte input already recurses for ever (finding F5a). *)
Theorem slicer_chunk_diverges_default (fuel : nat) (draws : list Z) :
  slicer_chunk fuel 0 0 0 1 draws = CRFuel.
Proof.
  revert draws. induction fuel as [|f IH]; intros draws; [reflexivity|].
  cbn [slicer_chunk]. unfold slicer_base, slicer_mid, slicer_rand_guard. cbn.
  change (godiv 1 2) with 0. cbn.
  destruct f as [|f']; [reflexivity|].
  change (slicer_chunk (S f') 0 0 0 0 draws) with (CROk [0; 0] draws).
  cbv iota. rewrite IH. reflexivity.
Qed.

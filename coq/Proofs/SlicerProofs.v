(** The slicer's offset computation (toxics/slicer.go: chunk), as extracted: for
    0 <= size_variation < average_size it terminates, and the offsets partition [start, end)
    into consecutive non-empty pieces of at most average_size + size_variation bytes. *)
From TP Require Import Model.Prelude Extracted Model.Toxics Proofs.GoArith.
From Coq Require Import ZifyBool ZifyNat.

(** [covers rest o tot]: the offset list is a sequence of pairs (lo, hi), the first starting at
    [o], each starting where the previous one ended, the last ending at [tot]. *)
Fixpoint covers (rest : list Z) (o tot : Z) : Prop :=
  match rest with
  | [] => o = tot
  | lo :: r =>
    match r with
    | hi :: rest' => lo = o /\ lo <= hi /\ covers rest' hi tot
    | [] => False
    end
  end.

(** every piece is non-empty and at most [b] long *)
Fixpoint pieces_within (b : Z) (rest : list Z) : Prop :=
  match rest with
  | [] => True
  | lo :: r =>
    match r with
    | hi :: rest' => 0 < hi - lo <= b /\ pieces_within b rest'
    | [] => False
    end
  end.

Lemma list_pair_ind (P : list Z -> Prop) :
  P [] -> (forall x, P [x]) -> (forall x y l, P l -> P (x :: y :: l)) -> forall l, P l.
Proof.
  intros H0 H1 H2.
  fix IH 1. intros [|x [|y l]]; [exact H0|apply H1|apply H2, IH].
Qed.

Lemma covers_app l : forall r o m t, covers l o m -> covers r m t -> covers (l ++ r) o t.
Proof.
  induction l as [| x | x y l IH] using list_pair_ind; intros r o m t Hl Hr.
  - simpl in *. subst. exact Hr.
  - simpl in Hl. contradiction.
  - simpl in Hl. destruct Hl as (-> & Hle & Hl). simpl. repeat split; try assumption.
    eapply IH; eassumption.
Qed.

Lemma pieces_within_app b l : forall r, pieces_within b l -> pieces_within b r -> pieces_within b (l ++ r).
Proof.
  induction l as [| x | x y l IH] using list_pair_ind; intros r Hl Hr.
  - exact Hr.
  - simpl in Hl. contradiction.
  - simpl in Hl. destruct Hl as (Hb & Hl). simpl. split; [exact Hb|]. apply IH; assumption.
Qed.

Lemma covers_le rest : forall o tot, covers rest o tot -> o <= tot.
Proof.
  induction rest as [| x | x y l IH] using list_pair_ind; intros o tot H; simpl in H.
  - lia.
  - contradiction.
  - destruct H as (-> & Hle & H). specialize (IH _ _ H). lia.
Qed.

(** the split point always lies strictly inside a chunk of at least two bytes *)
Lemma clamp_inside start end_ m : start + 2 <= end_ -> start < slicer_clamp start end_ m < end_.
Proof.
  intros H. unfold slicer_clamp.
  destruct (m <=? start) eqn:E1; [lia|]. destruct (end_ <=? m) eqn:E2; lia.
Qed.

(** generic form: [b] bounds the length of every non-empty base-case interval inside [lo, hi) *)
Lemma slicer_chunk_gen lo hi b avg var
  (Hb : forall s e, lo <= s -> s < e -> e <= hi -> slicer_base s e avg var = true -> e - s <= b)
  (fuel : nat) : forall start end_ draws,
  lo <= start -> end_ <= hi ->
  start <= end_ -> (Z.to_nat (end_ - start) < fuel)%nat ->
  exists os ds, slicer_chunk fuel avg var start end_ draws = CROk os ds /\
                covers os start end_ /\
                (start < end_ -> pieces_within b os).
Proof.
  induction fuel as [|f IH]; intros start end_ draws Hlo Hhi Hle Hfuel; [lia|].
  cbn [slicer_chunk].
  destruct (slicer_base start end_ avg var) eqn:Hbase.
  - exists [start; end_], draws. split; [reflexivity|]. split; [simpl; lia|].
    intros Hlt. simpl. split; [|exact I]. split; [lia|]. apply Hb; assumption.
  - assert (Hsize : start + 2 <= end_) by (unfold slicer_base in Hbase; lia).
    (* whatever the raw split point is, the clamped one is strictly inside *)
    assert (Hgen : forall m d1,
              exists os ds,
                match slicer_chunk f avg var start (slicer_clamp start end_ m) d1 with
                | CROk l d2 => match slicer_chunk f avg var (slicer_clamp start end_ m) end_ d2 with
                               | CROk r d3 => CROk (l ++ r) d3
                               | e => e
                               end
                | e => e
                end = CROk os ds /\ covers os start end_ /\ (start < end_ -> pieces_within b os)).
    { intros m d1. pose proof (clamp_inside start end_ m Hsize) as Hm.
      set (mid := slicer_clamp start end_ m) in *.
      destruct (IH start mid d1 ltac:(lia) ltac:(lia) ltac:(lia) ltac:(lia)) as (l & d2 & El & Cl & Pl). rewrite El.
      destruct (IH mid end_ d2 ltac:(lia) ltac:(lia) ltac:(lia) ltac:(lia)) as (r & d3 & Er & Cr & Pr). rewrite Er.
      exists (l ++ r), d3. split; [reflexivity|]. split; [eapply covers_app; eassumption|].
      intros _. apply pieces_within_app; [apply Pl|apply Pr]; lia. }
    destruct (slicer_rand_guard var) eqn:Hg.
    + assert (Hn : (slicer_rand_n var <=? 0) = false).
      { unfold slicer_rand_guard, slicer_rand_n in *.
        assert (Hh : godiv 9223372036854775807 2 = 4611686018427387903) by (vm_compute; reflexivity).
        rewrite Hh in Hg. rewrite wrap64_id by (unfold two63; lia). lia. }
      rewrite Hn. destruct draws as [|d ds]; cbn [negb]; apply Hgen.
    + cbn [negb]. apply Hgen.
Qed.

(** For EVERY average_size and size_variation (any int64 values), every size and every sequence of
    draws: the recursion terminates within size+1 levels, never calls rand.Intn with a non-positive
    argument, and the offsets partition [start, end) into consecutive NON-EMPTY pieces. *)
Theorem slicer_chunk_total (fuel : nat) : forall avg var start end_ draws,
  start <= end_ -> (Z.to_nat (end_ - start) < fuel)%nat ->
  exists os ds, slicer_chunk fuel avg var start end_ draws = CROk os ds /\
                covers os start end_ /\
                (start < end_ -> pieces_within (end_ - start) os).
Proof.
  intros avg var start end_ draws Hle Hf.
  apply (slicer_chunk_gen start end_ (end_ - start) avg var); try lia.
Qed.

(** inside the documented range 0 <= size_variation < average_size (an int) every piece is at most
    average + variation bytes *)
Theorem slicer_chunk_spec (fuel : nat) : forall avg var start end_ draws,
  0 <= var < avg -> avg < two63 -> 0 <= start -> end_ < two63 -> start <= end_ -> (Z.to_nat (end_ - start) < fuel)%nat ->
  exists os ds, slicer_chunk fuel avg var start end_ draws = CROk os ds /\
                covers os start end_ /\
                (start < end_ -> pieces_within (avg + var) os).
Proof.
  intros avg var start end_ draws Hv Ha Hs He Hle Hf.
  apply (slicer_chunk_gen start end_ (avg + var) avg var); try lia.
  intros s e H1 H2 H3 Hbase. unfold slicer_base in Hbase.
  rewrite wrap64_id in Hbase by (unfold two63 in *; lia). lia.
Qed.

(** Regression witness for the repaired defect F5a: without the "fewer than two bytes" base case
    and the clamp, the default attributes 0/0 recurse for ever on a one-byte chunk. The pinned
    recursion is spelled out here (the current one is [slicer_chunk]). *)
Fixpoint slicer_chunk_pinned (fuel : nat) (avg var : Z) (start end_ : Z) : option (list Z) :=
  match fuel with
  | O => None
  | S f =>
    if (end_ - start) - avg <=? var then Some [start; end_]
    else
      let mid := start + godiv (end_ - start) 2 in
      match slicer_chunk_pinned f avg var start mid, slicer_chunk_pinned f avg var mid end_ with
      | Some l, Some r => Some (l ++ r)
      | _, _ => None
      end
  end.

Theorem slicer_chunk_diverges_pinned (fuel : nat) : slicer_chunk_pinned fuel 0 0 0 1 = None.
Proof.
  induction fuel as [|f IH]; [reflexivity|].
  cbn [slicer_chunk_pinned]. change (1 - 0 - 0 <=? 0) with false. cbv iota.
  change (0 + godiv (1 - 0) 2) with 0. rewrite IH. destruct (slicer_chunk_pinned f 0 0 0 0); reflexivity.
Qed.

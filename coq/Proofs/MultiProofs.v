(** Several connections under one history (Model/MultiRun.v): whatever the other connections of the
    proxy do, what happens on one connection is an interleaving of the all-schedules system of that
    connection alone - the links share nothing but the schedule of operations. Hence every theorem
    about [mixed_run] (no corruption, walls, ...) holds per connection in the multi-connection runs
    that are compared with the real code: "independently of all other connections". *)
From TP Require Import Model.Prelude Extracted Model.Toxics Model.Timed Model.Reconf Model.ReconfRun Model.MultiRun
     Proofs.ReconfRunProofs.
From Coq Require Import ZifyBool ZifyNat.

Definition moved (r r1 : rrun) : Prop :=
  (exists a, mixed_step (r_l r) a = Some (r_l r1)) \/ r_l r1 = r_l r.

Lemma links_step_moved ls : forall ls1 k r,
  links_step ls = Some ls1 -> nth_error ls k = Some r ->
  exists r1, nth_error ls1 k = Some r1 /\ moved r r1.
Proof.
  induction ls as [|x ls IH]; intros ls1 k r H Hn; simpl in H; [discriminate|].
  destruct (rstep false x) as [[y x1]|] eqn:Hs.
  - inversion H; subst; clear H. destruct k as [|k]; simpl in *.
    + inversion Hn; subst. exists x1. split; [reflexivity|]. exact (rstep_sound _ _ _ _ Hs).
    + exists r. split; [exact Hn|right; reflexivity].
  - destruct (links_step ls) as [rest|] eqn:Hr; [|discriminate]. inversion H; subst; clear H.
    destruct k as [|k]; simpl in *.
    + inversion Hn; subst. exists r. split; [reflexivity|right; reflexivity].
    + eapply IH; [reflexivity|exact Hn].
Qed.

Lemma mstep_moved m m1 k r :
  mstep m = Some m1 -> nth_error (m_links m) k = Some r ->
  exists r1, nth_error (m_links m1) k = Some r1 /\ moved r r1.
Proof.
  unfold mstep. intros H Hn.
  destruct (links_step (m_links m)) as [ls|] eqn:Hl.
  - inversion H; subst; clear H. cbn [m_links]. eapply links_step_moved; eassumption.
  - destruct (all_idle (m_links m)); [|discriminate].
    match type of H with (if ?b then _ else _) = _ => destruct b end.
    + destruct (m_starts m) as [|[s [src sd]] rest]; [discriminate|]. inversion H; subst; clear H. cbn [m_links].
      exists r. split; [|right; reflexivity]. rewrite nth_error_app1; [exact Hn|]. apply nth_error_Some. congruence.
    + match type of H with match ?e with _ => _ end = _ => destruct e end; [|discriminate].
      destruct (m_ops m) as [|[at_ o] rest]; [discriminate|]. inversion H; subst; clear H. cbn [m_links].
      rewrite nth_error_map, Hn. cbn. eexists. split; [reflexivity|right; reflexivity].
Qed.

Theorem mrun_link_is_an_interleaving fuel : forall horizon m m' k r,
  mrun_quiet fuel horizon m = Some m' -> nth_error (m_links m) k = Some r ->
  exists r' sigma, nth_error (m_links m') k = Some r' /\ mixed_run (r_l r) sigma = Some (r_l r').
Proof.
  induction fuel as [|f IH]; intros horizon m m' k r H Hn; simpl in H; [discriminate|].
  destruct (mstep m) as [m1|] eqn:Hs.
  - destruct (mstep_moved _ _ _ _ Hs Hn) as (r1 & Hn1 & Hm).
    destruct (IH _ _ _ _ _ H Hn1) as (r' & sigma & Hn' & Hrun).
    exists r'. destruct Hm as [[a Ha]|E].
    + exists (a :: sigma). split; [exact Hn'|]. simpl. rewrite Ha. exact Hrun.
    + exists sigma. split; [exact Hn'|]. rewrite <- E. exact Hrun.
  - destruct (mnext_time m) as [t|].
    + destruct (t <=? horizon).
      * set (t' := Z.max t (m_now m)) in *.
        assert (Hn1 : nth_error (m_links (mset_now m t')) k = Some (with_l r (set_now (r_l r) (Z.max t' (l_now (r_l r)))))).
        { unfold mset_now; cbn [m_links]. rewrite nth_error_map, Hn. reflexivity. }
        destruct (IH _ _ _ _ _ H Hn1) as (r' & sigma & Hn' & Hrun). cbn [with_l r_l] in Hrun.
        exists r', (MData (ATick (Z.max t' (l_now (r_l r)))) :: sigma). split; [exact Hn'|]. simpl.
        replace (l_now (r_l r) <=? Z.max t' (l_now (r_l r))) with true by lia. exact Hrun.
      * inversion H; subst. exists r, []. split; [exact Hn|reflexivity].
    + inversion H; subst. exists r, []. split; [exact Hn|reflexivity].
Qed.

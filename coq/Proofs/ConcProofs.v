(** C16 on the model. Each of create / delete / single-entry populate / toxic add / update / remove
    does its whole effect inside one critical section of the code (the lock facts are extracted
    from the source), so a complete schedule of k concurrent requests of these kinds IS a sequential
    run of [api_step] in the order of their critical sections - a linearization by construction.
    What remains to prove is what every such order implies. *)
From Coq Require Import String.
From TP Require Import Model.Prelude Extracted Model.Json Model.Api Proofs.ApiProofs.
From Coq Require Import ZifyBool ZifyNat.
Local Open Scope Z_scope.

(** responses of a sequential run *)
Fixpoint run_resps (e : env) (s : server) (rs : list request) : list response * server :=
  match rs with
  | [] => ([], s)
  | r :: rest => let '(resp, s1) := api_step e s r in let '(resps, s2) := run_resps e s1 rest in (resp :: resps, s2)
  end.

Definition count_status (code : Z) (rs : list response) : nat := length (filter (fun r => status r =? code) rs).

Definition create_req (name listen upstream : string) : request :=
  mkReq POST ["proxies"%string] (BJson (JObj [("name", JStr name); ("listen", JStr listen); ("upstream", JStr upstream)]%string)) false.

Definition delete_req (name : string) : request := mkReq DELETE ["proxies"%string; name] BEmpty false.

Lemma create_step e s name listen upstream :
  name <> ""%string -> upstream <> ""%string ->
  api_step e s (create_req name listen upstream) =
  h_proxy_create e s (BJson (JObj [("name", JStr name); ("listen", JStr listen); ("upstream", JStr upstream)]%string)).
Proof. reflexivity. Qed.

Lemma find_app_new (s : server) p : find_proxy (s ++ [p])%list (p_name p) <> None.
Proof.
  induction s as [|q s IH]; simpl; [rewrite String.eqb_refl; discriminate|].
  destruct (String.eqb (p_name q) (p_name p)); [discriminate|exact IH].
Qed.

(** a create either answers 201 and the name exists afterwards, or changes nothing *)
Lemma create_outcome e s name listen upstream :
  name <> ""%string -> upstream <> ""%string ->
  let '(resp, s') := api_step e s (create_req name listen upstream) in
  (status resp = status_created /\ find_proxy s name = None /\ find_proxy s' name <> None) \/
  (status resp <> status_created /\ s' = s).
Proof.
  intros Hn Hu. rewrite create_step by assumption. unfold h_proxy_create. simpl.
  destruct (String.eqb name "") eqn:E1; [apply String.eqb_eq in E1; congruence|].
  destruct (String.eqb upstream "") eqn:E2; [apply String.eqb_eq in E2; congruence|].
  destruct (find_proxy s name) eqn:Hf; [right; split; [unfold err; simpl; unfold status_proxy_exists, status_created; lia|reflexivity]|].
  unfold create_enabled_default. simpl.
  destruct (start_proxy e s _) as [p'|] eqn:Hs.
  - left. split; [reflexivity|]. split; [reflexivity|].
    assert (Hp : p_name p' = name).
    { unfold start_proxy in Hs. simpl in Hs. destruct (lookup_env e listen); [|discriminate].
      destruct (port_busy _ _ _ _); [discriminate|]. inversion Hs; reflexivity. }
    rewrite <- Hp. apply find_app_new.
  - right. split; [unfold err; simpl; unfold status_internal, status_created; lia|reflexivity].
Qed.

(** of any number of creates of one name - same or different listen addresses, in any order - at
    most one succeeds, and once one has succeeded all later ones are refused *)
Theorem one_create_wins e name : name <> ""%string ->
  forall (specs : list (string * string)) s,
  Forall (fun su => snd su <> ""%string) specs ->
  (count_status status_created (fst (run_resps e s (map (fun su => create_req name (fst su) (snd su)) specs))) <= 1)%nat /\
  (find_proxy s name <> None ->
   count_status status_created (fst (run_resps e s (map (fun su => create_req name (fst su) (snd su)) specs))) = 0%nat).
Proof.
  intros Hn. induction specs as [|[l u] specs IH]; intros s Hu; [unfold count_status; simpl; split; [lia|reflexivity]|].
  cbn [map fst snd run_resps].
  inversion Hu as [|? ? Hu1 Hu2]; subst. simpl in Hu1.
  pose proof (create_outcome e s name l u Hn Hu1) as Ho.
  destruct (api_step e s (create_req name l u)) as [resp s1] eqn:Hst.
  specialize (IH s1 Hu2).
  destruct (run_resps e s1 (map (fun su => create_req name (fst su) (snd su)) specs)) as [resps s2] eqn:Hr.
  cbn [fst] in IH |- *. unfold count_status in *. cbn [filter].
  destruct Ho as [(Hst1 & Hnone & Hsome)|(Hst1 & ->)].
  - rewrite Hst1. replace (status_created =? status_created) with true by lia. simpl.
    destruct IH as [_ IH2]. rewrite (IH2 Hsome). split; [lia|]. intros Hx. congruence.
  - replace (status resp =? status_created) with false by lia. exact IH.
Qed.

Lemma find_remove_nodup s name : NoDup (map p_name s) -> find_proxy (remove_proxy s name) name = None.
Proof.
  induction s as [|q s IH]; intros Hnd; simpl; [reflexivity|].
  inversion Hnd as [|? ? Hnin Hnd']; subst.
  destruct (String.eqb (p_name q) name) eqn:E.
  - apply String.eqb_eq in E. subst name.
    clear -Hnin. induction s as [|r s IH]; simpl; [reflexivity|].
    destruct (String.eqb (p_name r) (p_name q)) eqn:E; [apply String.eqb_eq in E; exfalso; apply Hnin; left; exact E|].
    apply IH. intros H. apply Hnin. now right.
  - simpl. rewrite E. now apply IH.
Qed.

Lemma delete_step e s name : name <> ""%string -> api_step e s (delete_req name) = h_proxy_delete s name.
Proof.
  intros Hn. unfold api_step, delete_req. simpl.
  destruct (String.eqb name "") eqn:E; [apply String.eqb_eq in E; congruence|]. reflexivity.
Qed.

(** of any number of deletes of one existing proxy exactly one succeeds *)
Theorem one_delete_wins e name (Hn : name <> ""%string) : forall (k : nat) s,
  NoDup (map p_name s) ->
  count_status status_no_content (fst (run_resps e s (repeat (delete_req name) k))) =
  match find_proxy s name with Some _ => Nat.min 1 k | None => 0%nat end.
Proof.
  induction k as [|k IH]; intros s Hnd; simpl; [destruct (find_proxy s name); reflexivity|].
  rewrite delete_step by exact Hn. unfold h_proxy_delete.
  destruct (find_proxy s name) as [p|] eqn:Hf.
  - specialize (IH (remove_proxy s name)).
    assert (Hnd' : NoDup (map p_name (remove_proxy s name))).
    { clear -Hnd. induction s as [|q s IHs]; simpl; [constructor|]. inversion Hnd; subst.
      destruct (String.eqb (p_name q) name); [assumption|]. simpl. constructor; [|now apply IHs].
      intros Hin. apply H1. clear -Hin. induction s as [|r s IH]; simpl in *; [contradiction|].
      destruct (String.eqb (p_name r) name); [now right|]. simpl in Hin. destruct Hin; [now left|right; now apply IH]. }
    specialize (IH Hnd'). rewrite (find_remove_nodup s name Hnd) in IH.
    destruct (run_resps e (remove_proxy s name) (repeat (delete_req name) k)) as [resps s2].
    unfold count_status in *. simpl in *. unfold status_no_content in *. simpl. rewrite IH. destruct k; reflexivity.
  - specialize (IH s Hnd). rewrite Hf in IH.
    destruct (run_resps e s (repeat (delete_req name) k)) as [resps s2].
    unfold count_status in *. simpl in *. unfold err, status_proxy_not_found, status_no_content in *. simpl. exact IH.
Qed.

(** Stage-level timing theorems for latency (C08), timeout (C10), slow_close / reset_peer (C13). *)
From TP Require Import Model.Prelude Extracted Model.Toxics Model.Timed Proofs.GoArith Proofs.StageContract
     Proofs.StageRun Proofs.StageFeed.
From Coq Require Import ZifyBool ZifyNat.

(** magnitudes for which the Duration arithmetic does not wrap (about 292 years of nanoseconds) *)
Definition ms_ok (x : Z) : Prop := - 4611686018427 <= x <= 4611686018427.

Lemma ms_ns x : ms_ok x -> wrap64 (x * 1000000) = x * 1000000.
Proof. intros H. apply wrap64_id. unfold ms_ok, two63 in *. lia. Qed.

(* ------------------------------------------------------------------ latency (C08) *)

(** the delay drawn for one chunk: latency when jitter <= 0, else latency - jitter + r with
    0 <= r < 2*jitter *)
Lemma latency_delay_range lat jit draws :
  ms_ok lat -> ms_ok jit ->
  exists d ds, latency_delay lat jit draws = (Some d, ds) /\
    (if 0 <? jit then (lat - jit) * 1000000 <= d < (lat + jit) * 1000000 else d = lat * 1000000).
Proof.
  intros Hl Hj. unfold latency_delay, latency_jitter_guard, latency_rand_n, latency_delay_ns, latency_base_ns.
  unfold ms_ok in *. rewrite maxint_half.
  replace (4611686018427387903 <? jit) with false by lia.
  destruct (0 <? jit) eqn:Hg.
  - rewrite (wrap64_id (jit * 2)) by (unfold two63; lia).
    replace (jit * 2 <=? 0) with false by lia.
    assert (Hr : forall r, 0 <= r < jit * 2 ->
              wrap64 (wrap64 (lat + wrap64 (r - jit)) * 1000000) = (lat + (r - jit)) * 1000000).
    { intros r Hr. rewrite (wrap64_id (r - jit)) by (unfold two63; lia).
      rewrite (wrap64_id (lat + (r - jit))) by (unfold two63; lia).
      apply wrap64_id. unfold two63; lia. }
    destruct draws as [|r0 ds].
    + eexists _, []. split; [reflexivity|]. rewrite Hr by lia. lia.
    + pose proof (Z.mod_pos_bound r0 (jit * 2) ltac:(lia)) as Hm.
      eexists _, ds. split; [reflexivity|]. rewrite Hr by lia. lia.
  - eexists _, draws. split; [reflexivity|]. apply wrap64_id. unfold two63; lia.
Qed.

(** a chunk stamped [ts] and picked up at [at_ >= ts]... is forwarded at max(at_, ts + d): the
    deadline is counted from the arrival stamp, not from the pick-up, so a burst is delayed once *)
Theorem latency_one lat jit ps draws at_ (c : chunk) fuel d ds :
  (1 < fuel)%nat ->
  latency_delay lat jit draws = (Some d, ds) ->
  let s1 := fst (on_input (TLatency lat jit) ps at_ draws (Some c) (Idle 0 None)) in
  let r := stage_emit (TLatency lat jit) ps at_ fuel None s1 in
  fst (fst r) = [(Z.max at_ (cts c + d), cdata c)] /\ final_st r = Idle 0 None.
Proof.
  intros Hf Hd s1 r. subst s1 r. cbn [on_input]. rewrite Hd. cbn [fst].
  destruct fuel as [|[|f]]; try lia.
  cbn [stage_emit mode_of on_sent]. unfold on_timer. cbn [on_timer_gen on_sent].
  replace (at_ + (d - (at_ - cts c))) with (cts c + d) by lia.
  destruct f; unfold final_st; simpl; auto.
Qed.

(** the stamp a latency stage passes on: arrival stamp + sleep, which is the forwarding time only
    if the chunk was picked up the instant it was stamped (finding F6) *)
Lemma latency_restamp (c : chunk) sleep dl tx now :
  on_timer tx now (LatWait c sleep dl) = Send (mkChunk (cdata c) (cts c + sleep)) (KIdle 0).
Proof. reflexivity. Qed.

(* ------------------------------------------------------------------ timeout (C10) *)

Definition data_only (arr : list (Z * option chunk)) : Prop :=
  Forall (fun a => snd a <> None) arr.

(** while it runs, a timeout stage emits nothing, whatever arrives *)
Theorem timeout_blackhole t fuel : forall arr ps s,
  wf (TTimeout t) s -> fst (fst (feed (TTimeout t) fuel ps s arr)) = [].
Proof.
  induction arr as [|[at_ c] arr IH]; intros ps s Hwf; [reflexivity|].
  cbn [feed]. unfold feed_one.
  destruct s; simpl in Hwf; try contradiction;
    try (specialize (IH ps _ Hwf); destruct (feed _ _ _ _ arr) as [[e s2] p2]; simpl in *; now rewrite IH).
  - (* Idle *)
    destruct c as [c|]; cbn [on_input fst].
    + destruct fuel; cbn [stage_emit mode_of];
        (match goal with |- context [feed ?a ?b ?c ?d arr] => specialize (IH c d) end);
        destruct (feed _ _ _ _ arr) as [[e s2] p2]; simpl in *; apply IH;
        destruct timeout_rearms; simpl; auto; unfold timeout_arm; destruct (timeout_positive t); simpl; auto;
        destruct tmr; simpl; auto.
    + destruct fuel; cbn [stage_emit mode_of];
        (match goal with |- context [feed ?a ?b ?c ?d arr] => specialize (IH c d I) end);
        destruct (feed _ _ _ _ arr) as [[e s2] p2]; simpl in *; exact IH.
  - specialize (IH ps Closing I). destruct (feed _ _ _ _ arr) as [[e s2] p2]; simpl in *. exact IH.
  - specialize (IH ps Exited I). destruct (feed _ _ _ _ arr) as [[e s2] p2]; simpl in *. exact IH.
Qed.

(** with the timer armed once (not re-armed by traffic), the deadline start + T survives any
    amount of data: the stage closes at start + T, no earlier and no later *)
Theorem timeout_deadline_fixed (Hno : timeout_rearms = false) t fuel start : forall arr ps,
  data_only arr -> timeout_positive t = true ->
  feed (TTimeout t) fuel ps (init_state (TTimeout t) ps start) arr =
  ([], Idle 0 (Some (start + timeout_ns t)), ps).
Proof.
  intros arr ps Hd Hp. cbn [init_state]. unfold timeout_arm. rewrite Hp.
  induction arr as [|[at_ c] arr IH]; [reflexivity|].
  inversion Hd as [|? ? Hc Hd']; subst. destruct c as [c|]; [|simpl in Hc; congruence].
  cbn [feed feed_one on_input fst]. rewrite Hno.
  destruct fuel; cbn [stage_emit mode_of]; rewrite (IH Hd'); reflexivity.
Qed.

Lemma timeout_fires t now acc dl : on_timer (TTimeout t) now (Idle acc (Some dl)) = Closing.
Proof. reflexivity. Qed.

(** T = 0 (or negative): no timer at all; only the sender's close ends the stage *)
Theorem timeout_zero_never_closes t fuel start : forall arr ps,
  data_only arr -> timeout_positive t = false ->
  feed (TTimeout t) fuel ps (init_state (TTimeout t) ps start) arr = ([], Idle 0 None, ps) /\
  stub_deadline (mkStub (TTimeout t) true (Idle 0 None) ps [] 0 false false) = None.
Proof.
  intros arr ps Hd Hp. split; [|reflexivity]. cbn [init_state]. unfold timeout_arm. rewrite Hp.
  induction arr as [|[at_ c] arr IH]; [reflexivity|].
  inversion Hd as [|? ? Hc Hd']; subst. destruct c as [c|]; [|simpl in Hc; congruence].
  cbn [feed feed_one on_input fst]. unfold timeout_arm. rewrite Hp.
  assert (E : (if timeout_rearms then @None Z else None) = None) by (destruct timeout_rearms; reflexivity).
  rewrite E.
  destruct fuel; cbn [stage_emit mode_of]; rewrite (IH Hd'); reflexivity.
Qed.

(** refutation for the re-arming variant (the pinned code, finding F2): T = 100 ms, a chunk every
    60 ms: after three chunks the deadline has moved from 100 ms to 280 ms *)
Theorem timeout_rearm_refuted :
  let arm now := Some (now + 100000000) in
  let step (tmr : option Z) (now : Z) := arm now in
  fold_left step [60000000; 120000000; 180000000] (arm 0) = Some 280000000.
Proof. reflexivity. Qed.

(* ------------------------------------------------------------------ slow_close / reset_peer (C13) *)

(** data is never delayed by slow_close: it goes straight to the send, no timer in between *)
Lemma slow_close_data d ps now draws (c : chunk) :
  on_input (TSlowClose d) ps now draws (Some c) (Idle 0 None) = (Send c (KIdle 0), draws).
Proof. reflexivity. Qed.

(** the sender's close is withheld until exactly delay ms later *)
Lemma slow_close_wait d ps now draws :
  on_input (TSlowClose d) ps now draws None (Idle 0 None) = (ScWait (now + slow_close_ns d), draws) /\
  (forall now', on_timer (TSlowClose d) now' (ScWait (now + slow_close_ns d)) = Closing) /\
  (ms_ok d -> slow_close_ns d = d * 1000000).
Proof. repeat split. apply ms_ns. Qed.

(** an interrupt during the wait makes Pipe return without closing; the restarted stage sees the
    closed input again and starts a new full wait: the close is withheld at least delay after the
    last restart *)
Lemma slow_close_interrupt d now dl :
  on_interrupt now (ScWait dl) = Exited /\ init_state (TSlowClose d) None now = Idle 0 None.
Proof. split; reflexivity. Qed.

(** reset_peer forwards nothing; the first data or close starts an uninterruptible wait of
    timeout ms, after which the stub is closed *)
Lemma reset_peer_first t ps now draws (c : option chunk) :
  on_input (TResetPeer t) ps now draws c (Idle 0 None) = (RpWait (now + reset_peer_ns t), draws) /\
  held (RpWait (now + reset_peer_ns t)) = [] /\
  mode_of (RpWait (now + reset_peer_ns t)) = MSelect false false (Some (now + reset_peer_ns t)) /\
  (forall now', on_timer (TResetPeer t) now' (RpWait (now + reset_peer_ns t)) = Closing) /\
  (forall now', on_interrupt now' (RpWait (now + reset_peer_ns t)) = RpWait (now + reset_peer_ns t)) /\
  (ms_ok t -> reset_peer_ns t = t * 1000000).
Proof. destruct c; repeat split; apply ms_ns. Qed.

(** a timer fires no earlier than its deadline, on every schedule *)
Lemma timer_not_early l i l' :
  stub_timer l i = Some l' ->
  exists s dl, nth_error (l_stubs l) i = Some s /\ stub_deadline s = Some dl /\ dl <= l_now l.
Proof.
  unfold stub_timer. destruct (nth_error (l_stubs l) i) as [s|]; [|discriminate].
  unfold stub_deadline. destruct (mode_of (s_st s)) eqn:Hm; try discriminate.
  destruct timer as [dl|]; simpl; [|discriminate].
  destruct (dl <=? l_now l) eqn:E; [|discriminate]. intros _. exists s, dl. split; [reflexivity|]. split; [now rewrite Hm|lia].
Qed.

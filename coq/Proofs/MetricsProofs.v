(** C20 on the counter model: a connection's bytes go to exactly the four series labelled with the
    proxy's values at the time the connection STARTED, nothing else moves, and no series decreases. *)
From TP Require Import Model.Prelude Model.Metrics.
From Coq Require Import ZifyBool.

Lemma log_sum_app k a b : log_sum k (a ++ b) = log_sum k a + log_sum k b.
Proof. induction a as [|[k' v] a IH]; simpl; [lia|]. rewrite IH. lia. Qed.

Lemma labels_eqb_refl l : labels_eqb l l = true.
Proof. destruct l as [[a b] c]. simpl. lia. Qed.

Lemma series_eqb_refl k : series_eqb k k = true.
Proof. destruct k as [[m d] l]. simpl. rewrite labels_eqb_refl. destruct m, d; reflexivity. Qed.

Lemma labels_eqb_eq a b : labels_eqb a b = true -> a = b.
Proof. destruct a as [[a1 a2] a3], b as [[b1 b2] b3]. simpl. intros H. f_equal; [f_equal|]; lia. Qed.

Lemma series_eqb_eq a b : series_eqb a b = true -> a = b.
Proof.
  destruct a as [[m1 d1] l1], b as [[m2 d2] l2]. simpl. intros H.
  apply andb_prop in H. destruct H as [H Hl]. apply andb_prop in H. destruct H as [Hm Hd].
  apply Bool.eqb_prop in Hm. apply Bool.eqb_prop in Hd. apply labels_eqb_eq in Hl. subst. reflexivity.
Qed.

(** the end of a connection: exact additions to its four series, frame for every other series *)
Theorem end_exact s c urx utx drx dtx lab :
  zassoc c (m_open s) = Some lab ->
  let s' := m_step s (MEnd c urx utx drx dtx) in
  counter s' (false, false, lab) = counter s (false, false, lab) + urx /\
  counter s' (true, false, lab) = counter s (true, false, lab) + utx /\
  counter s' (false, true, lab) = counter s (false, true, lab) + drx /\
  counter s' (true, true, lab) = counter s (true, true, lab) + dtx /\
  (forall k, snd k <> lab -> counter s' k = counter s k).
Proof.
  intros Ho. cbn [m_step]. rewrite Ho. unfold counter. cbn [m_log].
  repeat split; try (rewrite log_sum_app; cbn [log_sum series_eqb Bool.eqb andb]; rewrite ?labels_eqb_refl; cbn [andb]; lia).
  intros k Hk. rewrite log_sum_app. destruct k as [[m d] l]. simpl in Hk.
  assert (Hne : labels_eqb l lab = false).
  { destruct (labels_eqb l lab) eqn:E; [|reflexivity]. apply labels_eqb_eq in E. contradiction. }
  cbn [log_sum series_eqb]. rewrite Hne. rewrite !Bool.andb_false_r. lia.
Qed.

(** nothing but the end of a connection moves a counter *)
Theorem only_end_counts s e k :
  (forall c a b c' d, e <> MEnd c a b c' d) -> counter (m_step s e) k = counter s k.
Proof.
  intros H. destruct e; cbn [m_step]; try reflexivity.
  - destruct (zassoc proxy (m_cfg s)) as [[l u]|]; reflexivity.
  - exfalso. eapply H. reflexivity.
Qed.

(** the label values are fixed when the connection starts: a later update of the proxy (or any
    other proxy's events, or other connections starting and ending) does not redirect its bytes *)
Lemma zassoc_zremove_other {A} (k k' : Z) (l : list (Z * A)) : k <> k' -> zassoc k (zremove k' l) = zassoc k l.
Proof.
  intros Hne. induction l as [|[a v] l IH]; [reflexivity|]. cbn [zremove zassoc].
  destruct (k' =? a) eqn:E1; destruct (k =? a) eqn:E2; cbn [zassoc]; rewrite ?E2; auto; lia.
Qed.

Theorem labels_fixed_at_start s e c lab :
  zassoc c (m_open s) = Some lab ->
  (forall p, e <> MStart c p) -> (forall a b c' d, e <> MEnd c a b c' d) ->
  zassoc c (m_open (m_step s e)) = Some lab.
Proof.
  intros Ho Hs He. destruct e as [p l0 u0|c2 p|c2 a b c' d|]; cbn [m_step]; try exact Ho.
  - destruct (zassoc p (m_cfg s)) as [[l u]|]; [|exact Ho]. cbn [m_open zassoc].
    destruct (c =? c2) eqn:E; [exfalso; apply (Hs p); f_equal; lia|].
    rewrite zassoc_zremove_other by lia. exact Ho.
  - destruct (zassoc c2 (m_open s)) as [lab2|]; [|exact Ho]. cbn [m_open].
    rewrite zassoc_zremove_other; [exact Ho|]. intros ->. eapply He. reflexivity.
Qed.

Theorem start_takes_current_labels s c p listen up :
  zassoc p (m_cfg s) = Some (listen, up) ->
  zassoc c (m_open (m_step s (MStart c p))) = Some (listen, p, up).
Proof. intros H. cbn [m_step]. rewrite H. cbn [m_open zassoc]. now rewrite Z.eqb_refl. Qed.

(** monotone: with non-negative byte counts no series ever decreases, over any continuation *)
Definition ev_nonneg (e : mev) : Prop :=
  match e with MEnd _ a b c d => 0 <= a /\ 0 <= b /\ 0 <= c /\ 0 <= d | _ => True end.

Lemma step_monotone s e k : ev_nonneg e -> counter s k <= counter (m_step s e) k.
Proof.
  intros Hn. destruct e as [p l0 u0|c p|c a b c' d|]; cbn [m_step]; try lia.
  - apply Z.le_refl.
  - destruct (zassoc p (m_cfg s)) as [[l u]|]; apply Z.le_refl.
  - destruct (zassoc c (m_open s)) as [lab|]; [|apply Z.le_refl]. unfold counter. cbn [m_log]. rewrite log_sum_app.
    simpl in Hn. cbn [log_sum]. destruct Hn as (H1 & H2 & H3 & H4).
    repeat match goal with |- context [if ?b then _ else _] => destruct b end; lia.
Qed.

Theorem run_monotone h : forall s k, Forall ev_nonneg h -> counter s k <= counter (fold_left m_step h s) k.
Proof.
  induction h as [|e h IH]; intros s k Hn; cbn [fold_left]; [lia|].
  inversion Hn as [|? ? He Hh]; subst. etransitivity; [apply (step_monotone s e k He)|apply IH; exact Hh].
Qed.

(** each connection is counted once: after its end it is no longer open, so a second end event for
    it adds nothing *)
Lemma zassoc_zremove_same {A} (k : Z) (l : list (Z * A)) : zassoc k (zremove k l) = None.
Proof.
  induction l as [|[a v] l IH]; [reflexivity|]. cbn [zremove]. destruct (k =? a) eqn:E; [exact IH|].
  cbn [zassoc]. rewrite E. exact IH.
Qed.

Theorem counted_once s c a b c' d a2 b2 c2 d2 k :
  counter (m_step (m_step s (MEnd c a b c' d)) (MEnd c a2 b2 c2 d2)) k = counter (m_step s (MEnd c a b c' d)) k.
Proof.
  cbn [m_step]. destruct (zassoc c (m_open s)) as [lab|] eqn:E.
  - cbn [m_open]. rewrite zassoc_zremove_same. reflexivity.
  - rewrite E. reflexivity.
Qed.

(** Laws of the API model: a rejected request changes nothing (C06); browser requests (C05). *)
From Coq Require Import String.
From TP Require Import Model.Prelude Extracted Model.Json Model.Api.
From Coq Require Import ZifyBool.

Local Open Scope Z_scope.

Ltac status_consts :=
  unfold status_ok, status_created, status_no_content, status_bad_request_body, status_missing_field,
    status_proxy_not_found, status_proxy_exists, status_invalid_stream, status_invalid_toxic_type,
    status_toxic_exists, status_toxic_not_found, status_internal, status_not_found,
    status_method_not_allowed, status_browser_forbidden in *.

Ltac split_matches :=
  repeat match goal with
         | |- context [match ?x with _ => _ end] => destruct x eqn:?
         | |- context [if ?x then _ else _] => destruct x eqn:?
         end.

Definition rejected (r : response) : Prop := 400 <= status r.

(** handlers whose every error leaves the state alone *)
Lemma proxy_create_rejected e s b :
  rejected (fst (h_proxy_create e s b)) -> snd (h_proxy_create e s b) = s.
Proof.
  unfold h_proxy_create, rejected, err. split_matches; simpl; status_consts; intros; try reflexivity; lia.
Qed.

Lemma proxy_show_rejected s n : snd (h_proxy_show s n) = s.
Proof. unfold h_proxy_show. destruct (find_proxy s n); reflexivity. Qed.

Lemma proxy_delete_rejected s n :
  rejected (fst (h_proxy_delete s n)) -> snd (h_proxy_delete s n) = s.
Proof. unfold h_proxy_delete, rejected. destruct (find_proxy s n); simpl; status_consts; intros; [lia|reflexivity]. Qed.

Lemma toxic_index_same s n : snd (h_toxic_index s n) = s.
Proof. unfold h_toxic_index. destruct (find_proxy s n); reflexivity. Qed.

Lemma toxic_show_same s n t : snd (h_toxic_show s n t) = s.
Proof. unfold h_toxic_show. destruct (find_proxy s n); [destruct (find_toxic _ _)|]; reflexivity. Qed.

Lemma toxic_create_rejected s n b :
  rejected (fst (h_toxic_create s n b)) -> snd (h_toxic_create s n b) = s.
Proof.
  unfold h_toxic_create, rejected, err. split_matches; simpl; status_consts; intros; try reflexivity; lia.
Qed.

Lemma toxic_delete_rejected s n t :
  rejected (fst (h_toxic_delete s n t)) -> snd (h_toxic_delete s n t) = s.
Proof.
  unfold h_toxic_delete, rejected, err. split_matches; simpl; status_consts; intros; try reflexivity; lia.
Qed.

(** the update of a toxic decodes into a copy: a rejected body leaves the live toxic untouched.
    (With [update_in_place = true], the pinned code, this lemma does not hold: finding F3.) *)
Lemma toxic_update_rejected s n t b :
  update_in_place = false ->
  rejected (fst (h_toxic_update s n t b)) -> snd (h_toxic_update s n t b) = s.
Proof.
  intros Hcopy. unfold h_toxic_update, rejected, err. rewrite Hcopy.
  split_matches; simpl; status_consts; intros; try reflexivity; lia.
Qed.

(** the three handlers of the bind/resolve exception class: their client errors (4xx) change
    nothing; only a 500 (address cannot be resolved or bound) may leave a proxy stopped *)
Lemma proxy_update_rejected e s n b :
  rejected (fst (h_proxy_update e s n b)) ->
  snd (h_proxy_update e s n b) = s \/ status (fst (h_proxy_update e s n b)) = status_internal.
Proof.
  unfold h_proxy_update, rejected, err. split_matches; simpl; status_consts; intros; auto; lia.
Qed.

Lemma populate_apply_status e : forall items s done,
  rejected (fst (populate_apply e s items done)) -> status (fst (populate_apply e s items done)) = status_internal.
Proof.
  induction items as [|i r IH]; intros s done; simpl.
  - unfold rejected; simpl; status_consts; lia.
  - split_matches; simpl; auto.
Qed.

Lemma populate_rejected e s b :
  rejected (fst (h_populate e s b)) ->
  snd (h_populate e s b) = s \/ status (fst (h_populate e s b)) = status_internal.
Proof.
  unfold h_populate. destruct b as [| |j]; simpl; auto.
  destruct j; simpl; auto.
  destruct (dec_populate l) as [ins bad]. destruct bad; simpl; auto.
  destruct (populate_valid ins); simpl; auto.
  intros H. right. apply populate_apply_status. exact H.
Qed.

(** a populate whose body cannot be parsed, is ill-typed anywhere, or lacks name/upstream in any
    entry creates or alters nothing at all *)
Lemma populate_all_or_nothing e s b :
  match b with
  | BJson (JArr items) => snd (dec_populate items) = true \/ populate_valid (fst (dec_populate items)) = false
  | BJson JNull => False
  | _ => True
  end ->
  snd (h_populate e s b) = s /\ 400 <= status (fst (h_populate e s b)) < 500.
Proof.
  unfold h_populate. destruct b as [| |j]; simpl; status_consts; try (intros; split; [reflexivity|lia]).
  destruct j; simpl; try (intros; split; [reflexivity|lia]); try contradiction.
  destruct (dec_populate l) as [ins bad]; simpl. intros [H|H].
  - subst bad. simpl. split; [reflexivity|lia].
  - destruct bad; simpl; [split; [reflexivity|lia]|]. rewrite H. simpl. split; [reflexivity|lia].
Qed.

Lemma reset_rejected e : forall todo s,
  rejected (fst (reset_all e s todo)) -> status (fst (reset_all e s todo)) = status_internal.
Proof.
  induction todo as [|p r IH]; intros s; simpl.
  - unfold rejected; simpl; status_consts; lia.
  - split_matches; simpl; auto.
Qed.

(** C06 on the model: every answer >= 400 leaves the whole configuration - proxies, addresses,
    enabled flags, toxics, their order, attributes and toxicity - exactly as it was, except for a
    500 of an update / populate / reset (listen address cannot be resolved or bound) *)
Theorem rejected_unchanged (Hcopy : update_in_place = false) e s r :
  rejected (fst (api_step e s r)) ->
  snd (api_step e s r) = s \/
  (status (fst (api_step e s r)) = status_internal /\
   exists h, fst (route routes (r_meth r) (r_path r) false) = Some h /\
             (h = "ProxyUpdate" \/ h = "Populate" \/ h = "ResetState")%string).
Proof.
  unfold api_step.
  destruct (route routes (r_meth r) (r_path r) false) as [[h|] seen] eqn:Hr; [|destruct seen; simpl; auto].
  destruct (r_browser r); [simpl; auto|].
  repeat match goal with
         | |- context [if String.eqb h ?k then _ else _] =>
           let E := fresh "E" in destruct (String.eqb h k) eqn:E; [apply String.eqb_eq in E; subst h|]
         end; intros H; simpl fst; simpl snd.
  - left; reflexivity.
  - left; now apply proxy_create_rejected.
  - destruct (populate_rejected e s (r_body r) H) as [Hs|Hs]; [left; exact Hs|right]. split; [exact Hs|eexists; split; [reflexivity|auto]].
  - right. split; [now apply reset_rejected|eexists; split; [reflexivity|auto]].
  - left; apply proxy_show_rejected.
  - destruct (proxy_update_rejected e s _ (r_body r) H) as [Hs|Hs]; [left; exact Hs|right]. split; [exact Hs|eexists; split; [reflexivity|auto]].
  - left; now apply proxy_delete_rejected.
  - left; apply toxic_index_same.
  - left; now apply toxic_create_rejected.
  - left; apply toxic_show_same.
  - left; now apply toxic_update_rejected.
  - left; now apply toxic_delete_rejected.
  - left; reflexivity.
  - left; reflexivity.
Qed.

(** C05: a request that identifies itself as a browser is refused before any handler runs *)
Theorem browser_refused e s r :
  r_browser r = true ->
  snd (api_step e s r) = s /\
  (status (fst (api_step e s r)) = status_browser_forbidden \/
   status (fst (api_step e s r)) = status_not_found \/
   status (fst (api_step e s r)) = status_method_not_allowed).
Proof.
  intros Hb. unfold api_step.
  destruct (route routes (r_meth r) (r_path r) false) as [[h|] [|]]; rewrite ?Hb; simpl; auto.
Qed.

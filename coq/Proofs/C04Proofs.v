(** C04: the stubs of every registered link stay aligned with the listed chain over every history
    of toxic operations and link events, provided every path of RemoveToxic drops the removed
    toxic's stub (extracted from link.go). *)
From Coq Require Import String.
From TP Require Import Model.Prelude Extracted Model.Collection.

Lemma map_remove_at {A B} (f : A -> B) (l : list A) : forall i, map f (remove_at i l) = remove_at i (map f l).
Proof. induction l as [|x l IH]; intros [|i]; simpl; auto. now rewrite IH. Qed.

Lemma map_close_from (l : clink) : forall j, map cs_name (close_from j l) = map cs_name l.
Proof. induction l as [|x l IH]; intros [|j]; simpl; auto; now rewrite IH. Qed.

Lemma forall_remove_at {A} (P : A -> Prop) (l : list A) : forall i, Forall P l -> Forall P (remove_at i l).
Proof.
  induction l as [|x l IH]; intros [|i] H; simpl; auto; inversion H; subst; auto.
Qed.

Lemma aligned_remove (Hs : remove_always_splices = true) chain i : forall links early,
  Forall (fun l => map cs_name l = chain) links ->
  Forall (fun l => map cs_name l = remove_at i chain) (map2_remove i early links).
Proof.
  induction links as [|l r IH]; intros early H; cbn [map2_remove]; [constructor|].
  inversion H as [|? ? Hl Hr]. constructor; [|apply IH; exact Hr].
  replace (negb remove_always_splices) with false by (rewrite Hs; reflexivity).
  rewrite Bool.andb_false_r. rewrite map_remove_at. now rewrite Hl.
Qed.

Lemma step_aligned (Hs : remove_always_splices = true) c o : aligned c -> aligned (cstep c o).
Proof.
  unfold aligned. intros H. destruct o as [name|name|name early| |k|k j]; simpl.
  - destruct (index_of name (c_chain c) 0); [exact H|]. simpl.
    apply Forall_forall. intros l' Hin. apply in_map_iff in Hin as (l & <- & Hl).
    rewrite Forall_forall in H. rewrite map_app. simpl. now rewrite (H l Hl).
  - exact H.
  - destruct (index_of name (c_chain c) 0) as [[|i]|]; try exact H.
    cbn [c_chain c_links]. apply (aligned_remove Hs (c_chain c) (S i)). exact H.
  - simpl. apply Forall_app. split; [exact H|]. constructor; [|constructor].
    rewrite map_map. simpl. apply map_id.
  - simpl. apply forall_remove_at. exact H.
  - simpl. apply Forall_forall. intros l' Hin. apply in_map_iff in Hin as ([n l] & <- & Hl).
    apply in_combine_r in Hl. rewrite Forall_forall in H. simpl.
    destruct (Nat.eqb n k); [rewrite map_close_from|]; now apply H.
Qed.

Theorem run_aligned (Hs : remove_always_splices = true) ops : aligned (crun ops).
Proof.
  unfold crun.
  assert (G : forall c, aligned c -> aligned (fold_left cstep ops c)).
  { induction ops as [|o r IH]; intros c Hc; simpl; [exact Hc|]. apply IH. now apply step_aligned. }
  apply G. constructor.
Qed.

(** the index of every listed toxic is its position: removal from the middle renumbers *)
Lemma index_of_nth name : forall l i k, index_of name l i = Some k -> (i <= k)%nat /\ nth_error l (k - i) = Some name.
Proof.
  induction l as [|x l IH]; intros i k H; simpl in H; [discriminate|].
  destruct (String.eqb x name) eqn:E.
  - inversion H; subst. apply String.eqb_eq in E. subst. split; [lia|]. now rewrite Nat.sub_diag.
  - destruct (IH _ _ H) as [Hle Hn]. split; [lia|].
    replace (k - i)%nat with (S (k - S i)) by lia. exact Hn.
Qed.

(** without the splice on the early-return paths alignment is lost (the pinned code, finding F4):
    two toxics, the stream ends, the first is removed - the second toxic's stub is now at the wrong
    position, and the next operation on it addresses its neighbour *)
Definition cstep_pinned (c : coll) (o : cop) : coll :=
  match o with
  | ORemove name early =>
    match index_of name (c_chain c) 0 with
    | Some (S i) => mkColl (remove_at (S i) (c_chain c))
                           (map (fun p => if (snd p : bool) then fst p else remove_at (S i) (fst p))
                                (combine (c_links c) (early ++ repeat false (length (c_links c)))))
    | _ => c
    end
  | _ => cstep c o
  end.

Theorem aligned_refuted_pinned :
  let c := fold_left cstep_pinned [OLinkStart; OAdd "a"; OAdd "b"; OCloseFrom 0 0; ORemove "a" [true]]%string coll_init in
  ~ aligned c.
Proof.
  cbv zeta. intros H. unfold aligned in H. vm_compute in H. inversion H as [|? ? Hx _]. discriminate.
Qed.

(** C07 on the model: no stage transition of any built-in toxic, for ANY attribute value, chunk,
    draw or interrupt, yields a panic or a divergence (the stage contract: [wf] excludes both and
    is preserved; [attrs_ok_all] discharges its attribute guard since the repairs of F5a-c).
    The arithmetic of the pinned code is kept as regression witnesses. *)
From Coq Require Import String.
From TP Require Import Model.Prelude Extracted Model.Toxics Model.Timed Proofs.GoArith Proofs.SlicerProofs Proofs.StageContract.
From Coq Require Import ZifyBool ZifyNat.

Theorem stage_total_input tx ps now draws (c : option chunk) acc tmr :
  wf tx (Idle acc tmr) -> pstate_ok tx ps ->
  mode_of (fst (on_input tx ps now draws c (Idle acc tmr))) <> MDead.
Proof.
  intros Hw Hp. destruct (on_input tx ps now draws c (Idle acc tmr)) as [s' ds] eqn:E.
  destruct (on_input_contract _ _ _ _ _ _ _ _ _ (attrs_ok_all tx) Hw Hp E) as [Hw' _]. simpl. eapply wf_not_dead; exact Hw'.
Qed.

Theorem stage_total_timer tx now s : wf tx s -> mode_of (on_timer tx now s) <> MDead.
Proof. intros Hw. destruct (on_timer_contract tx now s (attrs_ok_all tx) Hw) as [Hw' _]. eapply wf_not_dead; exact Hw'. Qed.

Theorem stage_total_sent tx ps now (c : chunk) k :
  wf tx (Send c k) -> pstate_ok tx ps -> mode_of (fst (on_sent tx ps now (Send c k))) <> MDead.
Proof.
  intros Hw Hp. destruct (on_sent tx ps now (Send c k)) as [s' ps'] eqn:E.
  destruct (on_sent_contract _ _ _ _ _ _ _ (attrs_ok_all tx) Hw Hp E) as [Hw' _]. simpl. eapply wf_not_dead; exact Hw'.
Qed.

Theorem stage_total_interrupt tx now s : wf tx s -> mode_of (on_interrupt now s) <> MDead.
Proof. intros Hw. destruct (on_interrupt_contract tx now s Hw) as [Hw' _]. eapply wf_not_dead; exact Hw'. Qed.

(** a freshly started stage is well-formed, whatever the attributes *)
Theorem stage_total_init tx ps now : pstate_ok tx ps -> mode_of (init_state tx ps now) <> MDead.
Proof. intros Hp. destruct (wf_init tx ps now Hp) as [Hw _]. eapply wf_not_dead; exact Hw. Qed.

Definition dead_after_input tx (data : bytes) (draws : list Z) : bool :=
  match mode_of (fst (on_input tx None 0 draws (Some (mkChunk data 0)) (Idle 0 None))) with MDead => true | _ => false end.

(** the four inputs that killed the pinned code (F5a-d) are harmless now *)
Theorem f5_inputs_survive :
  dead_after_input (TSlicer 0 0 0) [1] [] = false /\
  dead_after_input (TLatency 0 4611686018427387904) [1] [] = false /\
  (exists l, run_quiet 50 10 (link_init [(TSlicer 10 12 0, true)] [SWrite 0 (repeat 7 23)] [0; 23; 12]) = Some l /\
             existsb (fun s => match s_st s with Panicked _ => true | _ => false end) (l_stubs l) = false) /\
  (exists l, run_quiet 50 1000000000 (link_init [(TBandwidth (-1), true)] [SWrite 0 [1;2;3]] []) = Some l /\
             existsb (fun s => match s_st s with Panicked _ => true | _ => false end) (l_stubs l) = false).
Proof.
  split; [vm_compute; reflexivity|]. split; [vm_compute; reflexivity|].
  split; eexists; split; vm_compute; reflexivity.
Qed.

(** regression witnesses: the arithmetic of the pinned expressions on those inputs *)
Theorem f5_pinned_arithmetic :
  (* latency: Int63n's argument jitter*2 wraps to a non-positive value *)
  wrap64 (4611686018427387904 * 2) <= 0 /\
  (* bandwidth: p.Data[:rate*100] with rate = -1 on a 3-byte chunk *)
  slice_ok 0 (wrap64 (-1 * 100)) 3 = false /\
  (* slicer 10/12, 23 bytes, draw 0: the split point 11 + (0 - 12) lies before the chunk *)
  (23 - 0 - 10 <=? 12) = false /\ slicer_mid_adj (slicer_mid 0 23) 0 12 = -1 /\
  (* slicer 0/0 on one byte: the recursion never reaches a base case *)
  (forall fuel, slicer_chunk_pinned fuel 0 0 0 1 = None).
Proof.
  split; [vm_compute; discriminate|]. split; [vm_compute; reflexivity|].
  split; [reflexivity|]. split; [vm_compute; reflexivity|]. exact slicer_chunk_diverges_pinned.
Qed.

(** a limit_data stage started on a stub that carries no limit_data state panics (the type
    assertion in limit_data.go) - which is why alignment of stubs and chain (C04) matters here *)
Theorem wrong_state_panics nb now : mode_of (init_state (TLimitData nb) None now) = MDead.
Proof. reflexivity. Qed.

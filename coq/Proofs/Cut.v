(** Flow across a cut. [below k l] = what has been delivered plus what is inside the stubs at
    positions >= k. For stubs below the cut that meet the stage contract, every action of every
    schedule leaves [below k] unchanged, except stub k-1's own send, which adds exactly the chunk it
    hands over (and the reader's hand-off for k = 0). Hence: if stub k-1 is dead, nothing ever
    crosses - whatever is upstream of a removed timeout toxic is never delivered. *)
From TP Require Import Model.Prelude Extracted Model.Toxics Model.Timed Model.Reconf
     Proofs.GoArith Proofs.StageContract Proofs.LinkInv Proofs.LinkStatic Proofs.LinkFrame Proofs.WallProofs Proofs.SinkFrame.
From Coq Require Import ZifyBool ZifyNat.

Definition below (k : nat) (l : link) : bytes := sink_bytes l ++ flow (skipn k (l_stubs l)).

(** the sub-link below the cut: same clock, draws and receiver, stubs k.., no reader *)
Definition tail_link (k : nat) (l : link) : link :=
  mkLink (l_now l) [] [] RClosed (skipn k (l_stubs l)) (l_draws l) (l_trace l) (l_sink_closed l)
         (l_rx l) (l_tx l) (l_sink_delay l) (l_wr_ready l).

Lemma below_stream k l : stream (tail_link k l) = below k l.
Proof. unfold stream, below, tail_link, pending, sink_bytes. cbn. now rewrite app_nil_r. Qed.

Lemma skipn_set_nth_ge {A} (l : list A) : forall k j x, (k <= j)%nat -> skipn k (set_nth j x l) = set_nth (j - k) x (skipn k l).
Proof.
  induction l as [|y l IH]; intros k j x H.
  - destruct k, j; simpl; try reflexivity; destruct (j - k)%nat; reflexivity.
  - destruct k as [|k]; [now rewrite Nat.sub_0_r|]. destruct j as [|j]; [lia|]. cbn [set_nth skipn Nat.sub]. apply IH. lia.
Qed.

Lemma skipn_set_nth_lt {A} (l : list A) : forall k j x, (j < k)%nat -> skipn k (set_nth j x l) = skipn k l.
Proof.
  induction l as [|y l IH]; intros k j x H.
  - destruct k, j; simpl; reflexivity.
  - destruct k as [|k]; [lia|]. destruct j as [|j]; cbn [set_nth skipn]; [reflexivity|]. apply IH. lia.
Qed.

Lemma nth_skipn {A} (l : list A) : forall k j, (k <= j)%nat -> nth_error (skipn k l) (j - k) = nth_error l j.
Proof.
  induction l as [|y l IH]; intros k j H.
  - destruct k, j; simpl; try reflexivity; destruct (j - k)%nat; reflexivity.
  - destruct k as [|k]; [now rewrite Nat.sub_0_r|]. destruct j as [|j]; [lia|]. cbn [skipn nth_error Nat.sub]. apply IH. lia.
Qed.

(* ---- actions at or below the cut are actions of the tail link *)
Lemma tail_upd k l j s : (k <= j)%nat -> tail_link k (upd_stub l j s) = upd_stub (tail_link k l) (j - k) s.
Proof. intros H. unfold tail_link, upd_stub. cbn. now rewrite skipn_set_nth_ge. Qed.

Lemma tail_stub_input k l j s c q : (k <= j)%nat ->
  tail_link k (stub_input l j s c q) = stub_input (tail_link k l) (j - k) s c q.
Proof.
  intros H. unfold stub_input. cbn [tail_link l_now l_draws].
  destruct (on_input (eff_tx s) (s_ps s) (l_now l) (l_draws l) c (s_st s)) as [st' ds].
  unfold tail_link. cbn. now rewrite skipn_set_nth_ge.
Qed.

Lemma tail_stub_sent k l j s : (k <= j)%nat -> tail_link k (stub_sent l j s) = stub_sent (tail_link k l) (j - k) s.
Proof.
  intros H. unfold stub_sent. cbn [tail_link l_now].
  destruct (on_sent (eff_tx s) (s_ps s) (l_now l) (s_st s)) as [st' ps']. apply tail_upd. exact H.
Qed.

Lemma tail_deliver k l c : tail_link k (deliver_sink l c) = deliver_sink (tail_link k l) c.
Proof. unfold deliver_sink, tail_link. destruct (zlen (cdata c) =? 0); reflexivity. Qed.

Lemma tail_offer k l j c : (k <= j)%nat -> offer (tail_link k l) (j - k) c = option_map (tail_link k) (offer l j c).
Proof.
  intros H. unfold offer. cbn [tail_link l_stubs l_wr_ready l_now]. rewrite nth_skipn by exact H.
  destruct (nth_error (l_stubs l) j) as [t|].
  - destruct (0 <? s_cap t).
    + destruct (zlen (s_inq t) <? s_cap t); [|reflexivity]. cbn [option_map]. now rewrite tail_upd.
    + destruct (listens_input t && _); [|reflexivity]. cbn [option_map]. now rewrite tail_stub_input.
  - destruct (l_wr_ready l <=? l_now l); [|reflexivity]. cbn [option_map]. now rewrite tail_deliver.
Qed.

Lemma tail_close k l j : (k <= j)%nat -> tail_link k (close_downstream l j) = close_downstream (tail_link k l) (j - k).
Proof.
  intros H. unfold close_downstream. cbn [tail_link l_stubs]. rewrite nth_skipn by exact H.
  destruct (nth_error (l_stubs l) j) as [t|]; [now rewrite tail_upd|reflexivity].
Qed.

Lemma tail_stub_move k l j : (k <= j)%nat -> stub_move (tail_link k l) (j - k) = option_map (tail_link k) (stub_move l j).
Proof.
  intros H. unfold stub_move. cbn [tail_link l_stubs]. rewrite nth_skipn by exact H.
  destruct (nth_error (l_stubs l) j) as [s|]; [|reflexivity].
  destruct (mode_of (s_st s)) as [inp intr tm|c|c dl| | |]; try reflexivity.
  - destruct inp; [|reflexivity]. destruct (s_inq s) as [|c q].
    + destruct (s_in_closed s); [|reflexivity]. cbn [option_map]. now rewrite tail_stub_input.
    + cbn [option_map]. now rewrite tail_stub_input.
  - replace (S (j - k)) with (S j - k)%nat by lia. fold (tail_link k l). rewrite tail_offer by lia.
    destruct (offer l (S j) c) as [l1|]; [|reflexivity]. cbn [option_map tail_link l_stubs]. rewrite nth_skipn by exact H.
    destruct (nth_error (l_stubs l1) j) as [s1|]; [|reflexivity]. cbn [option_map]. fold (tail_link k l1). now rewrite tail_stub_sent.
  - replace (S (j - k)) with (S j - k)%nat by lia. fold (tail_link k l). rewrite tail_offer by lia.
    destruct (offer l (S j) c) as [l1|]; [|reflexivity]. cbn [option_map tail_link l_stubs]. rewrite nth_skipn by exact H.
    destruct (nth_error (l_stubs l1) j) as [s1|]; [|reflexivity]. cbn [option_map]. fold (tail_link k l1). now rewrite tail_stub_sent.
  - cbn [option_map]. rewrite tail_close by lia. rewrite tail_upd by exact H. replace (S (j - k)) with (S j - k)%nat by lia. reflexivity.
Qed.

Lemma tail_stub_timer k l j : (k <= j)%nat -> stub_timer (tail_link k l) (j - k) = option_map (tail_link k) (stub_timer l j).
Proof.
  intros H. unfold stub_timer. cbn [tail_link l_stubs l_now]. rewrite nth_skipn by exact H.
  destruct (nth_error (l_stubs l) j) as [s|]; [|reflexivity]. destruct (mode_of (s_st s)); try reflexivity.
  destruct (timer_due (l_now l) timer); [|reflexivity]. cbn [option_map]. fold (tail_link k l). now rewrite tail_upd.
Qed.

Lemma skipn_plus {A} (l : list A) : forall a b, skipn (a + b) l = skipn a (skipn b l).
Proof.
  induction l as [|y l IH]; intros a b; [destruct a, b; reflexivity|].
  destruct b as [|b]; [now rewrite Nat.add_0_r|]. rewrite Nat.add_succ_r. cbn [skipn]. apply IH.
Qed.

Lemma skipn_eq_mono {A} (x y : list A) a k : (a <= k)%nat -> skipn a x = skipn a y -> skipn k x = skipn k y.
Proof. intros H E. replace k with ((k - a) + a)%nat by lia. rewrite !skipn_plus. now rewrite E. Qed.

(* what an action of stub j leaves alone *)
Lemma offer_skipn l j c l1 : offer l j c = Some l1 -> skipn (S j) (l_stubs l1) = skipn (S j) (l_stubs l).
Proof.
  unfold offer. destruct (nth_error (l_stubs l) j) as [t|].
  - destruct (0 <? s_cap t).
    + destruct (zlen (s_inq t) <? s_cap t); [|discriminate]. intros H; inversion H; subst. unfold upd_stub; cbn [l_stubs].
      apply skipn_set_nth_lt. lia.
    + destruct (listens_input t && _); [|discriminate]. intros H; inversion H; subst. unfold stub_input.
      destruct (on_input _ _ _ _ _ _) as [st' ds]. cbn [l_stubs]. apply skipn_set_nth_lt. lia.
  - destruct (l_wr_ready l <=? l_now l); [|discriminate]. intros H; inversion H; subst.
    unfold deliver_sink. destruct (zlen (cdata c) =? 0); reflexivity.
Qed.

Lemma close_skipn l j : skipn (S j) (l_stubs (close_downstream l j)) = skipn (S j) (l_stubs l).
Proof.
  unfold close_downstream. destruct (nth_error (l_stubs l) j); [|reflexivity]. unfold upd_stub; cbn [l_stubs].
  apply skipn_set_nth_lt. lia.
Qed.

Lemma stub_move_skipn l j l' : stub_move l j = Some l' -> skipn (S (S j)) (l_stubs l') = skipn (S (S j)) (l_stubs l).
Proof.
  unfold stub_move. destruct (nth_error (l_stubs l) j) as [s|]; [|discriminate].
  destruct (mode_of (s_st s)) as [inp intr tm|c|c dl| | |]; try discriminate.
  - destruct inp; [|discriminate].
    assert (Hg : forall c q, skipn (S (S j)) (l_stubs (stub_input l j s c q)) = skipn (S (S j)) (l_stubs l)).
    { intros c q. unfold stub_input. destruct (on_input _ _ _ _ _ _) as [st' ds]. cbn [l_stubs]. apply skipn_set_nth_lt. lia. }
    destruct (s_inq s); [destruct (s_in_closed s); [|discriminate]|]; intros H; inversion H; subst; apply Hg.
  - destruct (offer l (S j) c) as [l1|] eqn:Ho; [|discriminate].
    destruct (nth_error (l_stubs l1) j) as [s1|]; [|discriminate]. intros H; inversion H; subst.
    unfold stub_sent. destruct (on_sent _ _ _ _) as [st' ps']. unfold upd_stub; cbn [l_stubs].
    rewrite skipn_set_nth_lt by lia. apply (offer_skipn _ _ _ _ Ho).
  - destruct (offer l (S j) c) as [l1|] eqn:Ho; [|discriminate].
    destruct (nth_error (l_stubs l1) j) as [s1|]; [|discriminate]. intros H; inversion H; subst.
    unfold stub_sent. destruct (on_sent _ _ _ _) as [st' ps']. unfold upd_stub; cbn [l_stubs].
    rewrite skipn_set_nth_lt by lia. apply (offer_skipn _ _ _ _ Ho).
  - intros H; inversion H; subst. rewrite close_skipn. unfold upd_stub; cbn [l_stubs]. apply skipn_set_nth_lt. lia.
Qed.

Definition crosses (k : nat) (a : act) : Prop :=
  match a with
  | AMove j => S j = k
  | AReader => k = O
  | ASendTimeout j => (k <= j)%nat        (* a given-up hand-off below the cut drops data: the 5 s clause *)
  | _ => False
  end.

Lemma sink_same_trace l l' : l_trace l' = l_trace l -> sink_bytes l' = sink_bytes l.
Proof. unfold sink_bytes. now intros ->. Qed.

Theorem cut_step k l a l' :
  (k <= length (l_stubs l))%nat -> Forall stub_ok (skipn k (l_stubs l)) ->
  sched_step l a = Some l' -> ~ crosses k a ->
  below k l' = below k l /\ Forall stub_ok (skipn k (l_stubs l')) /\ length (l_stubs l') = length (l_stubs l).
Proof.
  intros Hk Hok Hstep Hnc.
  assert (Hlen : length (l_stubs l') = length (l_stubs l)).
  { pose proof (step_idents _ _ _ Hstep) as Hid. unfold idents in Hid.
    rewrite <- (map_length ident (l_stubs l')), Hid, map_length. reflexivity. }
  assert (Htail : forall b, sched_step (tail_link k l) b = Some (tail_link k l') -> (forall i, b <> ASendTimeout i) ->
                   below k l' = below k l /\ Forall stub_ok (skipn k (l_stubs l'))).
  { intros b Hb Hnt. destruct (step_preserves (tail_link k l) (tail_link k l') b Hok Hnt Hb) as [Hok' Hs].
    rewrite !below_stream in Hs. split; [exact Hs|exact Hok']. }
  assert (Hframe : skipn k (l_stubs l') = skipn k (l_stubs l) -> sink_bytes l' = sink_bytes l ->
                   below k l' = below k l /\ Forall stub_ok (skipn k (l_stubs l'))).
  { intros E1 E2. unfold below. rewrite E1, E2. auto. }
  assert (Hmain : below k l' = below k l /\ Forall stub_ok (skipn k (l_stubs l'))).
  { destruct a as [j|j|j| |t]; cbn [crosses] in Hnc; cbn [sched_step] in Hstep.
    - (* AMove *)
      destruct (Nat.le_gt_cases k j) as [Hge|Hlt].
      + pose proof (tail_stub_move k l j Hge) as Hc. rewrite Hstep in Hc. cbn [option_map] in Hc.
        apply (Htail (AMove (j - k)) Hc). discriminate.
      + apply Hframe.
        * apply (skipn_eq_mono _ _ (S (S j))); [lia|exact (stub_move_skipn _ _ _ Hstep)].
        * destruct (SinkFrame.sink_writer l (AMove j) l' Hstep) as [E|[(j' & Hj & Hl)|[Hx _]]];
            [exact E|inversion Hj; subst j'; lia|discriminate].
    - (* ATimer *)
      destruct (Nat.le_gt_cases k j) as [Hge|Hlt].
      + pose proof (tail_stub_timer k l j Hge) as Hc. rewrite Hstep in Hc. cbn [option_map] in Hc.
        apply (Htail (ATimer (j - k)) Hc). discriminate.
      + unfold stub_timer in Hstep. destruct (nth_error (l_stubs l) j) as [s|]; [|discriminate].
        destruct (mode_of (s_st s)); try discriminate. destruct (timer_due _ _); [|discriminate].
        inversion Hstep; subst l'. apply Hframe; [|reflexivity]. unfold upd_stub; cbn [l_stubs]. apply skipn_set_nth_lt. lia.
    - (* ASendTimeout: only above the cut *)
      assert (Hlt : (j < k)%nat) by lia.
      unfold stub_send_timeout in Hstep. destruct (nth_error (l_stubs l) j) as [s|]; [|discriminate].
      destruct (mode_of (s_st s)); try discriminate. destruct (_ <=? _); [|discriminate].
      inversion Hstep; subst l'. apply Hframe; [|reflexivity]. unfold upd_stub; cbn [l_stubs]. apply skipn_set_nth_lt. lia.
    - (* AReader, k > 0 *)
      assert (Hk0 : (0 < k)%nat) by lia.
      apply Hframe.
      + apply (skipn_eq_mono _ _ 1%nat); [lia|]. unfold try_reader in Hstep.
        destruct (l_rd l) as [|c|]; [| |discriminate].
        * destruct (l_rest l).
          -- destruct (l_src l) as [|[t d|t] src']; [discriminate| |].
             ++ destruct (t <=? l_now l); [|discriminate]. destruct d; inversion Hstep; subst; reflexivity.
             ++ destruct (t <=? l_now l); [|discriminate]. inversion Hstep; subst.
                exact (close_skipn (set_rd l RClosed src' [] (l_rx l)) 0).
          -- inversion Hstep; subst. reflexivity.
        * destruct (offer l 0 c) as [l1|] eqn:Ho; [|discriminate]. inversion Hstep; subst.
          cbn [set_rd l_stubs]. exact (offer_skipn _ _ _ _ Ho).
      + destruct (SinkFrame.sink_writer l AReader l' Hstep) as [E|[(j' & Hj & _)|[_ Hnil]]];
          [exact E|discriminate|rewrite Hnil in Hk; simpl in Hk; lia].
    - (* ATick *)
      destruct (l_now l <=? t); [|discriminate]. inversion Hstep; subst l'. apply Hframe; reflexivity. }
  destruct Hmain as [A B]. split; [exact A|]. split; [exact B|exact Hlen].
Qed.

(** nothing crosses a dead stub, on any schedule (given-up hand-offs below it excluded: the 5 s
    clause): delivered ++ in flight below the wall is constant, so what the receiver ever gets is
    made of what was already below the wall - nothing that is parked above it or still arrives *)
Theorem nothing_crosses_a_wall sigma : forall l l' i,
  wall l i -> Forall stub_ok (skipn (S i) (l_stubs l)) ->
  Forall (fun a => forall j, (S i <= j)%nat -> a <> ASendTimeout j) sigma ->
  sched_run l sigma = Some l' ->
  below (S i) l' = below (S i) l /\ wall l' i.
Proof.
  induction sigma as [|a sigma IH]; intros l l' i Hw Hok Hs Hrun; simpl in Hrun; [inversion Hrun; subst; auto|].
  destruct (sched_step l a) as [l1|] eqn:Hstep; [|discriminate].
  inversion Hs as [|? ? Ha Hrest]; subst.
  assert (Hk : (S i <= length (l_stubs l))%nat).
  { destruct Hw as (s & Hn & _). apply nth_error_Some. congruence. }
  assert (Hnc : ~ crosses (S i) a).
  { destruct a as [j|j|j| |t]; cbn [crosses]; try tauto; try lia.
    - intros E. inversion E; subst j. destruct (wall_silent_data l i Hw) as [Hm _]. rewrite Hm in Hstep. discriminate.
    - intros Hj. exact (Ha j Hj eq_refl). }
  destruct (cut_step (S i) l a l1 Hk Hok Hstep Hnc) as (Hb & Hok1 & _).
  pose proof (wall_step _ _ _ _ Hstep Hw) as Hw1.
  destruct (IH l1 l' i Hw1 Hok1 Hrest Hrun) as [Hb' Hw']. split; [congruence|exact Hw'].
Qed.

Corollary delivered_after_wall sigma l l' i :
  wall l i -> Forall stub_ok (skipn (S i) (l_stubs l)) ->
  Forall (fun a => forall j, (S i <= j)%nat -> a <> ASendTimeout j) sigma ->
  sched_run l sigma = Some l' ->
  is_prefix (sink_bytes l') (sink_bytes l ++ flow (skipn (S i) (l_stubs l))).
Proof.
  intros Hw Hok Hs Hrun. destruct (nothing_crosses_a_wall sigma l l' i Hw Hok Hs Hrun) as [Hb _].
  unfold below in Hb. exists (flow (skipn (S i) (l_stubs l'))). symmetry. exact Hb.
Qed.

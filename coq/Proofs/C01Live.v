(** C01/C02, liveness half for static links: every schedule on which nothing can move any more and
    nothing is pending has delivered everything; in particular the executable run. *)
From TP Require Import Model.Prelude Extracted Model.Toxics Model.Timed
     Proofs.GoArith Proofs.StageContract Proofs.LinkInv Proofs.LinkStatic Proofs.C01Proofs Proofs.Progress.
From Coq Require Import ZifyBool ZifyNat.

(** on ANY schedule: a state with nothing enabled and nothing pending is a completed transfer *)
Theorem c01_no_deadlock chain src draws sd sigma l :
  chain_ok chain ->
  sched_run (link_init_slow chain src draws sd) sigma = Some l ->
  step_now l = None -> next_time l = None ->
  flow (l_stubs l) = [] /\
  match l_rd l with
  | RSend _ => False
  | RIdle => l_rest l = [] /\ l_src l = [] /\ sink_bytes l = src_bytes src
  | RClosed => sink_bytes l = src_bytes src /\ Forall (fun s => s_st s = Exited) (l_stubs l) /\ l_sink_closed l <> None
  end.
Proof.
  intros Hc Hrun Hnow Hnext.
  destruct (link_init_ok chain src draws sd Hc) as (H1 & H2 & H3).
  destruct (sched_run_closure sigma _ _ H1 H2 (init_closure chain src draws sd) Hrun) as (Hok & Hst & Hci).
  destruct (no_deadlock l Hok Hst Hci Hnow Hnext) as [Hflow Hrd].
  pose proof (c01_safety chain src draws sd sigma l Hc Hrun) as Hsafe. rewrite Hflow in Hsafe. cbn [app] in Hsafe.
  split; [exact Hflow|]. unfold pending in Hsafe.
  destruct (l_rd l) eqn:E.
  - destruct Hrd as [Hr Hs]. rewrite Hr, Hs in Hsafe. cbn in Hsafe. rewrite app_nil_r in Hsafe. auto.
  - contradiction.
  - destruct Hrd as [Hg Hsc]. rewrite app_nil_r in Hsafe. auto.
Qed.

(** the executable run: if it stops with no timer, receiver pause or source event pending, the
    receiver has got exactly what the sender wrote, and - if the sender closed - has been closed,
    every stage having exited *)
Theorem c01_complete chain src draws sd fuel horizon l :
  chain_ok chain ->
  run_quiet fuel horizon (link_init_slow chain src draws sd) = Some l ->
  next_time l = None ->
  sink_bytes l = src_bytes src /\ flow (l_stubs l) = [] /\
  (l_rd l = RClosed -> Forall (fun s => s_st s = Exited) (l_stubs l) /\ l_sink_closed l <> None).
Proof.
  intros Hc Hrun Hnext.
  pose proof (run_quiet_stops _ _ _ _ Hrun) as Hnow.
  destruct (run_quiet_sched _ _ _ _ Hrun) as [sigma Hs].
  destruct (c01_no_deadlock chain src draws sd sigma l Hc Hs Hnow Hnext) as [Hflow Hrd].
  destruct (l_rd l) eqn:E.
  - destruct Hrd as (_ & _ & Hb). split; [exact Hb|]. split; [exact Hflow|]. discriminate.
  - contradiction.
  - destruct Hrd as (Hb & Hg & Hsc). auto.
Qed.

(** non-vacuity: a concrete link (latency, slicer, bandwidth in series) runs to such a state *)
Example c01_complete_example :
  exists l, run_quiet 400 100000000000
              (link_init [(TLatency 20 0, true); (TSlicer 3 0 10, true); (TBandwidth 1, true)]
                         [SWrite 0 [1;2;3;4;5;6;7]; SWrite 5000000 [8;9]; SClose 9000000] []) = Some l /\
            next_time l = None /\ sink_bytes l = [1;2;3;4;5;6;7;8;9] /\ l_sink_closed l <> None.
Proof. eexists. split; [vm_compute; reflexivity|]. split; [vm_compute; reflexivity|]. split; [vm_compute; reflexivity|]. vm_compute. discriminate. Qed.

(** C15 for the benign cells of the teardown matrix: a link of data-preserving toxics whose sender
    has closed and on which nothing can happen any more has no process left - the reader has
    finished, every stage has returned and closed its stub, the writer has closed the receiver *)
Theorem preserving_chains_end_clean chain src draws sd sigma l :
  chain_ok chain ->
  sched_run (link_init_slow chain src draws sd) sigma = Some l ->
  step_now l = None -> next_time l = None -> l_rd l = RClosed ->
  Forall (fun s => s_st s = Exited /\ s_closed s = true) (l_stubs l) /\ l_sink_closed l <> None /\ sink_bytes l = src_bytes src.
Proof.
  intros Hc Hrun Hnow Hnext Hrd.
  destruct (c01_no_deadlock chain src draws sd sigma l Hc Hrun Hnow Hnext) as [_ H]. rewrite Hrd in H.
  destruct H as (Hb & Hg & Hsc). split; [|split; assumption].
  destruct (link_init_ok chain src draws sd Hc) as (H1 & H2 & H3).
  destruct (sched_run_closure sigma _ _ H1 H2 (init_closure chain src draws sd) Hrun) as (_ & _ & Hci).
  pose proof (chain_inv_all _ _ _ Hci) as Hinv.
  clear -Hg Hinv. induction (l_stubs l) as [|s ss IH]; [constructor|].
  inversion Hg; subst. inversion Hinv as [|? ? [Ha _] Hr]; subst. constructor; [|apply IH; assumption].
  split; [assumption|]. apply Ha. assumption.
Qed.

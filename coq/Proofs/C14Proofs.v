(** C14: the toxicity decision. A draw is k / 2^53 rounded to float32 and never 1 (math/rand's
    Float32 rejects 1); a toxicity is a float32 in [0,1]. Both are modelled as integers over a
    common denominator: draw = k/D with 0 <= k < D, toxicity = m/D with 0 <= m <= D. The
    comparison operator is the one extracted from ToxicStub.Run. *)
From TP Require Import Model.Prelude Extracted Model.Toxics Model.Timed Proofs.LinkFrame.
From Coq Require Import ZifyBool ZifyNat.

Definition applies (cmp : toxicity_cmp_t) (k m : Z) : bool :=
  match cmp with TLt => k <? m | TLe => k <=? m end.

Lemma cmp_is_lt : toxicity_cmp = TLt.
Proof. reflexivity. Qed.

(** toxicity 0 affects no connection, for every possible draw *)
Lemma zero_never (D k : Z) : 0 <= k < D -> applies toxicity_cmp k 0 = false.
Proof. rewrite cmp_is_lt. simpl. lia. Qed.

(** toxicity 1 affects every connection, for every possible draw (the draw is never 1) *)
Lemma one_always (D k : Z) : 0 <= k < D -> applies toxicity_cmp k D = true.
Proof. rewrite cmp_is_lt. simpl. lia. Qed.

(** with "<=" instead of "<", the draw 0 would let a toxicity-0 toxic through *)
Lemma le_would_break_zero : applies TLe 0 0 = true.
Proof. reflexivity. Qed.

(** the acceptance set is an initial segment of the draws and has exactly m of the D equally
    likely values: under a uniform source the probability is m/D = the toxicity *)
Fixpoint count_applies (cmp : toxicity_cmp_t) (m : Z) (n : nat) : Z :=
  match n with
  | O => 0
  | S n' => count_applies cmp m n' + (if applies cmp (Z.of_nat n') m then 1 else 0)
  end.

Lemma measure_exact (m : Z) (D : nat) :
  0 <= m <= Z.of_nat D -> count_applies toxicity_cmp m D = m.
Proof.
  rewrite cmp_is_lt. intros Hm.
  assert (H : forall n, count_applies TLt m n = Z.min m (Z.of_nat n)).
  { induction n as [|n IH]; [simpl; lia|]. cbn [count_applies applies]. rewrite IH. destruct (Z.of_nat n <? m) eqn:E; lia. }
  rewrite H. lia.
Qed.

(** the decision is taken when a stage starts and never revisited by any link action: the
    (toxic, decision) pair of every stub is the same in every state of every schedule *)
Lemma whole_connection sigma l l' :
  sched_run l sigma = Some l' -> map (fun s => (s_tx s, s_eff s)) (l_stubs l') = map (fun s => (s_tx s, s_eff s)) (l_stubs l).
Proof.
  intros H. pose proof (run_idents sigma l l' H) as Hi. unfold idents in Hi.
  assert (E : forall ss, map (fun s => (s_tx s, s_eff s)) ss = map fst (map ident ss)).
  { intros ss. rewrite map_map. reflexivity. }
  rewrite !E. now rewrite Hi.
Qed.

(** a stage whose decision was "not affected" behaves as a noop, whatever its toxic *)
Lemma unaffected_is_noop tx ps inq cap c1 c2 st :
  eff_tx (mkStub tx false st ps inq cap c1 c2) = TNoop.
Proof. reflexivity. Qed.

(** C11: limit_data delivers exactly the first N bytes, independent of chunking, and closes with
    the N-th byte; the counter lives in the stub and survives restarts. *)
From TP Require Import Model.Prelude Extracted Model.Toxics Proofs.GoArith Proofs.StageContract
     Proofs.StageRun Proofs.StageFeed.
From Coq Require Import ZifyBool ZifyNat.

(** the budget arithmetic does not wrap: N - counter fits int64 (finding F11 is exactly its failure) *)
Definition no_wrap (nb k : Z) : Prop := - two63 <= nb - k < two63.

Lemma limit_remaining_exact nb k : no_wrap nb k -> limit_remaining nb k = nb - k.
Proof. intros H. unfold limit_remaining. apply wrap64_id. exact H. Qed.

Definition take_of (acc : Z) (c : chunk) : Z := Z.min (Z.max acc 0) (zlen (cdata c)).

Lemma firstn_zlen {A} (l : list A) : firstn (Z.to_nat (zlen l)) l = l.
Proof. apply firstn_all2. unfold zlen. lia. Qed.

(** what the input arm does with a chunk *)
Lemma limit_on_input nb k acc (c : chunk) now draws :
  on_input (TLimitData nb) (Some k) now draws (Some c) (Idle acc None) =
  (if 0 <? take_of acc c
   then Send (mkChunk (firstn (Z.to_nat (take_of acc c)) (cdata c)) (cts c)) KLimit
   else limit_after nb k, draws).
Proof.
  unfold take_of. cbn [on_input].
  destruct (Z.max acc 0 <? zlen (cdata c)) eqn:Hlt.
  - cbn [cdata cts]. unfold slice_to. rewrite zlen_firstn.
    replace (Z.min (Z.of_nat (Z.to_nat (Z.max acc 0))) (zlen (cdata c))) with (Z.max acc 0) by lia.
    replace (Z.min (Z.max acc 0) (zlen (cdata c))) with (Z.max acc 0) by lia.
    destruct (0 <? Z.max acc 0); reflexivity.
  - replace (Z.min (Z.max acc 0) (zlen (cdata c))) with (zlen (cdata c)) by lia.
    rewrite firstn_zlen. destruct c as [d t]; cbn [cdata cts]. destruct (0 <? zlen d); reflexivity.
Qed.

(** one chunk through an idle limit_data stage *)
Lemma limit_one nb k acc (c : chunk) at_ fuel :
  (1 < fuel)%nat ->
  let take := take_of acc c in
  let r := feed_one (TLimitData nb) fuel (Some k) (Idle acc None) at_ (Some c) in
  emitted r = firstn (Z.to_nat take) (cdata c) /\
  snd r = Some (k + take) /\
  final_st r = limit_after nb (k + take).
Proof.
  intros Hf take r. subst r. unfold feed_one. rewrite limit_on_input. cbn [fst].
  fold take.
  destruct fuel as [|[|f]]; try lia.
  destruct (0 <? take) eqn:Hpos.
  - cbn [stage_emit mode_of on_sent cdata].
    assert (Hz : zlen (firstn (Z.to_nat take) (cdata c)) = take).
    { rewrite zlen_firstn. unfold take, take_of in *. lia. }
    rewrite Hz.
    unfold limit_after at 1.
    destruct (limit_close_test (limit_remaining nb (k + take))) eqn:Hc.
    + unfold emitted, final_st. simpl. rewrite app_nil_r. unfold limit_after. rewrite Hc. auto.
    + unfold emitted, final_st. simpl. rewrite app_nil_r. unfold limit_after. rewrite Hc. auto.
  - assert (take = 0) by (unfold take, take_of in *; pose proof (zlen_nonneg (cdata c)); lia).
    rewrite H. simpl Z.to_nat. simpl firstn. replace (k + 0) with k by lia.
    unfold limit_after.
    destruct (limit_close_test (limit_remaining nb k)); unfold emitted, final_st; simpl; auto.
Qed.

(** the local budget of an idle stage is N - counter, clipped at 0 when it is used *)
Fixpoint limit_spec (nb k : Z) (cs : list chunk) : bytes * Z * bool :=
  (* (emitted, counter, closed) *)
  match cs with
  | [] => ([], k, false)
  | c :: r =>
    let take := Z.min (Z.max (nb - k) 0) (zlen (cdata c)) in
    if nb - (k + take) <=? 0 then (firstn (Z.to_nat take) (cdata c), k + take, true)
    else let '(e, k', cl) := limit_spec nb (k + take) r in
         (firstn (Z.to_nat take) (cdata c) ++ e, k', cl)
  end.

Definition arrivals (ts : list Z) (cs : list chunk) : list (Z * option chunk) :=
  map (fun p => (fst p, Some (snd p))) (combine ts cs).

(** all chunks of a connection through the stage: it emits what [limit_spec] says, for every
    chunking and pacing; once closed nothing more is taken *)
Lemma limit_feed nb fuel (Hf : (1 < fuel)%nat) : forall (cs : list chunk) (ts : list Z) k,
  length ts = length cs -> 0 <= k ->
  (forall k', k <= k' -> k' <= k + zlen (concat (map cdata cs)) -> no_wrap nb k') ->
  let r := feed (TLimitData nb) fuel (Some k) (Idle (nb - k) None) (arrivals ts cs) in
  let '(e, k', cl) := limit_spec nb k cs in
  emitted r = e /\ snd r = Some k' /\
  final_st r = (if cl then Closing else Idle (nb - k') None).
Proof.
  induction cs as [|c cs IH]; intros ts k Hlen Hk Hnw; destruct ts as [|t ts]; try discriminate.
  - simpl. unfold emitted, final_st. simpl. auto.
  - simpl in Hlen. cbn [arrivals combine map feed fst snd].
    pose proof (limit_one nb k (nb - k) c t fuel Hf) as H1. cbn zeta in H1.
    unfold take_of in H1.
    set (take := Z.min (Z.max (nb - k) 0) (zlen (cdata c))) in *.
    assert (Htake : 0 <= take <= zlen (cdata c)) by (unfold take; pose proof (zlen_nonneg (cdata c)); lia).
    simpl map in Hnw. simpl concat in Hnw. rewrite zlen_app in Hnw.
    pose proof (zlen_nonneg (concat (map cdata cs))) as Hrest.
    destruct (feed_one (TLimitData nb) fuel (Some k) (Idle (nb - k) None) t (Some c)) as [[es s1] ps1].
    unfold emitted, final_st in H1; simpl in H1. destruct H1 as (He & Hps & Hs1). subst ps1 s1.
    cbn [limit_spec]. fold take.
    unfold limit_after. rewrite limit_remaining_exact by (apply Hnw; lia).
    unfold limit_close_test.
    destruct (nb - (k + take) <=? 0) eqn:Hc.
    + (* closed: nothing more is taken *)
      assert (Hrestfeed : forall arr, feed (TLimitData nb) fuel (Some (k + take)) Closing arr = ([], Closing, Some (k + take))).
      { induction arr as [|[t' c'] arr IHa]; [reflexivity|]. cbn [feed feed_one]. now rewrite IHa. }
      rewrite Hrestfeed. unfold emitted, final_st. simpl. rewrite app_nil_r. auto.
    + specialize (IH ts (k + take) ltac:(lia) ltac:(lia)).
      assert (Hnw2 : forall k', k + take <= k' -> k' <= k + take + zlen (concat (map cdata cs)) -> no_wrap nb k')
        by (intros k' H1 H2; apply Hnw; lia).
      specialize (IH Hnw2). cbn zeta in IH. unfold arrivals in IH.
      destruct (limit_spec nb (k + take) cs) as [[e k'] cl].
      destruct (feed (TLimitData nb) fuel (Some (k + take)) (Idle (nb - (k + take)) None) _) as [[es' s2] ps2].
      unfold emitted, final_st in *; simpl in *. destruct IH as (IH1 & IH2 & IH3).
      rewrite map_app, concat_app, He, IH1. auto.
Qed.

(** [limit_spec] is the exact prefix: the first max(N - k, 0) bytes of the stream, however it is cut *)
Lemma limit_spec_prefix nb : forall cs k,
  let '(e, k', cl) := limit_spec nb k cs in
  e = firstn (Z.to_nat (Z.max (nb - k) 0)) (concat (map cdata cs)) /\
  k' = k + zlen e /\
  (cl = true <-> (cs <> [] /\ nb - k <= zlen (concat (map cdata cs)))).
Proof.
  induction cs as [|c cs IH]; intros k; simpl.
  - rewrite firstn_nil. unfold zlen; simpl. repeat split; try lia; try discriminate. intros [H _]; congruence.
  - set (take := Z.min (Z.max (nb - k) 0) (zlen (cdata c))).
    pose proof (zlen_nonneg (cdata c)) as Hc0.
    pose proof (zlen_nonneg (concat (map cdata cs))) as Hr0.
    destruct (nb - (k + take) <=? 0) eqn:Hc.
    + assert (Z.max (nb - k) 0 <= zlen (cdata c)) by (unfold take in *; lia).
      split.
      * rewrite firstn_app.
        replace (Z.to_nat (Z.max (nb - k) 0) - length (cdata c))%nat with 0%nat by (unfold zlen in *; lia).
        simpl. rewrite app_nil_r. f_equal. unfold take. lia.
      * split; [rewrite zlen_firstn; unfold take in *; lia|].
        split; [intros _; split; [discriminate|rewrite zlen_app; unfold take in *; lia]|auto].
    + specialize (IH (k + take)).
      destruct (limit_spec nb (k + take) cs) as [[e k'] cl]. destruct IH as (IH1 & IH2 & IH3).
      assert (Htk : take = zlen (cdata c)) by (unfold take in *; lia).
      split.
      * rewrite firstn_app. rewrite Htk, firstn_zlen.
        rewrite (firstn_all2 (cdata c)) by (unfold zlen in *; lia).
        f_equal. rewrite IH1. f_equal. unfold zlen in *. lia.
      * split; [rewrite zlen_app, Htk, firstn_zlen; lia|].
        rewrite IH3, zlen_app. split.
        -- intros [Hne Hle]. split; [discriminate|lia].
        -- intros [_ Hle]. split; [|lia]. intros ->. simpl in Hle. unfold zlen in *; simpl in Hle. lia.
Qed.

(** restart (update of another toxic, or of its own limit): Pipe re-reads N - counter *)
Lemma limit_restart nb k now : init_state (TLimitData nb) (Some k) now = Idle (limit_remaining nb k) None.
Proof. reflexivity. Qed.

(** finding F11: at the wrap boundary the budget turns positive and the limit is lost *)
Lemma limit_wrap_witness : limit_remaining min64 5 = max64 - 4.
Proof. vm_compute. reflexivity. Qed.

(** Without reconfiguration no stage is ever in a flush-on-exit send, so the 5 s give-up of
    WriteOutput is never enabled: every schedule of a static link is free of ASendTimeout. *)
From TP Require Import Model.Prelude Extracted Model.Toxics Model.Timed Proofs.StageContract.
From Coq Require Import ZifyBool ZifyNat.

Definition static_stub (s : stub) : Prop := static_st (s_st s).
Definition static_link (l : link) : Prop := Forall static_stub (l_stubs l).

Lemma forall_set_nth {A} (P : A -> Prop) (l : list A) i x : Forall P l -> P x -> Forall P (set_nth i x l).
Proof.
  revert i; induction l as [|y l IH]; intros i Hl Hx; [destruct i; constructor|].
  inversion Hl; subst. destruct i; simpl; constructor; auto.
Qed.

Lemma forall_nth {A} (P : A -> Prop) (l : list A) i x : Forall P l -> nth_error l i = Some x -> P x.
Proof.
  revert i; induction l as [|y l IH]; intros [|i] Hl Hn; simpl in Hn; try discriminate; inversion Hl; subst.
  - now inversion Hn; subst.
  - eapply IH; eassumption.
Qed.

Lemma static_on_input_any tx ps now draws c s : static_st s -> static_st (fst (on_input tx ps now draws c s)).
Proof. destruct s; simpl; auto. intros _. apply (static_on_input tx ps now draws c acc tmr). Qed.

Lemma static_stub_input l i s c q :
  static_link l -> static_stub s -> static_link (stub_input l i s c q).
Proof.
  intros Hl Hs. unfold stub_input.
  pose proof (static_on_input_any (eff_tx s) (s_ps s) (l_now l) (l_draws l) c (s_st s) Hs) as H.
  destruct (on_input _ _ _ _ _ _) as [st' ds]. unfold static_link; simpl.
  apply forall_set_nth; [exact Hl|exact H].
Qed.

Lemma static_stub_sent l i s : static_link l -> static_stub s -> static_link (stub_sent l i s).
Proof.
  intros Hl Hs. unfold stub_sent.
  pose proof (static_on_sent (eff_tx s) (s_ps s) (l_now l) (s_st s) Hs) as H.
  destruct (on_sent _ _ _ _) as [st' ps']. unfold static_link; simpl.
  apply forall_set_nth; [exact Hl|exact H].
Qed.

Lemma static_offer l j c l1 : static_link l -> offer l j c = Some l1 -> static_link l1.
Proof.
  intros Hl H. unfold offer in H.
  destruct (nth_error (l_stubs l) j) as [t|] eqn:Hn.
  - pose proof (forall_nth _ _ _ _ Hl Hn) as Ht.
    destruct (0 <? s_cap t).
    + destruct (zlen (s_inq t) <? s_cap t); [|discriminate]. inversion H; subst.
      unfold static_link; simpl. apply forall_set_nth; [exact Hl|exact Ht].
    + destruct (listens_input t && _); [|discriminate]. inversion H; subst.
      apply static_stub_input; assumption.
  - destruct (l_wr_ready l <=? l_now l); [|discriminate].
    inversion H; subst. unfold deliver_sink. destruct (zlen (cdata c) =? 0); exact Hl.
Qed.

Lemma static_close_downstream l j : static_link l -> static_link (close_downstream l j).
Proof.
  intros Hl. unfold close_downstream.
  destruct (nth_error (l_stubs l) j) as [t|] eqn:Hn; [|exact Hl].
  unfold static_link; simpl. apply forall_set_nth; [exact Hl|].
  exact (forall_nth _ _ _ _ Hl Hn).
Qed.

Theorem static_step l a l' : static_link l -> sched_step l a = Some l' -> static_link l'.
Proof.
  intros Hl H. destruct a as [i|i|i| |t]; simpl in H.
  - unfold stub_move in H.
    destruct (nth_error (l_stubs l) i) as [s|] eqn:Hn; [|discriminate].
    pose proof (forall_nth _ _ _ _ Hl Hn) as Hs.
    destruct (mode_of (s_st s)) as [inp intr tm|c|c dl| | |]; try discriminate.
    + destruct inp; [|discriminate].
      destruct (s_inq s); [destruct (s_in_closed s); [|discriminate]|];
        inversion H; subst; apply static_stub_input; assumption.
    + destruct (offer l (S i) c) as [l1|] eqn:Ho; [|discriminate].
      pose proof (static_offer _ _ _ _ Hl Ho) as Hl1.
      destruct (nth_error (l_stubs l1) i) as [s1|] eqn:Hn1; [|discriminate].
      inversion H; subst. apply static_stub_sent; [exact Hl1|exact (forall_nth _ _ _ _ Hl1 Hn1)].
    + destruct (offer l (S i) c) as [l1|] eqn:Ho; [|discriminate].
      pose proof (static_offer _ _ _ _ Hl Ho) as Hl1.
      destruct (nth_error (l_stubs l1) i) as [s1|] eqn:Hn1; [|discriminate].
      inversion H; subst. apply static_stub_sent; [exact Hl1|exact (forall_nth _ _ _ _ Hl1 Hn1)].
    + inversion H; subst. apply static_close_downstream.
      unfold static_link; simpl. apply forall_set_nth; [exact Hl|exact I].
  - unfold stub_timer in H.
    destruct (nth_error (l_stubs l) i) as [s|] eqn:Hn; [|discriminate].
    pose proof (forall_nth _ _ _ _ Hl Hn) as Hs.
    destruct (mode_of (s_st s)); try discriminate.
    destruct (timer_due _ _); [|discriminate]. inversion H; subst.
    unfold static_link; simpl. apply forall_set_nth; [exact Hl|].
    apply static_on_timer. exact Hs.
  - unfold stub_send_timeout in H.
    destruct (nth_error (l_stubs l) i) as [s|] eqn:Hn; [|discriminate].
    pose proof (forall_nth _ _ _ _ Hl Hn) as Hs.
    destruct (mode_of (s_st s)) eqn:Hm; try discriminate.
    exfalso. eapply static_not_sendt; eassumption.
  - unfold try_reader in H.
    destruct (l_rd l) as [|c|]; [| |discriminate].
    + destruct (l_rest l).
      * destruct (l_src l) as [|[t d|t] src']; [discriminate| |].
        -- destruct (t <=? l_now l); [|discriminate]. destruct d; inversion H; subst; exact Hl.
        -- destruct (t <=? l_now l); [|discriminate]. inversion H; subst.
           apply static_close_downstream. exact Hl.
      * inversion H; subst. exact Hl.
    + destruct (offer l 0 c) as [l1|] eqn:Ho; [|discriminate]. inversion H; subst.
      exact (static_offer _ _ _ _ Hl Ho).
  - destruct (l_now l <=? t); [|discriminate]. inversion H; subst. exact Hl.
Qed.

(** hence the give-up action is never enabled on a static link *)
Theorem static_no_send_timeout l i : static_link l -> stub_send_timeout l i = None.
Proof.
  intros Hl. unfold stub_send_timeout.
  destruct (nth_error (l_stubs l) i) as [s|] eqn:Hn; [|reflexivity].
  pose proof (forall_nth _ _ _ _ Hl Hn) as Hs.
  destruct (mode_of (s_st s)) eqn:Hm; try reflexivity.
  exfalso. eapply static_not_sendt; eassumption.
Qed.

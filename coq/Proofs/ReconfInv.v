(** C02 on the model: interleave the control steps of add / update / remove / reset with the data
    path in any order whatsoever; as long as every toxic involved is data-preserving (inside its
    guard) and no hand-off is given up (the 5 s clause of the property: no ASendTimeout, no
    CForwardDrop), [delivered ++ in flight ++ pending] stays the source stream: nothing is lost,
    duplicated, reordered or altered. *)
From TP Require Import Model.Prelude Extracted Model.Toxics Model.Timed Model.Reconf
     Proofs.GoArith Proofs.StageContract Proofs.LinkInv.
From Coq Require Import ZifyBool ZifyNat.

Definition ctl_ok (a : cact) : Prop :=
  match a with
  | CRestart _ tx eff | CAppend tx eff =>
    let t := if eff then tx else TNoop in preserving t /\ attrs_ok t
  | CForwardDrop _ | CSever _ => False
  | _ => True
  end.

Lemma flow_remove_nth pre s post :
  seg s = [] -> flow (remove_nth (length pre) (pre ++ s :: post)) = flow (pre ++ s :: post).
Proof.
  intros Hs. assert (E : remove_nth (length pre) (pre ++ s :: post) = pre ++ post).
  { induction pre as [|x pre IH]; simpl; [reflexivity|now rewrite IH]. }
  rewrite E, !flow_app. simpl. rewrite Hs. now rewrite app_nil_r.
Qed.

Lemma forall_remove_nth {A} (P : A -> Prop) (l : list A) : forall i, Forall P l -> Forall P (remove_nth i l).
Proof. induction l as [|x l IH]; intros [|i] H; simpl; auto; inversion H; subst; auto. Qed.

Theorem ctl_preserves l a l' :
  link_ok l -> ctl_ok a -> ctl_step l a = Some l' -> link_ok l' /\ stream l' = stream l.
Proof.
  intros Hok Ha Hstep. destruct a as [i|i tx eff|tx eff|i|i|i|i]; simpl in Hstep, Ha.
  - (* interrupt *)
    destruct (nth_error (l_stubs l) i) as [s|] eqn:Hn; [|discriminate].
    destruct (listens_interrupt s); [|discriminate]. inversion Hstep; subst l'; clear Hstep.
    destruct (nth_split _ _ _ Hn) as (pre & post & Hl & Hlen). subst i.
    pose proof Hok as Hok0. unfold link_ok in Hok0. rewrite Hl in Hok0.
    destruct (ok_get _ _ _ Hok0) as (Hp & Hat & Hw & Hps).
    destruct (on_interrupt_contract (eff_tx s) (l_now l) (s_st s) Hw) as [Hw' Hh].
    set (s' := with_st s _).
    assert (Hs' : stub_ok s') by (unfold stub_ok, s', with_st, eff_tx in *; simpl; tauto).
    assert (Hseg : seg s' = seg s) by (unfold seg, s', with_st; simpl; now rewrite Hh).
    split; [unfold link_ok; simpl; rewrite Hl, set_nth_split; eapply ok_set; eassumption|].
    rewrite (stream_split l pre s post Hl).
    erewrite (stream_split _ pre s' post) by (simpl; rewrite Hl; apply set_nth_split).
    now rewrite Hseg.
  - (* restart *)
    destruct (nth_error (l_stubs l) i) as [s|] eqn:Hn; [|discriminate].
    destruct (is_exited s && negb (s_closed s)) eqn:Hc; [|discriminate].
    inversion Hstep; subst l'; clear Hstep.
    destruct (nth_split _ _ _ Hn) as (pre & post & Hl & Hlen). subst i.
    apply andb_prop in Hc as [Hex _]. unfold is_exited in Hex.
    destruct (s_st s) eqn:Hst; try discriminate.
    set (ps := if is_stateful tx then _ else _).
    set (t := if eff then tx else TNoop) in *.
    destruct Ha as [Hp Hat].
    assert (Hps : pstate_ok t ps).
    { unfold t. destruct eff; [|exact I]. destruct tx; simpl in *; auto; contradiction. }
    destruct (wf_init t ps (l_now l) Hps) as [Hw Hh].
    set (s' := mkStub tx eff _ ps _ _ _ _).
    assert (Hs' : stub_ok s') by (unfold stub_ok, s', eff_tx; simpl; fold t; tauto).
    assert (Hseg : seg s' = seg s) by (unfold seg, s'; simpl; rewrite Hh, Hst; reflexivity).
    pose proof Hok as Hok0. unfold link_ok in Hok0. rewrite Hl in Hok0.
    split; [unfold link_ok; simpl; rewrite Hl, set_nth_split; eapply ok_set; eassumption|].
    rewrite (stream_split l pre s post Hl).
    erewrite (stream_split _ pre s' post) by (simpl; rewrite Hl; apply set_nth_split).
    now rewrite Hseg.
  - (* append *)
    inversion Hstep; subst l'; clear Hstep.
    set (t := if eff then tx else TNoop) in *. destruct Ha as [Hp Hat].
    assert (Hps : pstate_ok t (new_pstate tx)).
    { unfold t. destruct eff; [|exact I]. destruct tx; simpl in *; auto; contradiction. }
    destruct (wf_init t (new_pstate tx) (l_now l) Hps) as [Hw Hh].
    split.
    + unfold link_ok; simpl. apply Forall_app. split; [exact Hok|]. constructor; [|constructor].
      unfold stub_ok, eff_tx; simpl. fold t. tauto.
    + unfold stream, sink_bytes, pending; simpl. rewrite flow_app. simpl.
      unfold seg at 1; simpl. rewrite Hh. reflexivity.
  - (* forward *)
    destruct (nth_error (l_stubs l) i) as [s|] eqn:Hn; [|discriminate].
    destruct (is_exited s && negb (s_closed s)) eqn:Hex0; [|discriminate].
    apply andb_prop in Hex0 as [Hex _].
    destruct (s_inq s) as [|c q] eqn:Hq; [discriminate|].
    destruct (nth_split _ _ _ Hn) as (pre & post & Hl & Hlen). subst i.
    destruct (offer l (S (length pre)) c) as [l1|] eqn:Hoff; [|discriminate].
    destruct (offer_spec _ _ _ _ _ _ Hl Hok Hoff) as (post' & Hl1 & Hok1 & Hbytes & Hpend & Hnow).
    rewrite Hl1, nth_error_split in Hstep. inversion Hstep; subst l'; clear Hstep.
    unfold is_exited in Hex. destruct (s_st s) eqn:Hst; try discriminate.
    set (s' := mkStub _ _ _ _ q _ _ _).
    pose proof (ok_get _ _ _ Hok1) as Hs.
    assert (Hs' : stub_ok s') by (unfold stub_ok, s', eff_tx in *; simpl; tauto).
    assert (Hseg : seg s = cdata c ++ seg s').
    { unfold seg, s'; simpl. rewrite Hst, Hq. simpl. reflexivity. }
    split; [unfold link_ok, upd_stub; simpl; rewrite Hl1, set_nth_split; eapply ok_set; eassumption|].
    rewrite (stream_split l pre s post Hl).
    erewrite (stream_split _ pre s' post') by (unfold upd_stub; simpl; rewrite Hl1; apply set_nth_split).
    destruct (upd_stub_fields l1 (length pre) s') as [E1 E2].
    rewrite E1, E2, Hpend, Hseg. rewrite !app_assoc. rewrite Hbytes. now rewrite <- !app_assoc.
  - contradiction.
  - (* delete *)
    destruct (nth_error (l_stubs l) i) as [s|] eqn:Hn; [|discriminate].
    destruct (is_exited s && negb (s_closed s) && match s_inq s with [] => true | _ => false end && negb (Nat.eqb i 0)) eqn:Hc; [|discriminate].
    inversion Hstep; subst l'; clear Hstep.
    destruct (nth_split _ _ _ Hn) as (pre & post & Hl & Hlen). subst i.
    apply andb_prop in Hc as [Hc _]. apply andb_prop in Hc as [Hex Hq]. apply andb_prop in Hex as [Hex _].
    unfold is_exited in Hex. destruct (s_st s) eqn:Hst; try discriminate.
    destruct (s_inq s) eqn:Hinq; [|discriminate].
    assert (Hseg : seg s = []) by (unfold seg; rewrite Hst, Hinq; reflexivity).
    split.
    + unfold link_ok; simpl. apply forall_remove_nth. exact Hok.
    + unfold stream, sink_bytes, pending; simpl. rewrite Hl. now rewrite (flow_remove_nth pre s post Hseg).
  - contradiction.
Qed.

Definition mact_ok (a : mact) : Prop :=
  match a with
  | MData (ASendTimeout _) => False
  | MData _ => True
  | MCtl c => ctl_ok c
  end.

Theorem mixed_run_inv sigma : forall l l',
  link_ok l -> Forall mact_ok sigma -> mixed_run l sigma = Some l' ->
  link_ok l' /\ stream l' = stream l.
Proof.
  induction sigma as [|a sigma IH]; intros l l' Hok Hs Hrun; simpl in Hrun.
  - inversion Hrun; subst. auto.
  - destruct (mixed_step l a) as [l1|] eqn:Hst; [|discriminate].
    inversion Hs as [|? ? Ha Hrest]; subst.
    assert (H1 : link_ok l1 /\ stream l1 = stream l).
    { destruct a as [d|c]; simpl in Hst.
      - apply (step_preserves l l1 d Hok); [|exact Hst]. intros i ->. exact Ha.
      - apply (ctl_preserves l c l1 Hok Ha Hst). }
    destruct H1 as [Hok1 Hs1]. destruct (IH l1 l' Hok1 Hrest Hrun) as [H2 H3].
    split; [exact H2|congruence].
Qed.


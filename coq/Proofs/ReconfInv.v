(** C02 on the model: interleave the control steps of add / update / remove / reset with the data
    path in any order whatsoever; as long as every toxic involved is data-preserving (inside its
    guard) and no hand-off is given up (the 5 s clause of the property: no ASendTimeout, no
    CForwardDrop), [delivered ++ in flight ++ pending] stays the source stream: nothing is lost,
    duplicated, reordered or altered. *)
From TP Require Import Model.Prelude Extracted Model.Toxics Model.Timed Model.Reconf
     Proofs.GoArith Proofs.StageContract Proofs.LinkInv.
From Coq Require Import ZifyBool ZifyNat.

(** which control actions the invariant admits, in the state in which they are taken. An attribute
    write ([CSetTx]) must leave the running stage in a state that is well-formed for the new
    attributes: true of every stage and every value once the bandwidth toxic cuts with the rate it
    tested ([setx_keeps_wf] below; on a tree where it re-reads the attribute this is where the proof
    stops, and the state it stops at is the crash of finding F13). *)
Definition ctl_ok (l : link) (a : cact) : Prop :=
  match a with
  | CRestart _ tx eff | CAppend tx eff | CInsertAfter _ tx eff =>
    let t := if eff then tx else TNoop in preserving t /\ attrs_ok t
  | CForwardDrop _ | CSever _ => False
  | CSetTx i tx =>
    match nth_error (l_stubs l) i with
    | Some s => let t := if s_eff s then tx else TNoop in
                preserving t /\ attrs_ok t /\ wf t (s_st s) /\ pstate_ok t (s_ps s)
    | None => True
    end
  | _ => True
  end.

Lemma flow_remove_nth pre s post :
  seg s = [] -> flow (remove_nth (length pre) (pre ++ s :: post)) = flow (pre ++ s :: post).
Proof.
  intros Hs. assert (E : remove_nth (length pre) (pre ++ s :: post) = pre ++ post).
  { induction pre as [|x pre IH]; simpl; [reflexivity|now rewrite IH]. }
  rewrite E, !flow_app. simpl. rewrite Hs. now rewrite app_nil_r.
Qed.

Lemma forall_remove_nth {A} (P : A -> Prop) (l : list A) : forall i, Forall P l -> Forall P (remove_nth i l).
Proof. induction l as [|x l IH]; intros [|i] H; simpl; auto; inversion H; subst; auto. Qed.

Lemma close_downstream_preserves l j :
  link_ok l -> link_ok (close_downstream l j) /\ stream (close_downstream l j) = stream l.
Proof.
  intros Hok. unfold close_downstream. destruct (nth_error (l_stubs l) j) as [t|] eqn:Hn.
  - destruct (nth_split _ _ _ Hn) as (pre & post & Hl & Hlen). subst j.
    pose proof Hok as Hok0. unfold link_ok in Hok0. rewrite Hl in Hok0.
    pose proof (ok_get _ _ _ Hok0) as Ht.
    set (t' := mkStub _ _ _ _ _ _ true _).
    assert (Ht' : stub_ok t') by (unfold stub_ok, t', eff_tx in *; simpl; tauto).
    split.
    + unfold link_ok, upd_stub; cbn [l_stubs]. rewrite Hl, set_nth_split. eapply ok_set; eassumption.
    + rewrite (stream_split l pre t post Hl).
      erewrite (stream_split _ pre t' post) by (unfold upd_stub; cbn [l_stubs]; rewrite Hl; apply set_nth_split).
      reflexivity.
  - split; [exact Hok|reflexivity].
Qed.

Lemma flow_insert (l : list stub) n x : seg x = [] -> flow (firstn n l ++ x :: skipn n l) = flow l.
Proof.
  intros Hx. rewrite flow_app. simpl. rewrite Hx, app_nil_r. rewrite <- flow_app. now rewrite firstn_skipn.
Qed.

Lemma forall_insert (P : stub -> Prop) (l : list stub) n x : Forall P l -> P x -> Forall P (firstn n l ++ x :: skipn n l).
Proof.
  intros Hl Hx. rewrite <- (firstn_skipn n l) in Hl. apply Forall_app in Hl as [H1 H2].
  apply Forall_app. split; [exact H1|constructor; assumption].
Qed.

Lemma insert_preserves l i st :
  link_ok l -> stub_ok st -> seg st = [] ->
  let l' := mkLink (l_now l) (l_src l) (l_rest l) (l_rd l) (firstn (S i) (l_stubs l) ++ st :: skipn (S i) (l_stubs l))
                   (l_draws l) (l_trace l) (l_sink_closed l) (l_rx l) (l_tx l) (l_sink_delay l) (l_wr_ready l) in
  link_ok l' /\ stream l' = stream l.
Proof.
  intros Hok Hst Hseg l'. split.
  - unfold link_ok, l'; cbn [l_stubs]. apply forall_insert; assumption.
  - unfold stream, sink_bytes, pending, l'; cbn [l_stubs l_trace l_rd l_rest l_src]. now rewrite flow_insert.
Qed.

Lemma new_pstate_ok (tx : toxic) (eff : bool) : preserving (if eff then tx else TNoop) -> pstate_ok (if eff then tx else TNoop) (new_pstate tx).
Proof. destruct eff; [|intros _; exact I]. destruct tx; simpl; auto; contradiction. Qed.

Theorem ctl_preserves l a l' :
  link_ok l -> ctl_ok l a -> ctl_step l a = Some l' -> link_ok l' /\ stream l' = stream l.
Proof.
  intros Hok Ha Hstep. destruct a as [i|i tx eff|tx eff|i|i|i|i|i tx|i|i|i tx eff|i tx]; simpl in Hstep, Ha.
  - (* interrupt *)
    destruct (nth_error (l_stubs l) i) as [s|] eqn:Hn; [|discriminate].
    destruct (listens_interrupt s); [|discriminate]. inversion Hstep; subst l'; clear Hstep.
    destruct (nth_split _ _ _ Hn) as (pre & post & Hl & Hlen). subst i.
    pose proof Hok as Hok0. unfold link_ok in Hok0. rewrite Hl in Hok0.
    destruct (ok_get _ _ _ Hok0) as (Hp & Hat & Hw & Hps).
    destruct (on_interrupt_contract (eff_tx s) (l_now l) (s_st s) Hw) as [Hw' Hh].
    set (s' := with_st s _).
    assert (Hs' : stub_ok s') by (unfold stub_ok, s', with_st, eff_tx in *; simpl; tauto).
    assert (Hseg : seg s' = seg s) by (unfold seg, s', with_st; simpl; now rewrite Hh).
    split; [unfold link_ok; simpl; rewrite Hl, set_nth_split; eapply ok_set; eassumption|].
    rewrite (stream_split l pre s post Hl).
    erewrite (stream_split _ pre s' post) by (simpl; rewrite Hl; apply set_nth_split).
    now rewrite Hseg.
  - (* restart *)
    destruct (nth_error (l_stubs l) i) as [s|] eqn:Hn; [|discriminate].
    destruct (is_exited s && negb (s_closed s)) eqn:Hc; [|discriminate].
    inversion Hstep; subst l'; clear Hstep.
    destruct (nth_split _ _ _ Hn) as (pre & post & Hl & Hlen). subst i.
    apply andb_prop in Hc as [Hex _]. unfold is_exited in Hex.
    destruct (s_st s) eqn:Hst; try discriminate.
    set (ps := if is_stateful tx then _ else _).
    set (t := if eff then tx else TNoop) in *.
    destruct Ha as [Hp Hat].
    assert (Hps : pstate_ok t ps).
    { unfold t. destruct eff; [|exact I]. destruct tx; simpl in *; auto; contradiction. }
    destruct (wf_init t ps (l_now l) Hps) as [Hw Hh].
    set (s' := mkStub tx eff _ ps _ _ _ _).
    assert (Hs' : stub_ok s') by (unfold stub_ok, s', eff_tx; simpl; fold t; tauto).
    assert (Hseg : seg s' = seg s) by (unfold seg, s'; simpl; rewrite Hh, Hst; reflexivity).
    pose proof Hok as Hok0. unfold link_ok in Hok0. rewrite Hl in Hok0.
    split; [unfold link_ok; simpl; rewrite Hl, set_nth_split; eapply ok_set; eassumption|].
    rewrite (stream_split l pre s post Hl).
    erewrite (stream_split _ pre s' post) by (simpl; rewrite Hl; apply set_nth_split).
    now rewrite Hseg.
  - (* append *)
    inversion Hstep; subst l'; clear Hstep.
    set (t := if eff then tx else TNoop) in *. destruct Ha as [Hp Hat].
    assert (Hps : pstate_ok t (new_pstate tx)).
    { unfold t. destruct eff; [|exact I]. destruct tx; simpl in *; auto; contradiction. }
    destruct (wf_init t (new_pstate tx) (l_now l) Hps) as [Hw Hh].
    split.
    + unfold link_ok; simpl. apply Forall_app. split; [exact Hok|]. constructor; [|constructor].
      unfold stub_ok, eff_tx; simpl. fold t. tauto.
    + unfold stream, sink_bytes, pending; simpl. rewrite flow_app. simpl.
      unfold seg at 1; simpl. rewrite Hh. reflexivity.
  - (* forward *)
    destruct (nth_error (l_stubs l) i) as [s|] eqn:Hn; [|discriminate].
    destruct (is_exited s && negb (s_closed s)) eqn:Hex0; [|discriminate].
    apply andb_prop in Hex0 as [Hex _].
    destruct (s_inq s) as [|c q] eqn:Hq; [discriminate|].
    destruct (nth_split _ _ _ Hn) as (pre & post & Hl & Hlen). subst i.
    destruct (offer l (S (length pre)) c) as [l1|] eqn:Hoff; [|discriminate].
    destruct (offer_spec _ _ _ _ _ _ Hl Hok Hoff) as (post' & Hl1 & Hok1 & Hbytes & Hpend & Hnow).
    rewrite Hl1, nth_error_split in Hstep. inversion Hstep; subst l'; clear Hstep.
    unfold is_exited in Hex. destruct (s_st s) eqn:Hst; try discriminate.
    set (s' := mkStub _ _ _ _ q _ _ _).
    pose proof (ok_get _ _ _ Hok1) as Hs.
    assert (Hs' : stub_ok s') by (unfold stub_ok, s', eff_tx in *; simpl; tauto).
    assert (Hseg : seg s = cdata c ++ seg s').
    { unfold seg, s'; simpl. rewrite Hst, Hq. simpl. reflexivity. }
    split; [unfold link_ok, upd_stub; simpl; rewrite Hl1, set_nth_split; eapply ok_set; eassumption|].
    rewrite (stream_split l pre s post Hl).
    erewrite (stream_split _ pre s' post') by (unfold upd_stub; simpl; rewrite Hl1; apply set_nth_split).
    destruct (upd_stub_fields l1 (length pre) s') as [E1 E2].
    rewrite E1, E2, Hpend, Hseg. rewrite !app_assoc. rewrite Hbytes. now rewrite <- !app_assoc.
  - contradiction.
  - (* delete *)
    destruct (nth_error (l_stubs l) i) as [s|] eqn:Hn; [|discriminate].
    destruct (is_exited s && negb (s_closed s) && match s_inq s with [] => true | _ => false end && negb (Nat.eqb i 0)) eqn:Hc; [|discriminate].
    inversion Hstep; subst l'; clear Hstep.
    destruct (nth_split _ _ _ Hn) as (pre & post & Hl & Hlen). subst i.
    apply andb_prop in Hc as [Hc _]. apply andb_prop in Hc as [Hex Hq]. apply andb_prop in Hex as [Hex _].
    unfold is_exited in Hex. destruct (s_st s) eqn:Hst; try discriminate.
    destruct (s_inq s) eqn:Hinq; [|discriminate].
    assert (Hseg : seg s = []) by (unfold seg; rewrite Hst, Hinq; reflexivity).
    split.
    + unfold link_ok; simpl. apply forall_remove_nth. exact Hok.
    + unfold stream, sink_bytes, pending; simpl. rewrite Hl. now rewrite (flow_remove_nth pre s post Hseg).
  - contradiction.
  - (* attribute write *)
    destruct (nth_error (l_stubs l) i) as [s|] eqn:Hn; [|discriminate].
    inversion Hstep; subst l'; clear Hstep. destruct Ha as (Hp & Hat & Hw & Hps).
    destruct (nth_split _ _ _ Hn) as (pre & post & Hl & Hlen). subst i.
    set (s' := mkStub tx _ _ _ _ _ _ _).
    assert (Hs' : stub_ok s') by (unfold stub_ok, s', eff_tx; simpl; tauto).
    pose proof Hok as Hok0. unfold link_ok in Hok0. rewrite Hl in Hok0.
    split; [unfold link_ok, upd_stub; cbn [l_stubs]; rewrite Hl, set_nth_split; eapply ok_set; eassumption|].
    rewrite (stream_split l pre s post Hl).
    erewrite (stream_split _ pre s' post) by (unfold upd_stub; cbn [l_stubs]; rewrite Hl; apply set_nth_split).
    reflexivity.
  - (* the flush loop receives from an unbuffered input *)
    destruct i as [|j]; [discriminate|].
    destruct (nth_error (l_stubs l) (S j)) as [s|] eqn:Hn; [|discriminate].
    destruct (nth_error (l_stubs l) j) as [sp|] eqn:Hnp; [|discriminate].
    destruct (is_exited s && negb (s_closed s) && (s_cap s =? 0) && match s_inq s with [] => true | _ => false end) eqn:Hc; [|discriminate].
    destruct (nth_split _ _ _ Hnp) as (pre & post0 & Hl & Hlen). subst j.
    rewrite Hl, nth_error_split_S in Hn. destruct post0 as [|s0 post]; [discriminate|]. simpl in Hn. inversion Hn; subst s0. clear Hn.
    apply andb_prop in Hc as [Hc Hq]. apply andb_prop in Hc as [Hc _]. apply andb_prop in Hc as [Hex _].
    unfold is_exited in Hex. destruct (s_st s) eqn:Hst; try discriminate.
    destruct (s_inq s) eqn:Hinq; [|discriminate].
    pose proof Hok as Hok0. unfold link_ok in Hok0. rewrite Hl in Hok0.
    pose proof (ok_get _ _ _ Hok0) as Hsp.
    assert (Hs : stub_ok s).
    { apply Forall_app in Hok0 as [_ H2]. inversion H2 as [|? ? _ H3]; subst. now inversion H3. }
    assert (Hgen : forall c, (mode_of (s_st sp) = MSend c \/ exists dl, mode_of (s_st sp) = MSendT c dl) ->
       let l1 := upd_stub l (S (length pre)) (mkStub (s_tx s) (s_eff s) Exited (s_ps s) [c] (s_cap s) (s_in_closed s) (s_closed s)) in
       link_ok (stub_sent l1 (length pre) sp) /\ stream (stub_sent l1 (length pre) sp) = stream l).
    { intros c Hm l1. set (s1 := mkStub (s_tx s) (s_eff s) Exited (s_ps s) [c] (s_cap s) (s_in_closed s) (s_closed s)) in *.
      pose proof (sent_step sp c (l_now l1) Hsp Hm) as Hsent. unfold stub_sent.
      destruct (on_sent (eff_tx sp) (s_ps sp) (l_now l1) (s_st sp)) as [st' ps'] eqn:Hos.
      destruct Hsent as [Hsp' Hseg].
      set (sp' := mkStub (s_tx sp) (s_eff sp) st' ps' (s_inq sp) (s_cap sp) (s_in_closed sp) (s_closed sp)) in *.
      assert (Hs1 : stub_ok s1) by (unfold stub_ok, s1, eff_tx in *; simpl; rewrite Hst in Hs; tauto).
      assert (Hl2 : l_stubs (upd_stub l1 (length pre) sp') = pre ++ sp' :: s1 :: post).
      { unfold l1, upd_stub; cbn [l_stubs]. rewrite Hl, set_nth_split_S, set_nth_split. reflexivity. }
      split.
      - unfold link_ok. rewrite Hl2.
        replace (pre ++ sp' :: s1 :: post) with ((pre ++ [sp']) ++ s1 :: post) by now rewrite <- app_assoc.
        eapply ok_set; [|exact Hs1]. rewrite <- app_assoc. simpl. eapply ok_set; eassumption.
      - rewrite (stream_split l pre sp (s :: post) Hl).
        rewrite (stream_split _ pre sp' (s1 :: post) Hl2).
        change (sink_bytes (upd_stub l1 (length pre) sp')) with (sink_bytes l).
        change (pending (upd_stub l1 (length pre) sp')) with (pending l).
        simpl. rewrite Hseg. unfold seg at 1 3. unfold s1. cbn [s_st s_inq]. rewrite Hst, Hinq. unfold qbytes. simpl.
        rewrite !app_nil_r. now rewrite <- !app_assoc. }
    destruct (mode_of (s_st sp)) eqn:Hm; try discriminate; inversion Hstep; subst l'; clear Hstep.
    + apply Hgen. left. reflexivity.
    + apply Hgen. right. eexists. reflexivity.
  - (* the flush loop received nil: the stub closes *)
    destruct (nth_error (l_stubs l) i) as [s|] eqn:Hn; [|discriminate].
    destruct (is_exited s && negb (s_closed s) && s_in_closed s && match s_inq s with [] => true | _ => false end) eqn:Hc; [|discriminate].
    inversion Hstep; subst l'; clear Hstep.
    destruct (nth_split _ _ _ Hn) as (pre & post & Hl & Hlen). subst i.
    set (s' := mkStub _ _ _ _ _ _ _ true).
    pose proof Hok as Hok0. unfold link_ok in Hok0. rewrite Hl in Hok0.
    pose proof (ok_get _ _ _ Hok0) as Hs.
    assert (Hs' : stub_ok s') by (unfold stub_ok, s', eff_tx in *; simpl; tauto).
    assert (H1 : link_ok (upd_stub l (length pre) s') /\ stream (upd_stub l (length pre) s') = stream l).
    { split; [unfold link_ok, upd_stub; cbn [l_stubs]; rewrite Hl, set_nth_split; eapply ok_set; eassumption|].
      rewrite (stream_split l pre s post Hl).
      erewrite (stream_split _ pre s' post) by (unfold upd_stub; cbn [l_stubs]; rewrite Hl; apply set_nth_split).
      reflexivity. }
    destruct H1 as [Hok1 Hs1].
    destruct (close_downstream_preserves _ (S (length pre)) Hok1) as [Hok2 Hs2].
    split; [exact Hok2|congruence].
  - (* the new stub is connected behind stub i *)
    destruct (Nat.ltb i (length (l_stubs l))); [|discriminate]. inversion Hstep; subst l'; clear Hstep.
    destruct Ha as [Hp Hat].
    pose proof (new_pstate_ok tx eff Hp) as Hps.
    set (t := if eff then tx else TNoop) in *.
    destruct (wf_init t (new_pstate tx) (l_now l) Hps) as [Hw Hh].
    set (st := mkStub _ _ _ _ _ _ _ _).
    assert (Hst : stub_ok st) by (unfold stub_ok, st, eff_tx; simpl; fold t; tauto).
    assert (Hseg : seg st = []) by (unfold seg, st; simpl; fold t; rewrite Hh; reflexivity).
    exact (insert_preserves l i st Hok Hst Hseg).
  - (* a stub that is closed at once *)
    destruct (Nat.ltb i (length (l_stubs l))); [|discriminate]. inversion Hstep; subst l'; clear Hstep.
    set (st := mkStub _ _ _ _ _ _ _ _).
    assert (Hst : stub_ok st) by (unfold stub_ok, st, eff_tx; simpl; tauto).
    assert (Hseg : seg st = []) by reflexivity.
    exact (insert_preserves l i st Hok Hst Hseg).
Qed.

Definition mact_ok (l : link) (a : mact) : Prop :=
  match a with
  | MData (ASendTimeout _) => False
  | MData _ => True
  | MCtl c => ctl_ok l c
  end.

(** every action of the history is admitted in the state in which it is taken *)
Fixpoint run_ok (l : link) (sigma : list mact) : Prop :=
  match sigma with
  | [] => True
  | a :: r => mact_ok l a /\ match mixed_step l a with Some l' => run_ok l' r | None => True end
  end.

Theorem mixed_run_inv sigma : forall l l',
  link_ok l -> run_ok l sigma -> mixed_run l sigma = Some l' ->
  link_ok l' /\ stream l' = stream l.
Proof.
  induction sigma as [|a sigma IH]; intros l l' Hok Hs Hrun; simpl in Hrun.
  - inversion Hrun; subst. auto.
  - destruct (mixed_step l a) as [l1|] eqn:Hst; [|discriminate].
    cbn [run_ok] in Hs. rewrite Hst in Hs. destruct Hs as [Ha Hrest].
    assert (H1 : link_ok l1 /\ stream l1 = stream l).
    { destruct a as [d|c]; simpl in Hst.
      - apply (step_preserves l l1 d Hok); [|exact Hst]. intros i ->. exact Ha.
      - apply (ctl_preserves l c l1 Hok Ha Hst). }
    destruct H1 as [Hok1 Hs1]. destruct (IH l1 l' Hok1 Hrest Hrun) as [H2 H3].
    split; [exact H2|congruence].
Qed.

(** the state-independent part: histories without attribute writes need no look at the states *)
Definition mact_static_ok (a : mact) : Prop :=
  match a with
  | MData (ASendTimeout _) => False
  | MData _ => True
  | MCtl (CSetTx _ _) => False
  | MCtl c => forall l, ctl_ok l c
  end.

Lemma static_run_ok sigma : Forall mact_static_ok sigma -> forall l, run_ok l sigma.
Proof.
  induction 1 as [|a sigma Ha _ IH]; intros l; cbn [run_ok]; [exact I|].
  split.
  - destruct a as [d|c]; [exact Ha|]. destruct c; try exact (Ha l); contradiction.
  - destruct (mixed_step l a); [apply IH|exact I].
Qed.

(** an attribute write leaves every stage well-formed - in every state of every toxic, for every new
    value of the same toxic type - provided the bandwidth cut uses the rate its loop test read *)
Definition same_kind (a b : toxic) : bool :=
  match a, b with
  | TNoop, TNoop | TLatency _ _, TLatency _ _ | TBandwidth _, TBandwidth _ | TSlicer _ _ _, TSlicer _ _ _
  | TSlowClose _, TSlowClose _ | TTimeout _, TTimeout _ | TResetPeer _, TResetPeer _ | TLimitData _, TLimitData _ => true
  | _, _ => false
  end.

Theorem setx_keeps_wf (old new : toxic) (st : lstate) :
  bw_cut_uses_tested_rate = true -> same_kind old new = true -> wf old st -> wf new st.
Proof.
  intros Hfact Hk Hw. destruct old, new; try discriminate; destruct st; cbn [wf] in *; auto;
    try (destruct k; auto).
  destruct Hw as [Hs _]. split; [exact Hs|]. rewrite Hfact. discriminate.
Qed.

Theorem setx_ok l i tx s :
  bw_cut_uses_tested_rate = true -> link_ok l -> nth_error (l_stubs l) i = Some s ->
  same_kind (s_tx s) tx = true -> ctl_ok l (CSetTx i tx).
Proof.
  intros Hfact Hok Hn Hk. cbn [ctl_ok]. rewrite Hn.
  destruct (nth_split _ _ _ Hn) as (pre & post & Hl & _).
  unfold link_ok in Hok. rewrite Hl in Hok. destruct (ok_get _ _ _ Hok) as (Hp & Ha & Hw & Hps).
  unfold eff_tx in *. destruct (s_eff s); [|tauto].
  split; [destruct (s_tx s), tx; try discriminate; simpl in Hp |- *; auto|].
  split; [apply attrs_ok_all|].
  split; [eapply setx_keeps_wf; eassumption|].
  destruct (s_tx s), tx; try discriminate; auto.
Qed.

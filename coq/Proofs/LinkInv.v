(** M4 data path, all schedules: for a chain of data-preserving toxics inside their guards,
    [delivered ++ in flight ++ pending] is the source stream in every reachable state, whatever
    the scheduler does (C01_safety). Proved once against the stage contract. *)
From TP Require Import Model.Prelude Extracted Model.Toxics Model.Timed
     Proofs.GoArith Proofs.SlicerProofs Proofs.StageContract.
From Coq Require Import ZifyBool ZifyNat.

Definition qbytes (q : list chunk) : bytes := concat (map cdata q).
Definition seg (s : stub) : bytes := held (s_st s) ++ qbytes (s_inq s).

(** bytes inside the stubs, oldest first (the last stub is nearest to the sink) *)
Fixpoint flow (ss : list stub) : bytes :=
  match ss with [] => [] | s :: r => flow r ++ seg s end.

Fixpoint src_bytes (src : list src_ev) : bytes :=
  match src with
  | [] => []
  | SWrite _ d :: r => d ++ src_bytes r
  | SClose _ :: _ => []
  end.

Definition pending (l : link) : bytes :=
  match l_rd l with
  | RClosed => []
  | RSend c => cdata c ++ l_rest l ++ src_bytes (l_src l)
  | RIdle => l_rest l ++ src_bytes (l_src l)
  end.

Definition stream (l : link) : bytes := sink_bytes l ++ flow (l_stubs l) ++ pending l.

Definition stub_ok (s : stub) : Prop :=
  preserving (eff_tx s) /\ attrs_ok (eff_tx s) /\ wf (eff_tx s) (s_st s) /\ pstate_ok (eff_tx s) (s_ps s).

Definition link_ok (l : link) : Prop := Forall stub_ok (l_stubs l).

(** ---- list plumbing *)
Lemma flow_app a b : flow (a ++ b) = flow b ++ flow a.
Proof. induction a as [|x a IH]; simpl; [now rewrite app_nil_r|]. rewrite IH. now rewrite app_assoc. Qed.

Lemma nth_split {A} (l : list A) i x :
  nth_error l i = Some x -> exists pre post, l = pre ++ x :: post /\ length pre = i.
Proof.
  revert i; induction l as [|y l IH]; intros [|i] H; simpl in H; try discriminate.
  - inversion H; subst. exists [], l. auto.
  - destruct (IH _ H) as (pre & post & -> & Hl). exists (y :: pre), post. simpl. auto.
Qed.

Lemma set_nth_split {A} (pre : list A) x y post :
  set_nth (length pre) y (pre ++ x :: post) = pre ++ y :: post.
Proof. induction pre as [|z pre IH]; simpl; [reflexivity|now rewrite IH]. Qed.

Lemma nth_error_split {A} (pre : list A) x post :
  nth_error (pre ++ x :: post) (length pre) = Some x.
Proof. induction pre; simpl; auto. Qed.

Lemma nth_error_split_S {A} (pre : list A) x post :
  nth_error (pre ++ x :: post) (S (length pre)) = nth_error post 0.
Proof. induction pre; simpl; auto. Qed.

Lemma set_nth_split_S {A} (pre : list A) x y z post :
  set_nth (S (length pre)) z (pre ++ x :: y :: post) = pre ++ x :: z :: post.
Proof.
  replace (pre ++ x :: y :: post) with ((pre ++ [x]) ++ y :: post) by now rewrite <- app_assoc.
  replace (S (length pre)) with (length (pre ++ [x])) by (rewrite app_length; simpl; lia).
  rewrite set_nth_split. now rewrite <- app_assoc.
Qed.

Lemma qbytes_app q c : qbytes (q ++ [c]) = qbytes q ++ cdata c.
Proof. unfold qbytes. rewrite map_app, concat_app. simpl. now rewrite app_nil_r. Qed.

Lemma sink_bytes_cons (t : Z) (d : bytes) (tr : list (Z * bytes)) :
  concat (map snd (rev ((t, d) :: tr))) = concat (map snd (rev tr)) ++ d.
Proof. simpl. rewrite map_app, concat_app. simpl. now rewrite app_nil_r. Qed.

(** ---- consumer side of a hand-off: the chunk lands at the tail of the consumer's segment *)
Lemma consume_chunk (t : stub) (c : chunk) now draws :
  stub_ok t ->
  (0 <? s_cap t = false -> listens_input t = true /\ s_inq t = []) ->
  let t' := if 0 <? s_cap t
            then mkStub (s_tx t) (s_eff t) (s_st t) (s_ps t) (s_inq t ++ [c]) (s_cap t) (s_in_closed t) (s_closed t)
            else let '(st', _) := on_input (eff_tx t) (s_ps t) now draws (Some c) (s_st t) in
                 mkStub (s_tx t) (s_eff t) st' (s_ps t) (s_inq t) (s_cap t) (s_in_closed t) (s_closed t) in
  stub_ok t' /\ seg t' = seg t ++ cdata c.
Proof.
  intros (Hp & Ha & Hw & Hps) Hrv.
  destruct (0 <? s_cap t) eqn:Hcap.
  - simpl. split; [unfold stub_ok, eff_tx in *; simpl; tauto|].
    unfold seg; simpl. rewrite qbytes_app. now rewrite app_assoc.
  - destruct (Hrv eq_refl) as [Hl Hq].
    unfold listens_input in Hl.
    destruct (s_st t) as [acc tmr| | | | | | | | | | | |] eqn:Hst; simpl in Hl; try discriminate.
    destruct (on_input (eff_tx t) (s_ps t) now draws (Some c) (Idle acc tmr)) as [st' ds] eqn:Hin.
    destruct (on_input_contract _ _ _ _ _ _ _ _ _ Ha Hw Hps Hin) as [Hw' Hk].
    simpl. split.
    + unfold stub_ok, eff_tx in *; simpl. tauto.
    + unfold seg; simpl. rewrite Hst, Hq. simpl.
      unfold keeps in Hk. unfold eff_tx in *.
      destruct (if s_eff t then s_tx t else TNoop); simpl in Hp; try contradiction; rewrite Hk; now rewrite app_nil_r.
Qed.

(** ---- the step lemma *)
Lemma ok_set pre x y post : Forall stub_ok (pre ++ x :: post) -> stub_ok y -> Forall stub_ok (pre ++ y :: post).
Proof.
  intros H Hy. apply Forall_app in H as [H1 H2]. inversion H2; subst.
  apply Forall_app; split; [exact H1|constructor; assumption].
Qed.

Lemma ok_get pre x post : Forall stub_ok (pre ++ x :: post) -> stub_ok x.
Proof. intros H. apply Forall_app in H as [_ H2]. now inversion H2. Qed.

Lemma sent_step (s : stub) (c : chunk) now :
  stub_ok s -> (mode_of (s_st s) = MSend c \/ exists dl, mode_of (s_st s) = MSendT c dl) ->
  let '(st', ps') := on_sent (eff_tx s) (s_ps s) now (s_st s) in
  let s' := mkStub (s_tx s) (s_eff s) st' ps' (s_inq s) (s_cap s) (s_in_closed s) (s_closed s) in
  stub_ok s' /\ seg s = cdata c ++ seg s'.
Proof.
  intros (Hp & Ha & Hw & Hps) Hm.
  destruct (s_st s) as [| c0 k | c0 dl0 | | | | | | | | | |] eqn:Hst; simpl in Hm;
    try (destruct Hm as [Hm|[dlx Hm]]; discriminate).
  - destruct Hm as [Hm|[dlx Hm]]; [|discriminate]. inversion Hm; subst c0.
    destruct (on_sent (eff_tx s) (s_ps s) now (Send c k)) as [st' ps'] eqn:Hs.
    destruct (on_sent_contract _ _ _ _ _ _ _ Ha Hw Hps Hs) as (Hw' & Hps' & Hh).
    split; [unfold stub_ok, eff_tx in *; simpl; tauto|].
    unfold seg; simpl. rewrite Hst. rewrite Hh. now rewrite app_assoc.
  - destruct Hm as [Hm|[dlx Hm]]; [discriminate|]. inversion Hm; subst c0 dl0.
    simpl. split; [unfold stub_ok, eff_tx in *; simpl; tauto|].
    unfold seg; simpl. rewrite Hst. simpl. reflexivity.
Qed.

Lemma offer_spec (l l1 : link) (pre : list stub) (s : stub) (post : list stub) (c : chunk) :
  l_stubs l = pre ++ s :: post -> link_ok l ->
  offer l (S (length pre)) c = Some l1 ->
  exists post', l_stubs l1 = pre ++ s :: post' /\ Forall stub_ok (pre ++ s :: post') /\
     sink_bytes l1 ++ flow post' = sink_bytes l ++ flow post ++ cdata c /\
     pending l1 = pending l /\ l_now l1 = l_now l.
Proof.
  intros Hl Hok Hoff. unfold offer in Hoff. rewrite Hl, nth_error_split_S in Hoff.
  destruct post as [|t post]; simpl in Hoff.
  - (* sink *)
    destruct (l_wr_ready l <=? l_now l); [|discriminate].
    inversion Hoff; subst l1; clear Hoff. exists []. unfold deliver_sink.
    destruct (zlen (cdata c) =? 0) eqn:Hz.
    + assert (cdata c = []) by (apply zlen_nil_iff; lia).
      rewrite H, !app_nil_r. unfold link_ok in Hok. rewrite Hl in Hok. auto.
    + unfold link_ok in Hok. rewrite Hl in Hok. simpl.
      repeat split; auto. unfold sink_bytes; simpl.
      rewrite map_app, concat_app. simpl. now rewrite !app_nil_r.
  - assert (Hokt : stub_ok t).
    { unfold link_ok in Hok. rewrite Hl in Hok.
      apply Forall_app in Hok as [_ H2]. inversion H2 as [|? ? _ H3]; subst. now inversion H3. }
    pose proof (consume_chunk t c (l_now l) (l_draws l) Hokt) as Hcons.
    destruct (0 <? s_cap t) eqn:Hcap.
    + destruct (zlen (s_inq t) <? s_cap t); [|discriminate].
      inversion Hoff; subst l1; clear Hoff.
      destruct (Hcons ltac:(discriminate)) as [Hok' Hseg]. simpl in Hok', Hseg.
      eexists (_ :: post). unfold upd_stub; cbn [l_stubs]. rewrite Hl, set_nth_split_S.
      split; [reflexivity|]. split.
      * unfold link_ok in Hok. rewrite Hl in Hok.
        replace (pre ++ s :: t :: post) with ((pre ++ [s]) ++ t :: post) in Hok by now rewrite <- app_assoc.
        pose proof (ok_set _ _ _ _ Hok Hok') as H. now rewrite <- app_assoc in H.
      * unfold sink_bytes, pending; simpl. rewrite Hseg. now rewrite !app_assoc.
    + destruct (listens_input t && match s_inq t with [] => true | _ => false end) eqn:Hrv; [|discriminate].
      apply andb_prop in Hrv as [Hli Hq].
      assert (Hq' : s_inq t = []) by (destruct (s_inq t); [reflexivity|discriminate]).
      destruct (Hcons ltac:(auto)) as [Hok' Hseg].
      inversion Hoff; subst l1; clear Hoff.
      unfold stub_input.
      destruct (on_input (eff_tx t) (s_ps t) (l_now l) (l_draws l) (Some c) (s_st t)) as [st' ds] eqn:Hin.
      simpl in Hok', Hseg.
      eexists (_ :: post). cbn [l_stubs]. rewrite Hl, set_nth_split_S.
      split; [reflexivity|]. split.
      * unfold link_ok in Hok. rewrite Hl in Hok.
        replace (pre ++ s :: t :: post) with ((pre ++ [s]) ++ t :: post) in Hok by now rewrite <- app_assoc.
        pose proof (ok_set _ _ _ _ Hok Hok') as H. now rewrite <- app_assoc in H.
      * unfold sink_bytes, pending; simpl. rewrite Hseg. now rewrite !app_assoc.
Qed.

Lemma stream_split l pre s post :
  l_stubs l = pre ++ s :: post ->
  stream l = sink_bytes l ++ flow post ++ seg s ++ flow pre ++ pending l.
Proof.
  intros Hl. unfold stream. rewrite Hl, flow_app. simpl. now rewrite <- !app_assoc.
Qed.

Lemma upd_stub_fields l i s :
  sink_bytes (upd_stub l i s) = sink_bytes l /\ pending (upd_stub l i s) = pending l.
Proof. split; reflexivity. Qed.

Theorem step_preserves (l l' : link) (a : act) :
  link_ok l -> (forall i, a <> ASendTimeout i) ->
  sched_step l a = Some l' ->
  link_ok l' /\ stream l' = stream l.
Proof.
  intros Hok Hnt Hstep.
  destruct a as [i|i|i| |t]; simpl in Hstep.
  - (* AMove *)
    unfold stub_move in Hstep.
    destruct (nth_error (l_stubs l) i) as [s|] eqn:Hn; [|discriminate].
    destruct (nth_split _ _ _ Hn) as (pre & post & Hl & Hlen). subst i.
    pose proof Hok as Hok0. unfold link_ok in Hok0. rewrite Hl in Hok0.
    pose proof (ok_get _ _ _ Hok0) as Hs.
    destruct (mode_of (s_st s)) as [inp intr tm|c|c dl| | |] eqn:Hm; try discriminate.
    + (* receive *)
      destruct inp; [|discriminate].
      destruct (s_st s) as [acc tmr| | | | | | | | | | | |] eqn:Hst; simpl in Hm; try discriminate.
      destruct Hs as (Hp & Ha & Hw & Hps).
      assert (Hgen : forall (c : option chunk) q,
                 seg s = match c with Some ch => cdata ch | None => [] end ++ qbytes q ->
                 link_ok (stub_input l (length pre) s c q) /\ stream (stub_input l (length pre) s c q) = stream l).
      { intros c q Hseg. unfold stub_input. rewrite Hst.
        destruct (on_input (eff_tx s) (s_ps s) (l_now l) (l_draws l) c (Idle acc tmr)) as [st' ds] eqn:Hin.
        rewrite Hst in Hw.
        destruct (on_input_contract _ _ _ _ _ _ _ _ _ Ha Hw Hps Hin) as [Hw' Hk].
        set (s' := mkStub _ _ st' _ q _ _ _).
        assert (Hok' : stub_ok s') by (unfold stub_ok, s', eff_tx in *; simpl; tauto).
        assert (Hseg' : seg s' = seg s).
        { rewrite Hseg. unfold seg, s'; simpl. f_equal.
          destruct c as [ch|]; [|exact Hk].
          unfold keeps, eff_tx in *. destruct (if s_eff s then s_tx s else TNoop); simpl in Hp; try contradiction; exact Hk. }
        split.
        - unfold link_ok; simpl. rewrite Hl, set_nth_split. eapply ok_set; eassumption.
        - rewrite (stream_split l pre s post Hl).
          erewrite (stream_split _ pre s' post) by (simpl; rewrite Hl; apply set_nth_split).
          rewrite Hseg'. reflexivity. }
      destruct (s_inq s) as [|c q] eqn:Hq.
      * destruct (s_in_closed s); [|discriminate]. inversion Hstep; subst l'.
        apply Hgen. unfold seg. rewrite Hst, Hq. reflexivity.
      * inversion Hstep; subst l'. apply Hgen. unfold seg. rewrite Hst, Hq. reflexivity.
    + (* send *)
      destruct (offer l (S (length pre)) c) as [l1|] eqn:Hoff; [|discriminate].
      destruct (offer_spec _ _ _ _ _ _ Hl Hok Hoff) as (post' & Hl1 & Hok1 & Hbytes & Hpend & Hnow).
      rewrite Hl1, nth_error_split in Hstep. inversion Hstep; subst l'; clear Hstep.
      pose proof (sent_step s c (l_now l1) Hs (or_introl Hm)) as Hsent.
      unfold stub_sent.
      destruct (on_sent (eff_tx s) (s_ps s) (l_now l1) (s_st s)) as [st' ps'] eqn:Hos.
      destruct Hsent as [Hs' Hseg].
      split.
      * unfold link_ok, upd_stub; simpl. rewrite Hl1, set_nth_split. eapply ok_set; eassumption.
      * rewrite (stream_split l pre s post Hl).
        erewrite (stream_split _ pre _ post') by (unfold upd_stub; simpl; rewrite Hl1; apply set_nth_split).
        destruct (upd_stub_fields l1 (length pre)
                    (mkStub (s_tx s) (s_eff s) st' ps' (s_inq s) (s_cap s) (s_in_closed s) (s_closed s))) as [E1 E2].
        rewrite E1, E2, Hpend, Hseg.
        rewrite !app_assoc. rewrite Hbytes. now rewrite <- !app_assoc.
    + (* send with timeout armed (WriteOutput) *)
      destruct (offer l (S (length pre)) c) as [l1|] eqn:Hoff; [|discriminate].
      destruct (offer_spec _ _ _ _ _ _ Hl Hok Hoff) as (post' & Hl1 & Hok1 & Hbytes & Hpend & Hnow).
      rewrite Hl1, nth_error_split in Hstep. inversion Hstep; subst l'; clear Hstep.
      pose proof (sent_step s c (l_now l1) Hs (or_intror (ex_intro _ dl Hm))) as Hsent.
      unfold stub_sent.
      destruct (on_sent (eff_tx s) (s_ps s) (l_now l1) (s_st s)) as [st' ps'] eqn:Hos.
      destruct Hsent as [Hs' Hseg].
      split.
      * unfold link_ok, upd_stub; simpl. rewrite Hl1, set_nth_split. eapply ok_set; eassumption.
      * rewrite (stream_split l pre s post Hl).
        erewrite (stream_split _ pre _ post') by (unfold upd_stub; simpl; rewrite Hl1; apply set_nth_split).
        destruct (upd_stub_fields l1 (length pre)
                    (mkStub (s_tx s) (s_eff s) st' ps' (s_inq s) (s_cap s) (s_in_closed s) (s_closed s))) as [E1 E2].
        rewrite E1, E2, Hpend, Hseg.
        rewrite !app_assoc. rewrite Hbytes. now rewrite <- !app_assoc.
    + (* close *)
      inversion Hstep; subst l'; clear Hstep.
      destruct (s_st s) eqn:Hst; simpl in Hm; try discriminate.
      set (s' := mkStub (s_tx s) (s_eff s) Exited (s_ps s) (s_inq s) (s_cap s) (s_in_closed s) true).
      assert (Hs' : stub_ok s').
      { destruct Hs as (Hp & Ha & Hw & Hps). unfold stub_ok, s', eff_tx in *; simpl. tauto. }
      assert (Hseg : seg s' = seg s) by (unfold seg, s'; simpl; now rewrite Hst).
      unfold close_downstream.
      assert (Hl1 : l_stubs (upd_stub l (length pre) s') = pre ++ s' :: post)
        by (unfold upd_stub; cbn [l_stubs]; rewrite Hl; apply set_nth_split).
      rewrite Hl1, nth_error_split_S.
      destruct post as [|t post]; cbn [nth_error].
      * split; [unfold link_ok; cbn [l_stubs]; eapply ok_set; eassumption|].
        unfold stream, sink_bytes, pending; cbn [l_stubs l_trace l_rd l_rest l_src upd_stub].
        rewrite Hl, !flow_app. simpl. now rewrite Hseg.
      * set (t' := mkStub (s_tx t) (s_eff t) (s_st t) (s_ps t) (s_inq t) (s_cap t) true (s_closed t)).
        assert (Ht : stub_ok t).
        { apply Forall_app in Hok0 as [_ H2]. inversion H2 as [|? ? _ H3]; subst. now inversion H3. }
        assert (Ht' : stub_ok t') by (unfold stub_ok, t', eff_tx in *; simpl; tauto).
        set (l2 := upd_stub (upd_stub l (length pre) s') (S (length pre)) t').
        assert (Hl2 : l_stubs l2 = pre ++ s' :: t' :: post)
          by (unfold l2, upd_stub; cbn [l_stubs]; rewrite Hl, set_nth_split, set_nth_split_S; reflexivity).
        split.
        -- unfold link_ok. rewrite Hl2.
           replace (pre ++ s' :: t' :: post) with ((pre ++ [s']) ++ t' :: post) by now rewrite <- app_assoc.
           eapply ok_set; [|exact Ht'].
           rewrite <- app_assoc. simpl. eapply ok_set; eassumption.
        -- unfold stream. rewrite Hl2, Hl.
           change (sink_bytes l2) with (sink_bytes l). change (pending l2) with (pending l).
           rewrite !flow_app. simpl.
           replace (seg t') with (seg t) by reflexivity. now rewrite Hseg.
  - (* ATimer *)
    unfold stub_timer in Hstep.
    destruct (nth_error (l_stubs l) i) as [s|] eqn:Hn; [|discriminate].
    destruct (nth_split _ _ _ Hn) as (pre & post & Hl & Hlen). subst i.
    pose proof Hok as Hok0. unfold link_ok in Hok0. rewrite Hl in Hok0.
    destruct (ok_get _ _ _ Hok0) as (Hp & Ha & Hw & Hps).
    destruct (mode_of (s_st s)); try discriminate.
    destruct (timer_due (l_now l) timer); [|discriminate].
    inversion Hstep; subst l'; clear Hstep.
    destruct (on_timer_contract _ (l_now l) _ Ha Hw) as [Hw' Hh].
    set (s' := with_st s _).
    assert (Hs' : stub_ok s') by (unfold stub_ok, s', with_st, eff_tx in *; simpl; tauto).
    assert (Hseg : seg s' = seg s) by (unfold seg, s', with_st; simpl; now rewrite Hh).
    split; [unfold link_ok; simpl; rewrite Hl, set_nth_split; eapply ok_set; eassumption|].
    rewrite (stream_split l pre s post Hl).
    erewrite (stream_split _ pre s' post) by (simpl; rewrite Hl; apply set_nth_split).
    now rewrite Hseg.
  - exfalso. eapply Hnt. reflexivity.
  - (* AReader *)
    unfold try_reader in Hstep.
    destruct (l_rd l) as [|c|] eqn:Hrd; [| |discriminate].
    + destruct (l_rest l) as [|b rest] eqn:Hrest.
      * destruct (l_src l) as [|[t d|t] src'] eqn:Hsrc; [discriminate| |].
        -- destruct (t <=? l_now l); [|discriminate].
           destruct d as [|b d].
           ++ inversion Hstep; subst l'. split; [exact Hok|].
              unfold stream, pending, sink_bytes; simpl. rewrite Hrd, Hrest, Hsrc. reflexivity.
           ++ inversion Hstep; subst l'. split; [exact Hok|].
              unfold stream, pending, sink_bytes, take_piece; simpl. rewrite Hrd, Hrest, Hsrc. simpl.
              rewrite (app_assoc (firstn _ _)), firstn_skipn. reflexivity.
        -- destruct (t <=? l_now l); [|discriminate]. inversion Hstep; subst l'; clear Hstep.
           unfold close_downstream; simpl.
           destruct (l_stubs l) as [|s0 ss] eqn:Hss; simpl.
           ++ split; [unfold link_ok; simpl; constructor|].
              unfold stream, pending, sink_bytes; simpl. rewrite ?Hrd, ?Hrest, ?Hsrc, ?Hss. reflexivity.
           ++ unfold link_ok in *. rewrite Hss in Hok. inversion Hok; subst.
              split.
              ** unfold upd_stub; simpl. rewrite ?Hss. simpl. constructor; [|assumption].
                 unfold stub_ok, eff_tx in *; simpl. tauto.
              ** unfold stream, pending, sink_bytes, upd_stub; simpl. rewrite ?Hrd, ?Hrest, ?Hsrc, ?Hss. simpl.
                 reflexivity.
      * inversion Hstep; subst l'. split; [exact Hok|].
        unfold stream, pending, sink_bytes, take_piece; simpl. rewrite Hrd, Hrest. simpl.
        rewrite (app_assoc (firstn _ _)), firstn_skipn. reflexivity.
    + destruct (offer l 0 c) as [l1|] eqn:Hoff; [|discriminate].
      inversion Hstep; subst l'; clear Hstep.
      (* the reader hands its chunk to stub 0 (or to the sink of an empty chain) *)
      unfold offer in Hoff.
      destruct (l_stubs l) as [|t ss] eqn:Hss; simpl in Hoff.
      * destruct (l_wr_ready l <=? l_now l); [|discriminate].
        inversion Hoff; subst l1. unfold deliver_sink.
        destruct (zlen (cdata c) =? 0) eqn:Hz.
        -- assert (Hc : cdata c = []) by (apply zlen_nil_iff; lia).
           split; [unfold link_ok; simpl; rewrite Hss; constructor|].
           unfold stream, pending, sink_bytes; simpl. rewrite Hrd, Hss, Hc. reflexivity.
        -- split; [unfold link_ok; simpl; rewrite Hss; constructor|].
           unfold stream, pending, sink_bytes; simpl. rewrite Hrd, Hss. simpl.
           rewrite map_app, concat_app. simpl. now rewrite app_nil_r, <- app_assoc.
      * unfold link_ok in Hok. rewrite Hss in Hok. inversion Hok as [|? ? Ht Hrest']; subst.
        pose proof (consume_chunk t c (l_now l) (l_draws l) Ht) as Hcons.
        destruct (0 <? s_cap t) eqn:Hcap.
        -- destruct (zlen (s_inq t) <? s_cap t); [|discriminate]. inversion Hoff; subst l1; clear Hoff.
           destruct (Hcons ltac:(discriminate)) as [Hok' Hseg]. simpl in Hok', Hseg.
           split; [unfold link_ok; simpl; rewrite Hss; simpl; constructor; assumption|].
           unfold stream, pending, sink_bytes; simpl. rewrite Hrd, Hss. simpl.
           rewrite Hseg. now rewrite <- !app_assoc.
        -- destruct (listens_input t && match s_inq t with [] => true | _ => false end) eqn:Hrv; [|discriminate].
           apply andb_prop in Hrv as [Hli Hq].
           assert (Hq' : s_inq t = []) by (destruct (s_inq t); [reflexivity|discriminate]).
           destruct (Hcons ltac:(auto)) as [Hok' Hseg].
           inversion Hoff; subst l1; clear Hoff. unfold stub_input.
           destruct (on_input (eff_tx t) (s_ps t) (l_now l) (l_draws l) (Some c) (s_st t)) as [st' ds] eqn:Hin.
           simpl in Hok', Hseg.
           split; [unfold link_ok; simpl; rewrite Hss; simpl; constructor; assumption|].
           unfold stream, pending, sink_bytes; simpl. rewrite Hrd, Hss. simpl.
           rewrite Hseg. now rewrite <- !app_assoc.
  - destruct (l_now l <=? t); [|discriminate]. inversion Hstep; subst l'. split; [exact Hok|reflexivity].
Qed.

(** A dead stub is a wall (C10: removing a timeout toxic closes the connection instead of resuming
    the stream; also the shape of finding F7). A stub whose stage has returned and that is closed
    takes no action of its own under any schedule and any control action, stays that way for ever,
    and therefore never hands anything to its consumer: in the positional pipeline the only
    hand-offs to position i+1 are stub i's own send ([stub_move]) and RemoveToxic's flush of stub i
    ([CForward i]), and both are disabled. What its producer hands to it piles up in its input
    buffer (capacity [s_cap]) and then blocks the producer. *)
From TP Require Import Model.Prelude Extracted Model.Toxics Model.Timed Model.Reconf Proofs.GoArith Proofs.LinkFrame.
From Coq Require Import ZifyBool ZifyNat.

Definition dead (s : stub) : bool := is_exited s && s_closed s.
Definition wall (l : link) (i : nat) : Prop := exists s, nth_error (l_stubs l) i = Some s /\ dead s = true.

Lemma dead_exited s : dead s = true -> s_st s = Exited /\ s_closed s = true.
Proof.
  unfold dead, is_exited. intros H. apply andb_prop in H as [H1 H2].
  destruct (s_st s); try discriminate. auto.
Qed.

(** ---- silence: every action of the stub itself, and every control action aimed at it, is disabled *)
Theorem wall_silent_data l i : wall l i ->
  sched_step l (AMove i) = None /\ sched_step l (ATimer i) = None /\ sched_step l (ASendTimeout i) = None.
Proof.
  intros (s & Hn & Hd). destruct (dead_exited s Hd) as [Hst Hc].
  cbn [sched_step]. unfold stub_move, stub_timer, stub_send_timeout. rewrite Hn, Hst. cbn [mode_of]. auto.
Qed.

Theorem wall_silent_ctl l i : wall l i ->
  ctl_step l (CInterrupt i) = None /\ (forall tx eff, ctl_step l (CRestart i tx eff) = None) /\
  ctl_step l (CForward i) = None /\ ctl_step l (CForwardDrop i) = None /\
  ctl_step l (CDelete i) = None /\ ctl_step l (CSever i) = None.
Proof.
  intros (s & Hn & Hd). destruct (dead_exited s Hd) as [Hst Hc].
  cbn [ctl_step]. rewrite Hn. unfold listens_interrupt, is_exited. rewrite Hst, Hc. cbn. repeat split; reflexivity.
Qed.

(** ---- permanence *)
Lemma nth_set_nth_same {A} (l : list A) i x y : nth_error l i = Some y -> nth_error (set_nth i x l) i = Some x.
Proof. revert i; induction l as [|z l IH]; intros [|i] H; simpl in *; try discriminate; auto. Qed.

Lemma nth_set_nth_other {A} (l : list A) i j x : i <> j -> nth_error (set_nth i x l) j = nth_error l j.
Proof.
  revert i j; induction l as [|z l IH]; intros [|i] [|j] H; simpl; auto; try lia; try (apply IH; lia).
Qed.

(** replacing stub j by one that is dead whenever the old one was keeps every wall *)
Lemma wall_upd l i j s' :
  (forall s, nth_error (l_stubs l) j = Some s -> dead s = true -> dead s' = true) ->
  wall l i -> wall (upd_stub l j s') i.
Proof.
  intros Hmono (s & Hn & Hd). unfold wall, upd_stub; cbn [l_stubs].
  destruct (Nat.eq_dec j i) as [->|Hne].
  - exists s'. split; [eapply nth_set_nth_same; exact Hn|]. eapply Hmono; eassumption.
  - exists s. split; [rewrite nth_set_nth_other by exact Hne; exact Hn|exact Hd].
Qed.

Lemma wall_stub_input l i j s c q :
  nth_error (l_stubs l) j = Some s -> listens_input s = true -> wall l i -> wall (stub_input l j s c q) i.
Proof.
  intros Hn Hl Hw. unfold stub_input. destruct (on_input _ _ _ _ _ _) as [st' ds].
  destruct Hw as (t & Hnt & Hd). unfold wall; cbn [l_stubs].
  destruct (Nat.eq_dec j i) as [->|Hne].
  - exfalso. rewrite Hn in Hnt. inversion Hnt; subst t. destruct (dead_exited s Hd) as [Hst _].
    unfold listens_input in Hl. rewrite Hst in Hl. discriminate.
  - exists t. split; [rewrite nth_set_nth_other by exact Hne; exact Hnt|exact Hd].
Qed.

Lemma wall_offer l i j c l1 : offer l j c = Some l1 -> wall l i -> wall l1 i.
Proof.
  unfold offer. destruct (nth_error (l_stubs l) j) as [t|] eqn:Hn.
  - destruct (0 <? s_cap t).
    + destruct (zlen (s_inq t) <? s_cap t); [|discriminate]. intros H; inversion H; subst.
      apply wall_upd. intros s Hs Hd. rewrite Hn in Hs. inversion Hs; subst s. exact Hd.
    + destruct (listens_input t && _) eqn:E; [|discriminate]. intros H; inversion H; subst.
      apply andb_prop in E as [E _]. apply wall_stub_input; assumption.
  - destruct (l_wr_ready l <=? l_now l); [|discriminate]. intros H; inversion H; subst.
    intros (s & Hs & Hd). exists s. unfold deliver_sink. destruct (zlen (cdata c) =? 0); cbn [l_stubs]; auto.
Qed.

Lemma wall_close_downstream l i j : wall l i -> wall (close_downstream l j) i.
Proof.
  intros Hw. unfold close_downstream. destruct (nth_error (l_stubs l) j) as [t|] eqn:Hn.
  - apply wall_upd; [|exact Hw]. intros s Hs Hd. rewrite Hn in Hs. inversion Hs; subst s. exact Hd.
  - destruct Hw as (s & Hs & Hd). exists s. auto.
Qed.

Lemma wall_set_own l i j s s' :
  nth_error (l_stubs l) j = Some s -> dead s = false -> wall l i -> wall (upd_stub l j s') i.
Proof.
  intros Hn Hnd Hw. apply wall_upd; [|exact Hw]. intros t Ht Hd. rewrite Hn in Ht. inversion Ht; subst t. congruence.
Qed.

Lemma not_dead_mode s : s_st s <> Exited -> dead s = false.
Proof. unfold dead, is_exited. intros H. destruct (s_st s); try reflexivity. contradiction. Qed.

(** every data-path action, on every schedule, keeps every wall *)
Theorem wall_step l a l' i : sched_step l a = Some l' -> wall l i -> wall l' i.
Proof.
  intros H Hw. destruct a as [j|j|j| |t]; simpl in H.
  - unfold stub_move in H.
    destruct (nth_error (l_stubs l) j) as [s|] eqn:Hn; [|discriminate].
    destruct (mode_of (s_st s)) as [inp intr tm|c|c dl| | |] eqn:Hm; try discriminate.
    + destruct inp; [|discriminate].
      assert (Hli : listens_input s = true).
      { unfold listens_input. destruct (s_st s); simpl in Hm; try discriminate; inversion Hm; reflexivity. }
      destruct (s_inq s); [destruct (s_in_closed s); [|discriminate]|];
        inversion H; subst; apply wall_stub_input; assumption.
    + destruct (offer l (S j) c) as [l1|] eqn:Ho; [|discriminate].
      pose proof (wall_offer _ i _ _ _ Ho Hw) as Hw1.
      destruct (nth_error (l_stubs l1) j) as [s1|] eqn:Hn1; [|discriminate].
      inversion H; subst. unfold stub_sent. destruct (on_sent _ _ _ _) as [st' ps'].
      assert (Hnd : dead s1 = false).
      { destruct (offer_frame _ _ _ _ Ho) as [_ _].
        (* stub j itself is not touched by an offer to j+1, or only its queue is: its state is still a send *)
        destruct (dead s1) eqn:E; [|reflexivity]. exfalso.
        destruct (dead_exited s1 E) as [Hst1 _].
        (* a dead stub at j in l1 means a wall at j in l1; but l's stub j was sending: offers never kill *)
        clear -Ho Hn Hn1 Hm Hst1.
        unfold offer in Ho. destruct (nth_error (l_stubs l) (S j)) as [t|] eqn:Hnt.
        - destruct (0 <? s_cap t).
          + destruct (zlen (s_inq t) <? s_cap t); [|discriminate]. inversion Ho; subst.
            unfold upd_stub in Hn1; cbn [l_stubs] in Hn1. rewrite nth_set_nth_other in Hn1 by lia.
            rewrite Hn in Hn1. inversion Hn1; subst. rewrite Hst1 in Hm. discriminate.
          + destruct (listens_input t && _); [|discriminate]. inversion Ho; subst.
            unfold stub_input in Hn1. destruct (on_input _ _ _ _ _ _) as [st2 ds2]. cbn [l_stubs] in Hn1.
            rewrite nth_set_nth_other in Hn1 by lia. rewrite Hn in Hn1. inversion Hn1; subst. rewrite Hst1 in Hm. discriminate.
        - destruct (l_wr_ready l <=? l_now l); [|discriminate]. inversion Ho; subst.
          unfold deliver_sink in Hn1. destruct (zlen (cdata c) =? 0); cbn [l_stubs] in Hn1;
            rewrite Hn in Hn1; inversion Hn1; subst; rewrite Hst1 in Hm; discriminate. }
      eapply wall_set_own; eassumption.
    + destruct (offer l (S j) c) as [l1|] eqn:Ho; [|discriminate].
      pose proof (wall_offer _ i _ _ _ Ho Hw) as Hw1.
      destruct (nth_error (l_stubs l1) j) as [s1|] eqn:Hn1; [|discriminate].
      inversion H; subst. unfold stub_sent. destruct (on_sent _ _ _ _) as [st' ps'].
      assert (Hnd : dead s1 = false).
      { destruct (dead s1) eqn:E; [|reflexivity]. exfalso.
        destruct (dead_exited s1 E) as [Hst1 _].
        clear -Ho Hn Hn1 Hm Hst1.
        unfold offer in Ho. destruct (nth_error (l_stubs l) (S j)) as [t|] eqn:Hnt.
        - destruct (0 <? s_cap t).
          + destruct (zlen (s_inq t) <? s_cap t); [|discriminate]. inversion Ho; subst.
            unfold upd_stub in Hn1; cbn [l_stubs] in Hn1. rewrite nth_set_nth_other in Hn1 by lia.
            rewrite Hn in Hn1. inversion Hn1; subst. rewrite Hst1 in Hm. discriminate.
          + destruct (listens_input t && _); [|discriminate]. inversion Ho; subst.
            unfold stub_input in Hn1. destruct (on_input _ _ _ _ _ _) as [st2 ds2]. cbn [l_stubs] in Hn1.
            rewrite nth_set_nth_other in Hn1 by lia. rewrite Hn in Hn1. inversion Hn1; subst. rewrite Hst1 in Hm. discriminate.
        - destruct (l_wr_ready l <=? l_now l); [|discriminate]. inversion Ho; subst.
          unfold deliver_sink in Hn1. destruct (zlen (cdata c) =? 0); cbn [l_stubs] in Hn1;
            rewrite Hn in Hn1; inversion Hn1; subst; rewrite Hst1 in Hm; discriminate. }
      eapply wall_set_own; eassumption.
    + inversion H; subst. apply wall_close_downstream.
      apply wall_upd; [|exact Hw]. intros t Ht _. reflexivity.
  - unfold stub_timer in H.
    destruct (nth_error (l_stubs l) j) as [s|] eqn:Hn; [|discriminate].
    destruct (mode_of (s_st s)) eqn:Hm; try discriminate.
    destruct (timer_due _ _); [|discriminate]. inversion H; subst.
    eapply wall_set_own; [exact Hn| |exact Hw]. apply not_dead_mode. intros E. rewrite E in Hm. discriminate.
  - unfold stub_send_timeout in H.
    destruct (nth_error (l_stubs l) j) as [s|] eqn:Hn; [|discriminate].
    destruct (mode_of (s_st s)) eqn:Hm; try discriminate.
    destruct (_ <=? _); [|discriminate]. inversion H; subst.
    eapply wall_set_own; [exact Hn| |exact Hw]. apply not_dead_mode. intros E. rewrite E in Hm. discriminate.
  - unfold try_reader in H.
    destruct (l_rd l) as [|c|]; [| |discriminate].
    + destruct (l_rest l).
      * destruct (l_src l) as [|[t d|t] src']; [discriminate| |].
        -- destruct (t <=? l_now l); [|discriminate]. destruct d; inversion H; subst; exact Hw.
        -- destruct (t <=? l_now l); [|discriminate]. inversion H; subst.
           apply wall_close_downstream. exact Hw.
      * inversion H; subst. exact Hw.
    + destruct (offer l 0 c) as [l1|] eqn:Ho; [|discriminate]. inversion H; subst.
      pose proof (wall_offer _ i _ _ _ Ho Hw) as (s & Hs & Hd). exists s. auto.
  - destruct (l_now l <=? t); [|discriminate]. inversion H; subst. exact Hw.
Qed.

Theorem wall_run sigma : forall l l' i, sched_run l sigma = Some l' -> wall l i -> wall l' i.
Proof.
  induction sigma as [|a sigma IH]; intros l l' i H Hw; simpl in H; [inversion H; subst; exact Hw|].
  destruct (sched_step l a) as [l1|] eqn:Hs; [|discriminate].
  eapply IH; [exact H|]. eapply wall_step; eassumption.
Qed.

(** ---- the removal of a timeout toxic: interrupt, then Cleanup closes the stub *)
Theorem sever_makes_wall l i l' :
  ctl_step l (CSever i) = Some l' ->
  wall l' i /\
  match nth_error (l_stubs l') (S i) with
  | Some t => s_in_closed t = true                  (* the next stage sees end-of-stream *)
  | None => l_sink_closed l' <> None                (* ... or the writer does: the connection is closed *)
  end /\
  sink_bytes l' = sink_bytes l.                     (* and nothing is delivered by the removal itself *)
Proof.
  cbn [ctl_step]. destruct (nth_error (l_stubs l) i) as [s|] eqn:Hn; [|discriminate].
  destruct (is_exited s && negb (s_closed s)) eqn:Hc; [|discriminate]. intros H; inversion H; subst; clear H.
  apply andb_prop in Hc as [Hex _].
  set (s' := mkStub _ _ _ _ _ _ _ true). set (l1 := upd_stub l i s').
  assert (Hn1 : nth_error (l_stubs l1) i = Some s') by (unfold l1, upd_stub; cbn [l_stubs]; eapply nth_set_nth_same; exact Hn).
  assert (Hd' : dead s' = true) by (unfold dead, is_exited, s' in *; cbn [s_st s_closed]; rewrite Bool.andb_true_r; exact Hex).
  assert (Hw1 : wall l1 i) by (exists s'; split; [exact Hn1|exact Hd']).
  split; [apply wall_close_downstream; exact Hw1|]. split.
  - unfold close_downstream. destruct (nth_error (l_stubs l1) (S i)) as [t|] eqn:Ht.
    + unfold upd_stub; cbn [l_stubs]. erewrite nth_set_nth_same by exact Ht. reflexivity.
    + cbn [l_stubs l_sink_closed]. rewrite Ht. discriminate.
  - unfold close_downstream. destruct (nth_error (l_stubs l1) (S i)); reflexivity.
Qed.

(** a timeout stage always listens to the interrupt, whatever it is doing (it is never in a send) *)
Theorem timeout_interruptible acc tmr : mode_of (Idle acc tmr) = MSelect true true tmr.
Proof. reflexivity. Qed.

Theorem timeout_interrupt_exits now acc tmr : on_interrupt now (Idle acc tmr) = Exited.
Proof. reflexivity. Qed.

(** ---- permanence under the control actions too (a splice upstream of the wall shifts its index) *)
Lemma nth_remove_nth_lt {A} (l : list A) : forall j i, (j < i)%nat -> nth_error (remove_nth j l) (i - 1) = nth_error l i.
Proof.
  induction l as [|x l IH]; intros j i H.
  - destruct j, i; simpl; try lia; destruct (i - 0)%nat; reflexivity.
  - destruct j as [|j], i as [|i]; try lia; cbn [remove_nth].
    + simpl. now rewrite Nat.sub_0_r.
    + destruct i as [|i]; [lia|]. replace (S (S i) - 1)%nat with (S (S i - 1)) by lia. cbn [nth_error].
      apply IH. lia.
Qed.

Lemma nth_remove_nth_gt {A} (l : list A) : forall j i, (i < j)%nat -> nth_error (remove_nth j l) i = nth_error l i.
Proof.
  induction l as [|x l IH]; intros [|j] [|i] H; simpl; try lia; auto. apply IH. lia.
Qed.

Lemma nth_app_keep {A} (l : list A) x i s : nth_error l i = Some s -> nth_error (l ++ [x]) i = Some s.
Proof. intros H. rewrite nth_error_app1; [exact H|]. apply nth_error_Some. congruence. Qed.

Lemma nth_insert_le {A} (l : list A) n x i s : (i < n)%nat -> nth_error l i = Some s ->
  nth_error (firstn n l ++ x :: skipn n l) i = Some s.
Proof.
  revert n i; induction l as [|y l IH]; intros n i H Hs.
  - destruct i; discriminate.
  - destruct n as [|n]; [lia|]. destruct i as [|i]; [exact Hs|]. simpl in *. apply IH; [lia|exact Hs].
Qed.

Lemma nth_insert_gt {A} (l : list A) n x i s : (n <= i)%nat -> nth_error l i = Some s ->
  nth_error (firstn n l ++ x :: skipn n l) (S i) = Some s.
Proof.
  revert n i; induction l as [|y l IH]; intros n i H Hs.
  - destruct i; discriminate.
  - destruct n as [|n]; [exact Hs|]. destruct i as [|i]; [lia|]. simpl in *. apply IH; [lia|exact Hs].
Qed.

Lemma wall_insert l i j st l' :
  l_stubs l' = firstn (S j) (l_stubs l) ++ st :: skipn (S j) (l_stubs l) -> wall l i ->
  if (j <? i)%nat then wall l' (S i) else wall l' i.
Proof.
  intros Hl (t & Ht & Hd). destruct (Nat.ltb_spec j i) as [Hlt|Hge]; exists t; rewrite Hl; (split; [|exact Hd]).
  - apply nth_insert_gt; [lia|exact Ht].
  - apply nth_insert_le; [lia|exact Ht].
Qed.

Theorem wall_ctl l a l' i : ctl_step l a = Some l' -> wall l i ->
  match a with
  | CDelete j => if (j <? i)%nat then wall l' (i - 1) else wall l' i
  | CInsertAfter j _ _ | CInsertDead j _ => if (j <? i)%nat then wall l' (S i) else wall l' i
  | _ => wall l' i
  end.
Proof.
  intros H Hw. destruct a as [j|j tx eff|tx eff|j|j|j|j|j tx|j|j|j tx eff|j tx]; cbn [ctl_step] in H.
  - destruct (nth_error (l_stubs l) j) as [s|] eqn:Hn; [|discriminate].
    destruct (listens_interrupt s) eqn:Hli; [|discriminate]. inversion H; subst.
    eapply wall_set_own; [exact Hn| |exact Hw]. apply not_dead_mode. intros E.
    unfold listens_interrupt in Hli. rewrite E in Hli. discriminate.
  - destruct (nth_error (l_stubs l) j) as [s|] eqn:Hn; [|discriminate].
    destruct (is_exited s && negb (s_closed s)) eqn:Hc; [|discriminate]. inversion H; subst.
    eapply wall_set_own; [exact Hn| |exact Hw]. unfold dead. apply andb_prop in Hc as [-> Hc].
    destruct (s_closed s); [discriminate|reflexivity].
  - inversion H; subst. destruct Hw as (s & Hs & Hd). exists s. cbn [l_stubs]. split; [apply nth_app_keep; exact Hs|exact Hd].
  - destruct (nth_error (l_stubs l) j) as [s|] eqn:Hn; [|discriminate].
    destruct (is_exited s && negb (s_closed s)); [|discriminate].
    destruct (s_inq s) as [|c q]; [discriminate|].
    destruct (offer l (S j) c) as [l1|] eqn:Ho; [|discriminate].
    pose proof (wall_offer _ i _ _ _ Ho Hw) as Hw1.
    destruct (nth_error (l_stubs l1) j) as [s1|] eqn:Hn1; [|discriminate]. inversion H; subst.
    apply wall_upd; [|exact Hw1]. intros t Ht Hd. rewrite Hn1 in Ht. inversion Ht; subst t. exact Hd.
  - destruct (nth_error (l_stubs l) j) as [s|] eqn:Hn; [|discriminate].
    destruct (is_exited s && negb (s_closed s)); [|discriminate].
    destruct (s_inq s) as [|c q]; [discriminate|]. inversion H; subst.
    apply wall_upd; [|exact Hw]. intros t Ht Hd. rewrite Hn in Ht. inversion Ht; subst t. exact Hd.
  - destruct (nth_error (l_stubs l) j) as [s|] eqn:Hn; [|discriminate].
    destruct (is_exited s && negb (s_closed s) && _ && _) eqn:Hc; [|discriminate]. inversion H; subst.
    destruct Hw as (t & Ht & Hd). unfold wall; cbn [l_stubs].
    destruct (Nat.ltb_spec j i) as [Hlt|Hge].
    + exists t. rewrite nth_remove_nth_lt by exact Hlt. auto.
    + destruct (Nat.eq_dec j i) as [->|Hne].
      * exfalso. rewrite Hn in Ht. inversion Ht; subst t.
        apply andb_prop in Hc as [Hc _]. apply andb_prop in Hc as [Hc _]. apply andb_prop in Hc as [_ Hc].
        destruct (dead_exited s Hd) as [_ Hcl]. rewrite Hcl in Hc. discriminate.
      * exists t. rewrite nth_remove_nth_gt by lia. auto.
  - destruct (nth_error (l_stubs l) j) as [s|] eqn:Hn; [|discriminate].
    destruct (is_exited s && negb (s_closed s)) eqn:Hc; [|discriminate]. inversion H; subst.
    apply wall_close_downstream. apply wall_upd; [|exact Hw].
    intros t Ht Hd. rewrite Hn in Ht. inversion Ht; subst t.
    unfold dead, is_exited in *. cbn [s_st s_closed]. apply andb_prop in Hd as [-> _]. reflexivity.
  - (* attribute write: state and closed flag untouched *)
    destruct (nth_error (l_stubs l) j) as [s|] eqn:Hn; [|discriminate]. inversion H; subst.
    apply wall_upd; [|exact Hw]. intros t Ht Hd. rewrite Hn in Ht. inversion Ht; subst t. exact Hd.
  - (* flush loop receives: the receiving stub keeps state and flag, the sender was sending (not dead) *)
    destruct j as [|j]; [discriminate|].
    destruct (nth_error (l_stubs l) (S j)) as [s|] eqn:Hn; [|discriminate].
    destruct (nth_error (l_stubs l) j) as [sp|] eqn:Hnp; [|discriminate].
    destruct (is_exited s && negb (s_closed s) && (s_cap s =? 0) && _); [|discriminate].
    assert (Hgen : forall c, s_st sp <> Exited ->
      wall (stub_sent (upd_stub l (S j) (mkStub (s_tx s) (s_eff s) (s_st s) (s_ps s) [c] (s_cap s) (s_in_closed s) (s_closed s))) j sp) i).
    { intros c Hne. set (l1 := upd_stub l (S j) _).
      assert (Hw1 : wall l1 i).
      { apply wall_upd; [|exact Hw]. intros t Ht Hd. rewrite Hn in Ht. inversion Ht; subst t. exact Hd. }
      assert (Hnp1 : nth_error (l_stubs l1) j = Some sp).
      { unfold l1, upd_stub; cbn [l_stubs]. rewrite nth_set_nth_other by lia. exact Hnp. }
      unfold stub_sent. destruct (on_sent _ _ _ _) as [st' ps'].
      eapply wall_set_own; [exact Hnp1| |exact Hw1]. apply not_dead_mode. exact Hne. }
    destruct (mode_of (s_st sp)) eqn:Hm; try discriminate; inversion H; subst;
      (apply Hgen; intros E; rewrite E in Hm; discriminate).
  - (* close at the end of the flush *)
    destruct (nth_error (l_stubs l) j) as [s|] eqn:Hn; [|discriminate].
    destruct (is_exited s && negb (s_closed s) && s_in_closed s && _) eqn:Hc; [|discriminate]. inversion H; subst.
    apply wall_close_downstream. apply wall_upd; [|exact Hw].
    intros t Ht Hd. rewrite Hn in Ht. inversion Ht; subst t.
    unfold dead, is_exited in *. cbn [s_st s_closed]. apply andb_prop in Hd as [-> _]. reflexivity.
  - destruct (Nat.ltb j (length (l_stubs l))); [|discriminate]. inversion H; subst.
    eapply wall_insert; [|exact Hw]. reflexivity.
  - destruct (Nat.ltb j (length (l_stubs l))); [|discriminate]. inversion H; subst.
    eapply wall_insert; [|exact Hw]. reflexivity.
Qed.

(** the whole removal: interrupt + Cleanup, from any live state of the timeout stage *)
Theorem timeout_removal l i s acc tmr :
  nth_error (l_stubs l) i = Some s -> s_st s = Idle acc tmr -> s_closed s = false ->
  exists l1 l2,
    ctl_step l (CInterrupt i) = Some l1 /\ ctl_step l1 (CSever i) = Some l2 /\
    wall l2 i /\ sink_bytes l2 = sink_bytes l /\
    match nth_error (l_stubs l2) (S i) with
    | Some t => s_in_closed t = true
    | None => l_sink_closed l2 <> None
    end /\
    (forall sigma l3, sched_run l2 sigma = Some l3 -> wall l3 i).
Proof.
  intros Hn Hst Hcl.
  assert (H1 : ctl_step l (CInterrupt i) = Some (upd_stub l i (with_st s Exited))).
  { cbn [ctl_step]. rewrite Hn. unfold listens_interrupt. rewrite Hst. cbn. reflexivity. }
  set (l1 := upd_stub l i (with_st s Exited)) in *.
  assert (Hn1 : nth_error (l_stubs l1) i = Some (with_st s Exited))
    by (unfold l1, upd_stub; cbn [l_stubs]; eapply nth_set_nth_same; exact Hn).
  destruct (ctl_step l1 (CSever i)) as [l2|] eqn:H2.
  - exists l1, l2. split; [exact H1|]. split; [exact H2|].
    destruct (sever_makes_wall _ _ _ H2) as (Hw & Hc & Hb).
    split; [exact Hw|]. split; [rewrite Hb; reflexivity|]. split; [exact Hc|].
    intros sigma l3 Hr. eapply wall_run; eassumption.
  - exfalso. cbn [ctl_step] in H2. rewrite Hn1 in H2. unfold is_exited, with_st in H2. cbn [s_st s_closed] in H2.
    rewrite Hcl in H2. discriminate.
Qed.

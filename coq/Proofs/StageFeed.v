(** Feeding a sequence of chunks to one stage in isolation (downstream always ready, timers fire
    at their deadlines, no interrupt): the stage-level semantics used by C10/C11/C13. *)
From TP Require Import Model.Prelude Extracted Model.Toxics Proofs.GoArith Proofs.StageContract Proofs.StageRun.
From Coq Require Import ZifyBool ZifyNat.

(** one arrival: the chunk (or the close, None) is taken at time [at_] if the stage is at its
    top-level select; returns what was emitted until the stage is back there (or done) *)
Definition feed_one (tx : toxic) (fuel : nat) (ps : pstate) (s : lstate) (at_ : Z) (c : option chunk)
  : list (Z * bytes) * lstate * pstate :=
  match s with
  | Idle _ _ =>
    let s1 := fst (on_input tx ps at_ [] c s) in
    stage_emit tx ps at_ fuel None s1
  | _ => ([], s, ps)
  end.

Fixpoint feed (tx : toxic) (fuel : nat) (ps : pstate) (s : lstate) (arr : list (Z * option chunk))
  : list (Z * bytes) * lstate * pstate :=
  match arr with
  | [] => ([], s, ps)
  | (t, c) :: r =>
    let '(es, s1, ps1) := feed_one tx fuel ps s t c in
    let '(es', s2, ps2) := feed tx fuel ps1 s1 r in
    (es ++ es', s2, ps2)
  end.

Definition arr_bytes (arr : list (Z * option chunk)) : bytes :=
  concat (map (fun a => match snd a with Some c => cdata c | None => [] end) arr).

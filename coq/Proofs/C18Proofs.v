(** C18: the stream theorems instantiated at what the translator extracted from stream/io_chan.go. *)
From TP Require Import Model.Prelude Model.Stream Proofs.StreamProofs Extracted.
From Coq Require Import ZifyBool ZifyNat.

(** Robust to harmless rewrites of the test: any boolean combination of comparisons over
    len(out), n, len(c.buffer) that satisfies [early_ok] goes through by [lia]. *)
Lemma extracted_early_ok : early_ok read_early.
Proof. unfold early_ok, read_early. intros o n bl Hn Hbl Hlt. split; intros He; lia. Qed.

Lemma extracted_writer_copies : writer_copies = true.
Proof. reflexivity. Qed.

Lemma c18_lossless (l : list action) (p : pipe) :
  run read_early writer_copies pipe_init l = Some p ->
  is_prefix (returned p) (script_written l) /\
  returned p ++ carry_bytes p ++ queued p = script_written l /\
  (eof p = true -> returned p = script_written l /\ closed p = true).
Proof. rewrite extracted_writer_copies. apply lossless, extracted_early_ok. Qed.

Lemma c18_read_bounded_progress (l : list action) (p p' : pipe) (o : nat) (intr : bool) :
  run read_early writer_copies pipe_init l = Some p ->
  step read_early writer_copies p (ARead o intr) = Some p' ->
  lastn p' <= Z.of_nat o /\
  ((0 < o)%nat -> 0 < lastn p' \/ eof p' = true \/ intr = true \/
                  queue p' = tl (queue p) /\ (queue p <> [] \/ closed p = true)).
Proof.
  rewrite extracted_writer_copies. intros Hrun.
  apply read_bounded_progress; [apply extracted_early_ok|].
  eapply run_inv; [apply extracted_early_ok|apply Inv_init|exact Hrun].
Qed.

Lemma c18_eof_after_close (l : list action) (p : pipe) (o : nat) :
  run read_early writer_copies pipe_init l = Some p ->
  closed p = true -> queue p = [] -> carry_bytes p = [] -> (0 < o)%nat ->
  exists p', step read_early writer_copies p (ARead o false) = Some p' /\ eof p' = true /\ lastn p' = 0.
Proof.
  rewrite extracted_writer_copies. intros Hrun.
  apply eof_after_close; [apply extracted_early_ok|].
  eapply run_inv; [apply extracted_early_ok|apply Inv_init|exact Hrun].
Qed.

(** The writer never retains the caller's buffer: scribbling on it (AMutate) at any point of any
    script does not change anything a read returns. Stated by erasing the AMutate actions. *)
Fixpoint erase_mutate (l : list action) : list action :=
  match l with
  | [] => []
  | AMutate _ :: l' => erase_mutate l'
  | a :: l' => a :: erase_mutate l'
  end.

Definition same_obs (p q : pipe) : Prop :=
  written p = written q /\ queue p = queue q /\ closed p = closed q /\ carry p = carry q /\
  returned p = returned q /\ eof p = eof q /\ lastn p = lastn q.

Lemma step_same_obs early (p q p' : pipe) (a : action) :
  same_obs p q -> Forall is_copy (queue p) ->
  step early true p a = Some p' ->
  match a with
  | AMutate _ => same_obs p' q
  | _ => exists q', step early true q a = Some q' /\ same_obs p' q'
  end.
Proof.
  intros (Hw & Hq & Hc & Hca & Hr & He & Hl) Hcopy Hs.
  assert (Hav : avail_of p = avail_of q).
  { unfold avail_of. rewrite <- Hq, <- Hc. destruct (queue p) as [|x xs]; [reflexivity|].
    inversion Hcopy; subst. now rewrite (resolve_copy (caller p) (caller q) x). }
  destruct a as [d|d| |o intr]; simpl in *.
  - rewrite <- Hc. destruct (closed p); [discriminate|]. inversion Hs; subst p'; clear Hs.
    eexists; split; [reflexivity|]. unfold same_obs; simpl. rewrite Hw, Hq, Hca, Hr, He, Hl. tauto.
  - inversion Hs; subst p'. unfold same_obs; simpl. tauto.
  - rewrite <- Hc. destruct (closed p) eqn:Hcp; [discriminate|]. inversion Hs; subst p'; clear Hs.
    eexists; split; [reflexivity|]. unfold same_obs; simpl. rewrite Hw, Hq, Hca, Hr, He, Hl. tauto.
  - rewrite <- Hca, <- Hav.
    destruct (read early (carry p) o (avail_of p) intr); [|discriminate].
    inversion Hs; subst p'; clear Hs.
    eexists; split; [reflexivity|]. unfold same_obs; simpl. rewrite Hw, Hq, Hc, Hr, He. tauto.
Qed.

Lemma run_cons early copies (p : pipe) (a : action) (l : list action) :
  run early copies p (a :: l) =
  match step early copies p a with Some p' => run early copies p' l | None => None end.
Proof. reflexivity. Qed.

Lemma c18_no_alias_gen early (Hearly : early_ok early) (l : list action) : forall p q p',
  Inv p -> same_obs p q ->
  run early true p l = Some p' ->
  exists q', run early true q (erase_mutate l) = Some q' /\ same_obs p' q'.
Proof.
  induction l as [|a l IH]; simpl; intros p q p' HI Hso Hrun.
  - inversion Hrun; subst. eexists; split; [reflexivity|exact Hso].
  - destruct (step early true p a) as [p1|] eqn:Hs; [|discriminate].
    pose proof (step_inv early Hearly _ _ _ HI Hs) as HI1.
    pose proof (step_same_obs early p q p1 a Hso (inv_copy _ HI) Hs) as Hx.
    destruct a as [d|d| |o intr]; cbn [erase_mutate].
    + destruct Hx as (q1 & Hq1 & Hso1). rewrite run_cons, Hq1. eapply IH; eassumption.
    + eapply IH; eassumption.
    + destruct Hx as (q1 & Hq1 & Hso1). rewrite run_cons, Hq1. eapply IH; eassumption.
    + destruct Hx as (q1 & Hq1 & Hso1). rewrite run_cons, Hq1. eapply IH; eassumption.
Qed.

Lemma c18_no_alias (l : list action) (p : pipe) :
  run read_early writer_copies pipe_init l = Some p ->
  exists q, run read_early writer_copies pipe_init (erase_mutate l) = Some q /\
            returned p = returned q /\ eof p = eof q /\ lastn p = lastn q.
Proof.
  rewrite extracted_writer_copies. intros Hrun.
  destruct (c18_no_alias_gen read_early extracted_early_ok l pipe_init pipe_init p Inv_init)
    as (q & Hq & Hso); [unfold same_obs; tauto|exact Hrun|].
  exists q. split; [exact Hq|]. unfold same_obs in Hso. tauto.
Qed.

Lemma c18_interrupt_no_loss (b : bytes) (o : nat) av buf' out c :
  read read_early (Some b) o av true = RRet buf' out EInterrupted c ->
  b = [] /\ out = [] /\ buf' = Some [] /\ c = false.
Proof. apply interrupt_no_loss, extracted_early_ok. Qed.

(** Non-vacuity: a concrete script with partial reads, a refill and EOF runs and satisfies the
    hypotheses of the theorems above. *)
Example c18_nonvacuous :
  exists p, run read_early writer_copies pipe_init
              [AWrite [1;2;3;4;5;6;7;8]; AWrite [9;10;11]; AMutate [0;0;0]; AClose;
               ARead 3 false; ARead 3 false; ARead 3 false; ARead 3 false; ARead 3 false] = Some p
            /\ returned p = [1;2;3;4;5;6;7;8;9;10;11] /\ eof p = true.
Proof. eexists. vm_compute. repeat split. Qed.

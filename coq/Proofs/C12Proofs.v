(** C12: the slicer. Offsets (slicer_chunk_spec), stream exactness (stage contract), piece size
    bound and spacing, behaviour on interrupt. *)
From TP Require Import Model.Prelude Extracted Model.Toxics Proofs.GoArith Proofs.SlicerProofs
     Proofs.StageContract Proofs.StageRun.
From Coq Require Import ZifyBool ZifyNat.

Local Arguments slicer_chunk : simpl never.

Definition sized (b : Z) (s : lstate) : Prop :=
  match s with
  | Send c (KSlNext _ rest _ _) => 0 < zlen (cdata c) <= b /\ pieces_within b rest
  | Send _ KExit => False      (* the flush of an interrupted stage is not a cut piece *)
  | SlWait _ rest _ _ _ => pieces_within b rest
  | _ => True
  end.

Lemma slicer_next_sized b (c : chunk) rest o tot :
  slicer_cov c rest o tot -> pieces_within b rest -> sized b (slicer_next c rest o tot).
Proof.
  intros (Hc & Hlen & Ho) Hp. unfold slicer_next.
  destruct rest as [|lo [|hi rest']]; simpl in *; auto; try contradiction.
  destruct Hc as (-> & Hle & Hc). destruct Hp as [Hb Hp].
  pose proof (covers_le _ _ _ Hc) as Hhi.
  replace (o =? o) with true by lia. unfold slice_ok.
  replace ((0 <=? o) && (o <=? hi) && (hi <=? tot)) with true by lia.
  simpl. split; [|exact Hp]. rewrite zlen_firstn. lia.
Qed.

Fixpoint gaps_ok (d : Z) (ts : list Z) : Prop :=
  match ts with
  | t1 :: r => match r with t2 :: _ => t1 + d <= t2 /\ gaps_ok d r | [] => True end
  | [] => True
  end.

Definition first_ge (t : Z) (es : list (Z * bytes)) : Prop :=
  match es with [] => True | (t0, _) :: _ => t <= t0 end.

Lemma gaps_cons d t es : first_ge (t + d) es -> gaps_ok d (map fst es) -> gaps_ok d (t :: map fst es).
Proof. destruct es as [|[t0 p] es]; simpl; auto. Qed.

Section Slicer.
  Variables avg var delay : Z.
  Hypothesis Hguard : 0 <= var < avg.
  Let tx := TSlicer avg var delay.
  Let D := slicer_delay_ns delay.

  (** without an interrupt every emitted piece is non-empty and at most avg+var long, and
      consecutive pieces are offered at least [delay] apart *)
  Lemma slicer_emit_spec fuel : forall ps now s,
    wf tx s -> sized (avg + var) s ->
    let es := fst (fst (stage_emit tx ps now fuel None s)) in
    Forall (fun e => 0 < zlen (snd e) <= avg + var) es /\
    gaps_ok D (map fst es) /\
    match s with
    | SlWait _ _ _ _ dl => first_ge (Z.max now dl) es
    | _ => first_ge now es
    end.
  Proof.
    induction fuel as [|f IH]; intros ps now s Hwf Hsz; [destruct s; simpl; auto|].
    cbn [stage_emit].
    destruct s; simpl in Hwf; try contradiction; cbn [mode_of]; try (simpl; auto; fail).
    - (* Send *)
      destruct k; try contradiction; try (exfalso; exact Hwf).
      (* KSlNext (KExit is excluded by [sized]) *)
      + simpl in Hsz. destruct Hsz as [Hb Hp].
        cbn [on_sent tx]. fold D.
        specialize (IH ps now (SlWait c0 rest o tot (now + D)) Hwf Hp).
        destruct (stage_emit tx ps now f None (SlWait c0 rest o tot (now + D))) as [[es sf] psf].
        simpl in IH. destruct IH as (IH1 & IH2 & IH3). simpl.
        split; [constructor; [exact Hb|exact IH1]|].
        split; [|lia].
        apply gaps_cons; [|exact IH2].
        destruct es as [|[t0 p0] es]; simpl in *; auto. lia.
    - (* SlWait *)
      pose proof (slicer_next_wf avg var delay c rest o tot Hwf) as [Hw' _].
      pose proof (slicer_next_sized _ c rest o tot Hwf Hsz) as Hs'.
      unfold on_timer. cbn [on_timer_gen].
      specialize (IH ps (Z.max now dl) (slicer_next c rest o tot) Hw' Hs').
      destruct (stage_emit tx ps (Z.max now dl) f None (slicer_next c rest o tot)) as [[es sf] psf].
      simpl in IH. destruct IH as (IH1 & IH2 & IH3). simpl.
      split; [exact IH1|]. split; [exact IH2|].
      unfold slicer_next in IH3.
      destruct rest as [|lo [|hi r]]; simpl in IH3; auto.
      destruct ((lo =? o) && slice_ok lo hi tot); simpl in IH3; auto.
  Qed.

  (** a whole input chunk: pieces partition it, sizes bounded, spaced by at least delay *)
  Theorem slicer_chunk_through ps now draws (c : chunk) fuel :
    avg < two63 -> zlen (cdata c) < two63 ->
    0 < zlen (cdata c) ->
    let s := fst (on_input tx ps now draws (Some c) (Idle 0 None)) in
    let r := stage_emit tx ps now fuel None s in
    emitted r ++ held (final_st r) = cdata c /\
    Forall (fun e => 0 < zlen (snd e) <= avg + var) (fst (fst r)) /\
    gaps_ok D (map fst (fst (fst r))).
  Proof.
    intros Havg Hbig Hlen s r.
    assert (Hok : attrs_ok tx) by exact I.
    destruct (on_input tx ps now draws (Some c) (Idle 0 None)) as [s0 ds] eqn:Hin.
    destruct (on_input_contract tx ps now draws (Some c) 0 None s0 ds Hok I I Hin) as [Hw Hk].
    simpl in Hk. subst s r. simpl fst.
    destruct (stage_emit_exact tx Hok fuel ps now None s0 Hw I) as [E _].
    split; [rewrite E; exact Hk|].
    (* sized: from the chunk specification *)
    simpl in Hin.
    destruct (slicer_chunk_spec (S (Z.to_nat (zlen (cdata c)))) avg var 0 (zlen (cdata c)) draws Hguard
               Havg ltac:(lia) Hbig (zlen_nonneg _) ltac:(lia)) as (os & d2 & Ec & Hcov & Hpw).
    rewrite Ec in Hin. inversion Hin; subst s0 ds.
    assert (Hsz : sized (avg + var) (slicer_next c os 0 (zlen (cdata c)))).
    { apply slicer_next_sized; [unfold slicer_cov; split; [exact Hcov|lia]|apply Hpw; lia]. }
    destruct (slicer_emit_spec fuel ps now _ Hw Hsz) as (H1 & H2 & _).
    split; assumption.
  Qed.
End Slicer.

(** after a piece the stage waits [delay] microseconds; the wait ends by the timer or by an interrupt *)
Lemma c12_wait_after_piece avg var delay ps now (pc c' : chunk) rest o tot :
  on_sent (TSlicer avg var delay) ps now (Send pc (KSlNext c' rest o tot)) =
  (SlWait c' rest o tot (now + slicer_delay_ns delay), ps).
Proof. reflexivity. Qed.

(** an interrupt is honoured only in the wait after a piece: the remainder goes out as one piece
    and the stage exits holding nothing *)
Lemma c12_interrupt now (c : chunk) rest o tot dl :
  on_interrupt now (SlWait c rest o tot dl) = Send c KExit /\
  held (Send c KExit) = cdata c /\
  (forall tx ps, on_sent tx ps now (Send c KExit) = (Exited, ps)) /\ held Exited = [].
Proof. repeat split; simpl; now rewrite ?app_nil_r. Qed.

Lemma c12_send_not_interruptible (c : chunk) k now : on_interrupt now (Send c k) = Send c k.
Proof. reflexivity. Qed.

(** interrupt at any piece boundary: emitted ++ remainder = input (no loss, no duplication) *)
Lemma c12_stream_exact avg var delay ps now draws (c : chunk) fuel intr_at :
  let s := fst (on_input (TSlicer avg var delay) ps now draws (Some c) (Idle 0 None)) in
  let r := stage_emit (TSlicer avg var delay) ps now fuel intr_at s in
  emitted r ++ held (final_st r) = cdata c.
Proof.
  intros s r. assert (Hok : attrs_ok (TSlicer avg var delay)) by exact I.
  destruct (on_input (TSlicer avg var delay) ps now draws (Some c) (Idle 0 None)) as [s0 ds] eqn:Hin.
  destruct (on_input_contract _ ps now draws (Some c) 0 None s0 ds Hok I I Hin) as [Hw Hk].
  simpl in Hk. subst s r. simpl fst.
  destruct (stage_emit_exact _ Hok fuel ps now intr_at s0 Hw I) as [E _]. now rewrite E.
Qed.

Example c12_nonvacuous :
  let r := stage_emit (TSlicer 4 1 10) None 0 50 None
             (fst (on_input (TSlicer 4 1 10) None 0 [1;0;1;1;0] (Some (mkChunk [1;2;3;4;5;6;7;8;9;10;11;12;13] 0)) (Idle 0 None))) in
  emitted r = [1;2;3;4;5;6;7;8;9;10;11;12;13] /\ final_st r = Idle 0 None /\ (length (fst (fst r)) = 4)%nat.
Proof. vm_compute. auto. Qed.

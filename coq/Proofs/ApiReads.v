(** C05: "every read reflects all earlier successful writes" as laws of the registry machine: what
    a successful create / update / delete of a proxy does to what a later GET of that proxy, and of
    every OTHER proxy, returns; and that reads change nothing. *)
From Coq Require Import String.
From TP Require Import Model.Prelude Extracted Model.Json Model.Api Proofs.ApiInv Proofs.C17Proofs.
From Coq Require Import ZifyBool.

Lemma find_name s n p : find_proxy s n = Some p -> p_name p = n.
Proof.
  induction s as [|q s IH]; [discriminate|]. cbn [find_proxy]. destruct (String.eqb (p_name q) n) eqn:E; [|exact IH].
  intros H. inversion H; subst. apply String.eqb_eq. exact E.
Qed.

Lemma find_snoc s p m :
  find_proxy (s ++ [p])%list m = match find_proxy s m with Some q => Some q | None => if String.eqb (p_name p) m then Some p else None end.
Proof. induction s as [|q s IH]; cbn [app find_proxy]; [reflexivity|]. destruct (String.eqb (p_name q) m); [reflexivity|exact IH]. Qed.

Lemma find_remove_other s n m : m <> n -> find_proxy (remove_proxy s n) m = find_proxy s m.
Proof.
  intros Hne. induction s as [|q s IH]; [reflexivity|]. cbn [remove_proxy find_proxy].
  destruct (String.eqb (p_name q) n) eqn:E1.
  - apply String.eqb_eq in E1. destruct (String.eqb (p_name q) m) eqn:E2; [|reflexivity].
    apply String.eqb_eq in E2. congruence.
  - cbn [find_proxy]. destruct (String.eqb (p_name q) m); [reflexivity|exact IH].
Qed.

Lemma find_remove_same s n : uniq s -> find_proxy (remove_proxy s n) n = None.
Proof.
  unfold uniq, names. induction s as [|q s IH]; intros Hu; [reflexivity|]. cbn [remove_proxy].
  cbn [map] in Hu. inversion Hu as [|? ? Hni Hnd]; subst.
  destruct (String.eqb (p_name q) n) eqn:E.
  - apply String.eqb_eq in E. subst n. destruct (find_proxy s (p_name q)) as [x|] eqn:Hf; [|reflexivity].
    exfalso. apply Hni. pose proof (find_name _ _ _ Hf) as Hn. rewrite <- Hn. clear -Hf.
    induction s as [|y s IH]; [discriminate|]. cbn [find_proxy] in Hf. destruct (String.eqb (p_name y) (p_name q)) eqn:E.
    + inversion Hf; subst. left. reflexivity.
    + right. apply IH. exact Hf.
  - cbn [find_proxy]. rewrite E. apply IH. exact Hnd.
Qed.

(** reads change nothing *)
Theorem reads_are_pure s n t :
  snd (h_proxy_index s) = s /\ snd (h_proxy_show s n) = s /\ snd (h_toxic_index s n) = s /\ snd (h_toxic_show s n t) = s.
Proof.
  unfold h_proxy_index, h_proxy_show, h_toxic_index, h_toxic_show. repeat split; try reflexivity;
    destruct (find_proxy s n); try reflexivity. destruct (find_toxic _ _); reflexivity.
Qed.

(** a successful create: the proxy answered is what a GET of that name returns from now on; every
    other name reads as before *)
Theorem create_then_read e s b resp s' :
  h_proxy_create e s b = (resp, s') -> status resp = status_created ->
  exists p', pl resp = PProxy p' /\ find_proxy s (p_name p') = None /\
             h_proxy_show s' (p_name p') = (mkResp status_ok (PProxy p'), s') /\
             (forall m, m <> p_name p' -> find_proxy s' m = find_proxy s m).
Proof.
  unfold h_proxy_create. intros H Hst.
  destruct b as [| |j]; try (inversion H; subst; discriminate).
  destruct (dec_proxy _ j) as [inp bad]. destruct bad; [inversion H; subst; discriminate|].
  destruct (String.eqb (pi_name inp) ""); [inversion H; subst; discriminate|].
  destruct (String.eqb (pi_upstream inp) ""); [inversion H; subst; discriminate|].
  destruct (find_proxy s (pi_name inp)) eqn:Hf; [inversion H; subst; discriminate|].
  assert (Hgen : forall p', p_name p' = pi_name inp ->
            h_proxy_show (s ++ [p'])%list (p_name p') = (mkResp status_ok (PProxy p'), (s ++ [p'])%list) /\
            (forall m, m <> p_name p' -> find_proxy (s ++ [p'])%list m = find_proxy s m)).
  { intros p' Hn. split.
    - unfold h_proxy_show. rewrite find_snoc, Hn, Hf, <- Hn, String.eqb_refl. reflexivity.
    - intros m Hm. rewrite find_snoc. destruct (find_proxy s m); [reflexivity|].
      destruct (String.eqb (p_name p') m) eqn:E; [apply String.eqb_eq in E; congruence|reflexivity]. }
  destruct (match pi_enabled inp with Some b0 => b0 | None => create_enabled_default end).
  - match type of H with context [start_proxy ?e0 ?s0 ?q0] => destruct (start_proxy e0 s0 q0) as [p'|] eqn:Hs end;
      [|inversion H; subst; discriminate]. inversion H; subst; clear H.
    pose proof (start_name _ _ _ _ Hs) as Hn. cbn [p_name] in Hn.
    exists p'. split; [reflexivity|]. split; [rewrite Hn; exact Hf|]. apply Hgen. exact Hn.
  - inversion H; subst; clear H. eexists. split; [reflexivity|]. cbn [p_name]. split; [exact Hf|]. apply (Hgen (mkProxy _ _ _ _ _ _)). reflexivity.
Qed.

(** a successful delete: that name reads 404 from now on, every other name reads as before *)
Theorem delete_then_read s n resp s' :
  uniq s -> h_proxy_delete s n = (resp, s') -> status resp = status_no_content ->
  h_proxy_show s' n = (err status_proxy_not_found, s') /\ (forall m, m <> n -> find_proxy s' m = find_proxy s m).
Proof.
  unfold h_proxy_delete. intros Hu H Hst. destruct (find_proxy s n); [|inversion H; subst; discriminate].
  inversion H; subst; clear H. split.
  - unfold h_proxy_show. rewrite find_remove_same by exact Hu. reflexivity.
  - intros m Hm. apply find_remove_other. exact Hm.
Qed.

(** a successful update: the proxy answered is what a GET of that name returns; it keeps its name
    and its toxics; every other name reads as before *)
Theorem update_then_read e s n b resp s' :
  h_proxy_update e s n b = (resp, s') -> status resp = status_ok ->
  exists p p', find_proxy s n = Some p /\ pl resp = PProxy p' /\ p_name p' = n /\
               p_up p' = p_up p /\ p_down p' = p_down p /\
               h_proxy_show s' n = (mkResp status_ok (PProxy p'), s') /\
               (forall m, m <> n -> find_proxy s' m = find_proxy s m).
Proof.
  unfold h_proxy_update. intros H Hst. destruct (find_proxy s n) as [p|] eqn:Hf; [|inversion H; subst; discriminate].
  pose proof (find_name _ _ _ Hf) as Hpn.
  destruct b as [| |j]; try (inversion H; subst; discriminate).
  destruct (dec_proxy _ j) as [inp bad]. destruct bad; [inversion H; subst; discriminate|].
  destruct (lookup_env e (pi_listen inp)) as [a|]; [|inversion H; subst; discriminate].
  match type of H with context [replace_proxy s ?q] => set (p1 := q) in * end.
  assert (Hp1 : p_name p1 = n /\ p_up p1 = p_up p /\ p_down p1 = p_down p).
  { unfold p1. match goal with |- context [if ?c then _ else _] => destruct c end; cbn; auto. }
  destruct Hp1 as (Hn1 & Hu1 & Hd1).
  assert (Hshow : forall q, p_name q = n ->
             h_proxy_show (replace_proxy s q) n = (mkResp status_ok (PProxy q), replace_proxy s q) /\
             (forall m, m <> n -> find_proxy (replace_proxy s q) m = find_proxy s m)).
  { intros q Hq. split.
    - unfold h_proxy_show. rewrite find_replace_same, Hq, String.eqb_refl, Hf. reflexivity.
    - intros m Hm. rewrite find_replace_same, Hq. destruct (String.eqb n m) eqn:E; [apply String.eqb_eq in E; congruence|reflexivity]. }
  assert (Hshow2 : forall q, p_name q = n ->
             h_proxy_show (replace_proxy (replace_proxy s p1) q) n = (mkResp status_ok (PProxy q), replace_proxy (replace_proxy s p1) q) /\
             (forall m, m <> n -> find_proxy (replace_proxy (replace_proxy s p1) q) m = find_proxy s m)).
  { intros q Hq. split.
    - unfold h_proxy_show. rewrite !find_replace_same, Hq, Hn1, String.eqb_refl, Hf. reflexivity.
    - intros m Hm. rewrite !find_replace_same, Hq, Hn1.
      destruct (String.eqb n m) eqn:E; [apply String.eqb_eq in E; congruence|reflexivity]. }
  match type of H with context [Bool.eqb ?w (p_enabled p1)] => destruct (Bool.eqb w (p_enabled p1)); [|destruct w] end.
  - inversion H; subst resp s'; clear H. exists p, p1. destruct (Hshow p1 Hn1) as [A B]. repeat split; auto.
  - match type of H with context [start_proxy ?e0 ?s0 ?q0] => destruct (start_proxy e0 s0 q0) as [p2|] eqn:Hs end;
      [|inversion H; subst; discriminate].
    inversion H; subst resp s'; clear H.
    pose proof (start_name _ _ _ _ Hs) as Hn2. destruct (start_toxics _ _ _ _ Hs) as [Hu2 Hd2].
    exists p, p2. destruct (Hshow2 p2 ltac:(congruence)) as [A B]. repeat split; auto; congruence.
  - inversion H; subst resp s'; clear H. exists p, (stop_proxy p1).
    destruct (Hshow2 (stop_proxy p1) Hn1) as [A B]. repeat split; auto.
Qed.

(** toxic requests never touch another proxy *)
Theorem toxic_requests_frame s n t b m :
  m <> n ->
  find_proxy (snd (h_toxic_create s n b)) m = find_proxy s m /\
  find_proxy (snd (h_toxic_update s n t b)) m = find_proxy s m /\
  find_proxy (snd (h_toxic_delete s n t)) m = find_proxy s m.
Proof.
  intros Hm.
  assert (Hrep : forall p q, find_proxy s n = Some p -> p_name q = p_name p -> find_proxy (replace_proxy s q) m = find_proxy s m).
  { intros p q Hf Hq. rewrite find_replace_same, Hq, (find_name _ _ _ Hf).
    destruct (String.eqb n m) eqn:E; [apply String.eqb_eq in E; congruence|reflexivity]. }
  repeat split.
  - unfold h_toxic_create. destruct (find_proxy s n) as [p|] eqn:Hf; [|reflexivity].
    destruct b as [| |j]; try reflexivity. destruct (dec_toxic _ j) as [ti bad]. destruct bad; [reflexivity|].
    destruct (parse_direction _) as [down|]; [|reflexivity]. destruct (lookup_fields _ _); [|reflexivity].
    destruct (find_toxic _ _); [reflexivity|]. destruct (dec_update _ _ _ j) as [[a t0] bad2]. destruct bad2; [reflexivity|].
    cbn [snd]. apply (Hrep p); [reflexivity|]. destruct down; reflexivity.
  - unfold h_toxic_update. destruct (find_proxy s n) as [p|] eqn:Hf; [|reflexivity].
    destruct (find_toxic _ _) as [tx|]; [|reflexivity]. destruct b as [| |j]; try reflexivity.
    destruct (dec_update _ _ _ j) as [[a tox] bad]. destruct bad.
    + destruct update_in_place; [|reflexivity]. cbn [snd]. apply (Hrep p); reflexivity.
    + cbn [snd]. apply (Hrep p); reflexivity.
  - unfold h_toxic_delete. destruct (find_proxy s n) as [p|] eqn:Hf; [|reflexivity].
    destruct (find_toxic _ _); [|reflexivity]. cbn [snd]. apply (Hrep p); reflexivity.
Qed.

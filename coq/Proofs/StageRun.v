(** A single stage run in isolation: what it emits from a given local state until it is back at
    its top-level select (or has exited), with its timers firing at their deadlines and an optional
    interrupt arriving in the k-th wait. Used to state per-toxic stream theorems (C08-C13). *)
From TP Require Import Model.Prelude Extracted Model.Toxics Proofs.GoArith Proofs.SlicerProofs Proofs.StageContract.
From Coq Require Import ZifyBool ZifyNat.

(** emitted pieces are tagged with the time the send was offered *)
Fixpoint stage_emit (tx : toxic) (ps : pstate) (now : Z) (fuel : nat) (intr_at : option nat) (s : lstate)
  : list (Z * bytes) * lstate * pstate :=
  match fuel with
  | O => ([], s, ps)
  | S f =>
    match mode_of s with
    | MSend c | MSendT c _ =>
      let '(s', ps') := on_sent tx ps now s in
      let '(es, sf, psf) := stage_emit tx ps' now f intr_at s' in
      ((now, cdata c) :: es, sf, psf)
    | MSelect false _ (Some dl) =>
      match intr_at with
      | Some O => stage_emit tx ps now f None (on_interrupt now s)
      | Some (S k) => stage_emit tx ps (Z.max now dl) f (Some k) (on_timer tx (Z.max now dl) s)
      | None => stage_emit tx ps (Z.max now dl) f None (on_timer tx (Z.max now dl) s)
      end
    | _ => ([], s, ps)
    end
  end.

Definition emitted (r : list (Z * bytes) * lstate * pstate) : bytes := concat (map snd (fst (fst r))).
Definition final_st (r : list (Z * bytes) * lstate * pstate) : lstate := snd (fst r).

(** Whatever the fuel and wherever the interrupt lands: emitted ++ still held = held at the start.
    (With the final state idle/closing/exited nothing is held, so everything was emitted.) *)
Theorem stage_emit_exact tx (Hok : attrs_ok tx) fuel : forall ps now intr_at s,
  wf tx s -> pstate_ok tx ps ->
  emitted (stage_emit tx ps now fuel intr_at s) ++ held (final_st (stage_emit tx ps now fuel intr_at s)) = held s
  /\ wf tx (final_st (stage_emit tx ps now fuel intr_at s)).
Proof.
  induction fuel as [|f IH]; intros ps now intr_at s Hwf Hps; [simpl; auto|].
  cbn [stage_emit].
  destruct (mode_of s) as [inp intr tm|c|c dl| | |] eqn:Hm; try (simpl; auto; fail).
  - destruct inp; [simpl; auto|]. destruct tm as [dl|]; [|simpl; auto].
    destruct intr_at as [[|k]|].
    + destruct (on_interrupt_contract tx now s Hwf) as [Hw' Hh].
      destruct (IH ps now None _ Hw' Hps) as [E W]. rewrite <- Hh. auto.
    + destruct (on_timer_contract tx (Z.max now dl) s Hok Hwf) as [Hw' Hh].
      destruct (IH ps (Z.max now dl) (Some k) _ Hw' Hps) as [E W]. rewrite <- Hh. auto.
    + destruct (on_timer_contract tx (Z.max now dl) s Hok Hwf) as [Hw' Hh].
      destruct (IH ps (Z.max now dl) None _ Hw' Hps) as [E W]. rewrite <- Hh. auto.
  - destruct s; simpl in Hm; try discriminate. inversion Hm; subst c0.
    destruct (on_sent tx ps now (Send c k)) as [s' ps'] eqn:Hs.
    destruct (on_sent_contract _ _ _ _ _ _ _ Hok Hwf Hps Hs) as (Hw' & Hps' & Hh).
    destruct (IH ps' now intr_at s' Hw' Hps') as [E W].
    destruct (stage_emit tx ps' now f intr_at s') as [[es sf] psf].
    unfold emitted, final_st in *; simpl in *. rewrite Hh, <- E. now rewrite app_assoc.
  - destruct s; simpl in Hm; try discriminate. inversion Hm; subst c0 dl0.
    simpl. destruct f; simpl; rewrite ?app_nil_r; unfold emitted; simpl; rewrite ?app_nil_r; auto.
Qed.

(** C01: byte-exactness of a link whose toxics are data-preserving, for every schedule. *)
From TP Require Import Model.Prelude Extracted Model.Toxics Model.Timed
     Proofs.GoArith Proofs.StageContract Proofs.LinkInv Proofs.LinkStatic.
From Coq Require Import ZifyBool ZifyNat.

Definition eff_of (te : toxic * bool) : toxic := if snd te then fst te else TNoop.

Definition chain_ok (chain : list (toxic * bool)) : Prop :=
  Forall (fun te => preserving (eff_of te) /\ attrs_ok (eff_of te)) chain.

Lemma mk_stubs_ok chain : forall first now,
  chain_ok chain -> Forall stub_ok (mk_stubs chain first now) /\ Forall static_stub (mk_stubs chain first now)
                    /\ flow (mk_stubs chain first now) = [].
Proof.
  induction chain as [|[tx eff] chain IH]; intros first now H; simpl; [repeat split; constructor|].
  inversion H as [|? ? [Hp Ha] Hrest]; subst. unfold eff_of in Hp, Ha; simpl in Hp, Ha.
  destruct (IH false now Hrest) as (H1 & H2 & H3).
  assert (Hps : pstate_ok (if eff then tx else TNoop) (new_pstate tx)).
  { destruct eff; [|exact I]. destruct tx; simpl in *; auto; contradiction. }
  destruct (wf_init (if eff then tx else TNoop) (new_pstate tx) now Hps) as [Hw Hh].
  repeat split.
  - constructor; [|exact H1]. unfold stub_ok, eff_tx; simpl. tauto.
  - constructor; [|exact H2]. unfold static_stub; simpl. apply static_init.
  - rewrite H3. unfold seg; simpl. rewrite Hh. reflexivity.
Qed.

Lemma link_init_ok chain src draws sd :
  chain_ok chain ->
  link_ok (link_init_slow chain src draws sd) /\ static_link (link_init_slow chain src draws sd) /\
  stream (link_init_slow chain src draws sd) = src_bytes src.
Proof.
  intros H. unfold link_init_slow.
  assert (H' : chain_ok ((TNoop, true) :: chain)) by (constructor; [simpl; auto|exact H]).
  destruct (mk_stubs_ok _ true 0 H') as (H1 & H2 & H3).
  repeat split; [exact H1|exact H2|].
  unfold stream, sink_bytes, pending; cbn [l_stubs l_trace l_rd l_rest l_src].
  rewrite H3. reflexivity.
Qed.

Lemma sched_run_inv sigma : forall l l',
  link_ok l -> static_link l -> sched_run l sigma = Some l' ->
  link_ok l' /\ static_link l' /\ stream l' = stream l.
Proof.
  induction sigma as [|a sigma IH]; intros l l' Hok Hst Hrun; simpl in Hrun.
  - inversion Hrun; subst. auto.
  - destruct (sched_step l a) as [l1|] eqn:Hs; [|discriminate].
    assert (Hnt : forall i, a <> ASendTimeout i).
    { intros i ->. simpl in Hs. rewrite (static_no_send_timeout l i Hst) in Hs. discriminate. }
    destruct (step_preserves l l1 a Hok Hnt Hs) as [Hok1 Hstream].
    pose proof (static_step l a l1 Hst Hs) as Hst1.
    destruct (IH l1 l' Hok1 Hst1 Hrun) as (H1 & H2 & H3).
    repeat split; auto. congruence.
Qed.

(** the executable big step follows one schedule of the all-schedules system *)
Lemma try_stubs_sched l k l' : try_stubs l k = Some l' -> exists a, sched_step l a = Some l'.
Proof.
  induction k as [|k IH]; simpl; [discriminate|].
  unfold try_stub.
  destruct (stub_move l k) eqn:Hm; [intros H; inversion H; subst; exists (AMove k); exact Hm|].
  destruct (stub_timer l k) eqn:Ht; [intros H; inversion H; subst; exists (ATimer k); exact Ht|].
  destruct (stub_send_timeout l k) eqn:Hx; [intros H; inversion H; subst; exists (ASendTimeout k); exact Hx|].
  exact IH.
Qed.

Lemma run_quiet_sched fuel : forall horizon l l',
  run_quiet fuel horizon l = Some l' -> exists sigma, sched_run l sigma = Some l'.
Proof.
  induction fuel as [|f IH]; intros horizon l l' H; simpl in H; [discriminate|].
  destruct (step_now l) as [l1|] eqn:Hs.
  - destruct (IH _ _ _ H) as [sigma Hsig].
    unfold step_now in Hs.
    destruct (try_stubs l (length (l_stubs l))) as [l2|] eqn:Ht.
    + inversion Hs; subst. destruct (try_stubs_sched _ _ _ Ht) as [a Ha].
      exists (a :: sigma). simpl. now rewrite Ha.
    + exists (AReader :: sigma). simpl. now rewrite Hs.
  - destruct (next_time l) as [t|].
    + destruct (t <=? horizon); [|inversion H; subst; exists []; reflexivity].
      destruct (IH _ _ _ H) as [sigma Hsig].
      exists (ATick (Z.max t (l_now l)) :: sigma). simpl.
      replace (l_now l <=? Z.max t (l_now l)) with true by lia. exact Hsig.
    + inversion H; subst. exists []. reflexivity.
Qed.

Lemma c01_safety chain src draws sd sigma l :
  chain_ok chain ->
  sched_run (link_init_slow chain src draws sd) sigma = Some l ->
  sink_bytes l ++ flow (l_stubs l) ++ pending l = src_bytes src.
Proof.
  intros Hc Hrun. destruct (link_init_ok chain src draws sd Hc) as (H1 & H2 & H3).
  destruct (sched_run_inv sigma _ _ H1 H2 Hrun) as (_ & _ & Hs).
  unfold stream in Hs. rewrite Hs. exact H3.
Qed.

Lemma c01_prefix chain src draws sd sigma l :
  chain_ok chain ->
  sched_run (link_init_slow chain src draws sd) sigma = Some l ->
  is_prefix (sink_bytes l) (src_bytes src).
Proof.
  intros Hc Hrun. eexists. symmetry. eapply c01_safety; eassumption.
Qed.

Lemma c01_safety_quiet chain src draws sd fuel horizon l :
  chain_ok chain ->
  run_quiet fuel horizon (link_init_slow chain src draws sd) = Some l ->
  sink_bytes l ++ flow (l_stubs l) ++ pending l = src_bytes src.
Proof.
  intros Hc Hrun. destruct (run_quiet_sched _ _ _ _ Hrun) as [sigma Hs].
  eapply c01_safety; eassumption.
Qed.

(** no stage of a static preserving link ever panics or diverges, on any schedule *)
Lemma c01_never_dead chain src draws sd sigma l :
  chain_ok chain ->
  sched_run (link_init_slow chain src draws sd) sigma = Some l ->
  Forall (fun s => mode_of (s_st s) <> MDead) (l_stubs l).
Proof.
  intros Hc Hrun. destruct (link_init_ok chain src draws sd Hc) as (H1 & H2 & H3).
  destruct (sched_run_inv sigma _ _ H1 H2 Hrun) as (Hok & _ & _).
  unfold link_ok in Hok. eapply Forall_impl; [|exact Hok].
  intros s (_ & _ & Hw & _). eapply wf_not_dead; exact Hw.
Qed.

(** the counters of link.read / link.write are the bytes taken / delivered (C20) *)
Example c01_nonvacuous :
  chain_ok [(TLatency 100 0, true); (TBandwidth 10, true); (TSlicer 100 20 5, true); (TSlowClose 50, false)].
Proof.
  repeat constructor; simpl; try lia; unfold latency_jitter_guard; try discriminate.
  all: unfold two63; lia.
Qed.

(** M3: the stage contract. Every built-in toxic, for every attribute value inside the guard
    [attrs_ok], is proved to respect: what it has read and not yet written ([held]) changes only by
    appending on input (all of the chunk / a prefix / nothing, by class) and by removing the chunk
    being sent when a send completes; it never panics or diverges; and it holds nothing when it is
    idle, closing or has exited (CREATING_TOXICS.md's "write back what you hold before you return"). *)
From TP Require Import Model.Prelude Extracted Model.Toxics Proofs.GoArith Proofs.SlicerProofs.
From Coq Require Import ZifyBool ZifyNat String.

Local Arguments slicer_chunk : simpl never.
Local Arguments Z.mul : simpl never.
Local Arguments Z.add : simpl never.

Definition preserving (tx : toxic) : Prop :=
  match tx with
  | TNoop | TLatency _ _ | TBandwidth _ | TSlicer _ _ _ | TSlowClose _ => True
  | _ => False
  end.

(** what the stage transitions need of the attributes in order not to panic or diverge. Since the
    repairs of F5a-c (jitter clamp, rate test, slicer clamp) this holds of EVERY attribute value:
    see [attrs_ok_all] below; before them it needed 0 < rate, rate*100 < 2^63 and 0 <= var < avg. *)
Definition attrs_ok (tx : toxic) : Prop :=
  match tx with
  | TLatency _ jit => latency_jitter_guard jit = true -> 0 < latency_rand_n jit
  | _ => True
  end.

Lemma maxint_half : godiv 9223372036854775807 2 = 4611686018427387903.
Proof. vm_compute. reflexivity. Qed.
Lemma maxint_cent : godiv 9223372036854775807 100 = 92233720368547758.
Proof. vm_compute. reflexivity. Qed.

Theorem attrs_ok_all tx : attrs_ok tx.
Proof.
  destruct tx; simpl; try exact I.
  unfold latency_jitter_guard, latency_rand_n. rewrite maxint_half.
  destruct (4611686018427387903 <? jit) eqn:E; intros H.
  - vm_compute. reflexivity.
  - rewrite wrap64_id by (unfold two63; lia). lia.
Qed.

Definition slicer_cov (c : chunk) (rest : list Z) (o tot : Z) : Prop :=
  covers rest o tot /\ zlen (cdata c) = tot - o /\ 0 <= o.

(** well-formed local states of each toxic (the reachable shapes) *)
Definition wf (tx : toxic) (s : lstate) : Prop :=
  match s with
  | Idle _ None | Closing | Exited => True
  | Idle _ (Some _) => match tx with TTimeout _ => True | _ => False end
  | Send c k =>
    match tx, k with
    | TNoop, KIdle _ | TSlowClose _, KIdle _ => True
    | TLatency _ _, KIdle _ | TLatency _ _, KExit => True
    | TBandwidth _, KIdle _ | TBandwidth _, KBwLoop _ _ => True
    | TSlicer _ _ _, KSlNext c' rest o tot => slicer_cov c' rest o tot
    | TSlicer _ _ _, KExit => True
    | TLimitData _, KLimit => True
    | _, _ => False
    end
  | SendT _ _ => match tx with TBandwidth _ => True | _ => False end
  | LatWait _ _ _ => match tx with TLatency _ _ => True | _ => False end
  | BwInst p r _ _ =>
    match tx with
    | TBandwidth rate => slice_ok 0 (bw_instalment_bytes r) (zlen (cdata p)) = true /\
                         (bw_cut_uses_tested_rate = false -> r = rate)
    | _ => False
    end
  | BwFinal _ _ _ _ => match tx with TBandwidth _ => True | _ => False end
  | SlWait c rest o tot _ => match tx with TSlicer _ _ _ => slicer_cov c rest o tot | _ => False end
  | ScWait _ => match tx with TSlowClose _ => True | _ => False end
  | RpWait _ => match tx with TResetPeer _ => True | _ => False end
  | Panicked _ | Diverged => False
  end.

Definition pstate_ok (tx : toxic) (ps : pstate) : Prop :=
  match tx with TLimitData _ => exists k, ps = Some k | _ => True end.

(** what a stage may keep of an input chunk, by class *)
Definition keeps (tx : toxic) (input kept : bytes) : Prop :=
  match tx with
  | TNoop | TLatency _ _ | TBandwidth _ | TSlicer _ _ _ | TSlowClose _ => kept = input
  | TLimitData _ => is_prefix kept input
  | TTimeout _ | TResetPeer _ => kept = []
  end.

Lemma wf_init tx ps now : pstate_ok tx ps -> wf tx (init_state tx ps now) /\ held (init_state tx ps now) = [].
Proof.
  destruct tx; simpl; intros H; try (split; [exact I|reflexivity]).
  - unfold timeout_arm. destruct (timeout_positive t); simpl; auto.
  - destruct H as [k ->]. simpl. auto.
Qed.

Lemma bw_loop_wf rate (p : chunk) sl now :
  wf (TBandwidth rate) (bw_loop rate p sl now) /\ held (bw_loop rate p sl now) = cdata p.
Proof.
  unfold bw_loop. destruct (bw_split_test (zlen (cdata p)) rate) eqn:E; [|simpl; auto].
  cbn [wf held]. split; [|reflexivity]. split; [|reflexivity].
  unfold bw_split_test in E. rewrite maxint_cent in E. unfold bw_instalment_bytes.
  assert (Hr : 0 <= rate <= 92233720368547758) by lia.
  rewrite wrap64_id in E |- * by (unfold two63; lia).
  unfold slice_ok. lia.
Qed.

Lemma slicer_next_wf avg var delay (c : chunk) rest o tot :
  slicer_cov c rest o tot ->
  wf (TSlicer avg var delay) (slicer_next c rest o tot) /\ held (slicer_next c rest o tot) = cdata c.
Proof.
  intros (Hc & Hlen & Ho). unfold slicer_next.
  destruct rest as [|lo [|hi rest']]; simpl in Hc.
  - subst o. simpl. split; [exact I|]. symmetry. apply zlen_nil_iff. lia.
  - contradiction.
  - destruct Hc as (-> & Hle & Hc).
    pose proof (covers_le _ _ _ Hc) as Hhi.
    replace (o =? o) with true by lia. unfold slice_ok.
    replace ((0 <=? o) && (o <=? hi) && (hi <=? tot)) with true by lia.
    simpl. split.
    + unfold slicer_cov. simpl. rewrite zlen_skipn. split; [exact Hc|]. lia.
    + apply firstn_skipn.
Qed.

(** input arm *)
Theorem on_input_contract tx ps now draws (c : option chunk) acc tmr s' ds :
  attrs_ok tx -> wf tx (Idle acc tmr) -> pstate_ok tx ps ->
  on_input tx ps now draws c (Idle acc tmr) = (s', ds) ->
  wf tx s' /\
  match c with
  | Some ch => keeps tx (cdata ch) (held s')
  | None => held s' = []
  end.
Proof.
  intros Hok Hwf Hps H. simpl in H.
  destruct c as [ch|].
  - destruct tx; simpl in *.
    + inversion H; subst. simpl. rewrite app_nil_r. auto.
    + unfold latency_delay in H.
      destruct (latency_jitter_guard jit) eqn:Hg.
      * specialize (Hok eq_refl). replace (latency_rand_n jit <=? 0) with false in H by lia.
        destruct draws; inversion H; subst; simpl; auto.
      * inversion H; subst; simpl; auto.
    + inversion H; subst. apply bw_loop_wf.
    + destruct (slicer_chunk_total (S (Z.to_nat (zlen (cdata ch)))) avg var 0 (zlen (cdata ch)) draws
                 (zlen_nonneg _) ltac:(lia)) as (os & d2 & E & Hcov & _).
      rewrite E in H. inversion H; subst.
      apply slicer_next_wf. unfold slicer_cov. split; [exact Hcov|]. lia.
    + inversion H; subst. simpl. rewrite app_nil_r. auto.
    + inversion H; subst. simpl. split; [|reflexivity].
      repeat match goal with |- context [match ?x with _ => _ end] => destruct x end; exact I.
    + inversion H; subst. simpl. auto.
    + destruct Hps as [k ->].
      set (c' := if Z.max acc 0 <? zlen (cdata ch) then _ else ch) in H.
      assert (Hpre : is_prefix (cdata c') (cdata ch)).
      { unfold c'. destruct (Z.max acc 0 <? zlen (cdata ch)); simpl.
        - exists (slice_from (cdata ch) (Z.max acc 0)). symmetry. apply slice_to_from.
        - exists []. now rewrite app_nil_r. }
      destruct (0 <? zlen (cdata c')) eqn:E.
      * inversion H; subst. simpl. rewrite app_nil_r. auto.
      * inversion H; subst. unfold limit_after.
        destruct (limit_close_test _); simpl; (split; [exact I|exists (cdata ch); reflexivity]).
  - destruct tx; simpl in *; inversion H; subst; simpl; auto.
Qed.

Theorem on_timer_gen_contract tested tx now s :
  attrs_ok tx -> wf tx s -> (tested = bw_cut_uses_tested_rate) ->
  wf tx (on_timer_gen tested tx now s) /\ held (on_timer_gen tested tx now s) = held s.
Proof.
  intros Hok Hwf Ht.
  destruct s; cbn [on_timer_gen wf held] in *; auto.
  - destruct tmr; simpl; auto.
  - destruct tx; try contradiction. simpl. rewrite app_nil_r. auto.
  - destruct tx; try contradiction. destruct Hwf as [Hs Hr].
    assert (E : (if tested then r else rate) = r).
    { destruct tested; [reflexivity|]. symmetry. apply Hr. now rewrite <- Ht. }
    rewrite E, Hs. simpl. split; [exact I|]. apply slice_to_from.
  - destruct tx; try contradiction. simpl. rewrite app_nil_r. auto.
  - destruct tx; try contradiction. apply slicer_next_wf. exact Hwf.
Qed.

Theorem on_timer_contract tx now s :
  attrs_ok tx -> wf tx s ->
  wf tx (on_timer tx now s) /\ held (on_timer tx now s) = held s.
Proof. intros Hok Hwf. apply on_timer_gen_contract; auto. Qed.

(** a completed send removes exactly the chunk that was sent *)
Theorem on_sent_contract tx ps now (c : chunk) k s' ps' :
  attrs_ok tx -> wf tx (Send c k) -> pstate_ok tx ps ->
  on_sent tx ps now (Send c k) = (s', ps') ->
  wf tx s' /\ pstate_ok tx ps' /\ held (Send c k) = cdata c ++ held s'.
Proof.
  intros Hok Hwf Hps H. simpl in H.
  destruct k; simpl in *.
  - inversion H; subst. simpl. auto.
  - inversion H; subst. simpl. auto.
  - destruct tx; try contradiction. inversion H; subst.
    destruct (bw_loop_wf rate p sl now) as [W Hh]. rewrite Hh. auto.
  - destruct tx; try contradiction. inversion H; subst. simpl. auto.
  - destruct tx; try contradiction. destruct Hps as [k ->]. inversion H; subst.
    unfold limit_after. split; [destruct (limit_close_test _); exact I|].
    split; [eexists; reflexivity|]. destruct (limit_close_test _); reflexivity.
Qed.

Theorem on_sent_timed_contract tx ps now (c : chunk) dl :
  on_sent tx ps now (SendT c dl) = (Exited, ps) /\ held (SendT c dl) = cdata c.
Proof. split; reflexivity. Qed.

Theorem on_interrupt_contract tx now s :
  wf tx s ->
  wf tx (on_interrupt now s) /\ held (on_interrupt now s) = held s.
Proof.
  intros Hwf. destruct s; simpl in *; auto;
    destruct tx; try contradiction; simpl; rewrite ?app_nil_r; auto.
Qed.

(** an idle, closing or exited stage holds nothing *)
Theorem quiescent_holds_nothing s :
  match mode_of s with
  | MSelect true _ _ | MClose | MExit => held s = []
  | _ => True
  end.
Proof. destruct s; simpl; auto. Qed.

(** a well-formed stage is never dead *)
Theorem wf_not_dead tx s : wf tx s -> mode_of s <> MDead.
Proof. destruct s; simpl; try discriminate; contradiction. Qed.

(** sending modes hold exactly the chunk being sent followed by the rest *)
Theorem send_mode_held s c :
  mode_of s = MSend c -> exists rest, held s = cdata c ++ rest.
Proof.
  destruct s; simpl; try discriminate. intros H; inversion H; subst. eexists; reflexivity.
Qed.

(** States that arise without interrupts (no reconfiguration): no flush-on-exit sends. *)
Definition static_st (s : lstate) : Prop :=
  match s with
  | SendT _ _ => False
  | Send _ KExit => False
  | _ => True
  end.

Lemma static_init tx ps now : static_st (init_state tx ps now).
Proof. destruct tx; simpl; auto. destruct ps; simpl; auto. Qed.

Lemma static_on_input tx ps now draws c acc tmr :
  static_st (fst (on_input tx ps now draws c (Idle acc tmr))).
Proof.
  destruct c as [ch|]; destruct tx; simpl; auto.
  - unfold latency_delay. destruct (latency_jitter_guard jit); [|simpl; auto].
    destruct (latency_rand_n jit <=? 0); [simpl; auto|]. destruct draws; simpl; auto.
  - unfold bw_loop. destruct (bw_split_test _ _); simpl; auto.
  - destruct (slicer_chunk _ _ _ _ _ _); simpl; auto.
    unfold slicer_next. destruct os as [|lo [|hi r]]; simpl; auto.
    destruct ((lo =? 0) && slice_ok lo hi (zlen (cdata ch))); simpl; auto.
  - destruct (0 <? zlen _); simpl; auto. unfold limit_after. destruct (limit_close_test _); simpl; auto.
Qed.

Lemma static_on_timer tx now s : static_st s -> static_st (on_timer tx now s).
Proof.
  unfold on_timer. destruct s; simpl; auto.
  - destruct tmr; simpl; auto.
  - destruct tx; simpl; auto. destruct (slice_ok _ _ _); simpl; auto.
  - intros _. unfold slicer_next. destruct rest as [|lo [|hi r]]; simpl; auto.
    destruct ((lo =? o) && slice_ok lo hi tot); simpl; auto.
Qed.

Lemma static_on_sent tx ps now s : static_st s -> static_st (fst (on_sent tx ps now s)).
Proof.
  destruct s; simpl; auto. destruct k; simpl; auto.
  - destruct tx; simpl; auto. unfold bw_loop. destruct (bw_split_test _ _); simpl; auto.
  - destruct tx; simpl; auto.
  - destruct tx; simpl; auto. destruct ps; simpl; auto.
    unfold limit_after. destruct (limit_close_test _); simpl; auto.
Qed.

Lemma static_not_sendt s c dl : static_st s -> mode_of s <> MSendT c dl.
Proof. destruct s; simpl; try discriminate. contradiction. Qed.

(** C03 on the lifecycle model: once stop() has returned the listener is closed, the accept loop
    has ended (so nothing is registered or started afterwards) and every socket of every
    connection ever accepted is closed - on every schedule of clients connecting, dials succeeding
    or failing, links ending, and the stop handshake. *)
From TP Require Import Model.Prelude Extracted Model.Proxy.
From Coq Require Import ZifyBool ZifyNat.
Local Open Scope nat_scope.

Definition transient (s : px) : list nat :=
  match x_acc s with AAccepted c => [2 * c] | ADialed c => [2 * c; S (2 * c)] | _ => [] end.

Record Inv (s : px) : Prop := {
  i_open : forall x, In x (x_open s) -> In x (transient s) \/ In x (map snd (x_table s));
  i_table : forall k v, In (k, v) (x_table s) -> v = dest_of k;
  i_done : x_done s = true -> x_acc s = ADone;
  i_stop : (x_stop s = SWaited \/ x_stop s = SReturned) -> x_done s = true;
  i_lsn : (x_accdying s = true \/ x_acc s = ADone) -> x_listening s = false;
  i_ret : x_stop s = SReturned -> x_open s = [];
}.

Lemma in_rm x y l : In x (rm y l) <-> In x l /\ x <> y.
Proof.
  induction l as [|z l IH]; simpl; [tauto|].
  destruct (Nat.eqb y z) eqn:E.
  - apply Nat.eqb_eq in E. subst z. rewrite IH. split; [tauto|]. intros [[H|H] Hn]; [congruence|tauto].
  - apply Nat.eqb_neq in E. simpl. rewrite IH. split; [intros [H|H]; [subst; split; [tauto|congruence]|tauto]|tauto].
Qed.

Lemma in_rm_all xs : forall l x, In x (rm_all xs l) <-> In x l /\ ~ In x xs.
Proof.
  induction xs as [|y xs IH]; intros l x; simpl; [tauto|].
  rewrite IH, in_rm. split; [intros [[H1 H2] H3]; split; [exact H1|intros [E|E]; [congruence|tauto]]|].
  intros [H1 H2]. split; [split; [exact H1|intros E; apply H2; left; congruence]|tauto].
Qed.

Lemma in_rm_key k t : forall k' v, In (k', v) (rm_key k t) <-> In (k', v) t /\ k' <> k.
Proof.
  induction t as [|[k0 v0] t IH]; intros k' v; simpl; [tauto|].
  destruct (Nat.eqb k k0) eqn:E.
  - apply Nat.eqb_eq in E. subst k0. rewrite IH. split; [tauto|]. intros [[H|H] Hn]; [inversion H; congruence|tauto].
  - apply Nat.eqb_neq in E. simpl. rewrite IH.
    split; [intros [H|H]; [inversion H; subst; split; [tauto|congruence]|tauto]|tauto].
Qed.

Lemma dest_of_even c : dest_of (2 * c) = S (2 * c).
Proof. unfold dest_of. replace (Nat.even (2 * c)) with true; [reflexivity|]. symmetry. apply Nat.even_spec. exists c. lia. Qed.

Lemma dest_of_odd c : dest_of (S (2 * c)) = 2 * c.
Proof.
  unfold dest_of. replace (Nat.even (S (2 * c))) with false; [reflexivity|].
  symmetry. rewrite Nat.even_succ. apply Bool.not_true_is_false. intros H. apply Nat.odd_spec in H. destruct H as [m Hm]. lia.
Qed.

Lemma odd_of_not_even k : Nat.even k = false -> exists a, k = S (2 * a).
Proof.
  intros H. assert (Ho : Nat.odd k = true) by (unfold Nat.odd; now rewrite H).
  apply Nat.odd_spec in Ho. destruct Ho as [a ->]. exists a. lia.
Qed.

Lemma dest_of_inj k1 k2 : dest_of k1 = dest_of k2 -> k1 = k2.
Proof.
  unfold dest_of. destruct (Nat.even k1) eqn:E1, (Nat.even k2) eqn:E2; intros H.
  - lia.
  - apply Nat.even_spec in E1. destruct E1 as [a ->]. destruct (odd_of_not_even _ E2) as [b ->]. simpl in H. lia.
  - apply Nat.even_spec in E2. destruct E2 as [b ->]. destruct (odd_of_not_even _ E1) as [a ->]. simpl in H. lia.
  - destruct (odd_of_not_even _ E1) as [a ->]. destruct (odd_of_not_even _ E2) as [b ->]. simpl in H. lia.
Qed.

Lemma Inv_init : Inv px_init.
Proof.
  split; simpl; try tauto; try discriminate.
  - intros [H|H]; discriminate.
  - intros [H|H]; discriminate.
Qed.

Local Arguments writer_deregisters_its_name : simpl never.
Local Arguments conn_key_is_dest : simpl never.
Local Arguments free_blocker_waits_for_accept_loop : simpl never.

Section WithFacts.
  Hypothesis Hwait : free_blocker_waits_for_accept_loop = true.
  Hypothesis Hkey : conn_key_is_dest = true.
  Hypothesis Hname : writer_deregisters_its_name = true.

  (* routine fields: the component is unchanged, or the accept loop is provably not at ADone *)
  Ltac not_done Id Is :=
    first [ (intros Hd0; specialize (Id Hd0); congruence)
          | (intros Hr0; specialize (Is (or_intror Hr0)); specialize (Id Is); congruence) ].

  Lemma step_inv s a s' : Inv s -> pstep s a = Some s' -> Inv s'.
  Proof.
    intros [Io It Id Is Il Ir] H. unfold pstep in H. rewrite Hname in H.
    destruct a; simpl in H.
    - (* accept *)
      destruct (x_acc s) eqn:Ea; try discriminate. destruct (x_listening s) eqn:El; [|discriminate].
      inversion H; subst s'; clear H. split; simpl.
      + intros x [Hx|Hx]; [left; left; exact Hx|]. destruct (Io x Hx) as [Ht|Ht]; [unfold transient in Ht; rewrite Ea in Ht; contradiction|tauto].
      + exact It.
      + not_done Id Is.
      + exact Is.
      + intros [Ha|Ha]; [|discriminate]. specialize (Il (or_introl Ha)). congruence.
      + not_done Id Is.
    - (* accept fails *)
      destruct (x_acc s) eqn:Ea; try discriminate. destruct (x_listening s) eqn:El; [discriminate|].
      inversion H; subst s'; clear H. split; simpl.
      + intros x Hx. destruct (Io x Hx) as [Ht|Ht]; [unfold transient in Ht; rewrite Ea in Ht; contradiction|tauto].
      + exact It.
      + reflexivity.
      + exact Is.
      + reflexivity.
      + exact Ir.
    - (* dial ok *)
      destruct (x_acc s) eqn:Ea; try discriminate.
      inversion H; subst s'; clear H. split; simpl.
      + intros x [Hx|Hx]; [left; right; left; exact Hx|]. destruct (Io x Hx) as [Ht|Ht]; [|tauto].
        unfold transient in Ht; rewrite Ea in Ht. left. simpl in *. tauto.
      + exact It.
      + not_done Id Is.
      + exact Is.
      + intros [Ha|Ha]; [|discriminate]. apply Il. tauto.
      + not_done Id Is.
    - (* dial fails: the client socket is closed *)
      destruct (x_acc s) eqn:Ea; try discriminate.
      inversion H; subst s'; clear H. split; simpl.
      + intros x Hx. apply in_rm in Hx as [Hx Hn]. destruct (Io x Hx) as [Ht|Ht]; [|tauto].
        unfold transient in Ht; rewrite Ea in Ht. simpl in Ht. destruct Ht as [Ht|[]]. congruence.
      + exact It.
      + not_done Id Is.
      + exact Is.
      + intros [Ha|Ha]; [|discriminate]. apply Il. tauto.
      + not_done Id Is.
    - (* register *)
      destruct (x_acc s) eqn:Ea; try discriminate.
      inversion H; subst s'; clear H. rewrite ?Hkey. split; simpl.
      + intros x Hx. destruct (Io x Hx) as [Ht|Ht]; [|tauto].
        unfold transient in Ht; rewrite Ea in Ht. simpl in Ht. right. destruct Ht as [Ht|[Ht|[]]]; subst; tauto.
      + intros k v [Hkv|[Hkv|Hkv]];
          [inversion Hkv; subst; symmetry; apply dest_of_even|inversion Hkv; subst; symmetry; apply dest_of_odd|now apply It].
      + not_done Id Is.
      + exact Is.
      + intros [Ha|Ha]; [|discriminate]. apply Il. tauto.
      + not_done Id Is.
    - destruct (x_acc s) eqn:Ea; try discriminate.
      inversion H; subst s'; clear H. split; simpl.
      + intros x Hx. destruct (Io x Hx) as [Ht|Ht]; [unfold transient in Ht; rewrite Ea in Ht; contradiction|tauto].
      + exact It.
      + not_done Id Is.
      + exact Is.
      + intros [Ha|Ha]; [|discriminate]. apply Il. tauto.
      + not_done Id Is.
    - destruct (x_acc s) eqn:Ea; try discriminate.
      inversion H; subst s'; clear H. split; simpl.
      + intros x Hx. destruct (Io x Hx) as [Ht|Ht]; [unfold transient in Ht; rewrite Ea in Ht; contradiction|tauto].
      + exact It.
      + not_done Id Is.
      + exact Is.
      + intros [Ha|Ha]; [|discriminate]. apply Il. tauto.
      + not_done Id Is.
    - (* a link ends: its writer closes its destination and removes the table entry of its own name *)
      destruct (existsb (Nat.eqb k) (x_links s)); [|discriminate].
      inversion H; subst s'; clear H. split; simpl.
      + intros x Hx. apply in_rm in Hx as [Hx Hn]. destruct (Io x Hx) as [Ht|Ht]; [left; exact Ht|right].
        apply in_map_iff in Ht as ([k' v] & Hv & Hin). simpl in Hv. subst v.
        apply in_map_iff. exists (k', x). split; [reflexivity|]. apply in_rm_key. split; [exact Hin|].
        intros ->. specialize (It _ _ Hin). congruence.
      + intros k' v Hin. apply in_rm_key in Hin as [Hin _]. now apply It.
      + exact Id.
      + exact Is.
      + exact Il.
      + intros Hr. rewrite (Ir Hr). reflexivity.
    - (* stop: kill *)
      destruct (x_stop s) eqn:Es; try discriminate.
      inversion H; subst s'; clear H. split; simpl.
      + exact Io.
      + exact It.
      + exact Id.
      + intros [E|E]; discriminate.
      + exact Il.
      + discriminate.
    - (* freeBlocker: kill the accept tomb, close the listener *)
      destruct (x_dying s && negb (x_accdying s)); [|discriminate].
      inversion H; subst s'; clear H. split; simpl.
      + exact Io.
      + exact It.
      + exact Id.
      + exact Is.
      + reflexivity.
      + exact Ir.
    - (* freeBlocker: wait for the accept loop, then Done *)
      rewrite ?Hwait in H. simpl in H.
      destruct (x_accdying s) eqn:Ead; [|discriminate]. simpl in H.
      destruct (x_acc s) eqn:Ea; try discriminate.
      inversion H; subst s'; clear H. split; simpl.
      + intros x Hx. destruct (Io x Hx) as [Ht|Ht]; [unfold transient in Ht; rewrite Ea in Ht; contradiction|tauto].
      + exact It.
      + intros _. reflexivity.
      + reflexivity.
      + intros _. apply Il. now right.
      + exact Ir.
    - destruct (x_stop s) eqn:Es; try discriminate. destruct (x_done s) eqn:Ed; [|discriminate].
      inversion H; subst s'; clear H. split; simpl.
      + exact Io.
      + exact It.
      + intros _. now apply Id.
      + reflexivity.
      + exact Il.
      + discriminate.
    - (* stop: close every registered connection *)
      destruct (x_stop s) eqn:Es; try discriminate.
      inversion H; subst s'; clear H. split; simpl.
      + intros x Hx. apply in_rm_all in Hx as [Hx _]. now apply Io.
      + exact It.
      + exact Id.
      + intros _. apply Is. now left.
      + exact Il.
      + intros _. specialize (Is (or_introl eq_refl)). specialize (Id Is).
        destruct (rm_all (map snd (x_table s)) (x_open s)) as [|x r] eqn:E; [reflexivity|].
        assert (Hin : In x (rm_all (map snd (x_table s)) (x_open s))) by (rewrite E; now left).
        apply in_rm_all in Hin as [Hx Hn]. destruct (Io x Hx) as [Ht|Ht]; [|contradiction].
        unfold transient in Ht. rewrite Id in Ht. contradiction.
  Qed.

  (** C15: every entry of the connection table belongs to a running link, or to the connection the accept loop is
      about to link *)
  Definition pending_key (s : px) (k : nat) : Prop :=
    match x_acc s with
    | ARegistered c => k = 2 * c \/ k = S (2 * c)
    | ALinks1 c => k = S (2 * c)
    | _ => False
    end.

  Definition Books (s : px) : Prop :=
    forall k v, In (k, v) (x_table s) -> In k (x_links s) \/ pending_key s k.

  Lemma Books_init : Books px_init.
  Proof. intros k v []. Qed.

  Lemma step_books s a s' : Books s -> pstep s a = Some s' -> Books s'.
  Proof.
    intros Hb H. unfold Books, pending_key in *. unfold pstep in H. rewrite Hname in H.
    destruct a; simpl in H.
    - destruct (x_acc s) eqn:Ea; try discriminate. destruct (x_listening s); [|discriminate].
      inversion H; subst s'; clear H. simpl. intros k v Hin. destruct (Hb k v Hin) as [Hl|[]]. now left.
    - destruct (x_acc s) eqn:Ea; try discriminate. destruct (x_listening s); [discriminate|].
      inversion H; subst s'; clear H. simpl. intros k v Hin. destruct (Hb k v Hin) as [Hl|[]]. now left.
    - destruct (x_acc s) eqn:Ea; try discriminate.
      inversion H; subst s'; clear H. simpl. intros k v Hin. destruct (Hb k v Hin) as [Hl|[]]. now left.
    - destruct (x_acc s) eqn:Ea; try discriminate.
      inversion H; subst s'; clear H. simpl. intros k v Hin. destruct (Hb k v Hin) as [Hl|[]]. now left.
    - destruct (x_acc s) eqn:Ea; try discriminate.
      inversion H; subst s'; clear H. simpl. intros k v [Hin|[Hin|Hin]].
      + inversion Hin; subst. right. now left.
      + inversion Hin; subst. right. now right.
      + destruct (Hb k v Hin) as [Hl|[]]. now left.
    - destruct (x_acc s) eqn:Ea; try discriminate.
      inversion H; subst s'; clear H. simpl. intros k v Hin. destruct (Hb k v Hin) as [Hl|[Hp|Hp]].
      + left. now right.
      + left. left. now symmetry.
      + now right.
    - destruct (x_acc s) eqn:Ea; try discriminate.
      inversion H; subst s'; clear H. simpl. intros k v Hin. destruct (Hb k v Hin) as [Hl|Hp].
      + left. now right.
      + left. left. now symmetry.
    - destruct (existsb (Nat.eqb k) (x_links s)); [|discriminate].
      inversion H; subst s'; clear H. simpl. intros k' v Hin. apply in_rm_key in Hin as [Hin Hne].
      destruct (Hb k' v Hin) as [Hl|Hp]; [left; apply in_rm; split; assumption|now right].
    - destruct (x_stop s); try discriminate. inversion H; subst s'; clear H. exact Hb.
    - destruct (x_dying s && negb (x_accdying s)); [|discriminate]. inversion H; subst s'; clear H. exact Hb.
    - destruct (x_accdying s && _); [|discriminate]. inversion H; subst s'; clear H. exact Hb.
    - destruct (x_stop s); try discriminate. destruct (x_done s); [|discriminate]. inversion H; subst s'; clear H. exact Hb.
    - destruct (x_stop s); try discriminate. inversion H; subst s'; clear H. exact Hb.
  Qed.

  Theorem run_books l : forall s s', Books s -> prun s l = Some s' -> Books s'.
  Proof.
    induction l as [|a l IH]; intros s s' Hi Hr; simpl in Hr; [inversion Hr; subst; exact Hi|].
    destruct (pstep s a) as [s1|] eqn:Hs; [|discriminate]. eapply IH; [eapply step_books; eassumption|exact Hr].
  Qed.

  Theorem run_inv l : forall s s', Inv s -> prun s l = Some s' -> Inv s'.
  Proof.
    induction l as [|a l IH]; intros s s' Hi Hr; simpl in Hr; [inversion Hr; subst; exact Hi|].
    destruct (pstep s a) as [s1|] eqn:Hs; [|discriminate]. eapply IH; [eapply step_inv; eassumption|exact Hr].
  Qed.

  (** once stop() has returned: the listener is closed, the accept loop has ended, every socket is
      closed - and it stays that way (the only action still enabled is a link ending) *)
  Theorem stop_is_down l s :
    prun px_init l = Some s -> x_stop s = SReturned ->
    x_listening s = false /\ x_acc s = ADone /\ x_open s = [].
  Proof.
    intros Hr Hs. pose proof (run_inv l _ _ Inv_init Hr) as [Io It Id Is Il Ir].
    specialize (Is (or_intror Hs)). specialize (Id Is).
    split; [apply Il; now right|]. split; [exact Id|now apply Ir].
  Qed.

  (** C15 on every schedule - clients connecting, dials failing, links ending in any order, stop() at any point or
      never: whenever every link that was started has ended and the accept loop is not in the middle of setting a
      connection up, the connection table is empty and no socket is open *)
  Theorem nothing_left_when_links_ended l s :
    prun px_init l = Some s -> x_links s = [] -> (x_acc s = APending \/ x_acc s = ADone) ->
    x_table s = [] /\ x_open s = [].
  Proof.
    intros Hr Hl Ha. pose proof (run_inv l _ _ Inv_init Hr) as [Io _ _ _ _ _].
    pose proof (run_books l _ _ Books_init Hr) as Hb.
    assert (Ht : x_table s = []).
    { destruct (x_table s) as [|[k v] t] eqn:Et; [reflexivity|exfalso].
      destruct (Hb k v) as [Hin|Hp]; [rewrite Et; now left|rewrite Hl in Hin; contradiction|].
      unfold pending_key in Hp. destruct Ha as [Ha|Ha]; rewrite Ha in Hp; contradiction. }
    split; [exact Ht|].
    destruct (x_open s) as [|x o] eqn:Eo; [reflexivity|exfalso].
    destruct (Io x) as [Hx|Hx]; [rewrite ?Eo; now left| |].
    - unfold transient in Hx. destruct Ha as [Ha|Ha]; rewrite Ha in Hx; contradiction.
    - rewrite Ht in Hx. contradiction.
  Qed.

  Theorem nothing_after_stop l s a s' :
    prun px_init l = Some s -> x_stop s = SReturned -> pstep s a = Some s' ->
    x_open s' = [] /\ x_acc s' = ADone /\ x_listening s' = false.
  Proof.
    intros Hr Hs Hstep.
    assert (Hr' : prun px_init (l ++ [a]) = Some s').
    { clear -Hr Hstep. revert Hr. generalize px_init. induction l as [|b l IH]; intros s0 Hr; simpl in *.
      - inversion Hr; subst. now rewrite Hstep.
      - destruct (pstep s0 b); [now apply IH|discriminate]. }
    assert (Hs' : x_stop s' = SReturned).
    { destruct a; simpl in Hstep; rewrite ?Hs in Hstep; try discriminate;
        repeat match type of Hstep with
               | context [match ?x with _ => _ end] => destruct x; try discriminate
               | context [if ?x then _ else _] => destruct x; try discriminate
               end; inversion Hstep; subst; simpl; auto. }
    destruct (stop_is_down _ _ Hr' Hs') as (H1 & H2 & H3). auto.
  Qed.
End WithFacts.

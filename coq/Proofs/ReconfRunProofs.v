(** The executable reconfiguration runs (Model/ReconfRun.v) are interleavings of the all-schedules
    system: every move of [rrun_quiet] - and of the guided search [rsearch] - is one data-path
    action, one control action of Model/Reconf.v, or a change of the operation's phase that leaves
    the link untouched. Hence every theorem about [mixed_run] (ReconfInv, WallProofs) speaks about
    the runs that are compared with the real code. *)
From TP Require Import Model.Prelude Extracted Model.Toxics Model.Timed Model.Reconf Model.ReconfRun
     Proofs.GoArith Proofs.StageContract Proofs.LinkInv Proofs.C01Proofs Proofs.ReconfInv.
From Coq Require Import ZifyBool ZifyNat.

Definition sound (l : link) (res : option (option mact * rrun)) : Prop :=
  match res with
  | None => True
  | Some (Some (MCtl a), r') => ctl_step l a = Some (r_l r')
  | Some (Some (MData _), _) => False
  | Some (None, r') => r_l r' = l
  end.

Lemma sound_do_ctl r a ph : sound (r_l r) (do_ctl r a ph).
Proof. unfold do_ctl. destruct (ctl_step (r_l r) a) eqn:E; simpl; auto. Qed.

Lemma sound_just_ph r ph : sound (r_l r) (just_ph r ph).
Proof. reflexivity. Qed.

Lemma sound_or_else l a b : sound l a -> sound l b -> sound l (or_else a b).
Proof. destruct a; simpl; auto. Qed.

Lemma sound_flush_move r p dl k : sound (r_l r) (flush_move r p dl k).
Proof.
  unfold flush_move. destruct (nth_error (l_stubs (r_l r)) p) as [s|]; [|exact I].
  destruct dl as [d|].
  - destruct (ctl_step (r_l r) (CForward p)) eqn:E; [exact E|].
    destruct (d <=? l_now (r_l r)); [apply sound_do_ctl|exact I].
  - destruct (s_inq s); [|reflexivity].
    destruct (ctl_step (r_l r) (CFlushRecv p)) eqn:E; [exact E|exact I].
Qed.

Lemma sound_stop_move r q st k : sound (r_l r) (stop_move r q st k).
Proof.
  unfold stop_move. destruct st as [| |b]; [| |exact I].
  - destruct (interrupt_try (r_l r) q false); try exact I; [reflexivity|apply sound_do_ctl].
  - destruct (interrupt_try (r_l r) q true); try exact I. reflexivity.
Qed.

Theorem ctl_move_sound r : sound (r_l r) (ctl_move r).
Proof.
  unfold ctl_move. destruct (r_ph r) as [|tx eff effp p w|p effp|p tx eff w|p q effp w|p q effp st stopped dl|p q st stopped|p q effp dl|q effp|].
  - (* idle: start the next operation *)
    destruct (r_ops r) as [|[at_ o] rest]; [exact I|].
    destruct (at_ <=? l_now (r_l r)); [|exact I].
    set (r0 := mkRun (r_l r) (r_gone r) PIdle rest (r_conf r)).
    change (r_l r) with (r_l r0).
    destruct (match l_sink_closed (r_l r0) with Some _ => true | None => false end); [apply sound_just_ph|].
    destruct o as [tx eff effp|k tx eff|k effp].
    + destruct (last_live (r_gone r) 0 None); apply sound_just_ph.
    + destruct (live_pos (r_gone r) k 0); [|apply sound_just_ph].
      apply sound_or_else; [apply sound_do_ctl|apply sound_just_ph].
    + destruct (live_pos (r_gone r) k 0); [|apply sound_just_ph].
      destruct (live_pos (r_gone r) (pred k) 0); [|apply sound_just_ph].
      destruct (Nat.ltb _ _); apply sound_just_ph.
  - destruct (interrupt_try (r_l r) p w); try exact I.
    + destruct (ctl_step (r_l r) (CInsertDead p tx)) eqn:E; [exact E|exact I].
    + apply sound_do_ctl.
    + destruct (ctl_step (r_l r) (CInsertAfter p tx eff)) eqn:E; [exact E|exact I].
  - destruct (nth_error (l_stubs (r_l r)) p); [apply sound_do_ctl|exact I].
  - destruct (interrupt_try (r_l r) p w); try exact I; [apply sound_just_ph|apply sound_do_ctl|apply sound_do_ctl].
  - destruct (interrupt_try (r_l r) p w); try exact I; [reflexivity|apply sound_do_ctl|].
    destruct (nth_error (l_stubs (r_l r)) p) as [s|]; [|exact I].
    destruct (is_timeout (s_tx s)); [|apply sound_just_ph].
    destruct (ctl_step (r_l r) (CSever p)) eqn:E; [exact E|exact I].
  - destruct (nth_error (l_stubs (r_l r)) p) as [s|]; [|exact I].
    apply sound_or_else; [|apply sound_stop_move].
    destruct dl as [d|]; [apply sound_flush_move|].
    pose proof (sound_flush_move r p None (fun d => PFlush p q effp st stopped d)) as Hf.
    destruct (flush_move r p None _); [exact Hf|].
    destruct (inq_empty s && s_in_closed s).
    + destruct (ctl_step (r_l r) (CCloseEnd p)) eqn:E; [exact E|exact I].
    + destruct st as [| |b]; try exact I. destruct stopped; [exact I|]. destruct b; apply sound_just_ph.
  - destruct stopped; [reflexivity|]. destruct st; try apply sound_stop_move. reflexivity.
  - destruct (nth_error (l_stubs (r_l r)) p) as [s|]; [|exact I].
    destruct dl as [d|]; [apply sound_flush_move|].
    destruct (s_inq s); [|apply sound_flush_move].
    destruct (Nat.eqb (S q) p); [|apply sound_just_ph].
    destruct (ctl_step (r_l r) (CDelete p)) eqn:E; [exact E|exact I].
  - destruct (nth_error (l_stubs (r_l r)) q); [apply sound_do_ctl|exact I].
  - exact I.
Qed.

Lemma step_now_sched l l' : step_now l = Some l' -> exists a, sched_step l a = Some l'.
Proof.
  unfold step_now. destruct (try_stubs l (length (l_stubs l))) as [l2|] eqn:Ht.
  - intros H; inversion H; subst. eapply try_stubs_sched; exact Ht.
  - intros H. exists AReader. exact H.
Qed.

Lemma sound_bump1 l x : sound l x -> sound l (bump1 x).
Proof. destruct x as [[[[d|c]|] r']|]; simpl; auto. Qed.

Lemma ctl_alt_sound r : sound (r_l r) (ctl_alt r).
Proof.
  unfold ctl_alt. destruct (r_ph r); try exact I.
  match goal with |- context [if ?b then _ else _] => idtac | _ => idtac end.
  repeat match goal with
         | |- sound _ (match ?e with _ => _ end) => destruct e; try exact I
         | |- sound _ (if ?e then _ else _) => destruct e; try exact I
         end;
  apply sound_bump1; first [apply sound_just_ph | apply sound_stop_move].
Qed.

(** one move of the executable run: at most one action of the all-schedules system *)
Theorem rstep_sound pol r x r' : rstep pol r = Some (x, r') ->
  (exists a, mixed_step (r_l r) a = Some (r_l r')) \/ r_l r' = r_l r.
Proof.
  assert (H0 : forall r0, rstep0 pol r = Some (x, r0) ->
               (exists a, mixed_step (r_l r) a = Some (r_l r0)) \/ r_l r0 = r_l r).
  2:{ unfold rstep. destruct (rstep0 pol r) as [[x0 r0]|] eqn:E0; [|discriminate].
      intros H; injection H as Hx Hr. subst x0.
      assert (El : r_l r' = r_l r0) by (rewrite <- Hr; destruct (ctl_alt r); reflexivity).
      rewrite El. apply H0. reflexivity. }
  clear r'. intros r'.
  unfold rstep0. pose proof (ctl_move_sound r) as Hc.
  destruct (step_now (r_l r)) as [l1|] eqn:Hs.
  - destruct (step_now_sched _ _ Hs) as [a Ha].
    destruct (ctl_move r) as [[y r1]|].
    + destruct pol; intros H; injection H as Hx Hr; rewrite <- Hr; cbn [r_l].
      * destruct y as [[d|c]|]; simpl in Hc; [contradiction| |right; exact Hc].
        left. exists (MCtl c). exact Hc.
      * left. exists (MData a). exact Ha.
    + intros H; injection H as Hx Hr; rewrite <- Hr. left. exists (MData a). exact Ha.
  - destruct (ctl_move r) as [[y r1]|]; [|discriminate].
    intros H; injection H as Hx Hr; rewrite <- Hr.
    destruct y as [[d|c]|]; simpl in Hc; [contradiction| |right; exact Hc].
    left. exists (MCtl c). exact Hc.
Qed.

Theorem rrun_quiet_mixed pol fuel : forall horizon r r',
  rrun_quiet pol fuel horizon r = Some r' -> exists sigma, mixed_run (r_l r) sigma = Some (r_l r').
Proof.
  induction fuel as [|f IH]; intros horizon r r' H; simpl in H; [discriminate|].
  destruct (rstep pol r) as [[x r1]|] eqn:Hs.
  - destruct (IH _ _ _ H) as [sigma Hsig].
    destruct (rstep_sound _ _ _ _ Hs) as [[a Ha]|E].
    + exists (a :: sigma). simpl. rewrite Ha. exact Hsig.
    + exists sigma. rewrite <- E. exact Hsig.
  - destruct (rnext_time r) as [t|].
    + destruct (t <=? horizon); [|inversion H; subst; exists []; reflexivity].
      destruct (IH _ _ _ H) as [sigma Hsig]. cbn [with_l r_l] in Hsig.
      exists (MData (ATick (Z.max t (l_now (r_l r)))) :: sigma). simpl.
      replace (l_now (r_l r) <=? Z.max t (l_now (r_l r))) with true by lia. exact Hsig.
    + inversion H; subst. exists []. reflexivity.
Qed.

(** the guided search over the scheduler's choices only ever follows moves of the system too *)
Theorem rsearch_mixed fuel : forall horizon obs oc r r',
  rsearch fuel horizon obs oc r = Some r' -> exists sigma, mixed_run (r_l r) sigma = Some (r_l r').
Proof.
  induction fuel as [|f IH]; intros horizon obs oc r r' H; [discriminate|]. cbn [rsearch] in H.
  assert (Hgo : forall r1, rsearch_go (rsearch f horizon obs oc) obs oc r r1 = Some r' ->
     exists sigma, mixed_run (r_l r1) sigma = Some (r_l r')).
  { intros r1 H1. unfold rsearch_go in H1. destruct (Nat.eqb _ _).
    - destruct (close_ok oc (r_l r1)); [eapply IH; exact H1|discriminate].
    - destruct (newest_ok obs (r_l r1)); [eapply IH; exact H1|discriminate]. }
  pose proof (ctl_move_sound r) as Hc.
  match type of H with match ?e with _ => _ end = _ => destruct e as [xa|] eqn:Halt end.
  { inversion H; subst xa. pose proof (ctl_alt_sound r) as Ha.
    destruct (ctl_alt r) as [[y ra]|] eqn:Era; [|discriminate].
    destruct (Hgo _ Halt) as [sigma Hsig].
    destruct y as [[d|c]|]; simpl in Ha; [contradiction| |].
    - exists (MCtl c :: sigma). simpl. rewrite Ha. exact Hsig.
    - exists sigma. rewrite <- Ha. exact Hsig. }
  destruct (step_now (r_l r)) as [l1|] eqn:Hs.
  - destruct (step_now_sched _ _ Hs) as [a Ha].
    destruct (ctl_move r) as [[y r1]|].
    + match type of H with match ?e with _ => _ end = _ => destruct e as [x1|] eqn:H1 end.
      * inversion H; subst x1. destruct (Hgo _ H1) as [sigma Hsig]. cbn [r_l] in Hsig.
        exists (MData a :: sigma). simpl. rewrite Ha. exact Hsig.
      * destruct (Hgo _ H) as [sigma Hsig]. cbn [r_l] in Hsig.
        destruct y as [[d|c]|]; simpl in Hc; [contradiction| |].
        -- exists (MCtl c :: sigma). simpl. rewrite Hc. exact Hsig.
        -- exists sigma. rewrite <- Hc. exact Hsig.
    + destruct (Hgo _ H) as [sigma Hsig]. cbn [with_l r_l] in Hsig.
      exists (MData a :: sigma). simpl. rewrite Ha. exact Hsig.
  - destruct (ctl_move r) as [[y r1]|].
    + destruct (Hgo _ H) as [sigma Hsig].
      destruct y as [[d|c]|]; simpl in Hc; [contradiction| |].
      * exists (MCtl c :: sigma). simpl. rewrite Hc. exact Hsig.
      * exists sigma. rewrite <- Hc. exact Hsig.
    + destruct (rnext_time r) as [t|].
      * destruct (t <=? horizon).
        -- destruct (Hgo _ H) as [sigma Hsig]. cbn [with_l r_l] in Hsig.
           exists (MData (ATick (Z.max t (l_now (r_l r)))) :: sigma). simpl.
           replace (l_now (r_l r) <=? Z.max t (l_now (r_l r))) with true by lia. exact Hsig.
        -- destruct (final_ok obs oc r); [|discriminate]. inversion H; subst. exists []. reflexivity.
      * destruct (final_ok obs oc r); [|discriminate]. inversion H; subst. exists []. reflexivity.
Qed.

(** ---- attribute updates and the stages that read the attributes (C07 / finding F13) *)

(** a stage in any well-formed state, whose toxic's attributes were overwritten with any values of
    the same toxic type, never panics or diverges on its next timer, input, send completion or
    interrupt: provided the instalment cut uses the rate the loop test read (regenerated fact) *)
Theorem attribute_write_is_harmless (old new : toxic) (st : lstate) now :
  bw_cut_uses_tested_rate = true -> same_kind old new = true -> wf old st ->
  wf new st /\ mode_of (on_timer new now st) <> MDead /\ mode_of (on_interrupt now st) <> MDead.
Proof.
  intros Hf Hk Hw. pose proof (setx_keeps_wf old new st Hf Hk Hw) as Hw'.
  split; [exact Hw'|]. split.
  - destruct (on_timer_contract new now st (attrs_ok_all new) Hw') as [H _]. eapply wf_not_dead; exact H.
  - destruct (on_interrupt_contract new now st Hw') as [H _]. eapply wf_not_dead; exact H.
Qed.

(** the arithmetic of the tree before the repair (the cut re-reads the rate): a 250-byte chunk
    tested against rate 1 (instalments of 100 bytes), the rate raised to 1000 before the timer fires:
    the cut p.Data[:100000] leaves the chunk - the stage panics and takes the process down *)
Theorem rate_update_race_pinned :
  let p := mkChunk (repeat 7 250) 0 in
  wf (TBandwidth 1) (BwInst p 1 0 100000000) /\
  same_kind (TBandwidth 1) (TBandwidth 1000) = true /\
  mode_of (on_timer_gen false (TBandwidth 1000) 100000000 (BwInst p 1 0 100000000)) = MDead /\
  mode_of (on_timer_gen true (TBandwidth 1000) 100000000 (BwInst p 1 0 100000000)) <> MDead.
Proof.
  cbv zeta. split; [|split; [reflexivity|split; [vm_compute; reflexivity|vm_compute; discriminate]]].
  cbn [wf]. split; [vm_compute; reflexivity|]. intros H. reflexivity.
Qed.

(** ---- an operation gives up on a stage only when its stub is closed (C10 / C14: a toxic that is
    added or updated reaches every live connection, however long its stage is busy) *)
Theorem interrupt_gives_up_only_on_closed l p w :
  interrupt_try l p w = IFalse -> exists s, nth_error (l_stubs l) p = Some s /\ s_closed s = true /\ w = false.
Proof.
  unfold interrupt_try. destruct (nth_error (l_stubs l) p) as [s|]; [|discriminate].
  destruct w; [destruct (is_exited s); discriminate|].
  destruct (s_closed s) eqn:E; [intros _; exists s; auto|].
  destruct (listens_interrupt s); discriminate.
Qed.

(** a restart decides afresh: the stage that runs afterwards is the one of the new attributes and of the
    new toxicity decision, started in its initial state, with the stub's per-connection state kept *)
Theorem restart_takes_the_new_toxic l p tx eff l' :
  ctl_step l (CRestart p tx eff) = Some l' ->
  exists s s', nth_error (l_stubs l) p = Some s /\ nth_error (l_stubs l') p = Some s' /\
    s_tx s' = tx /\ s_eff s' = eff /\ s_inq s' = s_inq s /\
    s_st s' = init_state (if eff then tx else TNoop) (s_ps s') (l_now l).
Proof.
  cbn [ctl_step]. destruct (nth_error (l_stubs l) p) as [s|] eqn:Hn; [|discriminate].
  destruct (is_exited s && negb (s_closed s)); [|discriminate]. intros H; inversion H; subst; clear H.
  exists s. eexists. split; [reflexivity|]. split.
  - unfold upd_stub; cbn [l_stubs]. clear -Hn. revert p Hn. induction (l_stubs l) as [|x xs IH]; intros [|p] Hn; simpl in *; try discriminate; auto.
  - cbn. auto.
Qed.

(** the update process: once the interrupted stage has returned, the next move restarts it with the
    toxic and the decision of the request *)
Theorem update_restarts_with_the_request r p tx eff :
  r_ph r = PUpd p tx eff true ->
  (exists s, nth_error (l_stubs (r_l r)) p = Some s /\ is_exited s = true /\ s_closed s = false) ->
  exists r', ctl_move r = Some (Some (MCtl (CRestart p tx eff)), r') /\ r_ph r' = PIdle.
Proof.
  intros Hph (s & Hn & Hex & Hcl). unfold ctl_move. rewrite Hph. unfold interrupt_try. rewrite Hn, Hex.
  unfold do_ctl. cbn [ctl_step]. rewrite Hn, Hex, Hcl. cbn. eexists. split; reflexivity.
Qed.

(** C17: populate is idempotent on matching entries and replaces on difference; reset enables
    every proxy and removes every toxic. Over the API model of Model/Api.v. *)
From Coq Require Import String.
From TP Require Import Model.Prelude Extracted Model.Json Model.Api.
From Coq Require Import ZifyBool.
Local Open Scope Z_scope.

(** an entry matches an existing proxy as the code compares them (Proxy.Differs): the stored listen
    string equals the printed form of the resolved requested address, and the upstream texts agree *)
Definition entry_matches (e : env) (s : server) (i : proxy_in) : Prop :=
  exists old a, find_proxy s (pi_name i) = Some old /\ lookup_env e (pi_listen i) = Some a /\
                p_listen old = a_resolved a /\ p_upstream old = pi_upstream i.

Definition existing (s : server) (i : proxy_in) : list proxy_rec :=
  match find_proxy s (pi_name i) with Some p => [p] | None => [] end.

Lemma populate_apply_idempotent e s : forall items done,
  Forall (entry_matches e s) items ->
  populate_apply e s items done =
  (mkResp status_created (PPopulate (done ++ flat_map (existing s) items)), s).
Proof.
  induction items as [|i r IH]; intros done H; simpl.
  - now rewrite app_nil_r.
  - inversion H as [|? ? (old & a & Hf & Hl & Hli & Hu) Hr]; subst.
    rewrite Hf, Hl. rewrite Hli, Hu. rewrite !String.eqb_refl. simpl.
    rewrite IH by exact Hr. unfold existing at 2. rewrite Hf. simpl. now rewrite <- app_assoc.
Qed.

(** populate with only matching entries: 201, the existing proxies in request order, and the
    state - proxies, enabled flags, toxic chains - exactly as before; hence also after any number
    of repetitions *)
Theorem populate_idempotent e s items :
  Forall (entry_matches e s) items ->
  populate_apply e s items [] = (mkResp status_created (PPopulate (flat_map (existing s) items)), s).
Proof. intros H. now rewrite populate_apply_idempotent. Qed.

Fixpoint repeat_populate (e : env) (s : server) (items : list proxy_in) (n : nat) : server :=
  match n with O => s | S n' => repeat_populate e (snd (populate_apply e s items [])) items n' end.

Theorem populate_repeated e s items n :
  Forall (entry_matches e s) items -> repeat_populate e s items n = s.
Proof.
  intros H. induction n as [|n IH]; simpl; [reflexivity|].
  rewrite populate_idempotent by exact H. simpl. exact IH.
Qed.

(** an entry that differs replaces the old proxy: the old one is stopped first (its port is free
    for the new one even if it is the same port), the new one has no toxics *)
Theorem populate_replaces e s i old a fresh' :
  find_proxy s (pi_name i) = Some old -> lookup_env e (pi_listen i) = Some a ->
  (p_listen old <> a_resolved a \/ p_upstream old <> pi_upstream i) ->
  (match pi_enabled i with Some b => b | None => true end) = true ->
  start_proxy e (remove_proxy (replace_proxy s (stop_proxy old)) (pi_name i))
              (mkProxy (pi_name i) (pi_listen i) (pi_upstream i) false [] []) = Some fresh' ->
  populate_apply e s [i] [] =
  (mkResp status_created (PPopulate [fresh']), replace_proxy (replace_proxy s (stop_proxy old)) fresh') /\
  p_up fresh' = [] /\ p_down fresh' = [] /\ p_enabled fresh' = true.
Proof.
  intros Hf Hl Hd He Hs. simpl. rewrite Hf, Hl.
  assert (Hdiff : (negb (String.eqb (p_listen old) (a_resolved a)) || negb (String.eqb (p_upstream old) (pi_upstream i)))%bool = true).
  { destruct Hd as [Hd|Hd].
    - destruct (String.eqb (p_listen old) (a_resolved a)) eqn:E; [apply String.eqb_eq in E; congruence|reflexivity].
    - destruct (String.eqb (p_upstream old) (pi_upstream i)) eqn:E; [apply String.eqb_eq in E; congruence|].
      destruct (String.eqb (p_listen old) (a_resolved a)); reflexivity. }
  rewrite Hdiff. simpl. rewrite He, Hs. split; [reflexivity|].
  unfold start_proxy in Hs. simpl in Hs. rewrite Hl in Hs.
  destruct (port_busy _ _ _ _); [discriminate|]. inversion Hs; subst. simpl. auto.
Qed.

(** ---- reset *)
Definition clean (p : proxy_rec) : Prop := p_enabled p = true /\ p_up p = [] /\ p_down p = [].

Lemma find_replace_same s p' : forall n,
  find_proxy (replace_proxy s p') n =
  if String.eqb (p_name p') n then match find_proxy s n with Some _ => Some p' | None => None end else find_proxy s n.
Proof.
  induction s as [|q s IH]; intros n; simpl.
  - destruct (String.eqb (p_name p') n); reflexivity.
  - destruct (String.eqb (p_name q) (p_name p')) eqn:E1.
    + apply String.eqb_eq in E1. simpl. rewrite E1.
      destruct (String.eqb (p_name p') n) eqn:E2; reflexivity.
    + simpl. destruct (String.eqb (p_name q) n) eqn:E3.
      * apply String.eqb_eq in E3. subst n.
        destruct (String.eqb (p_name p') (p_name q)) eqn:E4; [|reflexivity].
        apply String.eqb_eq in E4. rewrite E4, String.eqb_refl in E1. discriminate.
      * apply IH.
Qed.

Definition all_clean_among (names : list string) (s : server) : Prop :=
  forall n p, In n names -> find_proxy s n = Some p -> clean p.

Lemma reset_all_clean e : forall todo s resp s' (keep : list string),
  reset_all e s todo = (resp, s') -> status resp = status_no_content ->
  all_clean_among keep s ->
  all_clean_among (keep ++ map p_name todo) s'.
Proof.
  induction todo as [|p0 r IH]; intros s resp s' keep H Hst Hk; simpl in H.
  - inversion H; subst. simpl. now rewrite app_nil_r.
  - simpl. replace (keep ++ p_name p0 :: map p_name r)%list with ((keep ++ [p_name p0]) ++ map p_name r)%list
      by now rewrite <- app_assoc.
    destruct (find_proxy s (p_name p0)) as [p|] eqn:Hf.
    + assert (Hstep : forall p1, p_name p1 = p_name p0 -> clean p1 ->
                all_clean_among (keep ++ [p_name p0]) (replace_proxy s p1)).
      { intros p1 Hn Hc n q Hin Hq. rewrite find_replace_same in Hq. rewrite Hn in Hq.
        destruct (String.eqb (p_name p0) n) eqn:E.
        - apply String.eqb_eq in E. subst n. rewrite Hf in Hq. inversion Hq; subst. exact Hc.
        - apply in_app_or in Hin. destruct Hin as [Hin|[Hin|[]]].
          + eapply Hk; eassumption.
          + subst n. rewrite String.eqb_refl in E. discriminate. }
      assert (Hnm : p_name p = p_name p0).
      { clear -Hf. induction s as [|q s IHs]; simpl in Hf; [discriminate|].
        destruct (String.eqb (p_name q) (p_name p0)) eqn:E; [inversion Hf; subst; now apply String.eqb_eq|auto]. }
      destruct (p_enabled p) eqn:Hen.
      * eapply IH; [exact H|exact Hst|]. apply Hstep; [exact Hnm|]. repeat split.
      * destruct (start_proxy e s p) as [p'|] eqn:Hsp.
        -- eapply IH; [exact H|exact Hst|]. apply Hstep; [|repeat split].
           unfold start_proxy in Hsp. destruct (lookup_env e (p_listen p)); [|discriminate].
           destruct (port_busy _ _ _ _); [discriminate|]. inversion Hsp; subst. simpl. exact Hnm.
        -- inversion H; subst. simpl in Hst. unfold status_internal, status_no_content in Hst. discriminate.
    + eapply IH; [exact H|exact Hst|].
      intros n q Hin Hq. apply in_app_or in Hin. destruct Hin as [Hin|[Hin|[]]].
      * eapply Hk; eassumption.
      * subst n. congruence.
Qed.

(** after a successful reset every proxy is enabled and every chain is empty in both directions *)
Theorem reset_cleans e s resp s' :
  reset_all e s s = (resp, s') -> status resp = status_no_content ->
  forall n p, In n (map p_name s) -> find_proxy s' n = Some p -> clean p.
Proof.
  intros H Hst. pose proof (reset_all_clean e s s resp s' [] H Hst) as Hc.
  simpl in Hc. apply Hc. intros n p [].
Qed.

(** finding F10: "same socket address" and the coded comparison differ for the :port spelling
    (the bound listener prints [::]:port, the resolved request prints :port) - a repeat of the
    same populate body replaces the proxy and its toxics are gone *)
Definition f10_env : env :=
  [(":7000", Some (mkAddr 7000 ":7000" "[::]:7000")); ("[::]:7000", Some (mkAddr 7000 "[::]:7000" "[::]:7000"))]%string.
Definition f10_body : body :=
  BJson (JArr [JObj [("name", JStr "a"); ("listen", JStr ":7000"); ("upstream", JStr "u:1")]])%string.

Theorem populate_port_spelling_refuted :
  let '(_, s1) := h_populate f10_env [] f10_body in
  let '(_, s2) := h_toxic_create s1 "a" (BJson (JObj [("type", JStr "latency")]))%string in
  let '(_, s3) := h_populate f10_env s2 f10_body in
  (exists p, find_proxy s2 "a" = Some p /\ length (p_down p) = 1%nat) /\
  (exists p, find_proxy s3 "a" = Some p /\ p_down p = []).
Proof. vm_compute. split; eexists; split; reflexivity. Qed.

(** The registry invariant of the API model (C05): over EVERY request sequence, proxies are unique
    by name - whatever the requests are (valid, malformed, conflicting, populate, reset, toxics). *)
From Coq Require Import String.
From TP Require Import Model.Prelude Extracted Model.Json Model.Api.
From Coq Require Import ZifyBool.

Definition names (s : server) : list string := map p_name s.
Definition uniq (s : server) : Prop := NoDup (names s).

Lemma names_replace s p : names (replace_proxy s p) = names s.
Proof.
  induction s as [|q s IH]; [reflexivity|]. cbn [replace_proxy].
  destruct (String.eqb (p_name q) (p_name p)) eqn:E.
  - apply String.eqb_eq in E. unfold names. cbn [map]. now rewrite E.
  - unfold names in *. cbn [map]. now rewrite IH.
Qed.

Lemma names_remove_incl s n x : In x (names (remove_proxy s n)) -> In x (names s).
Proof.
  induction s as [|q s IH]; [auto|]. cbn [remove_proxy].
  destruct (String.eqb (p_name q) n); unfold names in *; cbn [map]; intros H.
  - right. exact H.
  - destruct H as [H|H]; [left; exact H|right; apply IH; exact H].
Qed.

Lemma uniq_remove s n : uniq s -> uniq (remove_proxy s n).
Proof.
  unfold uniq. induction s as [|q s IH]; [auto|]. cbn [remove_proxy]. intros H.
  unfold names in *. cbn [map] in H. inversion H as [|? ? Hni Hnd]; subst.
  destruct (String.eqb (p_name q) n); [exact Hnd|].
  cbn [map]. constructor; [|apply IH; exact Hnd].
  intros Hin. apply Hni. eapply names_remove_incl. exact Hin.
Qed.

Lemma find_none_notin s n : find_proxy s n = None -> ~ In n (names s).
Proof.
  induction s as [|q s IH]; [auto|]. cbn [find_proxy]. destruct (String.eqb (p_name q) n) eqn:E; [discriminate|].
  intros H [Hq|Hin]; [|exact (IH H Hin)].
  apply String.eqb_neq in E. contradiction.
Qed.

Lemma nodup_snoc {A} (l : list A) x : NoDup l -> ~ In x l -> NoDup (l ++ [x]).
Proof.
  induction l as [|y l IH]; intros Hn Hx; cbn [app]; [constructor; [auto|constructor]|].
  inversion Hn as [|? ? Hy Hl]; subst. constructor.
  - intros Hin. apply in_app_or in Hin as [Hin|[Hin|[]]]; [exact (Hy Hin)|]. subst. apply Hx. left. reflexivity.
  - apply IH; [exact Hl|]. intros Hin. apply Hx. right. exact Hin.
Qed.

Lemma uniq_app_new s p : uniq s -> find_proxy s (p_name p) = None -> uniq (s ++ [p])%list.
Proof.
  unfold uniq, names. intros Hs Hf. rewrite map_app. cbn [map].
  apply nodup_snoc; [exact Hs|]. exact (find_none_notin s _ Hf).
Qed.

Lemma start_name e s p p' : start_proxy e s p = Some p' -> p_name p' = p_name p.
Proof.
  unfold start_proxy. destruct (lookup_env e (p_listen p)) as [a|]; [|discriminate].
  destruct (port_busy e s (p_name p) (a_port a)); [discriminate|]. intros H. inversion H. reflexivity.
Qed.

Lemma uniq_replace s p : uniq s -> uniq (replace_proxy s p).
Proof. unfold uniq. now rewrite names_replace. Qed.

Ltac destr_start p' Hs := match goal with |- context [start_proxy ?e ?s ?q] => destruct (start_proxy e s q) as [p'|] eqn:Hs end.

(* ---- handlers *)
Lemma create_uniq e s b : uniq s -> uniq (snd (h_proxy_create e s b)).
Proof.
  intros Hu. unfold h_proxy_create. destruct b as [| |j]; try exact Hu.
  destruct (dec_proxy _ j) as [inp bad]. destruct bad; [exact Hu|].
  destruct (String.eqb (pi_name inp) ""); [exact Hu|]. destruct (String.eqb (pi_upstream inp) ""); [exact Hu|].
  destruct (find_proxy s (pi_name inp)) eqn:Hf; [exact Hu|].
  destruct (match pi_enabled inp with Some b0 => b0 | None => create_enabled_default end).
  - destr_start p' Hs; [|exact Hu]. cbn [snd].
    apply uniq_app_new; [exact Hu|]. rewrite (start_name _ _ _ _ Hs). exact Hf.
  - cbn [snd]. apply uniq_app_new; [exact Hu|exact Hf].
Qed.

Lemma update_uniq e s n b : uniq s -> uniq (snd (h_proxy_update e s n b)).
Proof.
  intros Hu. unfold h_proxy_update. destruct (find_proxy s n) as [p|]; [|exact Hu].
  destruct b as [| |j]; try exact Hu. destruct (dec_proxy _ j) as [inp bad]. destruct bad; [exact Hu|].
  destruct (lookup_env e (pi_listen inp)) as [a|]; [|exact Hu].
  match goal with |- context [replace_proxy s ?q] => set (p1 := q) end. set (s1 := replace_proxy s p1).
  assert (H1 : uniq s1) by (apply uniq_replace; exact Hu).
  match goal with |- context [Bool.eqb ?w (p_enabled p1)] => destruct (Bool.eqb w (p_enabled p1)); [exact H1|]; destruct w end.
  - destr_start p' Hs; [apply uniq_replace|]; exact H1.
  - apply uniq_replace; exact H1.
Qed.

Lemma delete_uniq s n : uniq s -> uniq (snd (h_proxy_delete s n)).
Proof. intros Hu. unfold h_proxy_delete. destruct (find_proxy s n); [apply uniq_remove|]; exact Hu. Qed.

Lemma populate_apply_uniq e : forall items s done, uniq s -> uniq (snd (populate_apply e s items done)).
Proof.
  induction items as [|i r IH]; intros s done Hu; cbn [populate_apply]; [exact Hu|].
  destruct (find_proxy s (pi_name i)) as [old|] eqn:Hf.
  - destruct (lookup_env e (pi_listen i)) as [a|]; [|exact Hu].
    destruct (negb (_ || _)); [apply IH; exact Hu|].
    assert (H1 : uniq (replace_proxy s (stop_proxy old))) by (apply uniq_replace; exact Hu).
    destruct (match pi_enabled i with Some b => b | None => true end).
    + destr_start p' Hs; [|exact H1]. apply IH. apply uniq_replace. exact H1.
    + apply IH. apply uniq_replace. exact H1.
  - destruct (match pi_enabled i with Some b => b | None => true end).
    + destr_start p' Hs; [|exact Hu]. apply IH.
      apply uniq_app_new; [exact Hu|]. rewrite (start_name _ _ _ _ Hs). exact Hf.
    + apply IH. apply uniq_app_new; [exact Hu|exact Hf].
Qed.

Lemma populate_uniq e s b : uniq s -> uniq (snd (h_populate e s b)).
Proof.
  intros Hu. unfold h_populate. destruct b as [| |j]; try exact Hu. destruct j; try exact Hu.
  destruct (dec_populate _) as [ins bad]. destruct bad; [exact Hu|].
  destruct (negb (populate_valid ins)); [exact Hu|]. apply populate_apply_uniq. exact Hu.
Qed.

Lemma reset_uniq e : forall todo s, uniq s -> uniq (snd (reset_all e s todo)).
Proof.
  induction todo as [|p0 r IH]; intros s Hu; cbn [reset_all]; [exact Hu|].
  destruct (find_proxy s (p_name p0)) as [p|]; [|apply IH; exact Hu].
  destruct (p_enabled p); [apply IH; apply uniq_replace; exact Hu|].
  destr_start p' Hs; [apply IH; apply uniq_replace|]; exact Hu.
Qed.

Lemma toxic_create_uniq s n b : uniq s -> uniq (snd (h_toxic_create s n b)).
Proof.
  intros Hu. unfold h_toxic_create. destruct (find_proxy s n) as [p|]; [|exact Hu].
  destruct b as [| |j]; try exact Hu. destruct (dec_toxic _ j) as [ti bad]. destruct bad; [exact Hu|].
  destruct (parse_direction _) as [down|]; [|exact Hu]. destruct (lookup_fields _ _); [|exact Hu].
  destruct (find_toxic _ _); [exact Hu|]. destruct (dec_update _ _ _ j) as [[a t0] bad2].
  destruct bad2; [exact Hu|]. apply uniq_replace. exact Hu.
Qed.

Lemma toxic_update_uniq s n t b : uniq s -> uniq (snd (h_toxic_update s n t b)).
Proof.
  intros Hu. unfold h_toxic_update. destruct (find_proxy s n) as [p|]; [|exact Hu].
  destruct (find_toxic _ _) as [tx|]; [|exact Hu]. destruct b as [| |j]; try exact Hu.
  destruct (dec_update _ _ _ j) as [[a tox] bad]. destruct bad.
  - destruct update_in_place; [apply uniq_replace|]; exact Hu.
  - apply uniq_replace. exact Hu.
Qed.

Lemma toxic_delete_uniq s n t : uniq s -> uniq (snd (h_toxic_delete s n t)).
Proof.
  intros Hu. unfold h_toxic_delete. destruct (find_proxy s n) as [p|]; [|exact Hu].
  destruct (find_toxic _ _); [apply uniq_replace|]; exact Hu.
Qed.

Theorem step_uniq e s r : uniq s -> uniq (snd (api_step e s r)).
Proof.
  intros Hu. unfold api_step. destruct (route routes (r_meth r) (r_path r) false) as [[h|] seen].
  - destruct (r_browser r); [exact Hu|].
    repeat match goal with |- context [if String.eqb h ?x then _ else _] => destruct (String.eqb h x) end;
      try exact Hu.
    + apply create_uniq; exact Hu.
    + apply populate_uniq; exact Hu.
    + apply reset_uniq; exact Hu.
    + unfold h_proxy_show. destruct (find_proxy _ _); exact Hu.
    + apply update_uniq; exact Hu.
    + apply delete_uniq; exact Hu.
    + unfold h_toxic_index. destruct (find_proxy _ _); exact Hu.
    + apply toxic_create_uniq; exact Hu.
    + unfold h_toxic_show. destruct (find_proxy _ _); [destruct (find_toxic _ _)|]; exact Hu.
    + apply toxic_update_uniq; exact Hu.
    + apply toxic_delete_uniq; exact Hu.
  - destruct seen; exact Hu.
Qed.

Theorem run_uniq e : forall rs s, uniq s -> uniq (snd (api_run e s rs)).
Proof.
  induction rs as [|r rs IH]; intros s Hu; cbn [api_run]; [exact Hu|].
  pose proof (step_uniq e s r Hu) as H1. destruct (api_step e s r) as [resp s1]. cbn [snd] in H1.
  specialize (IH s1 H1). destruct (api_run e s1 rs) as [resps s2]. exact IH.
Qed.

Corollary reachable_uniq e rs : uniq (snd (api_run e [] rs)).
Proof. apply run_uniq. constructor. Qed.

(* ================================================================== toxics unique by name within a proxy *)
Definition tnames (l : list toxic_rec) : list string := map t_name l.
Definition tuniq (p : proxy_rec) : Prop := NoDup (tnames (all_toxics p)).
Definition all_tuniq (s : server) : Prop := Forall tuniq s.

Lemma tnames_replace l t : tnames (replace_toxic l t) = tnames l.
Proof.
  induction l as [|x l IH]; [reflexivity|]. cbn [replace_toxic].
  destruct (String.eqb (t_name x) (t_name t)) eqn:E; unfold tnames in *; cbn [map].
  - apply String.eqb_eq in E. now rewrite E.
  - now rewrite IH.
Qed.

Lemma tnames_remove_incl l n x : In x (tnames (remove_toxic l n)) -> In x (tnames l).
Proof.
  induction l as [|y l IH]; [auto|]. cbn [remove_toxic].
  destruct (String.eqb (t_name y) n); unfold tnames in *; cbn [map]; intros H.
  - right. exact H.
  - destruct H as [H|H]; [left; exact H|right; apply IH; exact H].
Qed.

Lemma nodup_remove_toxic l n : NoDup (tnames l) -> NoDup (tnames (remove_toxic l n)).
Proof.
  induction l as [|y l IH]; [auto|]. cbn [remove_toxic]. unfold tnames in *. cbn [map]. intros H.
  inversion H as [|? ? Hni Hnd]; subst. destruct (String.eqb (t_name y) n); [exact Hnd|].
  cbn [map]. constructor; [|apply IH; exact Hnd]. intros Hin. apply Hni. eapply tnames_remove_incl. exact Hin.
Qed.

Lemma find_toxic_none_notin l n : find_toxic l n = None -> ~ In n (tnames l).
Proof.
  induction l as [|y l IH]; [auto|]. cbn [find_toxic]. destruct (String.eqb (t_name y) n) eqn:E; [discriminate|].
  intros H [Hq|Hin]; [|exact (IH H Hin)]. apply String.eqb_neq in E. contradiction.
Qed.

Lemma nodup_app_parts {A} (a b : list A) : NoDup (a ++ b) -> NoDup a /\ NoDup b /\ (forall x, In x a -> ~ In x b).
Proof.
  induction a as [|x a IH]; cbn [app]; intros H; [repeat split; [constructor|exact H|intros x []]|].
  inversion H as [|? ? Hx Hab]; subst. destruct (IH Hab) as (Ha & Hb & Hd). repeat split.
  - constructor; [|exact Ha]. intros Hin. apply Hx. apply in_or_app. left. exact Hin.
  - exact Hb.
  - intros y [->|Hy]; [|apply Hd; exact Hy]. intros Hin. apply Hx. apply in_or_app. right. exact Hin.
Qed.

Lemma nodup_app_build {A} (a b : list A) : NoDup a -> NoDup b -> (forall x, In x a -> ~ In x b) -> NoDup (a ++ b).
Proof.
  induction a as [|x a IH]; cbn [app]; intros Ha Hb Hd; [exact Hb|].
  inversion Ha as [|? ? Hx Ha']; subst. constructor.
  - intros Hin. apply in_app_or in Hin as [Hin|Hin]; [exact (Hx Hin)|]. exact (Hd x (or_introl eq_refl) Hin).
  - apply IH; [exact Ha'|exact Hb|]. intros y Hy. apply Hd. right. exact Hy.
Qed.

(** a proxy whose two chains are rewritten by name-preserving / name-removing / fresh-name-adding operations *)
Lemma tuniq_build n l u en up dn up' dn' :
  NoDup (tnames (up ++ dn)) ->
  NoDup (tnames up') -> NoDup (tnames dn') ->
  (forall x, In x (tnames up') -> ~ In x (tnames dn')) ->
  tuniq (mkProxy n l u en up' dn').
Proof.
  intros _ Hu Hd Hx. unfold tuniq, all_toxics, tnames in *. cbn [p_up p_down]. rewrite map_app.
  apply nodup_app_build; assumption.
Qed.

Lemma all_tuniq_replace s p : all_tuniq s -> tuniq p -> all_tuniq (replace_proxy s p).
Proof.
  unfold all_tuniq. induction s as [|q s IH]; intros Hs Hp; [constructor|]. cbn [replace_proxy].
  inversion Hs; subst. destruct (String.eqb (p_name q) (p_name p)); constructor; auto.
Qed.

Lemma all_tuniq_remove s n : all_tuniq s -> all_tuniq (remove_proxy s n).
Proof.
  unfold all_tuniq. induction s as [|q s IH]; intros Hs; [constructor|]. cbn [remove_proxy]. inversion Hs; subst.
  destruct (String.eqb (p_name q) n); [assumption|constructor; auto].
Qed.

Lemma all_tuniq_snoc s p : all_tuniq s -> tuniq p -> all_tuniq (s ++ [p])%list.
Proof. unfold all_tuniq. intros Hs Hp. apply Forall_app. split; [exact Hs|constructor; [exact Hp|constructor]]. Qed.

Lemma find_tuniq s n p : all_tuniq s -> find_proxy s n = Some p -> tuniq p.
Proof.
  unfold all_tuniq. induction s as [|q s IH]; intros Hs Hf; [discriminate|]. cbn [find_proxy] in Hf. inversion Hs; subst.
  destruct (String.eqb (p_name q) n); [inversion Hf; subst; assumption|auto].
Qed.

Lemma tuniq_same_toxics p q : p_up q = p_up p -> p_down q = p_down p -> tuniq p -> tuniq q.
Proof. unfold tuniq, all_toxics. intros -> ->. auto. Qed.

Lemma tuniq_empty n l u en : tuniq (mkProxy n l u en [] []).
Proof. unfold tuniq, all_toxics. cbn. constructor. Qed.

Lemma start_toxics e s p p' : start_proxy e s p = Some p' -> p_up p' = p_up p /\ p_down p' = p_down p.
Proof.
  unfold start_proxy. destruct (lookup_env e (p_listen p)) as [a|]; [|discriminate].
  destruct (port_busy e s (p_name p) (a_port a)); [discriminate|]. intros H. inversion H. auto.
Qed.

Lemma start_tuniq e s p p' : start_proxy e s p = Some p' -> tuniq p -> tuniq p'.
Proof. intros H. destruct (start_toxics _ _ _ _ H) as [H1 H2]. apply tuniq_same_toxics; assumption. Qed.

Lemma stop_tuniq p : tuniq p -> tuniq (stop_proxy p).
Proof. apply tuniq_same_toxics; reflexivity. Qed.

Lemma tnames_app a b : tnames (a ++ b) = (tnames a ++ tnames b)%list.
Proof. unfold tnames. apply map_app. Qed.

Lemma tuniq_add n l u en up dn t (down : bool) :
  NoDup (tnames (up ++ dn)) -> ~ In (t_name t) (tnames (up ++ dn)) ->
  tuniq (if down then mkProxy n l u en up (dn ++ [t])%list else mkProxy n l u en (up ++ [t])%list dn).
Proof.
  intros Hn Hx. rewrite tnames_app in Hn, Hx. destruct (nodup_app_parts _ _ Hn) as (Hu & Hd & Hdis).
  assert (Hxu : ~ In (t_name t) (tnames up)) by (intros H; apply Hx; apply in_or_app; left; exact H).
  assert (Hxd : ~ In (t_name t) (tnames dn)) by (intros H; apply Hx; apply in_or_app; right; exact H).
  destruct down; unfold tuniq, all_toxics; cbn [p_up p_down]; rewrite !tnames_app; cbn [tnames map].
  - apply nodup_app_build; [exact Hu|apply nodup_snoc; assumption|].
    intros x Hxin Hin. apply in_app_or in Hin as [Hin|[Hin|[]]]; [exact (Hdis x Hxin Hin)|]. subst. exact (Hxu Hxin).
  - apply nodup_app_build; [apply nodup_snoc; assumption|exact Hd|].
    intros x Hxin Hin. apply in_app_or in Hxin as [Hxin|[Hxin|[]]]; [exact (Hdis x Hxin Hin)|]. subst. exact (Hxd Hin).
Qed.

Lemma tuniq_put p t : tuniq p -> tuniq (put_toxic p t).
Proof.
  unfold tuniq, put_toxic, all_toxics. cbn [p_up p_down]. rewrite !tnames_app.
  destruct (t_down t); rewrite ?tnames_replace; auto.
Qed.

Lemma tuniq_del n l u en up dn (down : bool) tn :
  NoDup (tnames (up ++ dn)) ->
  tuniq (mkProxy n l u en (if down then up else remove_toxic up tn) (if down then remove_toxic dn tn else dn)).
Proof.
  intros Hn. rewrite tnames_app in Hn. destruct (nodup_app_parts _ _ Hn) as (Hu & Hd & Hdis).
  unfold tuniq, all_toxics. cbn [p_up p_down]. rewrite tnames_app. destruct down.
  - apply nodup_app_build; [exact Hu|apply nodup_remove_toxic; exact Hd|].
    intros x Hx Hin. apply (Hdis x Hx). eapply tnames_remove_incl. exact Hin.
  - apply nodup_app_build; [apply nodup_remove_toxic; exact Hu|exact Hd|].
    intros x Hx Hin. apply (Hdis x); [eapply tnames_remove_incl; exact Hx|exact Hin].
Qed.

(* ---- handlers *)
Lemma create_tuniq e s b : all_tuniq s -> all_tuniq (snd (h_proxy_create e s b)).
Proof.
  intros Hu. unfold h_proxy_create. destruct b as [| |j]; try exact Hu.
  destruct (dec_proxy _ j) as [inp bad]. destruct bad; [exact Hu|].
  destruct (String.eqb (pi_name inp) ""); [exact Hu|]. destruct (String.eqb (pi_upstream inp) ""); [exact Hu|].
  destruct (find_proxy s (pi_name inp)); [exact Hu|].
  destruct (match pi_enabled inp with Some b0 => b0 | None => create_enabled_default end).
  - destr_start p' Hs; [|exact Hu]. cbn [snd]. apply all_tuniq_snoc; [exact Hu|].
    eapply start_tuniq; [exact Hs|apply tuniq_empty].
  - cbn [snd]. apply all_tuniq_snoc; [exact Hu|apply tuniq_empty].
Qed.

Lemma update_tuniq e s n b : all_tuniq s -> all_tuniq (snd (h_proxy_update e s n b)).
Proof.
  intros Hu. unfold h_proxy_update. destruct (find_proxy s n) as [p|] eqn:Hf; [|exact Hu].
  pose proof (find_tuniq _ _ _ Hu Hf) as Hp.
  destruct b as [| |j]; try exact Hu. destruct (dec_proxy _ j) as [inp bad]. destruct bad; [exact Hu|].
  destruct (lookup_env e (pi_listen inp)) as [a|]; [|exact Hu].
  match goal with |- context [replace_proxy s ?q] => set (p1 := q) end.
  assert (Hp1 : tuniq p1) by (unfold p1; match goal with |- context [if ?c then _ else _] => destruct c end; [apply (tuniq_same_toxics p); auto|exact Hp]).
  set (s1 := replace_proxy s p1). assert (H1 : all_tuniq s1) by (apply all_tuniq_replace; assumption).
  match goal with |- context [Bool.eqb ?w (p_enabled p1)] => destruct (Bool.eqb w (p_enabled p1)); [exact H1|]; destruct w end.
  - destr_start p' Hs; [|exact H1]. apply all_tuniq_replace; [exact H1|]. eapply start_tuniq; eassumption.
  - apply all_tuniq_replace; [exact H1|apply stop_tuniq; exact Hp1].
Qed.

Lemma delete_tuniq s n : all_tuniq s -> all_tuniq (snd (h_proxy_delete s n)).
Proof. intros Hu. unfold h_proxy_delete. destruct (find_proxy s n); [apply all_tuniq_remove|]; exact Hu. Qed.

Lemma populate_apply_tuniq e : forall items s done, all_tuniq s -> all_tuniq (snd (populate_apply e s items done)).
Proof.
  induction items as [|i r IH]; intros s done Hu; cbn [populate_apply]; [exact Hu|].
  destruct (find_proxy s (pi_name i)) as [old|] eqn:Hf.
  - pose proof (find_tuniq _ _ _ Hu Hf) as Ho.
    destruct (lookup_env e (pi_listen i)) as [a|]; [|exact Hu].
    destruct (negb (_ || _)); [apply IH; exact Hu|].
    assert (H1 : all_tuniq (replace_proxy s (stop_proxy old))) by (apply all_tuniq_replace; [exact Hu|apply stop_tuniq; exact Ho]).
    destruct (match pi_enabled i with Some b => b | None => true end).
    + destr_start p' Hs; [|exact H1]. apply IH. apply all_tuniq_replace; [exact H1|].
      eapply start_tuniq; [exact Hs|apply tuniq_empty].
    + apply IH. apply all_tuniq_replace; [exact H1|apply tuniq_empty].
  - destruct (match pi_enabled i with Some b => b | None => true end).
    + destr_start p' Hs; [|exact Hu]. apply IH. apply all_tuniq_snoc; [exact Hu|].
      eapply start_tuniq; [exact Hs|apply tuniq_empty].
    + apply IH. apply all_tuniq_snoc; [exact Hu|apply tuniq_empty].
Qed.

Lemma populate_tuniq e s b : all_tuniq s -> all_tuniq (snd (h_populate e s b)).
Proof.
  intros Hu. unfold h_populate. destruct b as [| |j]; try exact Hu. destruct j; try exact Hu.
  destruct (dec_populate _) as [ins bad]. destruct bad; [exact Hu|].
  destruct (negb (populate_valid ins)); [exact Hu|]. apply populate_apply_tuniq. exact Hu.
Qed.

Lemma reset_tuniq e : forall todo s, all_tuniq s -> all_tuniq (snd (reset_all e s todo)).
Proof.
  induction todo as [|p0 r IH]; intros s Hu; cbn [reset_all]; [exact Hu|].
  destruct (find_proxy s (p_name p0)) as [p|]; [|apply IH; exact Hu].
  destruct (p_enabled p); [apply IH; apply all_tuniq_replace; [exact Hu|apply tuniq_empty]|].
  destr_start p' Hs; [apply IH; apply all_tuniq_replace; [exact Hu|apply tuniq_empty]|exact Hu].
Qed.

Lemma toxic_create_tuniq s n b : all_tuniq s -> all_tuniq (snd (h_toxic_create s n b)).
Proof.
  intros Hu. unfold h_toxic_create. destruct (find_proxy s n) as [p|] eqn:Hf; [|exact Hu].
  pose proof (find_tuniq _ _ _ Hu Hf) as Hp.
  destruct b as [| |j]; try exact Hu. destruct (dec_toxic _ j) as [ti bad]. destruct bad; [exact Hu|].
  destruct (parse_direction _) as [down|]; [|exact Hu]. destruct (lookup_fields _ _); [|exact Hu].
  destruct (find_toxic _ _) eqn:Hft; [exact Hu|]. destruct (dec_update _ _ _ j) as [[a t0] bad2].
  destruct bad2; [exact Hu|]. cbn [snd]. apply all_tuniq_replace; [exact Hu|].
  match goal with |- tuniq (if down then mkProxy _ _ _ _ _ (_ ++ [?t])%list else _) => apply (tuniq_add _ _ _ _ (p_up p) (p_down p) t down) end.
  - exact Hp.
  - cbn [t_name]. apply find_toxic_none_notin. exact Hft.
Qed.

Lemma toxic_update_tuniq s n t b : all_tuniq s -> all_tuniq (snd (h_toxic_update s n t b)).
Proof.
  intros Hu. unfold h_toxic_update. destruct (find_proxy s n) as [p|] eqn:Hf; [|exact Hu].
  pose proof (find_tuniq _ _ _ Hu Hf) as Hp.
  destruct (find_toxic _ _) as [tx|]; [|exact Hu]. destruct b as [| |j]; try exact Hu.
  destruct (dec_update _ _ _ j) as [[a tox] bad]. destruct bad.
  - destruct update_in_place; [apply all_tuniq_replace; [exact Hu|apply tuniq_put; exact Hp]|exact Hu].
  - apply all_tuniq_replace; [exact Hu|apply tuniq_put; exact Hp].
Qed.

Lemma toxic_delete_tuniq s n t : all_tuniq s -> all_tuniq (snd (h_toxic_delete s n t)).
Proof.
  intros Hu. unfold h_toxic_delete. destruct (find_proxy s n) as [p|] eqn:Hf; [|exact Hu].
  pose proof (find_tuniq _ _ _ Hu Hf) as Hp.
  destruct (find_toxic _ _) as [tx|]; [|exact Hu]. cbn [snd]. apply all_tuniq_replace; [exact Hu|].
  apply tuniq_del. exact Hp.
Qed.

Theorem step_tuniq e s r : all_tuniq s -> all_tuniq (snd (api_step e s r)).
Proof.
  intros Hu. unfold api_step. destruct (route routes (r_meth r) (r_path r) false) as [[h|] seen].
  - destruct (r_browser r); [exact Hu|].
    repeat match goal with |- context [if String.eqb h ?x then _ else _] => destruct (String.eqb h x) end;
      try exact Hu.
    + apply create_tuniq; exact Hu.
    + apply populate_tuniq; exact Hu.
    + apply reset_tuniq; exact Hu.
    + unfold h_proxy_show. destruct (find_proxy _ _); exact Hu.
    + apply update_tuniq; exact Hu.
    + apply delete_tuniq; exact Hu.
    + unfold h_toxic_index. destruct (find_proxy _ _); exact Hu.
    + apply toxic_create_tuniq; exact Hu.
    + unfold h_toxic_show. destruct (find_proxy _ _); [destruct (find_toxic _ _)|]; exact Hu.
    + apply toxic_update_tuniq; exact Hu.
    + apply toxic_delete_tuniq; exact Hu.
  - destruct seen; exact Hu.
Qed.

Theorem run_tuniq e : forall rs s, all_tuniq s -> all_tuniq (snd (api_run e s rs)).
Proof.
  induction rs as [|r rs IH]; intros s Hu; cbn [api_run]; [exact Hu|].
  pose proof (step_tuniq e s r Hu) as H1. destruct (api_step e s r) as [resp s1]. cbn [snd] in H1.
  specialize (IH s1 H1). destruct (api_run e s1 rs) as [resps s2]. exact IH.
Qed.

(** every state reachable from the empty server by any request sequence *)
Theorem reachable_registry e rs :
  let s := snd (api_run e [] rs) in uniq s /\ all_tuniq s.
Proof. split; [apply run_uniq; constructor|apply run_tuniq; constructor]. Qed.
